// Package rh is shared by the C08 and C07 harnesses: a construction recipe (Spec) for real core.BuildTarget values, the
// read-back of the constructed target into the attribute record of Model/C08.v (T), the printer of T as a Coq term, and
// an interpreter of the emit program that gotrans regenerated from ruleHash (Gen/RuleHashProg.json).
package rh

import (
	"crypto/sha1"
	"encoding/json"
	"fmt"
	"io"
	"os"
	"path/filepath"
	"sort"
	"strings"

	logging "gopkg.in/op/go-logging.v1"

	"verifharness/lib"

	"github.com/thought-machine/please/src/build"
	"github.com/thought-machine/please/src/core"
)

// ------------------------------------------------------------------------------------------- data

type Label struct {
	Sub  string `json:"sub,omitempty"`
	Pkg  string `json:"pkg"`
	Name string `json:"name"`
}

func (l Label) Core() core.BuildLabel {
	return core.BuildLabel{PackageName: l.Pkg, Name: l.Name, Subrepo: l.Sub}
}
func FromCore(l core.BuildLabel) Label {
	return Label{Sub: l.Subrepo, Pkg: l.PackageName, Name: l.Name}
}

type Group struct {
	Key  string   `json:"k"`
	Vals []string `json:"v"`
}
type LGroup struct {
	Key  string  `json:"k"`
	Vals []Label `json:"v"`
}
type KV struct {
	K string `json:"k"`
	V string `json:"v"`
}

// Input is a BuildInput in a recipe. Kind: "file", "label", "ann" (annotated output label), "sys" (absolute system file),
// "path" (tool looked up on PATH; tools only), "url".
type Input struct {
	Kind string `json:"kind"`
	File string `json:"file,omitempty"`
	L    Label  `json:"l,omitempty"`
	Ann  string `json:"ann,omitempty"`
}

func (i Input) Core() core.BuildInput {
	switch i.Kind {
	case "file":
		return core.FileLabel{File: i.File, Package: "pkg"}
	case "label":
		return i.L.Core()
	case "ann":
		return core.AnnotatedOutputLabel{BuildLabel: i.L.Core(), Annotation: i.Ann}
	case "sys":
		return core.SystemFileLabel{Path: i.File}
	case "path":
		return core.SystemPathLabel{Name: i.File, Path: []string{"/usr/bin", "/bin"}}
	case "url":
		return core.URLLabel(i.File)
	}
	panic("input kind " + i.Kind)
}

type IGroup struct {
	Key  string  `json:"k"`
	Vals []Input `json:"v"`
}

// Spec is a recipe: the calls made on a fresh core.BuildTarget. Lists that stand for Go maps are applied in the order given.
type Spec struct {
	Label            Label    `json:"label"`
	Deps             []Label  `json:"deps,omitempty"`
	DepsFirst        bool     `json:"deps_first,omitempty"` // AddDependency calls before (true) or after the sources/tools/data
	Visibility       []Label  `json:"visibility,omitempty"`
	Hashes           []string `json:"hashes,omitempty"`
	Srcs             []Input  `json:"srcs,omitempty"`
	NamedSrcs        []IGroup `json:"named_srcs,omitempty"`
	Outs             []string `json:"outs,omitempty"`
	NamedOuts        []Group  `json:"named_outs,omitempty"`
	Licences         []string `json:"licences,omitempty"`
	OptionalOuts     []string `json:"optional_outs,omitempty"`
	Labels           []string `json:"labels,omitempty"`
	Secrets          []string `json:"secrets,omitempty"`
	NamedSecrets     []Group  `json:"named_secrets,omitempty"`
	Binary           bool     `json:"binary,omitempty"`
	Subrepo          bool     `json:"subrepo,omitempty"`
	Sandbox          bool     `json:"sandbox,omitempty"`
	Command          string   `json:"command,omitempty"`
	Commands         []KV     `json:"commands,omitempty"`
	HasCommands      bool     `json:"has_commands,omitempty"`
	Config           string   `json:"config,omitempty"`
	FallbackConfig   string   `json:"fallback_config,omitempty"`
	NeedsTransitive  bool     `json:"needs_transitive,omitempty"`
	OutputIsComplete bool     `json:"output_is_complete,omitempty"`
	Stamp            bool     `json:"stamp,omitempty"`
	Filegroup        bool     `json:"filegroup,omitempty"`
	TextFile         bool     `json:"textfile,omitempty"`
	RemoteFile       bool     `json:"remotefile,omitempty"`
	Local            bool     `json:"local,omitempty"`
	SrcListFiles     bool     `json:"src_list_files,omitempty"`
	ExitOnError      bool     `json:"exit_on_error,omitempty"`
	Requires         []string `json:"requires,omitempty"`
	Provides         []LGroup `json:"provides,omitempty"`
	PreBuild         bool     `json:"pre_build,omitempty"`
	PostBuild        bool     `json:"post_build,omitempty"`
	PassEnv          []string `json:"pass_env,omitempty"`
	HasPassEnv       bool     `json:"has_pass_env,omitempty"`
	Environ          []KV     `json:"environ,omitempty"` // values given to the variables of EnvPool (others are unset)
	OutputDirs       []string `json:"output_dirs,omitempty"`
	EntryPoints      []KV     `json:"entry_points,omitempty"`
	Env              []KV     `json:"env,omitempty"`
	FileContent      string   `json:"file_content,omitempty"`
	Data             []Input  `json:"data,omitempty"`
	NamedData        []IGroup `json:"named_data,omitempty"`
	IsTest           bool     `json:"is_test,omitempty"`
	TestOutputs      []string `json:"test_outputs,omitempty"`
	TestSandbox      bool     `json:"test_sandbox,omitempty"`
	TestCommand      string   `json:"test_command,omitempty"`
	TestCommands     []KV     `json:"test_commands,omitempty"`
	HasTestCommands  bool     `json:"has_test_commands,omitempty"`
	TestArgs         string   `json:"test_args,omitempty"`
	Tools            []Input  `json:"tools,omitempty"`
	NamedTools       []IGroup `json:"named_tools,omitempty"`
}

func (sp *Spec) Clone() *Spec {
	data, err := json.Marshal(sp)
	if err != nil {
		panic(err)
	}
	out := new(Spec)
	if err := json.Unmarshal(data, out); err != nil {
		panic(err)
	}
	return out
}

// T mirrors the record `target` of Model/C08.v: the stored state of the real target after construction.
type T struct {
	Label            Label    `json:"label"`
	Deps             []Label  `json:"deps"`
	Visibility       []Label  `json:"visibility"`
	Hashes           []string `json:"hashes"`
	Srcs             []string `json:"srcs"`
	NamedSrcs        []Group  `json:"named_srcs"`
	Outs             []string `json:"outs"`
	NamedOuts        []Group  `json:"named_outs"`
	Licences         []string `json:"licences"`
	OptionalOuts     []string `json:"optional_outs"`
	Labels           []string `json:"labels"`
	Secrets          []string `json:"secrets"`
	NamedSecrets     []Group  `json:"named_secrets"`
	Binary           bool     `json:"binary"`
	Subrepo          bool     `json:"subrepo"`
	Sandbox          bool     `json:"sandbox"`
	Command          string   `json:"command"`
	Commands         []KV     `json:"commands"`
	HasCommands      bool     `json:"has_commands"`
	Config           string   `json:"config"`
	FallbackConfig   string   `json:"fallback_config"`
	NeedsTransitive  bool     `json:"needs_transitive"`
	OutputIsComplete bool     `json:"output_is_complete"`
	Stamp            bool     `json:"stamp"`
	Filegroup        bool     `json:"filegroup"`
	TextFile         bool     `json:"textfile"`
	RemoteFile       bool     `json:"remotefile"`
	Local            bool     `json:"local"`
	SrcListFiles     bool     `json:"src_list_files"`
	ExitOnError      bool     `json:"exit_on_error"`
	Requires         []string `json:"requires"`
	Provides         []LGroup `json:"provides"`
	PreBuild         bool     `json:"pre_build"`
	PostBuild        bool     `json:"post_build"`
	PassEnv          []string `json:"pass_env"`
	HasPassEnv       bool     `json:"has_pass_env"`
	Environ          []KV     `json:"environ"`
	OutputDirs       []string `json:"output_dirs"`
	EntryPoints      []KV     `json:"entry_points"`
	Env              []KV     `json:"env"`
	FileContent      string   `json:"file_content"`
	Data             []string `json:"data"`
	NamedData        []Group  `json:"named_data"`
	IsTest           bool     `json:"is_test"`
	TestOutputs      []string `json:"test_outputs"`
	TestSandbox      bool     `json:"test_sandbox"`
	TestCommand      string   `json:"test_command"`
	TestCommands     []KV     `json:"test_commands"`
	HasTestCommands  bool     `json:"has_test_commands"`
	TestArgs         string   `json:"test_args"`
	Tools            []string `json:"tools"`
	NamedTools       []Group  `json:"named_tools"`
}

// ------------------------------------------------------------------------------------------- construction

type hookFn struct{}

func (hookFn) String() string               { return "<hook>" }
func (hookFn) Call(*core.BuildTarget) error { return nil }

type postFn struct{}

func (postFn) String() string                       { return "<hook>" }
func (postFn) Call(*core.BuildTarget, string) error { return nil }

// EnvPool: the environment variables the harness controls. Every other name a pass_env mentions is read as found.
var EnvPool = []string{"VERIF_A", "VERIF_B", "VERIF_AB", "VERIF_C", "VERIF_"}

var state *core.BuildState

func State() *core.BuildState {
	if state == nil {
		logging.SetBackend(logging.NewLogBackend(io.Discard, "", 0))
		state = core.NewDefaultBuildState()
	}
	return state
}

func strs[X any](xs []X, f func(X) string) []string {
	out := make([]string, len(xs))
	for i, x := range xs {
		out[i] = f(x)
	}
	return out
}

func inputStr(i core.BuildInput) string { return i.String() }

// Live is a real target under construction or mutation, with the bookkeeping the read-back needs (the order in which map
// entries and dependencies were inserted).
type Live struct {
	Sp       *Spec
	T        *core.BuildTarget
	depOrder []Label
	seen     map[Label]bool
}

func (lv *Live) note(i core.BuildInput) {
	if l, ok := i.Label(); ok {
		if k := FromCore(l); !lv.seen[k] {
			lv.seen[k] = true
			lv.depOrder = append(lv.depOrder, k)
		}
	}
}

// Build performs the recipe on a fresh target and reads the stored state back. It also installs the recipe's environment
// and configuration (process-global: hash the target before building the next one).
func Build(sp *Spec) (*core.BuildTarget, *T) {
	lv := Construct(sp)
	return lv.T, lv.ReadBack()
}

// Construct performs the recipe on a fresh target (and installs the recipe's environment and configuration).
func Construct(sp *Spec) *Live {
	st := State()
	st.Config.Build.Config, st.Config.Build.FallbackConfig = sp.Config, sp.FallbackConfig
	for _, n := range EnvPool {
		os.Unsetenv(n)
	}
	for _, kv := range sp.Environ {
		if err := os.Setenv(kv.K, kv.V); err != nil {
			panic(fmt.Sprintf("setenv %q: %v", kv.K, err))
		}
	}

	t := core.NewBuildTarget(sp.Label.Core())
	lv := &Live{Sp: sp, T: t, depOrder: []Label{}, seen: map[Label]bool{}}
	note := lv.note
	addDeps := func() {
		for _, d := range sp.Deps {
			t.AddDependency(d.Core())
			note(d.Core())
		}
	}
	// fields that other adders consult first
	t.IsBinary, t.IsSubrepo, t.Sandbox, t.IsFilegroup = sp.Binary, sp.Subrepo, sp.Sandbox, sp.Filegroup
	if sp.IsTest {
		t.Test = new(core.TestFields)
	}
	if sp.DepsFirst {
		addDeps()
	}
	for _, s := range sp.Srcs {
		in := s.Core()
		before := len(t.Sources)
		t.AddSource(in)
		if len(t.Sources) > before {
			note(in)
		}
	}
	for _, g := range sp.NamedSrcs {
		if len(g.Vals) == 0 {
			if t.NamedSources == nil {
				t.NamedSources = map[string][]core.BuildInput{}
			}
			if _, ok := t.NamedSources[g.Key]; !ok {
				t.NamedSources[g.Key] = nil
			}
		}
		for _, s := range g.Vals {
			in := s.Core()
			before := len(t.NamedSources[g.Key])
			t.AddNamedSource(g.Key, in)
			if len(t.NamedSources[g.Key]) > before {
				note(in)
			}
		}
	}
	for _, s := range sp.Tools {
		t.AddTool(s.Core())
		note(s.Core())
	}
	for _, g := range sp.NamedTools {
		for _, s := range g.Vals {
			t.AddNamedTool(g.Key, s.Core())
			note(s.Core())
		}
	}
	for _, s := range sp.Data {
		t.AddDatum(s.Core())
		note(s.Core())
	}
	for _, g := range sp.NamedData {
		for _, s := range g.Vals {
			t.AddNamedDatum(g.Key, s.Core())
			note(s.Core())
		}
	}
	if !sp.DepsFirst {
		addDeps()
	}
	for _, v := range sp.Visibility {
		t.Visibility = append(t.Visibility, v.Core())
	}
	for _, h := range sp.Hashes {
		t.AddHash(h)
	}
	for _, o := range sp.Outs {
		t.AddOutput(o)
	}
	for _, g := range sp.NamedOuts {
		for _, o := range g.Vals {
			t.AddNamedOutput(g.Key, o)
		}
	}
	for _, l := range sp.Licences {
		t.AddLicence(l)
	}
	for _, o := range sp.OptionalOuts {
		t.AddOptionalOutput(o)
	}
	t.Labels = append(t.Labels, sp.Labels...) // asp: target.Labels is filled from the `labels` argument; AddLabel deduplicates
	for _, s := range sp.Secrets {
		t.AddSecret(s)
	}
	for _, g := range sp.NamedSecrets {
		for _, s := range g.Vals {
			t.AddNamedSecret(g.Key, s)
		}
	}
	t.Command = sp.Command
	if sp.HasCommands {
		t.Commands = map[string]string{}
		for _, kv := range sp.Commands {
			t.Commands[kv.K] = kv.V
		}
	}
	t.NeedsTransitiveDependencies, t.OutputIsComplete, t.Stamp = sp.NeedsTransitive, sp.OutputIsComplete, sp.Stamp
	t.IsTextFile, t.IsRemoteFile, t.Local, t.SrcListFiles, t.ExitOnError = sp.TextFile, sp.RemoteFile, sp.Local, sp.SrcListFiles, sp.ExitOnError
	t.Requires = append(t.Requires, sp.Requires...)
	for _, g := range sp.Provides {
		t.AddProvide(g.Key, strsL(g.Vals))
	}
	if sp.PreBuild {
		t.PreBuildFunction = hookFn{}
	}
	if sp.PostBuild {
		t.PostBuildFunction = postFn{}
	}
	if sp.HasPassEnv {
		pe := append([]string{}, sp.PassEnv...)
		t.PassEnv = &pe
	}
	for _, d := range sp.OutputDirs {
		t.AddOutputDirectory(d)
	}
	if len(sp.EntryPoints) > 0 {
		t.EntryPoints = map[string]string{}
		for _, kv := range sp.EntryPoints {
			t.EntryPoints[kv.K] = kv.V
		}
	}
	if len(sp.Env) > 0 {
		t.Env = map[string]string{}
		for _, kv := range sp.Env {
			t.Env[kv.K] = kv.V
		}
	}
	t.FileContent = sp.FileContent
	if sp.IsTest {
		for _, o := range sp.TestOutputs {
			t.AddTestOutput(o)
		}
		t.Test.Sandbox, t.Test.Command, t.Test.ArgsPlaceholder = sp.TestSandbox, sp.TestCommand, sp.TestArgs
		if sp.HasTestCommands {
			t.Test.Commands = map[string]string{}
			for _, kv := range sp.TestCommands {
				t.Test.Commands[kv.K] = kv.V
			}
		}
	}

	return lv
}

// ReadBack reads the stored state of the real target into the attribute record of Model/C08.v.
func (lv *Live) ReadBack() *T {
	st, sp, t, depOrder, seen := State(), lv.Sp, lv.T, append([]Label{}, lv.depOrder...), lv.seen
	m := &T{Label: FromCore(t.Label), Deps: depOrder, Hashes: append([]string{}, t.Hashes...), Outs: append([]string{}, t.DeclaredOutputs()...), Licences: append([]string{}, t.Licences...),
		OptionalOuts: append([]string{}, t.OptionalOutputs...), Labels: append([]string{}, t.Labels...), Secrets: append([]string{}, t.Secrets...), Binary: t.IsBinary, Subrepo: t.IsSubrepo,
		Sandbox: t.Sandbox, Command: t.Command, HasCommands: t.Commands != nil, Config: st.Config.Build.Config,
		FallbackConfig: st.Config.Build.FallbackConfig, NeedsTransitive: t.NeedsTransitiveDependencies,
		OutputIsComplete: t.OutputIsComplete, Stamp: t.Stamp, Filegroup: t.IsFilegroup, TextFile: t.IsTextFile,
		RemoteFile: t.IsRemoteFile, Local: t.Local, SrcListFiles: t.SrcListFiles, ExitOnError: t.ExitOnError,
		Requires: append([]string{}, t.Requires...), PreBuild: t.PreBuildFunction != nil, PostBuild: t.PostBuildFunction != nil,
		HasPassEnv: t.PassEnv != nil, FileContent: t.FileContent, IsTest: t.Test != nil}
	// check the tracked insertion order of the dependency slice against the accessor
	decl := t.DeclaredDependencies()
	if len(decl) != len(depOrder) {
		panic(fmt.Sprintf("dependency tracking: %v vs %v", decl, depOrder))
	}
	for _, d := range decl {
		if !seen[FromCore(d)] {
			panic(fmt.Sprintf("dependency tracking: %v not tracked", d))
		}
	}
	for _, v := range t.Visibility {
		m.Visibility = append(m.Visibility, FromCore(v))
	}
	m.Srcs = strs(t.Sources, inputStr)
	m.Data = strs(t.Data, inputStr)
	m.Tools = strs(t.Tools, inputStr)
	igroups := func(order []IGroup, real map[string][]core.BuildInput) []Group {
		out, done := []Group{}, map[string]bool{}
		for _, g := range order {
			if vals, ok := real[g.Key]; ok && !done[g.Key] {
				done[g.Key] = true
				out = append(out, Group{g.Key, strs(vals, inputStr)})
			}
		}
		if len(out) != len(real) {
			panic("named group read-back")
		}
		return out
	}
	sgroups := func(order []Group, real map[string][]string) []Group {
		out, done := []Group{}, map[string]bool{}
		for _, g := range order {
			if vals, ok := real[g.Key]; ok && !done[g.Key] {
				done[g.Key] = true
				out = append(out, Group{g.Key, append([]string{}, vals...)})
			}
		}
		if len(out) != len(real) {
			panic("named group read-back")
		}
		return out
	}
	kvs := func(order []KV, real map[string]string) []KV {
		out, done := []KV{}, map[string]bool{}
		for _, kv := range order {
			if v, ok := real[kv.K]; ok && !done[kv.K] {
				done[kv.K] = true
				out = append(out, KV{kv.K, v})
			}
		}
		if len(out) != len(real) {
			panic("map read-back")
		}
		return out
	}
	m.NamedSrcs = igroups(sp.NamedSrcs, t.NamedSources)
	m.NamedData = igroups(sp.NamedData, t.NamedData)
	m.NamedTools = igroups(sp.NamedTools, t.AllNamedTools())
	m.NamedOuts = sgroups(sp.NamedOuts, t.DeclaredNamedOutputs())
	m.NamedSecrets = sgroups(sp.NamedSecrets, t.NamedSecrets)
	m.Commands = kvs(sp.Commands, t.Commands)
	m.EntryPoints = kvs(sp.EntryPoints, t.EntryPoints)
	m.Env = kvs(sp.Env, t.Env)
	{
		done := map[string]bool{}
		for _, g := range sp.Provides {
			if vals, ok := t.Provides[g.Key]; ok && !done[g.Key] {
				done[g.Key] = true
				lg := LGroup{Key: g.Key}
				for _, l := range vals {
					lg.Vals = append(lg.Vals, FromCore(l))
				}
				m.Provides = append(m.Provides, lg)
			}
		}
		if len(m.Provides) != len(t.Provides) {
			panic("provides read-back")
		}
	}
	if t.PassEnv != nil {
		m.PassEnv = append([]string{}, (*t.PassEnv)...)
	}
	names, done := []string{}, map[string]bool{}
	for _, n := range append(append([]string{}, EnvPool...), m.PassEnv...) {
		if !done[n] {
			done[n] = true
			names = append(names, n)
		}
	}
	for _, n := range names {
		if v, ok := os.LookupEnv(n); ok || os.Getenv(n) != "" {
			m.Environ = append(m.Environ, KV{n, v})
		}
	}
	for _, d := range t.OutputDirectories {
		m.OutputDirs = append(m.OutputDirs, string(d))
	}
	if t.Test != nil {
		m.TestOutputs, m.TestSandbox, m.TestCommand, m.TestArgs = t.Test.Outputs, t.Test.Sandbox, t.Test.Command, t.Test.ArgsPlaceholder
		m.HasTestCommands = t.Test.Commands != nil
		m.TestCommands = kvs(sp.TestCommands, t.Test.Commands)
	}
	return m
}

// Mut is one change the build makes to a target after it has been constructed (what a post-build function can do through
// add_out / set_command / add_label / add_dep / add_licence / add_entry_point, and what the outputs found in an output
// directory do). Kind: "out", "named_out", "optional_out", "command", "label", "dep", "entry_point", "licence".
type Mut struct {
	Kind string `json:"kind"`
	K    string `json:"k,omitempty"`
	V    string `json:"v,omitempty"`
	L    Label  `json:"l,omitempty"`
}

// Attr is the attribute of C08's list that the mutation changes.
func (m Mut) Attr() string {
	switch m.Kind {
	case "out":
		return "outs"
	case "named_out":
		return "named_outs"
	case "optional_out":
		return "optional_outs"
	case "label":
		return "labels"
	case "dep":
		return "deps"
	case "entry_point":
		return "entry_points"
	}
	return m.Kind
}

// Apply performs the change on the real target through the same calls the builtins make, and keeps the recipe's bookkeeping
// (insertion orders of map entries) in step. Reports whether the call was made (a change the adders would panic on is skipped).
func (lv *Live) Apply(m Mut) bool {
	t, sp := lv.T, lv.Sp
	switch m.Kind {
	case "out": // add_out(name, out)
		if m.V == "" {
			return false
		}
		t.AddOutput(m.V)
		sp.Outs = append(sp.Outs, m.V)
	case "named_out": // add_out(name, group, out)
		if m.V == "" {
			return false
		}
		t.AddNamedOutput(m.K, m.V)
		for i := range sp.NamedOuts {
			if sp.NamedOuts[i].Key == m.K {
				sp.NamedOuts[i].Vals = append(sp.NamedOuts[i].Vals, m.V)
				return true
			}
		}
		sp.NamedOuts = append(sp.NamedOuts, Group{Key: m.K, Vals: []string{m.V}})
	case "optional_out":
		if m.V == "" {
			return false
		}
		t.AddOptionalOutput(m.V)
		sp.OptionalOuts = append(sp.OptionalOuts, m.V)
	case "command": // set_command(name, cmd) / set_command(name, config, cmd)
		if m.K == "" {
			t.Command = m.V
			sp.Command = m.V
			return true
		}
		if t.Command != "" || m.V == "" {
			return false // AddCommand panics / set_command treats an empty command as the one-argument form
		}
		t.AddCommand(m.K, m.V)
		sp.HasCommands = true
		for i := range sp.Commands {
			if sp.Commands[i].K == m.K {
				sp.Commands[i].V = m.V
				return true
			}
		}
		sp.Commands = append(sp.Commands, KV{m.K, m.V})
	case "label": // add_label
		before := len(t.Labels)
		t.AddLabel(m.V)
		if len(t.Labels) > before {
			sp.Labels = append(sp.Labels, m.V)
		}
	case "dep": // add_dep
		if m.L.Core() == t.Label {
			return false
		}
		t.AddDependency(m.L.Core())
		lv.note(m.L.Core())
		sp.Deps = append(sp.Deps, m.L)
	case "licence":
		t.AddLicence(m.V)
		sp.Licences = append(sp.Licences, m.V)
	case "entry_point": // add_entry_point: panics on a name that is a named output group or an existing entry point
		if _, ok := t.EntryPoints[m.K]; ok || t.IsFilegroup || t.NamedOutputs(m.K) != nil {
			return false
		}
		t.AddEntryPoint(m.K, m.V)
		sp.EntryPoints = append(sp.EntryPoints, KV{m.K, m.V})
	default:
		panic("mutation kind " + m.Kind)
	}
	return true
}

// RuleHash calls the REAL build.RuleHash on the live target and returns a copy of its result.
func (lv *Live) RuleHash(runtime, postBuild bool) []byte {
	return append([]byte{}, build.RuleHash(State(), lv.T, runtime, postBuild)...)
}

// FreshHash is the hash of the attributes as they are now: the unexported ruleHash itself (hook src/build/verif_c08.go), which
// neither reads nor writes the memo target.RuleHash.
func (lv *Live) FreshHash(runtime bool) []byte {
	return append([]byte{}, build.VerifC08RuleHash(State(), lv.T, runtime)...)
}

// CouldModify: can the build change this target? The harness's own reading of what build_step.go does (it runs the post-build
// function if there is one and adds the files found in the output directories if there are any), NOT BuildCouldModifyTarget().
func (lv *Live) CouldModify() bool {
	return lv.T.PostBuildFunction != nil || len(lv.T.OutputDirectories) > 0
}
func (lv *Live) Memoised() bool { return len(lv.T.RuleHash) != 0 }

func strsL(ls []Label) []core.BuildLabel {
	out := make([]core.BuildLabel, len(ls))
	for i, l := range ls {
		out[i] = l.Core()
	}
	return out
}

// Hash builds the recipe and returns the REAL rule hash with the stored state that was hashed.
func Hash(sp *Spec, runtime bool) ([]byte, *T) {
	t, m := Build(sp)
	return build.RuleHash(State(), t, runtime, false), m
}

// ------------------------------------------------------------------------------------------- Coq printer

// Str prints a byte string as printable string-literal segments joined with short numeric segments: Coq's list notation is
// slow on long numeric lists, string literals are not.
func Str(x string) string {
	printable := func(c byte) bool { return c >= 0x20 && c <= 0x7e }
	segs := []string{}
	for i := 0; i < len(x); {
		j := i
		if printable(x[i]) {
			for j < len(x) && printable(x[j]) {
				j++
			}
			segs = append(segs, `s "`+strings.ReplaceAll(x[i:j], `"`, `""`)+`"`)
		} else {
			for j < len(x) && !printable(x[j]) && j-i < 16 {
				j++
			}
			segs = append(segs, lib.NList([]byte(x[i:j])))
		}
		i = j
	}
	switch len(segs) {
	case 0:
		return "[]"
	case 1:
		return "(" + segs[0] + ")"
	}
	return "(" + strings.Join(segs, " ++ ") + ")"
}

func StrList(xs []string) string { return lib.List(strs(xs, Str)) }

func coqLabel(l Label) string {
	return lib.App("Label", Str(l.Sub), Str(l.Pkg), Str(l.Name))
}

// CoqLabel prints a label as a term of Model/C08.v.
func CoqLabel(l Label) string { return coqLabel(l) }

func coqLabels(ls []Label) string {
	return lib.List(strs(ls, coqLabel))
}
func coqGroups(gs []Group) string {
	return lib.List(strs(gs, func(g Group) string { return lib.Pair(Str(g.Key), StrList(g.Vals)) }))
}
func coqLGroups(gs []LGroup) string {
	return lib.List(strs(gs, func(g LGroup) string { return lib.Pair(Str(g.Key), coqLabels(g.Vals)) }))
}
func coqMap(m []KV) string {
	return lib.List(strs(m, func(kv KV) string { return lib.Pair(Str(kv.K), Str(kv.V)) }))
}
func coqOptMap(has bool, m []KV) string { return lib.Opt(has, coqMap(m)) }

// Coq prints the record in the field order of Model/C08.v.
func (t *T) Coq() string {
	b := lib.Bool
	return lib.App("Target", coqLabel(t.Label), coqLabels(t.Deps), coqLabels(t.Visibility), StrList(t.Hashes),
		StrList(t.Srcs), coqGroups(t.NamedSrcs), StrList(t.Outs), coqGroups(t.NamedOuts), StrList(t.Licences),
		StrList(t.OptionalOuts), StrList(t.Labels), StrList(t.Secrets), coqGroups(t.NamedSecrets),
		b(t.Binary), b(t.Subrepo), b(t.Sandbox), Str(t.Command), coqOptMap(t.HasCommands, t.Commands),
		Str(t.Config), Str(t.FallbackConfig), b(t.NeedsTransitive), b(t.OutputIsComplete), b(t.Stamp),
		b(t.Filegroup), b(t.TextFile), b(t.RemoteFile), b(t.Local), b(t.SrcListFiles), b(t.ExitOnError),
		StrList(t.Requires), coqLGroups(t.Provides), b(t.PreBuild), b(t.PostBuild),
		lib.Opt(t.HasPassEnv, StrList(t.PassEnv)), coqMap(t.Environ), StrList(t.OutputDirs),
		coqMap(t.EntryPoints), coqMap(t.Env), Str(t.FileContent), StrList(t.Data), coqGroups(t.NamedData),
		b(t.IsTest), StrList(t.TestOutputs), b(t.TestSandbox), Str(t.TestCommand),
		coqOptMap(t.HasTestCommands, t.TestCommands), Str(t.TestArgs), StrList(t.Tools), coqGroups(t.NamedTools))
}

// ------------------------------------------------------------------------------------------- emit program

type Emit struct {
	Op     string   `json:"op"`
	F      string   `json:"f"`
	G      string   `json:"g"`
	Sorted bool     `json:"sorted"`
	Sep    []byte   `json:"-"`
	TV     []byte   `json:"-"`
	FV     []byte   `json:"-"`
	SepI   []int    `json:"sep"`
	TVI    []int    `json:"tv"`
	FVI    []int    `json:"fv"`
	Test   bool     `json:"test"`
	Conds  []string `json:"conds"`
}

func toBytes(xs []int) []byte {
	out := make([]byte, len(xs))
	for i, x := range xs {
		out[i] = byte(x)
	}
	return out
}

// LoadProg reads the program gotrans wrote next to Gen/RuleHashProg.v.
func LoadProg() []Emit {
	dir := os.Getenv("VERIF_DIR")
	if dir == "" {
		dir = "/verif"
	}
	data, err := os.ReadFile(filepath.Join(dir, "coq", "theories", "Gen", "RuleHashProg.json"))
	if err != nil {
		panic(err)
	}
	var prog []Emit
	if err := json.Unmarshal(data, &prog); err != nil {
		panic(err)
	}
	for i := range prog {
		prog[i].Sep, prog[i].TV, prog[i].FV = toBytes(prog[i].SepI), toBytes(prog[i].TVI), toBytes(prog[i].FVI)
	}
	return prog
}

func labelLess(a, b Label) bool {
	if a.Sub != b.Sub {
		return a.Sub < b.Sub
	} else if a.Pkg != b.Pkg {
		return a.Pkg < b.Pkg
	}
	return a.Name < b.Name
}

// LabelString is the harness's own rendering of BuildLabel.String (checked against the real one by the tie).
func LabelString(l Label) string {
	if l == (Label{}) {
		return ""
	} else if l == (Label{Name: "_ORIGINAL"}) {
		return "command-line targets"
	}
	s := "//" + l.Pkg
	if l.Sub != "" {
		s = "///" + l.Sub + s
	}
	if l.Name == "..." {
		if l.Pkg == "" {
			return s + "..."
		}
		return s + "/..."
	}
	return s + ":" + l.Name
}

func getCommand(config, fallback string, has bool, commands []KV, single string) string {
	if !has {
		return single
	}
	for _, kv := range commands {
		if kv.K == config {
			return kv.V
		}
	}
	for _, kv := range commands {
		if kv.K == fallback {
			return kv.V
		}
	}
	hk, hc := "", ""
	for _, kv := range commands {
		if kv.K > hk {
			hk, hc = kv.K, kv.V
		}
	}
	return hc
}

func (t *T) list(f string) []string {
	switch f {
	case "FHashes":
		return t.Hashes
	case "FSrcs":
		return t.Srcs
	case "FOuts":
		return t.Outs
	case "FLicences":
		return t.Licences
	case "FOptionalOuts":
		return t.OptionalOuts
	case "FLabels":
		return t.Labels
	case "FSecrets":
		return t.Secrets
	case "FRequires":
		return t.Requires
	case "FOutputDirs":
		return t.OutputDirs
	case "FData":
		return t.Data
	case "FTestOutputs":
		return t.TestOutputs
	case "FTools":
		return t.Tools
	}
	panic("interpreter: " + f + " is not a list attribute")
}
func (t *T) labels(f string) []Label {
	switch f {
	case "FDeps":
		return t.Deps
	case "FVisibility":
		return t.Visibility
	}
	panic("interpreter: " + f + " is not a label list attribute")
}
func (t *T) groups(f string) []Group {
	switch f {
	case "FNamedSrcs":
		return t.NamedSrcs
	case "FNamedOuts":
		return t.NamedOuts
	case "FNamedSecrets":
		return t.NamedSecrets
	case "FNamedData":
		return t.NamedData
	case "FNamedTools":
		return t.NamedTools
	}
	panic("interpreter: " + f + " is not a named-group attribute")
}
func (t *T) smap(f string) []KV {
	switch f {
	case "FEntryPoints":
		return t.EntryPoints
	case "FEnv":
		return t.Env
	case "FEnviron":
		return t.Environ
	}
	panic("interpreter: " + f + " is not a map attribute")
}
func (t *T) str(f string) string {
	switch f {
	case "FCommand":
		return t.Command
	case "FFileContent":
		return t.FileContent
	case "FTestCommand":
		return t.TestCommand
	case "FTestArgsPlaceholder":
		return t.TestArgs
	case "FConfig":
		return t.Config
	case "FFallbackConfig":
		return t.FallbackConfig
	}
	panic("interpreter: " + f + " is not a string attribute")
}
func (t *T) boolean(f string) bool {
	switch f {
	case "FBinary":
		return t.Binary
	case "FSubrepo":
		return t.Subrepo
	case "FSandbox":
		return t.Sandbox
	case "FNeedsTransitive":
		return t.NeedsTransitive
	case "FOutputIsComplete":
		return t.OutputIsComplete
	case "FStamp":
		return t.Stamp
	case "FFilegroup":
		return t.Filegroup
	case "FTextFile":
		return t.TextFile
	case "FRemoteFile":
		return t.RemoteFile
	case "FLocal":
		return t.Local
	case "FSrcListFiles":
		return t.SrcListFiles
	case "FExitOnError":
		return t.ExitOnError
	case "FPreBuild":
		return t.PreBuild
	case "FPostBuild":
		return t.PostBuild
	case "FIsTest":
		return t.IsTest
	case "FTestSandbox":
		return t.TestSandbox
	}
	panic("interpreter: " + f + " is not a boolean attribute")
}

func orderGroups(sorted bool, gs []Group) []Group {
	out := append([]Group{}, gs...)
	if sorted {
		sort.SliceStable(out, func(i, j int) bool { return out[i].Key < out[j].Key })
	}
	return out
}

// Toks is the Go reading of Model/C08.v `toks`: the strings one emit writes for the stored state t.
func Toks(e Emit, t *T) []string {
	switch e.Op {
	case "Str":
		return []string{t.str(e.F)}
	case "LabelStr":
		if e.F != "FLabel" {
			panic("interpreter: LabelStr " + e.F)
		}
		return []string{LabelString(t.Label)}
	case "Command":
		if e.Test {
			return []string{getCommand(t.Config, t.FallbackConfig, t.HasTestCommands, t.TestCommands, t.TestCommand)}
		}
		return []string{getCommand(t.Config, t.FallbackConfig, t.HasCommands, t.Commands, t.Command)}
	case "List":
		return append([]string{}, t.list(e.F)...)
	case "Labels":
		return strs(t.labels(e.F), LabelString)
	case "SortedLabels":
		ls := append([]Label{}, t.labels(e.F)...)
		sort.SliceStable(ls, func(i, j int) bool { return labelLess(ls[i], ls[j]) })
		return strs(ls, LabelString)
	case "Inputs":
		out := append([]string{}, t.list(e.F)...)
		for _, g := range orderGroups(e.Sorted, t.groups(e.G)) {
			out = append(out, g.Vals...)
		}
		return out
	case "NamedGroups":
		out := []string{}
		for _, g := range orderGroups(e.Sorted, t.groups(e.F)) {
			out = append(append(out, g.Key), g.Vals...)
		}
		return out
	case "LabelGroups":
		if e.F != "FProvides" {
			panic("interpreter: LabelGroups " + e.F)
		}
		gs := append([]LGroup{}, t.Provides...)
		if e.Sorted {
			sort.SliceStable(gs, func(i, j int) bool { return gs[i].Key < gs[j].Key })
		}
		out := []string{}
		for _, g := range gs {
			out = append(append(out, g.Key), strs(g.Vals, LabelString)...)
		}
		return out
	case "Map":
		m := append([]KV{}, t.smap(e.F)...)
		if e.Sorted {
			sort.SliceStable(m, func(i, j int) bool { return m[i].K < m[j].K })
		}
		return strs(m, func(kv KV) string { return kv.K + string(e.Sep) + kv.V })
	case "Bool":
		if t.boolean(e.F) {
			return []string{string(e.TV)}
		}
		return []string{string(e.FV)}
	case "OptBool":
		if t.boolean(e.F) {
			return []string{string(e.TV)}
		}
		return nil
	case "PassEnv":
		if !t.HasPassEnv {
			return nil
		}
		return strs(t.PassEnv, func(n string) string {
			v := ""
			for _, kv := range t.Environ {
				if kv.K == n {
					v = kv.V
					break
				}
			}
			return n + string(e.Sep) + v
		})
	case "Const":
		return []string{string(e.Sep)}
	}
	panic("interpreter: unknown emit " + e.Op)
}

func condsHold(e Emit, rt bool, t *T) bool {
	for _, c := range e.Conds {
		switch c {
		case "CRuntime":
			if !rt {
				return false
			}
		case "CIsTest":
			if !t.IsTest {
				return false
			}
		default:
			panic("interpreter: condition " + c)
		}
	}
	return true
}

// Stream interprets the regenerated program over the stored state.
func Stream(prog []Emit, rt bool, t *T) []byte {
	var b strings.Builder
	for _, e := range prog {
		if condsHold(e, rt, t) {
			for _, tok := range Toks(e, t) {
				b.WriteString(tok)
			}
		}
	}
	return []byte(b.String())
}

func Sha1(b []byte) []byte { h := sha1.Sum(b); return h[:] }
