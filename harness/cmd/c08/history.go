// C08, histories on ONE real target: build.RuleHash memoises the non-runtime hash on the target while the build changes the
// target (post-build function, outputs found in an output directory). Implementation side of the correspondence with the state
// machine of Model/C08_Cache.v and the model-independent oracles: a post-build / runtime call returns the hash of the CURRENT
// attributes; two copies of one target whose builds change the same attribute differently get different post-build hashes.
package main

import (
	"bytes"
	"encoding/hex"
	"fmt"

	"verifharness/cmd/c08/rh"
	"verifharness/lib"
)

type step struct {
	Call bool    `json:"call,omitempty"`
	Rt   bool    `json:"rt,omitempty"`
	Pb   bool    `json:"pb,omitempty"`
	Mut  *rh.Mut `json:"mut,omitempty"`
}

// genMut: one change a post-build function / an output directory can make.
func genMut(r *lib.Rng, kinds []string) rh.Mut {
	switch k := lib.Pick(r, kinds); k {
	case "out", "optional_out":
		return rh.Mut{Kind: k, V: word(r, true)}
	case "named_out":
		return rh.Mut{Kind: k, K: word(r, false), V: word(r, true)}
	case "command":
		if r.Chance(1, 3) {
			return rh.Mut{Kind: k, K: lib.Pick(r, cfgs), V: word(r, true)}
		}
		return rh.Mut{Kind: k, V: word(r, false)}
	case "label", "licence":
		return rh.Mut{Kind: k, V: word(r, false)}
	case "dep":
		return rh.Mut{Kind: k, L: rh.Label{Pkg: lib.Pick(r, pkgs), Name: lib.Pick(r, names) + lib.Pick(r, []string{"", "_d", "//z:b"})}}
	case "entry_point":
		return rh.Mut{Kind: k, K: word(r, false) + "ep", V: word(r, false)}
	default:
		panic(k)
	}
}

var mutKinds = []string{"out", "out", "named_out", "optional_out", "command", "command", "label", "dep", "entry_point", "licence"}

// kinds whose attribute is in C08's list (licences are not)
var pairKinds = []string{"out", "named_out", "optional_out", "command", "label", "dep", "entry_point"}

func genHistory(r *lib.Rng) (*rh.Spec, []step) {
	sp := genSpec(r, lib.Pick(r, []int{1, 2, 4}))
	switch r.Intn(4) {
	case 0:
		sp.PostBuild, sp.OutputDirs = false, nil // the build cannot modify this target
	case 1:
		sp.PostBuild = true
	case 2:
		sp.PostBuild = false
		sp.OutputDirs = []string{"_out"}
	}
	steps := []step{}
	muts := func(lo, hi int) {
		for i, n := 0, r.Range(lo, hi); i < n; i++ {
			m := genMut(r, mutKinds)
			steps = append(steps, step{Mut: &m})
		}
	}
	call := func(rt, pb bool) { steps = append(steps, step{Call: true, Rt: rt, Pb: pb}) }
	if r.Chance(1, 4) {
		muts(1, 2) // the pre-build function
	}
	if r.Chance(1, 5) {
		call(true, r.Bool())
	}
	call(false, false) // needsBuilding(state, target, false)
	muts(1, 3)         // the build
	if r.Chance(1, 4) {
		call(false, false)
	}
	call(false, true) // writeRuleHash / needsBuilding(state, target, true)
	if r.Chance(1, 3) {
		call(true, r.Bool())
	}
	if r.Chance(1, 4) {
		muts(1, 1)
		call(false, r.Chance(2, 3))
	}
	return sp, steps
}

type histEvent struct {
	set     *rh.T // the stored state after a change
	rt, pb  bool
	got     []byte
	fresh   []byte
	demands bool   // a post-build / runtime call, or the build cannot modify the target
	valid   bool   // the history up to this call is one the build can produce
	attr    string // the attribute changed last
	stream  []byte // the stream whose sha1 is `got` (nil: none of the stored states seen so far)
}

// runHistory performs the steps on ONE real target.
func runHistory(prog []rh.Emit, sp *rh.Spec, steps []step) (*rh.T, []histEvent, *rh.Live) {
	lv := rh.Construct(sp.Clone())
	t0 := lv.ReadBack()
	snaps := []*rh.T{t0}
	valid, lastAttr := true, ""
	evs := []histEvent{}
	for _, st := range steps {
		if !st.Call {
			cmBefore, memo := lv.CouldModify(), lv.Memoised()
			if !lv.Apply(*st.Mut) {
				continue
			}
			if memo && !(cmBefore && lv.CouldModify()) {
				valid = false
			}
			t := lv.ReadBack()
			snaps = append(snaps, t)
			lastAttr = st.Mut.Attr()
			evs = append(evs, histEvent{set: t})
			continue
		}
		ev := histEvent{rt: st.Rt, pb: st.Pb, valid: valid, attr: lastAttr}
		ev.demands = st.Rt || st.Pb || !lv.CouldModify()
		ev.fresh = lv.FreshHash(st.Rt)
		ev.got = lv.RuleHash(st.Rt, st.Pb)
	search:
		for i := len(snaps) - 1; i >= 0; i-- {
			for _, rt := range []bool{st.Rt, !st.Rt} {
				if stream := rh.Stream(prog, rt, snaps[i]); bytes.Equal(rh.Sha1(stream), ev.got) {
					ev.stream = stream
					break search
				}
			}
		}
		evs = append(evs, ev)
	}
	return t0, evs, lv
}

func histCoq(t0 *rh.T, evs []histEvent) string {
	items := []string{}
	for _, e := range evs {
		if e.set != nil {
			items = append(items, lib.App("CSet", e.set.Coq()))
			continue
		}
		stream := e.stream
		if stream == nil {
			stream = []byte("NO STORED STATE SEEN SO FAR HASHES TO THE VALUE build.RuleHash RETURNED: " + hex.EncodeToString(e.got))
		}
		items = append(items, lib.App("CCall", lib.Bool(e.rt), lib.Bool(e.pb), rh.Str(string(stream))))
	}
	return lib.App("CCache", t0.Coq(), lib.List(items))
}

// checkHistory: the freshness oracle on one history.
func checkHistory(c *lib.Ctx, sp *rh.Spec, steps []step, evs []histEvent, lv *rh.Live) {
	js := pairJS{Attr: "history", Recipe: sp, Steps: steps}
	for _, e := range evs {
		if e.set != nil || !e.demands || !e.valid {
			continue
		}
		c.Oracle()
		if !bytes.Equal(e.got, e.fresh) {
			js.HashA, js.HashB = hex.EncodeToString(e.got), hex.EncodeToString(e.fresh)
			c.Fail("rule-hash-not-of-current-attributes", fmt.Sprintf("RuleHash(runtime=%v, postBuild=%v) after the build changed %q returned %x, not ruleHash %x of the target's current attributes",
				e.rt, e.pb, e.attr, e.got, e.fresh), js)
			return
		}
	}
	// the same attributes on a fresh object: the hash must not depend on how the object got there
	last := lv.ReadBack()
	cur := lv.FreshHash(false)
	hf, tf := rh.Hash(lv.Sp.Clone(), false)
	if tf.Coq() == last.Coq() {
		c.Oracle()
		if !bytes.Equal(hf, cur) {
			js.HashA, js.HashB = hex.EncodeToString(cur), hex.EncodeToString(hf)
			c.Fail("rule-hash-depends-on-object-history", "a target changed after construction and a fresh target with the same stored attributes have different rule hashes", js)
		}
		c.Hist("history_fresh_object", "same-stored-state")
	} else {
		c.Hist("history_fresh_object", "recipe-bookkeeping-differs")
	}
}

// pairHistory: two copies of one could-be-modified target, pre-build hash, different changes of the same attribute, post-build
// hash. Returns the stored states, the two pre-build and the two post-build hashes.
func pairHistory(sp *rh.Spec, ma, mb []rh.Mut) (ta, tb *rh.T, pre, post [2][]byte) {
	run := func(ms []rh.Mut) (*rh.T, []byte, []byte) {
		lv := rh.Construct(sp.Clone())
		pre := lv.RuleHash(false, false)
		for _, m := range ms {
			lv.Apply(m)
		}
		return lv.ReadBack(), pre, lv.RuleHash(false, true)
	}
	ta, pre[0], post[0] = run(ma)
	tb, pre[1], post[1] = run(mb)
	return
}

func checkPair(c *lib.Ctx, attr string, sp *rh.Spec, ma, mb []rh.Mut, key bool) {
	ta, tb, pre, post := pairHistory(sp, ma, mb)
	if !relevantDiffers(attr, ta, tb) {
		c.Hist("post_pair", "no-op")
		return
	}
	c.Oracle()
	js := pairJS{Attr: attr, Recipe: sp, MutsA: ma, MutsB: mb, HashA: hex.EncodeToString(post[0]), HashB: hex.EncodeToString(post[1])}
	if key {
		c.Eval(js, "post|"+ta.Coq()+"|"+tb.Coq(), nontrivial(ta) || nontrivial(tb))
	}
	c.Hist("post_pair_attr", attr)
	if !bytes.Equal(pre[0], pre[1]) {
		c.Fail("prebuild-hash-differs-between-copies", "two copies of one definition have different pre-build rule hashes", js)
		return
	}
	if bytes.Equal(post[0], post[1]) {
		cls := explain(attr, ta, tb)
		if cls == "" {
			cls = "unexplained-collision-postbuild-" + attr
		}
		if cls != "not-a-change" {
			c.Hist("post_collision", cls)
			c.Fail(cls, fmt.Sprintf("two copies of one target whose builds changed %s differently have the same post-build rule hash %x", attr, post[0]), js)
		}
	} else {
		c.Hist("post_collision", "none")
	}
}

// histories: section 4 of the run.
func histories(c *lib.Ctx, prog []rh.Emit) {
	nh, nhCases := c.Scale(700, 20000), c.Scale(150, 3000)
	unmatched := 0
	for i := 0; i < nh; i++ {
		r := c.Rng.Fork()
		sp, steps := genHistory(r)
		t0, evs, lv := runHistory(prog, sp, steps)
		ncalls, nsets := 0, 0
		for _, e := range evs {
			if e.set != nil {
				nsets++
			} else {
				ncalls++
				if e.stream == nil {
					unmatched++
				}
			}
		}
		js := map[string]any{"recipe": sp, "steps": steps}
		term := histCoq(t0, evs)
		if i < nhCases {
			c.Case(lib.App("SOld", term), js, term, nsets >= 1 && ncalls >= 2)
		} else {
			c.Eval(js, term, nsets >= 1 && ncalls >= 2)
		}
		checkHistory(c, sp, steps, evs, lv)
		c.HistN("history_changes", nsets)
		c.Hist("history_could_modify", fmt.Sprint(lv.CouldModify()))
	}
	if unmatched > 0 {
		c.Note("histories: %d RuleHash results are not sha1 of the interpreted stream of any stored state seen so far", unmatched)
	}
	np := c.Scale(1500, 40000)
	for i := 0; i < np; i++ {
		r := c.Rng.Fork()
		sp := genSpec(r, lib.Pick(r, []int{1, 2, 4}))
		if r.Bool() {
			sp.PostBuild = true
		} else {
			sp.OutputDirs = append(sp.OutputDirs, "_out")
		}
		kind := pairKinds[i%len(pairKinds)]
		gen := func() []rh.Mut {
			ms := []rh.Mut{}
			for j, n := 0, r.Range(1, 2); j < n; j++ {
				ms = append(ms, genMut(r, []string{kind}))
			}
			return ms
		}
		ma, mb := gen(), gen()
		if r.Chance(1, 4) { // a boundary shift between two added entries: [zxy, zz] / [zx, zyzz]
			switch kind {
			case "out", "optional_out", "label":
				ma = []rh.Mut{{Kind: kind, V: "zxy"}, {Kind: kind, V: "zz"}}
				mb = []rh.Mut{{Kind: kind, V: "zx"}, {Kind: kind, V: "zyzz"}}
			}
		}
		checkPair(c, ma[0].Attr(), sp, ma, mb, true)
	}
}
