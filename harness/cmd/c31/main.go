// C31: concurrent `plz build` invocations on one repository do not corrupt outputs (end to end, real plz).
//
// Every case: a generated repository (fragment of the closed command language that Model/C31.v mirrors),
// optionally a first build of a subset ("warm"), then 2-4 real plz processes started with random offsets
// (0-200 ms) over overlapping target sets, then a clean build of the union of the requests in a fresh
// directory.  The property oracle (model independent): every process exits 0, every requested target's
// outputs equal the clean build's, and the plz-out/gen + plz-out/bin trees are equal.  The Coq case carries
// the exit statuses, the final outputs of every target and how often every command ran (action log).
package main

import (
	"bytes"
	"fmt"
	"os"
	"os/exec"
	"path/filepath"
	"sort"
	"strings"
	"sync"
	"syscall"
	"time"

	"verifharness/e2e"
	"verifharness/lib"
)

var env = []string{"PATH=/usr/local/bin:/usr/bin:/bin", "HOME=/nonexistent-verif-home", "LANG=C", "USER=verif"}

// ---------------------------------------------------------------------------------------------
// generator

type scenario struct {
	Spec     *e2e.Spec  `json:"spec"`
	Order    []string   `json:"order"` // creation order, dependencies first
	Warm     []string   `json:"warm,omitempty"`
	Wipe     bool       `json:"wipe,omitempty"` // plz-out removed between the first build and the concurrent ones (the cache stays)
	Reqs     [][]string `json:"reqs"`
	Offsets  []int      `json:"offsets_ms"`
	Threads  []int      `json:"threads"`
	Cache    bool       `json:"cache"`
	Shape    string     `json:"shape"`
	KeepGo   bool       `json:"keep_going,omitempty"`
	HasFail  bool       `json:"has_fail,omitempty"`
	Choices  []int      `json:"choices"`
}

var fileNames = []string{"a.txt", "b.txt", "c.txt"}
var contents = []string{"alpha\n", "beta\n", "gamma", "", "x", "y\n"}

func genSpec(r *lib.Rng, shape string, withFail bool) (*e2e.Spec, []string) {
	s := &e2e.Spec{Pkgs: map[string]*e2e.Pkg{}}
	pkgs := []string{"p", "q"}[:r.Range(1, 2)]
	for _, pn := range pkgs {
		p := &e2e.Pkg{Files: map[string]string{}}
		for _, f := range fileNames[:r.Range(2, 3)] {
			p.Files[f] = lib.Pick(r, contents) + pn + f[:1]
		}
		s.Pkgs[pn] = p
	}
	var order []string
	nt := r.Range(3, 7)
	if shape == "chain" {
		nt = r.Range(3, 5)
	}
	sleeps := []string{"0.05", "0.1", "0.15"}
	failAt := -1
	if withFail {
		failAt = r.Intn(nt)
	}
	for i := 0; i < nt; i++ {
		pn := lib.Pick(r, pkgs)
		name := fmt.Sprintf("t%d", i)
		files := lib.SortedKeys(s.Pkgs[pn].Files)
		pick := func(min int) []string {
			var srcs []string
			seen := map[string]bool{}
			n := r.Range(min, 3)
			for k := 0; k < n; k++ {
				var x string
				if len(order) > 0 && r.Chance(2, 3) {
					x = lib.Pick(r, order)
				} else {
					x = lib.Pick(r, files)
				}
				if !seen[x] {
					seen[x] = true
					srcs = append(srcs, x)
				}
			}
			return srcs
		}
		var t *e2e.Target
		kind := lib.Pick(r, []string{"sleep", "sleep", "sleep", "concat", "const", "const2", "filegroup", "text"})
		if shape == "chain" || shape == "same-target" {
			kind = lib.Pick(r, []string{"sleep", "sleep", "concat"})
		}
		if i == failAt {
			kind = "fail"
		}
		switch kind {
		case "sleep", "concat":
			srcs := pick(1)
			if shape == "chain" && len(order) > 0 && !contains(srcs, order[len(order)-1]) {
				srcs = append(srcs, order[len(order)-1])
			}
			c := e2e.Cmd{Op: "concat"}
			if kind == "sleep" {
				c = e2e.Cmd{Op: "sleepconcat", Arg: lib.Pick(r, sleeps)}
			}
			t = &e2e.Target{Name: name, Kind: "genrule", Srcs: srcs, Outs: []string{name + ".out"}, Cmd: c}
		case "fail":
			t = &e2e.Target{Name: name, Kind: "genrule", Srcs: pick(1), Outs: []string{name + ".out"}, Cmd: e2e.Cmd{Op: "fail"}}
		case "const":
			t = &e2e.Target{Name: name, Kind: "genrule", Outs: []string{name + ".out"}, Cmd: e2e.Cmd{Op: "const", Arg: lib.Pick(r, []string{"one", "two", "three"})}}
		case "const2":
			t = &e2e.Target{Name: name, Kind: "genrule", Outs: []string{name + ".out", name + ".b"}, Cmd: e2e.Cmd{Op: "const", Arg: lib.Pick(r, []string{"one", "two"})}}
		case "filegroup":
			n := r.Range(1, min(2, len(files)))
			t = &e2e.Target{Name: name, Kind: "filegroup", Srcs: append([]string{}, files[:n]...)}
		case "text":
			t = &e2e.Target{Name: name, Kind: "text_file", Content: lib.Pick(r, []string{"hello\n", "world\n", "k=v\n"}), Outs: []string{name + ".txt"}}
		}
		s.Pkgs[pn].Targets = append(s.Pkgs[pn].Targets, t)
		order = append(order, "//"+pn+":"+name)
	}
	if shape == "shared-filegroup" {
		// two filegroups that output the SAME file (allowed for filegroups), plus a reader of each
		pn := pkgs[0]
		f := lib.SortedKeys(s.Pkgs[pn].Files)[0]
		for k, nm := range []string{"fga", "fgb"} {
			s.Pkgs[pn].Targets = append(s.Pkgs[pn].Targets, &e2e.Target{Name: nm, Kind: "filegroup", Srcs: []string{f}})
			order = append(order, "//"+pn+":"+nm)
			rd := fmt.Sprintf("rd%d", k)
			s.Pkgs[pn].Targets = append(s.Pkgs[pn].Targets, &e2e.Target{Name: rd, Kind: "genrule", Srcs: []string{"//" + pn + ":" + nm}, Outs: []string{rd + ".out"}, Cmd: e2e.Cmd{Op: "concat"}})
			order = append(order, "//"+pn+":"+rd)
		}
	}
	return s, order
}

func contains(xs []string, x string) bool {
	for _, y := range xs {
		if y == x {
			return true
		}
	}
	return false
}

func closureOf(s *e2e.Spec, req []string) map[string]bool {
	seen := map[string]bool{}
	var visit func(l string)
	visit = func(l string) {
		if seen[l] {
			return
		}
		seen[l] = true
		if t := s.Target(l); t != nil {
			for _, d := range e2e.DepsOf(t) {
				visit(d)
			}
		}
	}
	for _, l := range req {
		visit(l)
	}
	return seen
}

func genScenario(r *lib.Rng, idx int) scenario {
	shapes := []string{"random", "chain", "same-target", "all", "shared-filegroup", "warm", "warm-wipe", "random", "warm-wipe-all"}
	shape := shapes[idx%len(shapes)]
	withFail := idx%10 == 7
	if withFail {
		shape = "random"
	}
	spec, order := genSpec(r, shape, withFail)
	sc := scenario{Spec: spec, Order: order, Shape: shape, Cache: r.Chance(1, 2), HasFail: withFail, KeepGo: withFail}
	n := r.Range(2, 4)
	subset := func() []string {
		var out []string
		for _, l := range order {
			if r.Chance(1, 2) {
				out = append(out, l)
			}
		}
		if len(out) == 0 {
			out = []string{lib.Pick(r, order)}
		}
		return out
	}
	hub := order[len(order)-1-r.Intn(min(2, len(order)))]
	for i := 0; i < n; i++ {
		var req []string
		switch shape {
		case "all":
			req = append([]string{}, order...)
		case "same-target":
			req = []string{hub}
		case "chain":
			req = []string{order[len(order)-1-r.Intn(min(2, len(order)))]}
		case "shared-filegroup":
			req = subset()
			k := i % 2
			pn := "p"
			for _, x := range []string{fmt.Sprintf("//%s:rd%d", pn, k)} {
				if !contains(req, x) {
					req = append(req, x)
				}
			}
		default:
			req = subset()
			if i < 2 && !contains(req, hub) {
				req = append(req, hub) // at least two invocations overlap
			}
		}
		lib.Shuffle(r, req)
		sc.Reqs = append(sc.Reqs, req)
		sc.Offsets = append(sc.Offsets, r.Intn(201))
		sc.Threads = append(sc.Threads, lib.Pick(r, []int{1, 2, 4}))
	}
	switch shape {
	case "warm":
		sc.Warm = subset()
	case "warm-wipe": // with a cache everything the first build produced is retrieved, without it is rebuilt
		sc.Warm, sc.Wipe, sc.Cache = subset(), true, idx%2 == 0
	case "warm-wipe-all":
		sc.Warm, sc.Wipe, sc.Cache = append([]string{}, order...), true, true
	}
	for i := 0; i < 60; i++ {
		sc.Choices = append(sc.Choices, r.Intn(1000))
	}
	return sc
}

// ---------------------------------------------------------------------------------------------
// running

type invRes struct {
	Exit     int    `json:"exit"`
	TimedOut bool   `json:"timed_out,omitempty"`
	Output   string `json:"output,omitempty"`
	startMs  int64
	endMs    int64
}

func runPlz(repo *e2e.Repo, threads int, keepGoing bool, labels []string, timeout time.Duration) invRes {
	return runPlzNice(repo, 0, threads, keepGoing, labels, timeout)
}

// runPlzNice: niceness > 0 runs the invocation at a lower scheduling priority (on a busy machine it then takes
// longer over its work than the invocations that arrive later take to start up: a wider race window).
func runPlzNice(repo *e2e.Repo, niceness, threads int, keepGoing bool, labels []string, timeout time.Duration) invRes {
	return runPlzCtl(repo, niceness, threads, keepGoing, labels, timeout, nil)
}

// runPlzCtl: as runPlzNice; started (if not nil) is told the process group of the invocation once it runs, so that
// the caller can hold it up (SIGSTOP / SIGCONT: a scheduling delay like any other) at a chosen moment.
func runPlzCtl(repo *e2e.Repo, niceness, threads int, keepGoing bool, labels []string, timeout time.Duration, started func(pgid int)) invRes {
	args := []string{"--plain_output", "-v", "1", "-n", fmt.Sprint(threads), "build"}
	if keepGoing {
		args = append(args, "--keep_going")
	}
	args = append(args, labels...)
	cmd := exec.Command(repo.Plz, args...)
	if niceness > 0 {
		cmd = exec.Command("/usr/bin/nice", append([]string{"-n", fmt.Sprint(niceness), repo.Plz}, args...)...)
	}
	cmd.Dir = repo.Dir
	cmd.Env = env
	cmd.SysProcAttr = &syscall.SysProcAttr{Setpgid: true}
	var out bytes.Buffer
	cmd.Stdout, cmd.Stderr = &out, &out
	res := invRes{startMs: time.Now().UnixMilli()}
	if err := cmd.Start(); err != nil {
		panic(err)
	}
	if started != nil {
		started(cmd.Process.Pid)
	}
	done := make(chan error, 1)
	go func() { done <- cmd.Wait() }()
	select {
	case err := <-done:
		if err != nil {
			if ee, ok := err.(*exec.ExitError); ok {
				res.Exit = ee.ExitCode()
			} else {
				res.Exit = -1
			}
		}
	case <-time.After(timeout):
		syscall.Kill(-cmd.Process.Pid, syscall.SIGKILL)
		<-done
		res.Exit, res.TimedOut = -9, true
	}
	res.endMs = time.Now().UnixMilli()
	if res.Exit != 0 {
		o := out.String()
		if len(o) > 1500 {
			o = o[len(o)-1500:]
		}
		res.Output = o
	}
	return res
}

func runConcurrent(repo *e2e.Repo, sc *scenario) []invRes {
	out := make([]invRes, len(sc.Reqs))
	var wg sync.WaitGroup
	for i := range sc.Reqs {
		wg.Add(1)
		go func(i int) {
			defer wg.Done()
			time.Sleep(time.Duration(sc.Offsets[i]) * time.Millisecond)
			out[i] = runPlz(repo, sc.Threads[i], sc.KeepGo, sc.Reqs[i], 120*time.Second)
		}(i)
	}
	wg.Wait()
	return out
}

// flatTree lists plz-out/gen and plz-out/bin: relative path -> description. The content of the
// .target_build_metadata_* files (timestamps) is not compared, their presence is.
func flatTree(repoDir string) map[string]string {
	out := map[string]string{}
	for _, top := range []string{"gen", "bin"} {
		root := filepath.Join(repoDir, "plz-out", top)
		filepath.Walk(root, func(path string, info os.FileInfo, err error) error {
			if err != nil || path == root {
				return nil
			}
			rel, _ := filepath.Rel(filepath.Join(repoDir, "plz-out"), path)
			switch {
			case info.Mode()&os.ModeSymlink != 0:
				t, _ := os.Readlink(path)
				out[rel] = "link:" + t
			case info.IsDir():
				out[rel] = "dir"
			case strings.HasPrefix(filepath.Base(path), ".target_build_metadata_"):
				out[rel] = "metadata"
			default:
				data, _ := os.ReadFile(path)
				x := ""
				if info.Mode()&0o111 != 0 {
					x = "*"
				}
				out[rel] = "file" + x + ":" + string(data)
			}
			return nil
		})
	}
	return out
}

type outcome struct {
	Sc        scenario                    `json:"scenario"`
	WarmExit  int                         `json:"warm_exit"`
	Inv       []invRes                    `json:"invocations"`
	Log       []string                    `json:"action_log"`
	Outs      map[string]string           `json:"outputs"`
	CleanExit int                         `json:"clean_exit"`
	CleanOuts map[string]string           `json:"clean_outputs"`
	TreeDiff  []string                    `json:"tree_diff,omitempty"`
	outs      map[string]map[string]*e2e.Node
	clean     map[string]map[string]*e2e.Node
	overlapMs int64
}

func outStr(m map[string]*e2e.Node) string {
	s := ""
	for _, k := range lib.SortedKeys(m) {
		s += k + "=" + m[k].String() + "; "
	}
	return s
}

func runScenario(base string, sc scenario) outcome {
	os.MkdirAll(base, 0o755)
	repo := e2e.NewRepo(base, "repo")
	if sc.Cache {
		repo.CacheDir = base + "/cache"
	}
	repo.Write(sc.Spec)
	os.Remove(repo.LogPath)
	oc := outcome{Sc: sc}
	if len(sc.Warm) > 0 {
		oc.WarmExit = runPlz(repo, 2, sc.KeepGo, sc.Warm, 120*time.Second).Exit
		if sc.Wipe {
			repo.RemovePlzOut()
		}
	}
	oc.Inv = runConcurrent(repo, &sc)
	oc.Log = repo.ReadLog()
	labels := sc.Spec.Labels()
	oc.outs = e2e.TargetOutputs(repo, sc.Spec, labels)
	oc.Outs = map[string]string{}
	for l, m := range oc.outs {
		oc.Outs[l] = outStr(m)
	}
	tree := flatTree(repo.Dir)
	// how much the processes really overlapped in time
	var maxStart, minEnd int64 = 0, 1 << 62
	for _, r := range oc.Inv {
		maxStart, minEnd = max(maxStart, r.startMs), min(minEnd, r.endMs)
	}
	oc.overlapMs = minEnd - maxStart

	// the reference: one clean build of the union of everything that was requested
	union := map[string]bool{}
	if !sc.Wipe {
		for _, l := range sc.Warm {
			union[l] = true
		}
	}
	for _, rq := range sc.Reqs {
		for _, l := range rq {
			union[l] = true
		}
	}
	clean := repo.CleanCopy(base, "clean", sc.Spec)
	cres := runPlz(clean, 2, sc.KeepGo, lib.SortedKeys(union), 120*time.Second)
	oc.CleanExit = cres.Exit
	oc.clean = e2e.TargetOutputs(clean, sc.Spec, labels)
	oc.CleanOuts = map[string]string{}
	for l, m := range oc.clean {
		oc.CleanOuts[l] = outStr(m)
	}
	ctree := flatTree(clean.Dir)
	keys := map[string]bool{}
	for k := range tree {
		keys[k] = true
	}
	for k := range ctree {
		keys[k] = true
	}
	for _, k := range lib.SortedKeys(keys) {
		if tree[k] != ctree[k] {
			oc.TreeDiff = append(oc.TreeDiff, fmt.Sprintf("%s: concurrent %q, clean %q", k, tree[k], ctree[k]))
		}
	}
	os.RemoveAll(base)
	os.Remove(repo.LogPath)
	return oc
}

// ---------------------------------------------------------------------------------------------
// Coq terms

func coqTarget(s *e2e.Spec, label string) string {
	pkg, _ := e2e.SplitLabel(label)
	t := s.Target(label)
	var kind string
	var srcs []string
	outs := append([]string{}, t.Outs...)
	switch {
	case t.Kind == "filegroup":
		kind = "KFilegroup"
		fs := append([]string{}, t.Srcs...)
		sort.Strings(fs)
		for _, f := range fs {
			srcs = append(srcs, lib.App("SFile", lib.Str(f), lib.Str(s.Pkgs[pkg].Files[f])))
		}
		outs = fs
	case t.Kind == "text_file":
		kind = lib.App("KText", lib.Str(t.Content))
	case t.Cmd.Op == "concat" || t.Cmd.Op == "sleepconcat":
		kind = "KConcat"
	case t.Cmd.Op == "const":
		kind = lib.App("KConst", lib.Str(t.Cmd.Arg))
	case t.Cmd.Op == "fail":
		kind = "KFail"
	default:
		panic("command outside the modelled fragment: " + t.Cmd.Op)
	}
	if t.Kind != "filegroup" {
		for _, x := range t.Srcs {
			if strings.HasPrefix(x, "//") {
				srcs = append(srcs, lib.App("SDep", lib.Str(x)))
			} else {
				srcs = append(srcs, lib.App("SFile", lib.Str(x), lib.Str(s.Pkgs[pkg].Files[x])))
			}
		}
	}
	sort.Strings(outs)
	return lib.App("mkT", lib.Str(label), kind, lib.List(srcs), lib.StrList(outs))
}

func logs(t *e2e.Target) bool { return t.Kind == "genrule" }

func caseTerm(oc *outcome) string {
	sc := &oc.Sc
	var ts []string
	for _, l := range sc.Order {
		ts = append(ts, coqTarget(sc.Spec, l))
	}
	var reqs, oks, outs, runs, choices []string
	for i, rq := range sc.Reqs {
		reqs = append(reqs, lib.StrList(rq))
		oks = append(oks, lib.Bool(oc.Inv[i].Exit == 0))
	}
	counts := map[string]int{}
	for _, l := range oc.Log {
		counts[l]++
	}
	for _, l := range sc.Order {
		var os_ []string
		m := oc.outs[l]
		for _, o := range lib.SortedKeys(m) {
			n := m[o]
			switch n.Kind {
			case "file":
				os_ = append(os_, lib.Pair(lib.Str(o), lib.Some(lib.Str(n.Content))))
			case "absent":
				os_ = append(os_, lib.Pair(lib.Str(o), "None"))
			default:
				os_ = append(os_, lib.Pair(lib.Str(o), lib.Some(lib.Str("<"+n.Kind+">"))))
			}
		}
		outs = append(outs, lib.Pair(lib.Str(l), lib.List(os_)))
		if logs(sc.Spec.Target(l)) {
			runs = append(runs, lib.Pair(lib.Str(l), lib.Nat(counts[l])))
		}
	}
	for _, c := range sc.Choices {
		choices = append(choices, lib.N(uint64(c)))
	}
	return lib.App("Case", lib.List(ts), lib.StrList(sc.Warm), lib.Bool(sc.Cache), lib.Bool(sc.Wipe), lib.List(reqs), lib.List(choices), lib.List(oks), lib.List(outs), lib.List(runs))
}

// ---------------------------------------------------------------------------------------------

func judge(c *lib.Ctx, oc *outcome) {
	sc := &oc.Sc
	c.Hist("shape", sc.Shape)
	c.HistN("invocations", len(sc.Reqs))
	c.HistN("targets", len(sc.Order))
	c.Hist("cache", fmt.Sprint(sc.Cache))
	if sc.Wipe {
		c.Hist("plz-out-wiped-after-first-build", fmt.Sprintf("cache=%v", sc.Cache))
	}
	if oc.overlapMs > 0 {
		c.Hist("processes-overlapped-in-time", "yes")
	} else {
		c.Hist("processes-overlapped-in-time", "no")
	}
	// overlap of the requested closures
	cl := make([]map[string]bool, len(sc.Reqs))
	for i, rq := range sc.Reqs {
		cl[i] = closureOf(sc.Spec, rq)
	}
	shared := 0
	for _, l := range sc.Order {
		k := 0
		for i := range cl {
			if cl[i][l] {
				k++
			}
		}
		if k >= 2 && logs(sc.Spec.Target(l)) {
			shared++
		}
	}
	c.HistN("commands-wanted-by-2+-invocations", min(shared, 6))
	counts := map[string]int{}
	for _, l := range oc.Log {
		counts[l]++
	}
	rer := 0
	for _, n := range counts {
		if n > 1 {
			rer++
		}
	}
	c.HistN("commands-run-more-than-once", rer)
	if sc.Wipe && sc.Cache {
		// commands of the first build that a concurrent invocation wanted again and that did NOT run again: retrieved
		retrieved := 0
		wcl := closureOf(sc.Spec, sc.Warm)
		for _, l := range sc.Order {
			again := false
			for i := range cl {
				again = again || cl[i][l]
			}
			if wcl[l] && again && logs(sc.Spec.Target(l)) && counts[l] == 1 {
				retrieved++
			}
		}
		c.HistN("commands-retrieved-from-shared-cache", min(retrieved, 6))
	}

	js := map[string]any{"spec": sc.Spec, "order": sc.Order, "warm": sc.Warm, "reqs": sc.Reqs, "offsets_ms": sc.Offsets, "threads": sc.Threads,
		"cache": sc.Cache, "wipe": sc.Wipe, "shape": sc.Shape, "keep_going": sc.KeepGo, "has_fail": sc.HasFail, "choices": sc.Choices,
		"invocations": oc.Inv, "action_log": oc.Log, "outputs": oc.Outs, "clean_exit": oc.CleanExit, "clean_outputs": oc.CleanOuts, "tree_diff": oc.TreeDiff}
	key := fmt.Sprint(sc.Order, oc.CleanOuts, sc.Warm, sc.Reqs, sc.Cache, sc.Wipe)
	c.Case(caseTerm(oc), js, key, shared >= 1 && len(sc.Reqs) >= 2)

	// the property oracle
	c.Oracle()
	if sc.HasFail || oc.CleanExit != 0 {
		// the clean build itself fails: the statement says nothing; only the correspondence is checked
		if !sc.HasFail {
			c.Fail("clean-build-failed", fmt.Sprintf("the reference clean build exits %d on a repository without failing commands", oc.CleanExit), js)
		}
		return
	}
	if oc.WarmExit != 0 {
		c.Fail("invocation-failed", fmt.Sprintf("the first (single) build exits %d", oc.WarmExit), js)
	}
	for i, r := range oc.Inv {
		if r.TimedOut {
			c.Fail("invocation-hung", fmt.Sprintf("invocation %d of %d (build %v) did not finish in 120 s", i, len(oc.Inv), sc.Reqs[i]), js)
		} else if r.Exit != 0 {
			c.Fail("invocation-failed", fmt.Sprintf("invocation %d of %d (build %v) exits %d although the clean build succeeds: %s", i, len(oc.Inv), sc.Reqs[i], r.Exit, r.Output), js)
		}
	}
	for _, l := range sc.Order {
		if ok, why := e2e.OutputsEqual(oc.outs[l], oc.clean[l]); !ok {
			c.Fail("output-differs-from-clean", fmt.Sprintf("%s after %d concurrent invocations vs clean build: %s", l, len(sc.Reqs), why), js)
		}
	}
	if len(oc.TreeDiff) > 0 {
		c.Fail("plz-out-tree-differs", "plz-out/{gen,bin} after the concurrent invocations differs from the clean build: "+strings.Join(oc.TreeDiff[:min(3, len(oc.TreeDiff))], " | "), js)
	}
}

// ---------------------------------------------------------------------------------------------
// focused stress: two filegroups of one package that output the SAME DIRECTORY, in different processes.
//
// In one process theFilegroupBuilder.mutex serialises them; across processes they take DIFFERENT target
// flocks (fga._build.lock, fgb._build.lock), so filegroupBuilder.Build's isSameFileContent / RemoveAll /
// RecursiveCopyOrLinkFile of plz-out/gen/p/d (filegroup.go:77-95) of one process can run inside the other's.
// The window is wide when the output directory exists with OLDER content (both decide to replace it).
// Oracle only (the label-keyed model excludes shared output paths: shared_output_class; the path-level
// model of this race is Model/C31.v `Section SharedDir`, refuted by C31_refuted).

type dirRace struct {
	Files    int      `json:"files"`
	Trial    int      `json:"trial"`
	Control  bool     `json:"control"` // both processes build the SAME filegroup (same flock): must be fine
	DelayMs  int      `json:"delay_ms"`
	Exits    []int    `json:"exits"`
	Outputs  []string `json:"outputs,omitempty"`
	Readers  []string `json:"readers"` // what rd0 / rd1 recorded, summarised
	FinalDir string   `json:"final_dir"`
}

func dirRaceSpec(n int, version string) *e2e.Spec {
	p := &e2e.Pkg{Files: map[string]string{}}
	for i := 0; i < n; i++ {
		p.Files[fmt.Sprintf("d/f%04d", i)] = fmt.Sprintf("%s-%d\n", version, i)
	}
	for k, nm := range []string{"fga", "fgb"} {
		p.Targets = append(p.Targets, &e2e.Target{Name: nm, Kind: "filegroup", Srcs: []string{"d"}})
		p.Targets = append(p.Targets, &e2e.Target{Name: fmt.Sprintf("rd%d", k), Kind: "genrule", Srcs: []string{":" + nm},
			Outs: []string{fmt.Sprintf("rd%d.out", k)}, Cmd: e2e.Cmd{Op: "listnames"}})
	}
	return &e2e.Spec{Pkgs: map[string]*e2e.Pkg{"p": p}}
}

// rewriteDir replaces every file of p/d by a new inode with new content (what an editor or a checkout does).
func rewriteDir(repo *e2e.Repo, n int, version string) {
	for i := 0; i < n; i++ {
		path := filepath.Join(repo.Dir, "p", "d", fmt.Sprintf("f%04d", i))
		tmp := path + ".new"
		if err := os.WriteFile(tmp, []byte(fmt.Sprintf("%s-%d\n", version, i)), 0o644); err != nil {
			panic(err)
		}
		if err := os.Rename(tmp, path); err != nil {
			panic(err)
		}
	}
}

func summarise(listing string, n int) string {
	lines := 0
	for _, l := range strings.Split(listing, "\n") {
		if strings.HasPrefix(l, "./f") {
			lines++
		}
	}
	extra := ""
	if strings.Count(listing, "\n") != n+1 { // "." plus one line per file
		extra = fmt.Sprintf(" (%d lines in all)", strings.Count(listing, "\n"))
	}
	return fmt.Sprintf("%d of %d files%s", lines, n, extra)
}

func runDirRaces(c *lib.Ctx, base string, trials, nfiles int) {
	os.MkdirAll(base, 0o755)
	repo := e2e.NewRepo(base, "dirrace")
	repo.Write(dirRaceSpec(nfiles, "v0"))
	if r := runPlz(repo, 2, false, []string{"//p:fga"}, 120*time.Second); r.Exit != 0 {
		c.Oracle()
		c.Fail("invocation-failed", "a single build of a directory filegroup fails: "+r.Output, map[string]any{"files": nfiles})
		return
	}
	// how long one process needs to replace the stale directory: the second process starts somewhere inside
	rewriteDir(repo, nfiles, "cal")
	t0 := time.Now()
	runPlz(repo, 2, false, []string{"//p:fga"}, 120*time.Second)
	single := time.Since(t0)
	want := ""
	{
		var b strings.Builder
		b.WriteString(".\n")
		for i := 0; i < nfiles; i++ {
			fmt.Fprintf(&b, "./f%04d\n", i)
		}
		want = b.String()
	}
	hits := 0
	for t := 0; t < trials; t++ {
		control := trials >= 3 && t == trials-1
		rewriteDir(repo, nfiles, fmt.Sprintf("t%d", t))
		delay := time.Duration(float64(single) * 1.3 * float64(c.Rng.Intn(1000)) / 1000)
		second := "//p:rd1"
		if control {
			second = "//p:rd0"
		}
		res := make([]invRes, 2)
		var wg sync.WaitGroup
		wg.Add(2)
		go func() { defer wg.Done(); res[0] = runPlz(repo, 2, false, []string{"//p:rd0"}, 120*time.Second) }()
		go func() {
			defer wg.Done()
			time.Sleep(delay)
			res[1] = runPlz(repo, 2, false, []string{second}, 120*time.Second)
		}()
		wg.Wait()
		dr := dirRace{Files: nfiles, Trial: t, Control: control, DelayMs: int(delay.Milliseconds()), Exits: []int{res[0].Exit, res[1].Exit}}
		readers := []string{"rd0"}
		if !control {
			readers = append(readers, "rd1")
		}
		okReaders := true
		for k, rd := range readers {
			data, err := os.ReadFile(filepath.Join(repo.Dir, "plz-out", "gen", "p", rd+".out"))
			switch {
			case err != nil:
				dr.Readers = append(dr.Readers, rd+": absent")
			case string(data) == want:
				dr.Readers = append(dr.Readers, rd+": complete")
			default:
				dr.Readers = append(dr.Readers, rd+": "+summarise(string(data), nfiles))
				if res[k].Exit == 0 {
					okReaders = false
				}
			}
		}
		es, _ := os.ReadDir(filepath.Join(repo.Dir, "plz-out", "gen", "p", "d"))
		dr.FinalDir = fmt.Sprintf("%d entries", len(es))
		for _, r := range res {
			if r.Exit != 0 {
				o := r.Output
				if len(o) > 400 {
					o = o[len(o)-400:]
				}
				dr.Outputs = append(dr.Outputs, o)
			}
		}
		c.Oracle()
		failed := res[0].Exit != 0 || res[1].Exit != 0
		outcome := "fine"
		switch {
		case control && (failed || !okReaders):
			outcome = "CONTROL FAILED"
			c.Fail("same-dir-filegroup-in-two-processes-fails", fmt.Sprintf("two processes building the SAME directory filegroup (one flock): exits %v, %v", dr.Exits, dr.Readers), dr)
		case failed:
			outcome = "an invocation failed"
			known := false
			for _, o := range dr.Outputs {
				known = known || strings.Contains(o, "directory not empty") || strings.Contains(o, "no such file or directory")
			}
			if known {
				c.Fail("shared-dir-filegroups-race-invocation-fails", fmt.Sprintf("exits %v (second process started %d ms after the first): %s", dr.Exits, dr.DelayMs, strings.Join(dr.Outputs, " | ")), dr)
			} else {
				c.Fail("invocation-failed", fmt.Sprintf("shared directory filegroups: exits %v: %s", dr.Exits, strings.Join(dr.Outputs, " | ")), dr)
			}
		case !okReaders:
			outcome = "dependent built from a partial directory"
			c.Fail("shared-dir-filegroups-race-dependent-built-from-partial-dir", fmt.Sprintf("both exit 0 but %v (second process started %d ms after the first)", dr.Readers, dr.DelayMs), dr)
		case len(es) != nfiles:
			outcome = "final directory differs"
			c.Fail("shared-dir-filegroups-race-final-dir-differs", fmt.Sprintf("both exit 0, readers complete, but plz-out/gen/p/d has %d entries, not %d", len(es), nfiles), dr)
		}
		if outcome != "fine" && !control {
			hits++
		}
		if control {
			c.Hist("shared-dir-filegroups-control(same filegroup)", outcome)
		} else {
			c.Hist("shared-dir-filegroups-race", outcome)
		}
		if failed {
			// a failed filegroup removes its outputs; start the next trial from a complete stale directory
			runPlz(repo, 2, false, []string{"//p:fga"}, 120*time.Second)
		}
	}
	c.Note("shared-directory filegroup stress: %d files, %d trials, single replace %d ms, race hit %d times", nfiles, trials, single.Milliseconds(), hits)
	os.RemoveAll(repo.Dir)
	os.Remove(repo.LogPath)
}

func main() {
	lib.Main("C31", func(c *lib.Ctx) {
		c.Model("From PlzV Require Import Model.C31.", "C31.case", "C31.check")
		c.Rule("generated repositories (1-2 packages, 3-11 targets: genrules cat/sleep+cat/const with 1-2 outs, filegroups, text_files; shapes: random DAG, chain, " +
			"everybody builds the same target, everybody builds everything, two filegroups sharing one output file, a first single build of a subset) built by 2-4 REAL " +
			"simultaneous `plz build` processes (start offsets 0-200 ms, -n 1/2/4, shared directory cache or none) over overlapping target subsets, then compared with one " +
			"clean build of the union in a fresh directory; a few cases contain a failing command (correspondence only, --keep_going); " +
			"shapes warm-wipe / warm-wipe-all: a first build fills the shared cache (or there is none), plz-out is removed, then the concurrent invocations " +
			"(with the cache every command of the first build is retrieved - the action log must still show it once -, without it runs again). " +
			"Then an oracle-only stress: two filegroups of one package with the same source DIRECTORY (400/1500 files) over a stale output directory, their " +
			"readers built by two processes started a random fraction of the single-process replace time apart, last trial = control with the same filegroup. " +
			"Critical-section streams (oracle + model case CaseCrit; crit.go): slow-collect = one genrule whose outputs take long to hash and move (a 1 GiB sparse file / a directory of 4 sparse " +
			"256 MiB files and 600 small ones), 2-3 invocations of it, the later ones started once the first holds the target lock and runs the command (they wait on the lock): all exit 0, outputs " +
			"as expected, the command ran once; copied-filegroup = a filegroup with binary = True (copied) over a directory of 12000 files / 1500 single files / one 32 MiB file, 3 invocations from " +
			"an empty plz-out, the later ones started when the first (at niceness 19) has populated 3-20 % of the output, or staggered by random fractions of a single build: all exit 0, output tree = source tree; " +
			"variant shared-file (model case CaseShared): 4 DIFFERENT binary filegroups re-exporting one 256 MiB source file (one output path, four target locks), 3-4 invocations building one each, " +
			"the later ones started together when the first (at niceness 10) has opened its temporary file next to the destination, the first being held (SIGSTOP) from that moment until " +
			"the others have finished, so that their whole copy falls inside the first one's: all exit 0, the output directory holds exactly the file. " +
			"distinct = distinct (repository, requests); non-trivial = at least one command is in the closure of two or more of the concurrent invocations")
		base := e2e.Scratch("c31")
		defer os.RemoveAll(base)

		var creplay critRace
		if c.ReadReplay(&creplay) && creplay.Stream != "" {
			replayCrit(c, base, &creplay)
			return
		}
		var replay scenario
		if c.ReadReplay(&replay) && replay.Spec != nil {
			for k := 0; k < 5; k++ {
				oc := runScenario(fmt.Sprintf("%s/r%d", base, k), replay)
				judge(c, &oc)
			}
			return
		}

		n := c.Scale(10, 400)
		// VERIF_C31_STREAMS=crit: only the critical-section streams (for working on them; bin/check never sets it)
		// VERIF_C31_STREAMS=shared: only the shared-file variant of the copied-filegroup stream
		sharedOnly := os.Getenv("VERIF_C31_STREAMS") == "shared"
		critOnly := os.Getenv("VERIF_C31_STREAMS") == "crit" || sharedOnly
		if critOnly {
			n = 0
		}
		workers := 8
		scs := make([]scenario, n)
		for i := range scs {
			scs[i] = genScenario(c.Rng.Fork(), i)
		}
		ocs := make([]outcome, n)
		var wg sync.WaitGroup
		// the slow-collect stream runs beside the scenarios (its waiters block on a lock for about a second)
		var slow []*critRace
		wg.Add(1)
		tStart := time.Now()
		var slowWall time.Duration
		go func() {
			defer wg.Done()
			if !sharedOnly {
				slow = runSlowStreams(base+"/crit", c.Thor)
			}
			slowWall = time.Since(tStart)
		}()
		sem := make(chan struct{}, workers)
		for i := 0; i < n; i++ {
			wg.Add(1)
			sem <- struct{}{}
			go func(i int) {
				defer wg.Done()
				defer func() { <-sem }()
				ocs[i] = runScenario(fmt.Sprintf("%s/s%d", base, i), scs[i])
			}(i)
		}
		wg.Wait()
		for i := range ocs {
			judge(c, &ocs[i])
		}
		for _, cr := range slow {
			cr.report(c)
		}
		// after the scenarios, alone on the machine as far as this check is concerned
		tScen := time.Since(tStart)
		fgs := runFilegroupStreams(c, base+"/crit")
		for _, cr := range fgs {
			cr.report(c)
		}
		tFg := time.Since(tStart) - tScen
		c.Note("critical-section streams: slow-collect %d trials (beside the scenarios, %d ms), copied-filegroup %d trials (%d ms); scenarios %d ms",
			len(slow), slowWall.Milliseconds(), len(fgs), tFg.Milliseconds(), tScen.Milliseconds())
		if !critOnly {
			runDirRaces(c, base+"/dirrace", c.Scale(4, 30), c.Scale(400, 1500))
		}
	})
}
