// C31, critical-section streams: does the per-target build lock cover the WHOLE section
// [prepare the temporary directory .. outputs moved and recorded], for every kind of target?
//
// Two workloads in which a second invocation that is not kept out of the section destroys the first one's
// work, with the race window widened so that this is seen on (nearly) every trial:
//
//   slow-collect      a genrule whose outputs take long to COLLECT (hash + move out of the temporary directory):
//                     a 1 GiB sparse file, or a directory of sparse files plus many small ones.  Invocation A is
//                     started; as soon as A holds the target lock and its command runs (the temporary directory
//                     holds the linked source), 1-2 more invocations of the same target are started, which wait
//                     on the lock.  If the lock is released before the outputs are collected a waiter wakes up,
//                     finds no record, and prepareDirectories() removes the temporary directory under A.
//   copied-filegroup  a filegroup with binary = True (sources are COPIED, not linked) over a directory of thousands
//                     of files / over many single files / over one large file, built by 3 staggered invocations
//                     from an empty plz-out.  If filegroups do not take the lock the later invocation hashes the
//                     partial output directory, finds it different and removes it under the earlier one.
//
//                     Variant shared-file: 4 DIFFERENT filegroups (binary = True) re-export ONE large source file - one
//                     output path, four target locks; 3-4 invocations build one each.  The first is started at niceness
//                     10; when its temporary file appears next to the destination it is held (SIGSTOP) and the others
//                     are started; it is released when they have finished.  What keeps them apart is not a lock but
//                     fs.WriteFile's private temporary name (Model/C31_TempFile.v; case CaseShared).
//
// Oracle (model independent): every invocation exits 0, the final outputs equal the expected ones (= what a
// solo build produces: computed from the sources), and the command of the target ran exactly ONCE (a waiter
// that was kept out until the record existed reuses the outputs - Proof/C31.v at_most_once).  Interference is
// also looked for directly in the output of the invocations ("failed to create output", "failed to move
// output", "no such file or directory", "directory not empty", "file exists").
//
// Model side: every trial is a case `CaseCrit filegroup? invocations interfered?`; Model/C31_Protocol.v runs
// the step list that gotrans regenerates from buildTarget (per target kind: where the lock is taken, where it
// is released relative to StoreTargetMetadata / moveOutputs) and must not claim exclusion when interference
// was observed.
package main

import (
	"crypto/sha1"
	"fmt"
	"os"
	"path/filepath"
	"sort"
	"strings"
	"sync"
	"sync/atomic"
	"syscall"
	"time"

	"verifharness/e2e"
	"verifharness/lib"
)

type critRace struct {
	Stream      string   `json:"stream"` // slow-collect | copied-filegroup
	Variant     string   `json:"variant"`
	Trial       int      `json:"trial"`
	Files       int      `json:"files,omitempty"`
	Targets     int      `json:"distinct_targets_with_one_output,omitempty"`
	FirstHeld   bool     `json:"first_invocation_held_while_the_others_ran,omitempty"`
	Invocations int      `json:"invocations"`
	Build       string   `json:"build_file"`
	Label       string   `json:"label"`
	DelaysMs    []int    `json:"delays_ms"`
	SingleMs    int      `json:"single_build_ms,omitempty"`
	StartAtPct  []int    `json:"start_at_percent_of_first,omitempty"`
	WallMs      []int    `json:"invocation_wall_ms,omitempty"`
	Exits       []int    `json:"exits"`
	Outputs     []string `json:"outputs,omitempty"`
	Log         []string `json:"action_log,omitempty"`
	Final       string   `json:"final_outputs"`
	Interfered  []string `json:"interference_seen,omitempty"`
	problems    []critProblem
}

type critProblem struct{ class, what string }

// sharedQuickKiB: size of the file of the shared-file variant in the quick tier
const sharedQuickKiB = 262144

const critConfig = "[build]\npath = /usr/local/bin:/usr/bin:/bin\n[cache]\ndir = \n[display]\nupdatetitle = false\n"

func writeFiles(dir string, files map[string]string) {
	for rel, content := range files {
		p := filepath.Join(dir, rel)
		if err := os.MkdirAll(filepath.Dir(p), 0o755); err != nil {
			panic(err)
		}
		if err := os.WriteFile(p, []byte(content), 0o644); err != nil {
			panic(err)
		}
	}
}

var interferencePatterns = []string{"failed to create output", "failed to move output", "no such file or directory",
	"No such file or directory", "directory not empty", "file exists", "error moving outputs"}

func interference(outs []string) []string {
	seen := map[string]bool{}
	for _, o := range outs {
		for _, p := range interferencePatterns {
			if strings.Contains(o, p) {
				seen[strings.ToLower(p)] = true
			}
		}
	}
	return lib.SortedKeys(seen)
}

func tailOf(s string, n int) string {
	if len(s) > n {
		return s[len(s)-n:]
	}
	return s
}

// judgeCrit: the oracle of one trial. wantRuns < 0: the target has no command (filegroup).
func (cr *critRace) judge(res []invRes, wantFinal, gotFinal string, wantRuns int) {
	for _, r := range res {
		cr.WallMs = append(cr.WallMs, int(r.endMs-r.startMs))
		cr.Exits = append(cr.Exits, r.Exit)
		if r.Exit != 0 {
			cr.Outputs = append(cr.Outputs, tailOf(r.Output, 500))
		}
	}
	cr.Final = gotFinal
	cr.Interfered = interference(cr.Outputs)
	kind := "target"
	if cr.Stream == "copied-filegroup" {
		kind = "filegroup"
	}
	destroyed := "concurrent-invocation-destroys-" + kind + "-being-built"
	if cr.Variant == "shared-file" {
		// different targets, different locks, one output path: what they share is the directory entry of the
		// destination and of whatever temporary file the copy goes through
		destroyed = "filegroups-sharing-an-output-file-clobber-each-other"
	}
	for i, r := range res {
		switch {
		case r.TimedOut:
			cr.problems = append(cr.problems, critProblem{"invocation-hung", fmt.Sprintf("%s/%s: invocation %d of %d did not finish in 120 s", cr.Stream, cr.Variant, i, len(res))})
		case r.Exit != 0 && len(cr.Interfered) > 0:
			cr.problems = append(cr.problems, critProblem{destroyed,
				fmt.Sprintf("%s/%s: invocation %d of %d of %s exits %d, its work was removed under it by another invocation (%s): %s",
					cr.Stream, cr.Variant, i, len(res), cr.Label, r.Exit, strings.Join(cr.Interfered, ", "), tailOf(r.Output, 300))})
		case r.Exit != 0:
			cr.problems = append(cr.problems, critProblem{"invocation-failed", fmt.Sprintf("%s/%s: invocation %d of %d of %s exits %d: %s",
				cr.Stream, cr.Variant, i, len(res), cr.Label, r.Exit, tailOf(r.Output, 300))})
		}
	}
	if gotFinal != wantFinal {
		cr.problems = append(cr.problems, critProblem{"output-differs-from-clean", fmt.Sprintf("%s/%s: after %d invocations of %s (exits %v) the outputs are [%s], a solo build gives [%s]",
			cr.Stream, cr.Variant, len(res), cr.Label, cr.Exits, gotFinal, wantFinal)})
	}
	if wantRuns >= 0 {
		n := 0
		for _, l := range cr.Log {
			if l == cr.Label {
				n++
			}
		}
		if n != wantRuns {
			cr.problems = append(cr.problems, critProblem{"waiter-rebuilds-target-built-under-the-lock", fmt.Sprintf("%s/%s: the command of %s ran %d times, not %d: an invocation that waited on the target lock "+
				"was let in before the outputs and their record were in place (exits %v)", cr.Stream, cr.Variant, cr.Label, n, wantRuns, cr.Exits)})
		}
	}
}

// ---------------------------------------------------------------------------------------------
// slow-collect

func slowBuildFile(variant, logPath string) string {
	log := "echo //p:slow >> " + logPath
	switch variant {
	case "sparse-1g":
		return "genrule(\n    name = \"slow\",\n    srcs = [\"src.txt\"],\n    outs = [\"slow.bin\"],\n" +
			"    cmd = \"" + log + " && sleep 1.2 && cat $SRCS > $OUT && truncate -s 1G $OUT\",\n)\n"
	case "sparse-dir":
		return "genrule(\n    name = \"slow\",\n    srcs = [\"src.txt\"],\n    outs = [\"slow.d\"],\n" +
			"    cmd = \"" + log + " && sleep 1.2 && mkdir $OUT && for i in 1 2 3 4; do cat $SRCS > $OUT/big$i && truncate -s 256M $OUT/big$i; done && " +
			"for i in $(seq 1 600); do echo $i > $OUT/f$i; done\",\n)\n"
	}
	panic(variant)
}

// describeSlow: what plz-out/gen/p holds for the target, independent of timestamps.
func describeSlow(repoDir, variant string) string {
	gen := filepath.Join(repoDir, "plz-out", "gen", "p")
	head := func(p string) string {
		f, err := os.Open(p)
		if err != nil {
			return "absent"
		}
		defer f.Close()
		st, _ := f.Stat()
		buf := make([]byte, 12)
		n, _ := f.Read(buf)
		return fmt.Sprintf("%d bytes starting %q", st.Size(), string(buf[:n]))
	}
	switch variant {
	case "sparse-1g":
		return "slow.bin: " + head(filepath.Join(gen, "slow.bin"))
	default:
		es, err := os.ReadDir(filepath.Join(gen, "slow.d"))
		if err != nil {
			return "slow.d: absent"
		}
		small := 0
		for _, e := range es {
			if strings.HasPrefix(e.Name(), "f") {
				small++
			}
		}
		return fmt.Sprintf("slow.d: %d entries, %d small files, big1: %s, big4: %s", len(es), small, head(filepath.Join(gen, "slow.d", "big1")), head(filepath.Join(gen, "slow.d", "big4")))
	}
}

func wantSlow(variant string) string {
	switch variant {
	case "sparse-1g":
		return fmt.Sprintf("slow.bin: %d bytes starting %q", 1<<30, "slow source\n")
	default:
		h := fmt.Sprintf("%d bytes starting %q", 256<<20, "slow source\n")
		return fmt.Sprintf("slow.d: 604 entries, 600 small files, big1: %s, big4: %s", h, h)
	}
}

func runSlowCollect(base, variant string, trial, nInv int) *critRace {
	repo := e2e.NewRepo(base, fmt.Sprintf("slow-%s-%d", variant, trial))
	defer os.RemoveAll(repo.Dir)
	defer os.Remove(repo.LogPath)
	os.Remove(repo.LogPath)
	build := slowBuildFile(variant, repo.LogPath)
	writeFiles(repo.Dir, map[string]string{".plzconfig": critConfig, "p/BUILD": build, "p/src.txt": "slow source\n"})
	cr := &critRace{Stream: "slow-collect", Variant: variant, Trial: trial, Invocations: nInv, Build: build, Label: "//p:slow"}
	res := make([]invRes, nInv)
	var wg sync.WaitGroup
	wg.Add(1)
	t0 := time.Now()
	go func() { defer wg.Done(); res[0] = runPlz(repo, 2, false, []string{"//p:slow"}, 120*time.Second) }()
	// A holds the target lock and is about to run / runs the command once the source is linked into the temporary directory
	linked := filepath.Join(repo.Dir, "plz-out", "tmp", "p", "slow._build", "p", "src.txt")
	for i := 0; i < 2000; i++ {
		if _, err := os.Lstat(linked); err == nil {
			break
		}
		time.Sleep(5 * time.Millisecond)
	}
	cr.DelaysMs = []int{0}
	for k := 1; k < nInv; k++ {
		cr.DelaysMs = append(cr.DelaysMs, int(time.Since(t0).Milliseconds()))
		wg.Add(1)
		go func(k int) { defer wg.Done(); res[k] = runPlz(repo, 2, false, []string{"//p:slow"}, 120*time.Second) }(k)
		time.Sleep(100 * time.Millisecond)
	}
	wg.Wait()
	cr.Log = repo.ReadLog()
	cr.judge(res, wantSlow(variant), describeSlow(repo.Dir, variant), 1)
	return cr
}

// ---------------------------------------------------------------------------------------------
// copied-filegroup

func fgSources(variant string, n int) (map[string]string, string) {
	files := map[string]string{}
	switch variant {
	case "directory":
		for i := 0; i < n; i++ {
			files[fmt.Sprintf("p/data/d%02d/f%04d", i%40, i)] = fmt.Sprintf("%d\n", i)
		}
		return files, "filegroup(\n    name = \"fg\",\n    srcs = [\"data\"],\n    binary = True,\n)\n"
	case "many-files":
		var names []string
		for i := 0; i < n; i++ {
			nm := fmt.Sprintf("data/f%04d", i)
			files["p/"+nm] = fmt.Sprintf("%d\n", i)
			names = append(names, fmt.Sprintf("%q", nm))
		}
		return files, "filegroup(\n    name = \"fg\",\n    srcs = [" + strings.Join(names, ", ") + "],\n    binary = True,\n)\n"
	case "single-file":
		files["p/data/big"] = strings.Repeat("0123456789abcdef", n*64) // n KiB
		return files, "filegroup(\n    name = \"fg\",\n    srcs = [\"data/big\"],\n    binary = True,\n)\n"
	case "shared-file":
		// sharedTargets DIFFERENT filegroups re-export the same large file: one output path, as many target locks
		files["p/data/big"] = strings.Repeat("0123456789abcdef", n*64) // n KiB
		build := ""
		for k := 0; k < sharedTargets; k++ {
			build += fmt.Sprintf("filegroup(\n    name = \"fg%d\",\n    srcs = [\"data/big\"],\n    binary = True,\n)\n\n", k)
		}
		return files, build
	}
	panic(variant)
}

// treeDigest: relative path -> content, as one string (small files) / size (large ones)
func treeDigest(root string) string {
	var lines []string
	filepath.Walk(root, func(path string, info os.FileInfo, err error) error {
		if err != nil || info.IsDir() {
			return nil
		}
		rel, _ := filepath.Rel(root, path)
		if info.Size() > 64 {
			lines = append(lines, fmt.Sprintf("%s:%d bytes", rel, info.Size()))
		} else {
			data, _ := os.ReadFile(path)
			lines = append(lines, rel+":"+strings.TrimSpace(string(data)))
		}
		return nil
	})
	sort.Strings(lines)
	return fmt.Sprintf("%d files, digest %s", len(lines), fmt.Sprintf("%x", sha1.Sum([]byte(strings.Join(lines, "\n")))))
}

// sharedTargets: how many filegroups of the shared-file variant write the one output file
const sharedTargets = 4

type fgRepo struct {
	repo    *e2e.Repo
	variant string
	files   int
	build   string
	want    string
	single  time.Duration
}

func newFgRepo(base, variant string, n int) *fgRepo {
	repo := e2e.NewRepo(base, "fg-"+variant)
	files, build := fgSources(variant, n)
	files[".plzconfig"] = critConfig
	files["p/BUILD"] = build
	writeFiles(repo.Dir, files)
	return &fgRepo{repo: repo, variant: variant, files: n, build: build, want: treeDigest(filepath.Join(repo.Dir, "p", "data"))}
}

// labelOf: what invocation k builds - the one filegroup, or (shared-file) a filegroup of its own
func (f *fgRepo) labelOf(k int) string {
	if f.variant == "shared-file" {
		return fmt.Sprintf("//p:fg%d", k%sharedTargets)
	}
	return "//p:fg"
}

// progress: how far (percent) the first invocation has got with populating the filegroup's output
func (f *fgRepo) progress() int {
	es, err := os.ReadDir(filepath.Join(f.repo.Dir, "plz-out", "bin", "p", "data"))
	if err != nil {
		return 0
	}
	switch f.variant {
	case "directory":
		return len(es) * 100 / 40
	case "many-files":
		return len(es) * 100 / max(1, f.files)
	case "shared-file":
		// the first invocation has opened its temporary file next to the destination (whatever it is called)
		for _, e := range es {
			if strings.HasPrefix(e.Name(), "big") && e.Name() != "big" {
				return 100
			}
		}
	}
	return 0
}

// trial: invocation 0 starts at once; invocation k > 0 starts when invocation 0 has populated at[k] percent of the
// output (at != nil; invocation 0 then runs at niceness 19, so that the later ones arrive while it is part-way through
// whatever the load on the machine is), or delays[k] after invocation 0.
func (f *fgRepo) trial(c *lib.Ctx, trial, nInv int, delays []time.Duration, at []int) *critRace {
	f.repo.RemovePlzOut()
	cr := &critRace{Stream: "copied-filegroup", Variant: f.variant, Trial: trial, Files: f.files, Invocations: nInv, Build: f.build, Label: "//p:fg",
		SingleMs: int(f.single.Milliseconds()), StartAtPct: at}
	if f.variant == "shared-file" {
		cr.Label, cr.Targets = "", min(nInv, sharedTargets)
		for k := 0; k < nInv; k++ {
			cr.Label += f.labelOf(k) + " "
		}
		cr.Label = "one each of " + strings.TrimSpace(cr.Label)
	}
	res := make([]invRes, nInv)
	started := make([]int64, nInv)
	var wg sync.WaitGroup
	t0 := time.Now()
	firstDone := make(chan struct{})
	// shared-file: the first invocation is HELD (SIGSTOP) from the moment its temporary file is seen until the others
	// have finished - a scheduling delay like any other, which puts the others' whole copy inside the first one's
	var firstPgid atomic.Int64
	var holdOnce, releaseOnce sync.Once
	var others sync.WaitGroup
	hold := func() {
		holdOnce.Do(func() {
			if pg := firstPgid.Load(); pg > 0 && f.variant == "shared-file" {
				if syscall.Kill(-int(pg), syscall.SIGSTOP) == nil {
					cr.FirstHeld = true
				}
			}
		})
	}
	release := func() {
		releaseOnce.Do(func() {
			if pg := firstPgid.Load(); pg > 0 {
				syscall.Kill(-int(pg), syscall.SIGCONT)
			}
		})
	}
	defer release()
	if at != nil && f.variant == "shared-file" {
		others.Add(nInv - 1)
		go func() { others.Wait(); release() }()
	}
	for k := 0; k < nInv; k++ {
		wg.Add(1)
		go func(k int) {
			defer wg.Done()
			if k > 0 && at != nil {
			wait:
				for i := 0; i < 20000 && f.progress() < at[k]; i++ {
					select {
					case <-firstDone:
						break wait
					case <-time.After(3 * time.Millisecond):
					}
				}
			} else if k > 0 {
				time.Sleep(delays[k])
			}
			if k > 0 && at != nil && f.variant == "shared-file" {
				defer others.Done()
				if f.progress() >= at[k] {
					hold()
				}
			}
			started[k] = time.Since(t0).Milliseconds()
			niceness := 0
			if k == 0 && at != nil {
				niceness = 19
				if f.variant == "shared-file" {
					// one copy (and one hash) of a large file is little CPU time: at 19 on a very busy machine the first
					// invocation takes minutes over it; 10 keeps its copy several times longer than the others' start-up
					niceness = 10
				}
			}
			var started func(int)
			if k == 0 {
				started = func(pgid int) { firstPgid.Store(int64(pgid)) }
			}
			res[k] = runPlzCtl(f.repo, niceness, 2, false, []string{f.labelOf(k)}, 120*time.Second, started)
			if k == 0 {
				close(firstDone)
			}
		}(k)
	}
	wg.Wait()
	for k := range started {
		cr.DelaysMs = append(cr.DelaysMs, int(started[k]))
	}
	cr.judge(res, f.want, treeDigest(filepath.Join(f.repo.Dir, "plz-out", "bin", "p", "data")), -1)
	return cr
}

// ---------------------------------------------------------------------------------------------

func (cr *critRace) report(c *lib.Ctx) {
	interfered := false
	for _, p := range cr.problems {
		interfered = interfered || p.class != "invocation-hung"
	}
	key := fmt.Sprint(cr.Stream, cr.Variant, cr.Invocations, cr.Files, cr.DelaysMs)
	if cr.Variant == "shared-file" {
		c.Case(lib.App("CaseShared", lib.Nat(cr.Targets), lib.Nat(cr.Invocations), lib.Bool(interfered)), cr, key, cr.Invocations >= 2 && cr.Targets >= 2)
	} else {
		c.Case(lib.App("CaseCrit", lib.Bool(cr.Stream == "copied-filegroup"), lib.Nat(cr.Invocations), lib.Bool(interfered)), cr, key, cr.Invocations >= 2)
	}
	c.Oracle()
	outcome := "fine"
	for _, p := range cr.problems {
		c.Fail(p.class, p.what, cr)
		outcome = p.class
	}
	c.Hist("critical-section/"+cr.Stream+"/"+cr.Variant, outcome)
	c.HistN("critical-section/invocations", cr.Invocations)
}

// runSlowStreams can run beside the scenario stream: the waiters block on a lock, the window is about a second wide.
func runSlowStreams(base string, thorough bool) []*critRace {
	type job struct {
		variant string
		trial   int
		n       int
	}
	jobs := []job{{"sparse-1g", 0, 2}, {"sparse-dir", 0, 3}}
	if thorough {
		for t := 1; t < 6; t++ {
			jobs = append(jobs, job{"sparse-1g", t, 2 + t%2}, job{"sparse-dir", t, 2 + (t+1)%2})
		}
	}
	out := make([]*critRace, len(jobs))
	var wg sync.WaitGroup
	sem := make(chan struct{}, 2)
	for i, j := range jobs {
		wg.Add(1)
		sem <- struct{}{}
		go func(i int, j job) {
			defer wg.Done()
			defer func() { <-sem }()
			out[i] = runSlowCollect(base, j.variant, j.trial, j.n)
		}(i, j)
	}
	wg.Wait()
	return out
}

func runFilegroupStreams(c *lib.Ctx, base string) []*critRace {
	var out []*critRace
	type v struct {
		variant string
		n       int
		trials  int
	}
	vs := []v{{"directory", c.Scale(12000, 20000), c.Scale(2, 10)}, {"many-files", c.Scale(1500, 4000), c.Scale(1, 4)}, {"single-file", c.Scale(32768, 131072), c.Scale(1, 4)},
		{"shared-file", c.Scale(sharedQuickKiB, 524288), c.Scale(2, 8)}}
	for _, x := range vs {
		if os.Getenv("VERIF_C31_STREAMS") == "shared" && x.variant != "shared-file" {
			continue
		}
		f := newFgRepo(base, x.variant, x.n)
		// how long one process needs from start to finish (measured when a trial staggered in TIME needs it)
		calibrate := func() bool {
			if f.single > 0 {
				return true
			}
			f.repo.RemovePlzOut()
			t0 := time.Now()
			if r := runPlz(f.repo, 2, false, []string{"//p:fg"}, 120*time.Second); r.Exit != 0 {
				cr := &critRace{Stream: "copied-filegroup", Variant: x.variant, Files: x.n, Invocations: 1, Build: f.build, Label: "//p:fg"}
				cr.judge([]invRes{r}, f.want, treeDigest(filepath.Join(f.repo.Dir, "plz-out", "bin", "p", "data")), -1)
				out = append(out, cr)
				return false
			}
			f.single = time.Since(t0)
			return true
		}
		for t := 0; t < x.trials; t++ {
			if x.variant == "shared-file" {
				// DIFFERENT filegroups with the same output file, one invocation each: the later ones are started together when
				// the first (at niceness 10) has opened its temporary file; the first is held from then until they have
				// finished (trial()); every fourth trial: all at once, nobody held
				n := 3 + (t+1)%2
				if t%4 == 3 {
					out = append(out, f.trial(c, t, n, make([]time.Duration, n), nil))
				} else {
					at := make([]int, n)
					for k := 1; k < n; k++ {
						at[k] = 1
					}
					out = append(out, f.trial(c, t, n, nil, at))
				}
				continue
			}
			if x.variant != "single-file" && (t < 2 || t%2 == 0) {
				// the later invocations are started when the first (at a lower priority) has populated 3-6 % / 8-20 % of the output
				out = append(out, f.trial(c, t, 3, nil, []int{0, 3 + c.Rng.Intn(4), 8 + c.Rng.Intn(13)}))
				continue
			}
			// staggered in time: each later invocation starts a random 10-45 % of a single build after the previous one
			if !calibrate() {
				break
			}
			delays := []time.Duration{0}
			for k := 1; k < 3; k++ {
				frac := 100 + c.Rng.Intn(350)
				delays = append(delays, delays[k-1]+time.Duration(int64(f.single)*int64(frac)/1000))
			}
			out = append(out, f.trial(c, t, 3, delays, nil))
		}
		os.RemoveAll(f.repo.Dir)
		os.Remove(f.repo.LogPath)
	}
	return out
}

// replayCrit re-runs the stream of a failing input a few times.
func replayCrit(c *lib.Ctx, base string, in *critRace) {
	for k := 0; k < 3; k++ {
		switch in.Stream {
		case "slow-collect":
			runSlowCollect(base, in.Variant, k, max(2, in.Invocations)).report(c)
		case "copied-filegroup":
			f := newFgRepo(base, in.Variant, max(1, in.Files))
			if in.Variant == "shared-file" {
				n := max(2, in.Invocations)
				at := in.StartAtPct
				if len(at) != n {
					at = nil
				}
				f.trial(c, k, n, make([]time.Duration, n), at).report(c)
				os.RemoveAll(f.repo.Dir)
				os.Remove(f.repo.LogPath)
				continue
			}
			t0 := time.Now()
			runPlz(f.repo, 2, false, []string{"//p:fg"}, 120*time.Second)
			f.single = time.Since(t0)
			delays := []time.Duration{}
			for i := 0; i < max(2, in.Invocations); i++ {
				d := time.Duration(0)
				if i < len(in.DelaysMs) && in.SingleMs > 0 {
					d = time.Duration(int64(f.single) * int64(in.DelaysMs[i]) / int64(in.SingleMs))
				} else {
					d = time.Duration(i) * f.single / 4
				}
				delays = append(delays, d)
			}
			at := in.StartAtPct
			if len(at) != len(delays) {
				at = nil
			}
			f.trial(c, k, len(delays), delays, at).report(c)
			os.RemoveAll(f.repo.Dir)
			os.Remove(f.repo.LogPath)
		}
	}
}
