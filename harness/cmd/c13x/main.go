package main

import (
	"fmt"
	"os"
	"path/filepath"
	"time"

	gologging "gopkg.in/op/go-logging.v1"

	"github.com/thought-machine/please/src/cache"
	"github.com/thought-machine/please/src/core"
)

func main() {
	gologging.SetLevel(gologging.CRITICAL, "plz")
	dir, _ := os.MkdirTemp("", "c13-probe-")
	defer os.RemoveAll(dir)
	os.Chdir(dir)
	target := core.NewBuildTarget(core.NewBuildLabel("pkg", "t"))
	out := target.OutDir()
	os.MkdirAll(out, 0o755)
	os.WriteFile(filepath.Join(out, "a.txt"), []byte("aaa"), 0o644)
	st := filepath.Join(dir, "st")
	for _, rt := range []string{"cat " + st, "cat " + st + "; head -c 9216 /dev/zero", "cat " + st + "; head -c 200000 /dev/zero"} {
		c := cache.VerifNewCmdCache("cat > "+st, rt)
		c.Store(target, []byte("k"), []string{"a.txt"})
		done := make(chan bool, 1)
		go func() { done <- c.Retrieve(target, []byte("k"), nil) }()
		select {
		case h := <-done:
			fmt.Println(rt, "->", h)
		case <-time.After(5 * time.Second):
			fmt.Println(rt, "-> HANGS (no result after 5s)")
		}
	}
}
