// C29: the CAS-backed filesystem view (src/remote/fs). Implementation side of the correspondence
// (the real CASFileSystem over an in-memory CAS) + a model-independent property oracle (a reference
// resolver over the generated abstract tree, ReadDir paging checks, io/fs name contract checks,
// testing/fstest.TestFS).
package main

import (
	"context"
	"encoding/json"
	"errors"
	"fmt"
	"io"
	iofs "io/fs"
	"os"
	"os/exec"
	"path/filepath"
	"regexp"
	"sort"
	"strings"
	"testing/fstest"

	"verifharness/lib"

	"github.com/bazelbuild/remote-apis-sdks/go/pkg/client"
	"github.com/bazelbuild/remote-apis-sdks/go/pkg/digest"
	pb "github.com/bazelbuild/remote-apis/build/bazel/remote/execution/v2"
	"google.golang.org/protobuf/types/known/timestamppb"
	"google.golang.org/protobuf/types/known/wrapperspb"

	remotefs "github.com/thought-machine/please/src/remote/fs"
)

// ---------------------------------------------------------------------------------------------
// the abstract tree the generator produces (this is "the remote output tree")

type gfile struct {
	Name    string  `json:"name"`
	Content string  `json:"content"`
	InCAS   bool    `json:"in_cas"`
	Mode    *uint32 `json:"mode,omitempty"`
	Mtime   *int64  `json:"mtime,omitempty"`
}

type glink struct {
	Name   string  `json:"name"`
	Target string  `json:"target"`
	Mode   *uint32 `json:"mode,omitempty"`
}

type gdir struct {
	Name    string   `json:"name"`
	Dirs    []*gdir  `json:"dirs,omitempty"`
	Files   []*gfile `json:"files,omitempty"`
	Links   []*glink `json:"links,omitempty"`
	Mode    *uint32  `json:"mode,omitempty"`
	Mtime   *int64   `json:"mtime,omitempty"`
	Missing bool     `json:"missing,omitempty"` // referenced by its parent but absent from Tree.children
}

// ---------------------------------------------------------------------------------------------
// in-memory CAS

var errNoBlob = errors.New("c29: blob not in CAS")

type memCAS struct{ blobs map[digest.Digest][]byte }

func (m *memCAS) ReadBlob(_ context.Context, d digest.Digest) ([]byte, *client.MovedBytesMetadata, error) {
	b, ok := m.blobs[d]
	if !ok {
		return nil, nil, errNoBlob
	}
	return append([]byte{}, b...), nil, nil
}

// ---------------------------------------------------------------------------------------------
// abstract tree -> REAPI Tree; digests -> small ids for the model

type built struct {
	tree    *pb.Tree
	cas     *memCAS
	dirIDs  map[digest.Digest]int
	dirPBs  map[digest.Digest]*pb.Directory // only those present in the Tree
	dirList []digest.Digest                 // id order
	blobIDs map[digest.Digest]int
	blobs   []digest.Digest
	rootDg  digest.Digest
}

func props(mode *uint32, mtime *int64) *pb.NodeProperties {
	if mode == nil && mtime == nil {
		return nil
	}
	p := &pb.NodeProperties{}
	if mode != nil {
		p.UnixMode = wrapperspb.UInt32(*mode)
	}
	if mtime != nil {
		p.Mtime = &timestamppb.Timestamp{Seconds: *mtime}
	}
	return p
}

func (b *built) dirID(dg digest.Digest) int {
	if id, ok := b.dirIDs[dg]; ok {
		return id
	}
	id := len(b.dirList)
	b.dirIDs[dg] = id
	b.dirList = append(b.dirList, dg)
	return id
}

func (b *built) blobID(dg digest.Digest) int {
	if id, ok := b.blobIDs[dg]; ok {
		return id
	}
	id := len(b.blobs)
	b.blobIDs[dg] = id
	b.blobs = append(b.blobs, dg)
	return id
}

func (b *built) build(d *gdir) *pb.Directory {
	out := &pb.Directory{NodeProperties: props(d.Mode, d.Mtime)}
	for _, sub := range d.Dirs {
		p := b.build(sub)
		dg, err := digest.NewFromMessage(p)
		if err != nil {
			panic(err)
		}
		b.dirID(dg)
		if !sub.Missing {
			if _, ok := b.dirPBs[dg]; !ok {
				b.dirPBs[dg] = p
				b.tree.Children = append(b.tree.Children, p)
			}
		}
		out.Directories = append(out.Directories, &pb.DirectoryNode{Name: sub.Name, Digest: dg.ToProto()})
	}
	for _, f := range d.Files {
		dg := digest.NewFromBlob([]byte(f.Content))
		b.blobID(dg)
		if f.InCAS {
			b.cas.blobs[dg] = []byte(f.Content)
		}
		out.Files = append(out.Files, &pb.FileNode{Name: f.Name, Digest: dg.ToProto(), NodeProperties: props(f.Mode, f.Mtime)})
	}
	for _, l := range d.Links {
		out.Symlinks = append(out.Symlinks, &pb.SymlinkNode{Name: l.Name, Target: l.Target, NodeProperties: props(l.Mode, nil)})
	}
	return out
}

func buildTree(root *gdir) *built {
	b := &built{tree: &pb.Tree{}, cas: &memCAS{blobs: map[digest.Digest][]byte{}}, dirIDs: map[digest.Digest]int{},
		dirPBs: map[digest.Digest]*pb.Directory{}, blobIDs: map[digest.Digest]int{}}
	b.tree.Root = b.build(root)
	dg, err := digest.NewFromMessage(b.tree.Root)
	if err != nil {
		panic(err)
	}
	b.rootDg = dg
	b.dirID(dg)
	b.dirPBs[dg] = b.tree.Root
	return b
}

// ---- Coq printers

func coqProps(p *pb.NodeProperties) string {
	mode, mt := "None", "None"
	if p != nil && p.UnixMode != nil {
		mode = lib.Some(lib.N(uint64(p.UnixMode.Value)))
	}
	if p != nil && p.Mtime != nil {
		mt = lib.Some(lib.Z(p.Mtime.AsTime().Unix()))
	}
	return lib.Pair(mode, mt)
}

func (b *built) coqDir(d *pb.Directory) string {
	ds, fs, ls := []string{}, []string{}, []string{}
	for _, x := range d.Directories {
		ds = append(ds, lib.App("mk_dnode", lib.Str(x.Name), lib.N(uint64(b.dirIDs[digest.NewFromProtoUnvalidated(x.Digest)]))))
	}
	for _, x := range d.Files {
		fs = append(fs, lib.App("mk_fnode", lib.Str(x.Name), lib.N(uint64(b.blobIDs[digest.NewFromProtoUnvalidated(x.Digest)])),
			lib.Z(x.Digest.SizeBytes), coqProps(x.NodeProperties)))
	}
	for _, x := range d.Symlinks {
		ls = append(ls, lib.App("mk_lnode", lib.Str(x.Name), lib.Str(x.Target), coqProps(x.NodeProperties)))
	}
	return lib.App("mk_mdir", lib.List(ds), lib.List(fs), lib.List(ls), coqProps(d.NodeProperties))
}

func (b *built) coqTree() string {
	dirs := []string{}
	for id, dg := range b.dirList {
		if p, ok := b.dirPBs[dg]; ok {
			dirs = append(dirs, lib.Pair(lib.N(uint64(id)), b.coqDir(p)))
		}
	}
	blobs := []string{}
	for id, dg := range b.blobs {
		if c, ok := b.cas.blobs[dg]; ok {
			blobs = append(blobs, lib.Pair(lib.N(uint64(id)), lib.Str(string(c))))
		}
	}
	return lib.App("mk_tree", b.coqDir(b.tree.Root), lib.N(uint64(b.dirIDs[b.rootDg])), lib.List(dirs), lib.List(blobs))
}

// ---------------------------------------------------------------------------------------------
// observing the implementation

type obsInfo struct {
	Name  string `json:"name"`
	Size  int64  `json:"size"`
	Mode  uint32 `json:"mode"`
	Mtime *int64 `json:"mtime,omitempty"`
}

func infoOf(i iofs.FileInfo) obsInfo {
	o := obsInfo{Name: i.Name(), Size: i.Size(), Mode: uint32(i.Mode())}
	if !i.ModTime().IsZero() {
		t := i.ModTime().Unix()
		o.Mtime = &t
	}
	return o
}

func (o obsInfo) coq() string {
	mt := "None"
	if o.Mtime != nil {
		mt = lib.Some(lib.Z(*o.Mtime))
	}
	return lib.App("mk_info", lib.Str(o.Name), lib.Z(o.Size), lib.N(uint64(o.Mode)), mt)
}

func coqInfos(l []obsInfo) string {
	out := make([]string, len(l))
	for i, x := range l {
		out[i] = x.coq()
	}
	return lib.List(out)
}

func errClass(err error) string {
	switch {
	case errors.Is(err, os.ErrNotExist):
		return "ENotExist"
	case errors.Is(err, errNoBlob):
		return "EBlob"
	case strings.Contains(err.Error(), "symlink target was absolute"):
		return "EAbs"
	case strings.Contains(err.Error(), "too many levels of symbolic links"):
		return "ELoop"
	}
	return "EOther"
}

type obsOpen struct {
	Kind    string    `json:"kind"` // file dir err panic
	Err     string    `json:"err,omitempty"`
	Info    obsInfo   `json:"info"`
	Content string    `json:"content,omitempty"`
	List    []obsInfo `json:"list,omitempty"`
	ListPan bool      `json:"list_panicked,omitempty"`
	What    string    `json:"what,omitempty"`
}

func guard(f func()) (panicked bool, what string) {
	defer func() {
		if r := recover(); r != nil {
			panicked, what = true, fmt.Sprint(r)
		}
	}()
	f()
	return
}

func entriesOf(es []iofs.DirEntry) []obsInfo {
	out := []obsInfo{}
	for _, e := range es {
		i, err := e.Info()
		if err != nil {
			panic("DirEntry.Info failed: " + err.Error())
		}
		if e.Name() != i.Name() || e.Type() != i.Mode().Type() || e.IsDir() != i.IsDir() {
			panic("DirEntry disagrees with its own Info")
		}
		out = append(out, infoOf(i))
	}
	return out
}

func doOpen(fsys *remotefs.CASFileSystem, name string) (o obsOpen) {
	p, what := guard(func() {
		f, err := fsys.Open(name)
		if err != nil {
			o = obsOpen{Kind: "err", Err: errClass(err), What: err.Error()}
			return
		}
		defer f.Close()
		st, err := f.Stat()
		if err != nil {
			panic("File.Stat failed: " + err.Error())
		}
		o.Info = infoOf(st)
		if rd, ok := f.(iofs.ReadDirFile); ok && st.IsDir() {
			o.Kind = "dir"
			lp, lwhat := guard(func() {
				es, err := rd.ReadDir(-1)
				if err != nil {
					panic("ReadDir(-1) failed: " + err.Error())
				}
				o.List = entriesOf(es)
			})
			if lp {
				o.ListPan, o.What = true, lwhat
				if !strings.Contains(lwhat, "nil pointer") {
					panic(lwhat)
				}
			}
			return
		}
		o.Kind = "file"
		data, err := io.ReadAll(f)
		if err != nil {
			panic("ReadAll failed: " + err.Error())
		}
		o.Content = string(data)
	})
	if p {
		return obsOpen{Kind: "panic", What: what}
	}
	return o
}

func (o obsOpen) coq() string {
	switch o.Kind {
	case "err":
		return lib.App("Err", o.Err)
	case "panic":
		return "Panic"
	case "file":
		return lib.App("Ok", lib.App("OFile", o.Info.coq(), lib.Str(o.Content)))
	}
	l := "Panic"
	if !o.ListPan {
		l = lib.App("Ok", coqInfos(o.List))
	}
	return lib.App("Ok", lib.App("ODir", o.Info.coq(), l))
}

type obsStat struct {
	Kind string  `json:"kind"` // ok err panic
	Err  string  `json:"err,omitempty"`
	Info obsInfo `json:"info"`
	What string  `json:"what,omitempty"`
}

func doStat(fsys *remotefs.CASFileSystem, name string) (o obsStat) {
	p, what := guard(func() {
		i, err := fsys.Stat(name)
		if err != nil {
			o = obsStat{Kind: "err", Err: errClass(err), What: err.Error()}
			return
		}
		o = obsStat{Kind: "ok", Info: infoOf(i)}
	})
	if p {
		return obsStat{Kind: "panic", What: what}
	}
	return o
}

func (o obsStat) coq() string {
	switch o.Kind {
	case "err":
		return lib.App("Err", o.Err)
	case "panic":
		return "Panic"
	}
	return lib.App("Ok", o.Info.coq())
}

type page struct {
	Entries []obsInfo `json:"entries"`
	EOF     bool      `json:"eof"`
}

// doReadDir opens name (must be a directory) and issues ReadDir(n) for each n in ns.
func doReadDir(fsys *remotefs.CASFileSystem, name string, ns []int) (pages []page, ok bool, panicked bool) {
	p, _ := guard(func() {
		f, err := fsys.Open(name)
		if err != nil {
			return
		}
		rd, isDir := f.(iofs.ReadDirFile)
		if !isDir {
			return
		}
		ok = true
		for _, n := range ns {
			es, err := rd.ReadDir(n)
			if err != nil && err != io.EOF {
				panic("ReadDir: unexpected error " + err.Error())
			}
			pages = append(pages, page{Entries: entriesOf(es), EOF: err == io.EOF})
		}
	})
	return pages, ok, p
}

// ---------------------------------------------------------------------------------------------
// the reference: a resolver over the abstract tree, written without looking at the model.
// It walks real directories component by component. `plain` is false as soon as the walk needs
// something the property does not pin down (a symlink in a non-final position; `..` after a
// component that is not a directory), in which case nothing is compared.

type refNode struct {
	kind string // file dir link none
	d    *gdir
	f    *gfile
	l    *glink
}

type ref struct{ root *gdir }

func lookupIn(d *gdir, name string) refNode {
	for _, x := range d.Dirs {
		if x.Name == name {
			return refNode{kind: "dir", d: x}
		}
	}
	for _, x := range d.Files {
		if x.Name == name {
			return refNode{kind: "file", f: x}
		}
	}
	for _, x := range d.Links {
		if x.Name == name {
			return refNode{kind: "link", l: x}
		}
	}
	return refNode{kind: "none"}
}

// walk resolves comps starting in the directory stack (root first). followLeft is the number of
// symlinks that may still be followed. Result kinds: file dir link none abs loop.
func (r *ref) walk(stack []*gdir, comps []string, followFinal bool, followLeft int) (n refNode, plain bool) {
	return r.walkSeen(stack, comps, followFinal, followLeft, map[*glink]bool{})
}

// walkSeen: seen holds the links already followed; meeting one again is a symlink loop ("loop", must be an
// error). A chain of more than followLeft DISTINCT links is "long": POSIX gives ELOOP beyond 40, the property
// does not pin it down.
func (r *ref) walkSeen(stack []*gdir, comps []string, followFinal bool, followLeft int, seen map[*glink]bool) (n refNode, plain bool) {
	stack = append([]*gdir{}, stack...)
	cur := refNode{kind: "dir", d: stack[len(stack)-1]}
	for i, c := range comps {
		last := i == len(comps)-1
		if cur.kind != "dir" {
			// descending below a file / a missing entry: there is certainly no such node when a real name
			// follows; "f/", "f/." and "f/.." are not pinned down (the view cleans them lexically)
			for _, rest := range comps[i:] {
				if rest == ".." {
					return refNode{kind: "none"}, false
				}
			}
			for _, rest := range comps[i:] {
				if rest != "" && rest != "." {
					return refNode{kind: "none"}, true
				}
			}
			return refNode{kind: "none"}, false
		}
		switch c {
		case "", ".":
			continue
		case "..":
			if len(stack) == 1 {
				return refNode{kind: "none"}, true // leaves the tree
			}
			stack = stack[:len(stack)-1]
			cur = refNode{kind: "dir", d: stack[len(stack)-1]}
			continue
		}
		nx := lookupIn(stack[len(stack)-1], c)
		switch nx.kind {
		case "dir":
			stack = append(stack, nx.d)
			cur = nx
		case "link":
			if !last {
				return refNode{kind: "none"}, false // path through a symlink: not pinned down
			}
			if !followFinal {
				return nx, true
			}
			if strings.HasPrefix(nx.l.Target, "/") {
				return refNode{kind: "abs"}, true
			}
			if seen[nx.l] {
				return refNode{kind: "loop"}, true
			}
			if followLeft == 0 {
				return refNode{kind: "long"}, false
			}
			seen[nx.l] = true
			return r.walkSeen(stack, strings.Split(nx.l.Target, "/"), true, followLeft-1, seen)
		default:
			cur = nx
		}
	}
	return cur, true
}

func modeOf(base uint32, m *uint32) uint32 {
	if m != nil {
		return base | *m
	}
	return base
}

func wantInfo(n refNode, name string) obsInfo {
	switch n.kind {
	case "file":
		return obsInfo{Name: n.f.Name, Size: int64(len(n.f.Content)), Mode: modeOf(0, n.f.Mode), Mtime: n.f.Mtime}
	case "dir":
		return obsInfo{Name: name, Size: 0, Mode: modeOf(uint32(iofs.ModeDir), n.d.Mode), Mtime: n.d.Mtime}
	case "link":
		return obsInfo{Name: n.l.Name, Size: 0, Mode: modeOf(uint32(iofs.ModeSymlink), n.l.Mode)}
	}
	return obsInfo{}
}

func sameInfo(a, b obsInfo) bool {
	if a.Name != b.Name || a.Size != b.Size || a.Mode != b.Mode || (a.Mtime == nil) != (b.Mtime == nil) {
		return false
	}
	return a.Mtime == nil || *a.Mtime == *b.Mtime
}

func wantListing(d *gdir) map[string]obsInfo {
	out := map[string]obsInfo{}
	for _, x := range d.Dirs {
		out[x.Name] = wantInfo(refNode{kind: "dir", d: x}, x.Name)
	}
	for _, x := range d.Files {
		out[x.Name] = wantInfo(refNode{kind: "file", f: x}, "")
	}
	for _, x := range d.Links {
		out[x.Name] = wantInfo(refNode{kind: "link", l: x}, "")
	}
	return out
}

// ---------------------------------------------------------------------------------------------
// generator

var namePool = []string{"a", "b", "c", "d", "e", "f", "g", "lib", "x.go", "out"}

func optMode(r *lib.Rng, choices []uint32) *uint32 {
	if r.Chance(1, 3) {
		return nil
	}
	m := lib.Pick(r, choices)
	return &m
}

func optTime(r *lib.Rng) *int64 {
	if r.Chance(2, 3) {
		return nil
	}
	t := int64(r.Range(1, 2000000000))
	return &t
}

type genOpts struct {
	wellFormed bool // unique valid names, everything present
	maxDepth   int
	maxWidth   int
}

// genDir generates a directory without symlinks; links are added afterwards when all paths are known.
func genDir(r *lib.Rng, name string, depth int, o genOpts) *gdir {
	d := &gdir{Name: name, Mode: optMode(r, []uint32{0o755, 0o700, 0o775}), Mtime: optTime(r)}
	pool := append([]string{}, namePool...)
	lib.Shuffle(r, pool)
	n := r.Range(0, o.maxWidth)
	if depth == 0 && n == 0 {
		n = 1
	}
	for i := 0; i < n && i < len(pool); i++ {
		nm := pool[i]
		if depth < o.maxDepth && r.Chance(2, 5) {
			d.Dirs = append(d.Dirs, genDir(r, nm, depth+1, o))
		} else {
			content := lib.Pick(r, []string{"", "x", "hello\n", "wibble wibble wibble", "\x00\xff/bin"})
			if r.Chance(1, 2) {
				content += nm
			}
			d.Files = append(d.Files, &gfile{Name: nm, Content: content, InCAS: true, Mode: optMode(r, []uint32{0o644, 0o755, 0o444}), Mtime: optTime(r)})
		}
	}
	return d
}

type entry struct {
	path string // "" for the root
	dir  *gdir  // the directory holding the entry (nil for the root)
	kind string
}

func allEntries(d *gdir, prefix string, out *[]entry) {
	for _, x := range d.Dirs {
		*out = append(*out, entry{prefix + x.Name, d, "dir"})
		allEntries(x, prefix+x.Name+"/", out)
	}
	for _, x := range d.Files {
		*out = append(*out, entry{prefix + x.Name, d, "file"})
	}
	for _, x := range d.Links {
		*out = append(*out, entry{prefix + x.Name, d, "link"})
	}
}

func allDirs(d *gdir, prefix string, out *[]entry) {
	p := strings.TrimSuffix(prefix, "/")
	*out = append(*out, entry{p, d, "dir"})
	for _, x := range d.Dirs {
		allDirs(x, prefix+x.Name+"/", out)
	}
}

func relTo(fromDir, to string) string {
	// a relative target from directory fromDir ("" = root) to the path to
	f := []string{}
	if fromDir != "" {
		f = strings.Split(fromDir, "/")
	}
	t := []string{}
	if to != "" {
		t = strings.Split(to, "/")
	}
	i := 0
	for i < len(f) && i < len(t) && f[i] == t[i] {
		i++
	}
	parts := []string{}
	for range f[i:] {
		parts = append(parts, "..")
	}
	parts = append(parts, t[i:]...)
	if len(parts) == 0 {
		return "."
	}
	return strings.Join(parts, "/")
}

func freshName(r *lib.Rng, d *gdir) string {
	used := map[string]bool{}
	for _, x := range d.Dirs {
		used[x.Name] = true
	}
	for _, x := range d.Files {
		used[x.Name] = true
	}
	for _, x := range d.Links {
		used[x.Name] = true
	}
	for _, c := range []string{"l", "ln", "sym", "k", "m", "n", "p", "q", "r", "s", "t", "u", "v", "w"} {
		if !used[c] {
			return c
		}
	}
	for i := 0; ; i++ {
		c := fmt.Sprintf("l%d", i)
		if !used[c] {
			return c
		}
	}
}

// addLinks adds symlinks of the requested flavours. Returns labels of what was added.
func addLinks(r *lib.Rng, root *gdir, flavours []string) {
	for _, fl := range flavours {
		var dirs, ents []entry
		allDirs(root, "", &dirs)
		allEntries(root, "", &ents)
		home := lib.Pick(r, dirs)
		name := freshName(r, home.dir)
		add := func(d *gdir, nm, target string) {
			for lookupIn(d, nm).kind != "none" {
				panic("generator: duplicate name " + nm)
			}
			d.Links = append(d.Links, &glink{Name: nm, Target: target, Mode: optMode(r, []uint32{0o777})})
		}
		switch fl {
		case "good": // to an existing file, directory or link
			if len(ents) == 0 {
				continue
			}
			t := lib.Pick(r, ents)
			add(home.dir, name, relTo(home.path, t.path))
		case "todir":
			t := lib.Pick(r, dirs)
			add(home.dir, name, relTo(home.path, t.path))
		case "dangling":
			add(home.dir, name, lib.Pick(r, []string{"nope", "../nope", "a/b/c/nope", "nope/.."}))
		case "escape":
			ups := strings.Repeat("../", strings.Count(home.path, "/")+1+r.Range(0, 1))
			if home.path == "" {
				ups = "../"
			}
			add(home.dir, name, ups+lib.Pick(r, []string{"a", "etc/passwd", ""})+"")
		case "abs":
			add(home.dir, name, lib.Pick(r, []string{"/", "/a", "/etc/passwd", "//a"}))
		case "self":
			add(home.dir, name, name)
		case "selfdot":
			add(home.dir, name, "./"+name)
		case "loop2":
			n2 := name + "2"
			add(home.dir, name, n2)
			add(home.dir, n2, name)
		case "loop3": // across directories
			other := lib.Pick(r, dirs)
			if other.dir == home.dir {
				n2, n3 := name+"2", name+"3"
				add(home.dir, name, n2)
				add(home.dir, n2, "./"+n3)
				add(home.dir, n3, name)
				continue
			}
			n2 := freshName(r, other.dir)
			add(home.dir, name, relTo(home.path, joinp(other.path, n2)))
			add(other.dir, n2, relTo(other.path, joinp(home.path, name+"3")))
			add(home.dir, name+"3", name)
		case "chain": // a chain of k links ending at an existing entry
			if len(ents) == 0 {
				continue
			}
			t := lib.Pick(r, ents)
			k := lib.Pick(r, []int{2, 3, 5})
			prev := relTo(home.path, t.path)
			for i := 0; i < k; i++ {
				nm := name
				if i > 0 {
					nm = fmt.Sprintf("%s%d", name, i)
				}
				add(home.dir, nm, prev)
				prev = nm
			}
		case "empty":
			add(home.dir, name, "")
		case "dot":
			add(home.dir, name, lib.Pick(r, []string{".", "./", "..", "./."}))
		case "viaLink": // a link whose target passes through a symlinked directory
			t := lib.Pick(r, dirs)
			add(home.dir, name, relTo(home.path, t.path))
			if len(t.dir.Files)+len(t.dir.Dirs) > 0 {
				var child string
				if len(t.dir.Files) > 0 {
					child = t.dir.Files[0].Name
				} else {
					child = t.dir.Dirs[0].Name
				}
				add(home.dir, name+"v", name+"/"+child)
			}
		case "weird": // lexically cleaned targets
			if len(ents) == 0 {
				continue
			}
			t := lib.Pick(r, ents)
			rel := relTo(home.path, t.path)
			add(home.dir, name, lib.Pick(r, []string{"nope/../" + rel, "./" + rel, rel + "/", rel + "/.", "x.go/../" + rel, rel + "//"}))
		}
	}
}

func joinp(a, b string) string {
	if a == "" {
		return b
	}
	return a + "/" + b
}

// chainTree: a directory with a chain of exactly k links l0 -> l1 -> ... -> l(k-1) -> f
func chainTree(k int) *gdir {
	root := &gdir{Files: []*gfile{{Name: "f", Content: "end of chain", InCAS: true}}}
	for i := 0; i < k; i++ {
		t := fmt.Sprintf("l%d", i+1)
		if i == k-1 {
			t = "f"
		}
		root.Links = append(root.Links, &glink{Name: fmt.Sprintf("l%d", i), Target: t})
	}
	return root
}

func u32(x uint32) *uint32 { return &x }

// corpus: the past witnesses (KNOWN_FINDINGS fixed: lines, /verif/corpus/C29) and hand-made boundary trees
func corpusTrees() []*gdir {
	foo := func() *gfile {
		return &gfile{Name: "foo", Content: "wibble wibble wibble", InCAS: true, Mode: u32(0o777)}
	}
	return []*gdir{
		// open_symlink_loop_test.go.txt
		{Links: []*glink{{Name: "a", Target: "b"}, {Name: "b", Target: "a"}, {Name: "self", Target: "self"}}},
		// the tree of fs_test.go (readdir_paging_test.go.txt pages through bar)
		{Files: []*gfile{foo()}, Dirs: []*gdir{{Name: "bar", Mode: u32(0o777),
			Dirs:  []*gdir{{Name: "empty", Mode: u32(0o777)}},
			Files: []*gfile{foo(), {Name: "example.go", Content: "example.go", Mode: u32(0o777)}, {Name: "example_test.go", Content: "example_test.go", Mode: u32(0o777)}},
			Links: []*glink{{Name: "link", Target: "../foo"}, {Name: "badlink", Target: "../../foo"}}}}},
		chainTree(39), chainTree(40), chainTree(41), chainTree(42),
		{Links: []*glink{{Name: "abs", Target: "/etc/passwd"}, {Name: "toabs", Target: "abs"}}},
		// loop through a directory and back
		{Dirs: []*gdir{{Name: "d", Links: []*glink{{Name: "up", Target: "../l"}}}}, Links: []*glink{{Name: "l", Target: "d/up"}}},
		// link to a directory, link to the root, link to a link to a directory
		{Dirs: []*gdir{{Name: "d", Files: []*gfile{{Name: "f", Content: "in d", InCAS: true}}, Links: []*glink{{Name: "root", Target: ".."}, {Name: "here", Target: "."}}}},
			Links: []*glink{{Name: "ld", Target: "d"}, {Name: "lld", Target: "ld"}, {Name: "through", Target: "ld/f"}, {Name: "e", Target: ""}}},
		// same name as directory, file and link (directories win, then files)
		{Dirs: []*gdir{{Name: "x", Files: []*gfile{{Name: "y", Content: "y", InCAS: true}}}}, Files: []*gfile{{Name: "x", Content: "file x", InCAS: true}, {Name: "z", Content: "file z", InCAS: true}},
			Links: []*glink{{Name: "x", Target: "z"}, {Name: "z", Target: "x"}}},
		// blob not in the CAS; child directory not in the Tree
		{Files: []*gfile{{Name: "gone", Content: "not stored"}}, Dirs: []*gdir{{Name: "m", Missing: true, Files: []*gfile{{Name: "f", Content: "q", InCAS: true}}}, {Name: "ok"}},
			Links: []*glink{{Name: "tom", Target: "m"}, {Name: "tomf", Target: "m/f"}}},
		// odd names
		{Dirs: []*gdir{{Name: "", Files: []*gfile{{Name: "f", Content: "1", InCAS: true}}}, {Name: "..", Files: []*gfile{{Name: "f", Content: "2", InCAS: true}}}, {Name: ".", Files: []*gfile{{Name: "f", Content: "3", InCAS: true}}}, {Name: "p/q"}},
			Files: []*gfile{{Name: "", Content: "empty name", InCAS: true}, {Name: "s/t", Content: "slash", InCAS: true}}},
	}
}

// query paths for a tree: every entry, plus boundary shapes
func queryPaths(r *lib.Rng, root *gdir, n int) []string {
	var ents []entry
	allEntries(root, "", &ents)
	paths := []string{"."}
	for _, e := range ents {
		paths = append(paths, e.path)
	}
	base := append([]string{}, paths...)
	if len(paths) > 11 { // keep the case count bounded on wide trees (the oracle-only trees are many)
		rest := paths[4:]
		lib.Shuffle(r, rest)
		paths = paths[:11]
	}
	extra := []string{"", "/", "..", "../a", "nope", "a/nope", "./.", "a/..", "//"}
	for _, p := range base {
		if p == "." {
			continue
		}
		switch r.Intn(12) {
		case 0:
			extra = append(extra, "/"+p)
		case 1:
			extra = append(extra, p+"/")
		case 2:
			extra = append(extra, "./"+p)
		case 3:
			extra = append(extra, p+"/.")
		case 4:
			extra = append(extra, p+"/..")
		case 5:
			extra = append(extra, strings.Replace(p, "/", "//", 1))
		case 6:
			extra = append(extra, p+"/"+lib.Pick(r, namePool))
		case 7:
			extra = append(extra, p+"/../"+p)
		case 8:
			extra = append(extra, "../"+p)
		case 9:
			extra = append(extra, strings.Replace(p, "/", "/./", 1))
		case 10:
			extra = append(extra, "nope/../"+p)
		}
	}
	lib.Shuffle(r, extra)
	if len(extra) > n {
		extra = extra[:n]
	}
	return append(paths, extra...)
}

// ---------------------------------------------------------------------------------------------

type wdSpec struct {
	Kind string `json:"kind"` // new | chdir
	Dir  string `json:"dir"`
}

func (w wdSpec) coq() string {
	if w.Kind == "chdir" {
		return lib.App("WChdir", lib.Str(w.Dir))
	}
	return lib.App("WNew", lib.Str(w.Dir))
}

func (w wdSpec) fs(b *built) *remotefs.CASFileSystem {
	// New appends Root to tree.Children's backing array; give it a private copy of the slice header
	t := &pb.Tree{Root: b.tree.Root, Children: append([]*pb.Directory{}, b.tree.Children...)}
	if w.Kind == "chdir" {
		return remotefs.New(b.cas, t, ".").ChangeDir(w.Dir)
	}
	return remotefs.New(b.cas, t, w.Dir)
}

var reBadPath = regexp.MustCompile(`^(.*): (Open|ReadFile)\((.*)\) succeeded, want error$`)
var reStatLink = regexp.MustCompile(`^(.*): (fs\.Stat|fsys\.Stat)\(\.\.\.\) = `)

type runner struct {
	c     *lib.Ctx
	defs  []string // Coq definitions of the trees, shared by all case files
	model bool     // emit model cases for the current tree (false: oracle only)

	fixedSeqs   bool // run the fixed ChangeDir history on the tree
	seqsPerTree int  // generated histories per tree
}

// emit records one operation: a model case, or an oracle-only evaluation.
func (rn *runner) emit(coq string, js any, key string, nontrivial bool) {
	if rn.model {
		rn.c.Case(coq, js, key, nontrivial)
	} else {
		rn.c.Eval(js, key, nontrivial)
	}
}

func (rn *runner) tree(r *lib.Rng, root *gdir, wellFormed, loopFree bool, label string, nq int, model bool) {
	c := rn.c
	rn.model = model
	b := buildTree(root)
	coqT := fmt.Sprintf("t%d", len(rn.defs))
	if model {
		rn.defs = append(rn.defs, fmt.Sprintf("Definition %s : tree := %s.", coqT, b.coqTree()))
	} else {
		coqT = fmt.Sprintf("o%d", c.Rng.U64())
	}
	js := func(op string, wd wdSpec, name string, extra any) map[string]any {
		return map[string]any{"tree": root, "op": op, "wd": wd, "name": name, "observed": extra}
	}
	var ents []entry
	allEntries(root, "", &ents)
	nLinks := 0
	for _, e := range ents {
		if e.kind == "link" {
			nLinks++
		}
	}
	nontrivial := len(ents) >= 2
	c.Hist("tree_kind", label)
	c.HistN("entries", min(len(ents), 20))
	c.HistN("links", min(nLinks, 8))

	rootWD := wdSpec{"new", "."}
	fsys := rootWD.fs(b)
	rf := &ref{root: root}

	// ---- correspondence + oracle on every path of the tree and on boundary shapes
	for _, p := range queryPaths(r, root, nq) {
		o := doOpen(fsys, p)
		st := doStat(fsys, p)
		rn.emit(lib.App("COpen", coqT, rootWD.coq(), lib.Str(p), o.coq()), js("open", rootWD, p, o), label+"|open|"+coqT+"|"+p, nontrivial)
		rn.emit(lib.App("CStat", coqT, rootWD.coq(), lib.Str(p), st.coq()), js("stat", rootWD, p, st), label+"|stat|"+coqT+"|"+p, nontrivial)
		c.Hist("open_result", o.Kind+o.Err)
		if !wellFormed {
			continue
		}
		// O2: nothing may crash on a well-formed tree
		c.Oracle()
		if o.Kind == "panic" || st.Kind == "panic" || o.ListPan {
			c.Fail("panic", fmt.Sprintf("Open/Stat(%q) panicked: %s%s", p, o.What, st.What), js("open", rootWD, p, o))
			continue
		}
		// O6: the io/fs name contract: names that are not fs.ValidPath must be rejected
		if !iofs.ValidPath(p) {
			c.Oracle()
			if o.Kind != "err" {
				c.Fail("invalid-path-accepted", fmt.Sprintf("Open(%q) succeeded although !fs.ValidPath", p), js("open", rootWD, p, o))
			}
			if st.Kind != "err" {
				c.Fail("invalid-path-accepted", fmt.Sprintf("Stat(%q) succeeded although !fs.ValidPath", p), js("stat", rootWD, p, st))
			}
			continue
		}
		// O1/O3: faithful view, against the reference resolver
		comps := strings.Split(p, "/")
		wantO, plainO := rf.walk([]*gdir{root}, comps, true, 40)
		wantS, plainS := rf.walk([]*gdir{root}, comps, false, 40)
		nameOf := func(n refNode) string { // the name a directory is reported under
			if n.kind == "dir" {
				if n.d == root {
					return "."
				}
				return n.d.Name
			}
			return ""
		}
		if plainS {
			c.Oracle()
			switch wantS.kind {
			case "none":
				if st.Kind != "err" || st.Err != "ENotExist" {
					c.Fail("stat-unfaithful", fmt.Sprintf("Stat(%q): no such node in the tree, got %+v", p, st), js("stat", rootWD, p, st))
				}
			default:
				if st.Kind != "ok" || !sameInfo(st.Info, wantInfo(wantS, nameOf(wantS))) {
					c.Fail("stat-unfaithful", fmt.Sprintf("Stat(%q): tree has %s %+v, got %+v", p, wantS.kind, wantInfo(wantS, nameOf(wantS)), st), js("stat", rootWD, p, st))
				}
			}
		}
		if !plainO {
			c.Hist("reference", "not-pinned-down(through a symlink or .. after a non-directory)")
			continue
		}
		c.Hist("reference", "plain:"+wantO.kind)
		c.Oracle()
		fail := func(what string) {
			c.Fail("open-unfaithful", fmt.Sprintf("Open(%q): %s; got %s %s %+v", p, what, o.Kind, o.Err, o.Info), js("open", rootWD, p, o))
		}
		switch wantO.kind {
		case "none":
			if o.Kind != "err" || o.Err != "ENotExist" {
				fail("no such node in the tree, want ErrNotExist")
			}
		case "abs":
			if o.Kind != "err" {
				c.Fail("absolute-link-opened", fmt.Sprintf("Open(%q) follows an absolute symlink", p), js("open", rootWD, p, o))
			}
		case "loop":
			if o.Kind != "err" {
				c.Fail("symlink-loop-opened", fmt.Sprintf("Open(%q) on a symlink loop did not fail", p), js("open", rootWD, p, o))
			}
		case "file":
			if !wantO.f.InCAS {
				if o.Kind != "err" {
					fail("blob is not in the CAS, want an error")
				}
			} else if o.Kind != "file" || o.Content != wantO.f.Content || !sameInfo(o.Info, wantInfo(wantO, "")) {
				fail(fmt.Sprintf("want file %+v with content %q", wantInfo(wantO, ""), wantO.f.Content))
			}
		case "dir":
			if o.Kind != "dir" || !sameInfo(o.Info, wantInfo(wantO, nameOf(wantO))) {
				fail(fmt.Sprintf("want directory %+v", wantInfo(wantO, nameOf(wantO))))
				break
			}
			want := wantListing(wantO.d)
			seen := map[string]bool{}
			for _, e := range o.List {
				w, ok := want[e.Name]
				if !ok || seen[e.Name] || !sameInfo(e, w) {
					c.Fail("listing-unfaithful", fmt.Sprintf("ReadDir of %q lists %+v, tree has %+v", p, e, w), js("open", rootWD, p, o))
				}
				seen[e.Name] = true
			}
			if len(seen) != len(want) {
				c.Fail("listing-unfaithful", fmt.Sprintf("ReadDir of %q lists %d of %d entries", p, len(seen), len(want)), js("open", rootWD, p, o))
			}
		}
		// Stat agrees with Open+Stat (what fs.Stat promises; fstest checks it "even for symlinks")
		if o.Kind == "file" || o.Kind == "dir" {
			c.Oracle()
			if st.Kind != "ok" || !sameInfo(st.Info, o.Info) {
				cls := "stat-differs-from-open-stat"
				if plainS && wantS.kind == "link" {
					cls = "stat-does-not-follow-symlink"
				}
				c.Fail(cls, fmt.Sprintf("Stat(%q) = %+v but Open+Stat = %+v", p, st.Info, o.Info), js("stat", rootWD, p, st))
			}
		}
	}

	// ---- ReadDir paging on every directory (O4) + correspondence of call sequences
	var dirs []entry
	allDirs(root, "", &dirs)
	for _, d := range dirs {
		p := d.path
		if p == "" {
			p = "."
		}
		total := len(d.dir.Dirs) + len(d.dir.Files) + len(d.dir.Links)
		rs := []int{}
		for i := 0; i < 5; i++ {
			rs = append(rs, lib.Pick(r, []int{-1, 0, 1, 1, 2, 3, 5}))
		}
		seqs := [][]int{lib.Pick(r, [][]int{{-1, -1, 1}, {1, 1, 1, 1, 1, 1}, {2, 2, 2, 2, 0, 2}, {total + 1, 1}, {total, 1, -1}}), rs}
		for _, ns := range seqs {
			pages, ok, pan := doReadDir(fsys, p, ns)
			if !ok && !pan {
				continue
			}
			res := "Panic"
			if !pan {
				items := []string{}
				for _, pg := range pages {
					items = append(items, lib.Pair(coqInfos(pg.Entries), lib.Bool(pg.EOF)))
				}
				res = lib.App("Ok", lib.List(items))
			}
			zs := []string{}
			for _, n := range ns {
				zs = append(zs, lib.Z(int64(n)))
			}
			rn.emit(lib.App("CReadDir", coqT, rootWD.coq(), lib.Str(p), lib.List(zs), res),
				js("readdir", rootWD, p, map[string]any{"ns": ns, "pages": pages, "panicked": pan}), label+"|rd|"+coqT+"|"+p+fmt.Sprint(ns), total >= 2)
			if wellFormed && pan {
				c.Fail("panic", fmt.Sprintf("ReadDir sequence %v on %q panicked", ns, p), js("readdir", rootWD, p, ns))
			}
		}
		if !wellFormed {
			continue
		}
		// O4: for every page size, the pages concatenate to the full listing, then io.EOF (twice)
		full, _, _ := doReadDir(fsys, p, []int{-1})
		c.Oracle()
		if after, _, pan := doReadDir(fsys, p, []int{-1, -1, 0, 1, -1}); pan || len(after) != 5 ||
			len(after[1].Entries)+len(after[2].Entries)+len(after[3].Entries)+len(after[4].Entries) != 0 ||
			after[1].EOF || after[2].EOF || !after[3].EOF || after[4].EOF || len(after[0].Entries) != total {
			c.Fail("readdir-paging", fmt.Sprintf("ReadDir(-1) on %q then ReadDir(-1), (0), (1), (-1): want everything, then nothing+nil, nothing+nil, io.EOF, nothing+nil", p),
				js("readdir", rootWD, p, map[string]any{"ns": []int{-1, -1, 0, 1, -1}, "pages": after}))
		}
		for n := 1; n <= total+1; n++ {
			c.Oracle()
			calls := make([]int, total+3)
			for i := range calls {
				calls[i] = n
			}
			pages, _, pan := doReadDir(fsys, p, calls)
			if pan {
				c.Fail("panic", fmt.Sprintf("ReadDir(%d) on %q panicked", n, p), js("readdir", rootWD, p, n))
				continue
			}
			var cat []obsInfo
			bad := ""
			eofSeen := false
			for i, pg := range pages {
				if eofSeen && !pg.EOF {
					bad = fmt.Sprintf("call %d returns entries after io.EOF", i)
				}
				if pg.EOF {
					eofSeen = true
					if len(pg.Entries) != 0 {
						bad = "entries together with io.EOF"
					}
				} else if len(pg.Entries) == 0 || len(pg.Entries) > n {
					bad = fmt.Sprintf("call %d returned %d entries for n=%d without io.EOF", i, len(pg.Entries), n)
				}
				cat = append(cat, pg.Entries...)
			}
			if !eofSeen {
				bad = "io.EOF never returned"
			}
			if len(full) != 1 || len(cat) != len(full[0].Entries) {
				bad = fmt.Sprintf("pages hold %d entries, full listing %d", len(cat), total)
			} else {
				for i := range cat {
					if !sameInfo(cat[i], full[0].Entries[i]) {
						bad = "pages differ from the full listing"
					}
				}
			}
			if bad != "" {
				c.Fail("readdir-paging", fmt.Sprintf("ReadDir(%d) on %q: %s", n, p, bad), js("readdir", rootWD, p, map[string]any{"n": n, "pages": pages}))
			}
		}
	}

	// ---- other working directories (model correspondence; the oracle checks the relocation)
	for _, d := range dirs {
		if d.path == "" || !r.Chance(1, 3) {
			continue
		}
		wds := []wdSpec{{"new", d.path}, {"chdir", d.path}, {"new", d.path + "/"}, {"chdir", "./" + d.path + "/../" + filepath.Base(d.path)}}
		lib.Shuffle(r, wds)
		for _, w := range wds[:2] {
			f2 := w.fs(b)
			names := []string{".", "..", ""}
			for _, x := range d.dir.Dirs {
				names = append(names, x.Name)
			}
			for _, x := range d.dir.Files {
				names = append(names, x.Name)
			}
			for _, x := range d.dir.Links {
				names = append(names, x.Name)
			}
			for _, nm := range names {
				o := doOpen(f2, nm)
				rn.emit(lib.App("COpen", coqT, w.coq(), lib.Str(nm), o.coq()), js("open", w, nm, o), label+"|open|"+coqT+w.coq()+nm, nontrivial)
				if wellFormed && iofs.ValidPath(nm) {
					c.Oracle()
					o0 := doOpen(fsys, d.path+"/"+nm)
					if nm == "." {
						o0 = doOpen(fsys, d.path)
					}
					if o.Kind != o0.Kind || o.Err != o0.Err || o.Content != o0.Content || (nm != "." && !sameInfo(o.Info, o0.Info)) || len(o.List) != len(o0.List) {
						c.Fail("workdir-unfaithful", fmt.Sprintf("Open(%q) in working dir %q differs from Open(%q) at the root", nm, d.path, d.path+"/"+nm), js("open", w, nm, o))
					}
				}
			}
		}
	}
	for _, w := range []wdSpec{{"new", ""}, {"chdir", ""}, {"new", "/"}, {"new", "/abs"}, {"new", ".."}, {"chdir", "nope"}} {
		if !r.Chance(1, 4) {
			continue
		}
		f2 := w.fs(b)
		for _, nm := range []string{"", ".", "a", lib.Pick(r, queryPaths(r, root, 3))} {
			o := doOpen(f2, nm)
			st := doStat(f2, nm)
			rn.emit(lib.App("COpen", coqT, w.coq(), lib.Str(nm), o.coq()), js("open", w, nm, o), label+"|open|"+coqT+w.coq()+nm, nontrivial)
			rn.emit(lib.App("CStat", coqT, w.coq(), lib.Str(nm), st.coq()), js("stat", w, nm, st), label+"|stat|"+coqT+w.coq()+nm, nontrivial)
		}
	}

	// ---- views are values: histories of ChangeDir and queries on several views of this tree
	if rn.fixedSeqs {
		w0, ops := fixedSeq(root)
		rn.seq(b, root, coqT, label, w0, ops, wellFormed, nontrivial)
	}
	for i := 0; i < rn.seqsPerTree; i++ {
		w0, ops := genSeq(r, root)
		rn.seq(b, root, coqT, label, w0, ops, wellFormed, nontrivial)
	}

	// ---- O5: testing/fstest.TestFS on well-formed, loop-free, dangling-free trees
	if wellFormed && loopFree {
		expected := []string{}
		for _, e := range ents {
			if e.kind != "link" {
				expected = append(expected, e.path)
			}
		}
		if len(expected) > 0 {
			c.Oracle()
			var err error
			pan, what := guard(func() { err = fstest.TestFS(fsys, expected...) })
			if pan {
				c.Fail("panic", "fstest.TestFS panicked: "+what, map[string]any{"tree": root, "op": "testfs"})
			} else if err != nil {
				for _, line := range splitComplaints(err.Error()) {
					switch {
					case reBadPath.MatchString(line):
						c.Hist("fstest_complaints", "invalid path accepted")
						c.Fail("invalid-path-accepted", "fstest.TestFS: "+line, map[string]any{"tree": root, "op": "testfs", "complaint": line})
					case reStatLink.MatchString(line) && isLinkPath(ents, reStatLink.FindStringSubmatch(line)[1]):
						c.Hist("fstest_complaints", "Stat of a symlink differs from Open+Stat")
						c.Fail("stat-does-not-follow-symlink", "fstest.TestFS: "+line, map[string]any{"tree": root, "op": "testfs", "complaint": line})
					default:
						c.Hist("fstest_complaints", "other")
						c.Fail("fstest-other", "fstest.TestFS: "+line, map[string]any{"tree": root, "op": "testfs", "complaint": line})
					}
				}
			} else {
				c.Hist("fstest_complaints", "none")
			}
		}
	}
}

// ---------------------------------------------------------------------------------------------
// views are values: histories of ChangeDir / Open / Stat / ReadDir on the views of ONE tree.
// A view is identified by its handle = the index of the *CASFileSystem object in creation order
// (pointer identity decides whether ChangeDir returned a new object or one that already exists).

type seqOp struct {
	Op   string `json:"op"`   // chdir open stat readdir
	View int    `json:"view"` // handle of the view the call is made on
	Arg  string `json:"arg"`  // directory (chdir) or name
	Ns   []int  `json:"ns,omitempty"`
}

func (o seqOp) coq() string {
	switch o.Op {
	case "chdir":
		return lib.App("VChdir", lib.Nat(o.View), lib.Str(o.Arg))
	case "open":
		return lib.App("VAsk", lib.Nat(o.View), lib.App("QOpen", lib.Str(o.Arg)))
	case "stat":
		return lib.App("VAsk", lib.Nat(o.View), lib.App("QStat", lib.Str(o.Arg)))
	}
	zs := []string{}
	for _, n := range o.Ns {
		zs = append(zs, lib.Z(int64(n)))
	}
	return lib.App("VAsk", lib.Nat(o.View), lib.App("QReadDir", lib.Str(o.Arg), lib.List(zs)))
}

func dirAt(root *gdir, p string) *gdir {
	d := root
	if p == "" || p == "." {
		return d
	}
	for _, c := range strings.Split(p, "/") {
		var nx *gdir
		for _, x := range d.Dirs {
			if x.Name == c {
				nx = x
			}
		}
		if nx == nil {
			return nil
		}
		d = nx
	}
	return d
}

func childNames(d *gdir, max int) []string {
	out := []string{}
	for _, x := range d.Dirs {
		out = append(out, x.Name)
	}
	for _, x := range d.Files {
		out = append(out, x.Name)
	}
	for _, x := range d.Links {
		out = append(out, x.Name)
	}
	if len(out) > max {
		out = out[:max]
	}
	return out
}

// genSeq generates a history: ChangeDir calls into directories of the tree (and a few odd arguments), and
// queries that go back to OLDER views after a ChangeDir at least as often as to the newest one.
func genSeq(r *lib.Rng, root *gdir) (wdSpec, []seqOp) {
	var dirs []entry
	allDirs(root, "", &dirs)
	dirArg := func() string {
		d := lib.Pick(r, dirs).path
		if d == "" {
			d = "."
		}
		switch r.Intn(10) {
		case 0:
			return "./" + d
		case 1:
			return d + "/"
		case 2:
			return lib.Pick(r, []string{"nope", "", "/", ".."})
		case 3:
			return d + "/../" + filepath.Base(d)
		}
		return d
	}
	w0 := wdSpec{"new", "."}
	if r.Chance(1, 5) {
		w0 = wdSpec{lib.Pick(r, []string{"new", "chdir"}), dirArg()}
	}
	wds := []string{w0.Dir} // the directory each view (in the unchanged semantics) looks at
	ops := []seqOp{}
	n := r.Range(4, 10)
	for i := 0; i < n; i++ {
		if len(wds) < 5 && (r.Chance(1, 3) || i == 1) {
			v := 0
			if r.Chance(1, 2) {
				v = r.Intn(len(wds))
			}
			a := dirArg()
			ops = append(ops, seqOp{Op: "chdir", View: v, Arg: a})
			wds = append(wds, a)
			continue
		}
		v := 0
		if r.Chance(1, 2) {
			v = r.Intn(len(wds))
		}
		if r.Chance(1, 30) {
			v = len(wds) + r.Intn(2)
		}
		names := []string{".", "", "..", "nope"}
		names = append(names, childNames(root, 4)...)
		if v < len(wds) {
			if d := dirAt(root, filepath.Clean(wds[v])); d != nil {
				names = append(names, childNames(d, 6)...)
				names = append(names, childNames(d, 6)...)
			}
		}
		if d := lib.Pick(r, dirs); d.path != "" {
			names = append(names, d.path)
			for _, c := range childNames(d.dir, 2) {
				names = append(names, d.path+"/"+c)
			}
		}
		op := seqOp{Op: lib.Pick(r, []string{"open", "open", "stat", "stat", "readdir"}), View: v, Arg: lib.Pick(r, names)}
		if op.Op == "readdir" {
			op.Ns = lib.Pick(r, [][]int{{-1}, {1, 1, -1}, {2, 0, 2}, {}, {1, 1, 1, 1}})
			if r.Chance(1, 2) {
				op.Arg = "."
			}
		}
		ops = append(ops, op)
	}
	return w0, ops
}

// fixedSeq: the smallest history that tells a view that is a value from one that is re-rooted by ChangeDir.
func fixedSeq(root *gdir) (wdSpec, []seqOp) {
	sub, first := "nope", "."
	if len(root.Dirs) > 0 {
		sub = root.Dirs[0].Name
	}
	if ns := childNames(root, 1); len(ns) > 0 {
		first = ns[0]
	}
	return wdSpec{"new", "."}, []seqOp{{Op: "chdir", View: 0, Arg: sub}, {Op: "stat", View: 0, Arg: first}, {Op: "open", View: 0, Arg: "."},
		{Op: "open", View: 1, Arg: "."}, {Op: "chdir", View: 1, Arg: "."}, {Op: "open", View: 2, Arg: "."},
		{Op: "readdir", View: 0, Arg: ".", Ns: []int{-1}}, {Op: "stat", View: 1, Arg: first}}
}

type probe struct {
	Name string  `json:"name"`
	Open obsOpen `json:"open"`
	Stat obsStat `json:"stat"`
}

func snapshot(fsys *remotefs.CASFileSystem, names []string) []probe {
	out := make([]probe, len(names))
	for i, nm := range names {
		out[i] = probe{nm, doOpen(fsys, nm), doStat(fsys, nm)}
	}
	return out
}

func canon(p probe) string {
	data, err := json.Marshal(p)
	if err != nil {
		panic(err)
	}
	return string(data)
}

func firstDiff(a, b []probe) int {
	for i := range a {
		if canon(a[i]) != canon(b[i]) {
			return i
		}
	}
	return -1
}

// seq runs one history on the real code, emits it as ONE model case (model: the store machine `run`), and
// evaluates the oracle: every view answers a fixed set of probes exactly as it did when it was created,
// after every single operation of the history; a view returned by ChangeDir(d) answers as New(c, tree, d).
func (rn *runner) seq(b *built, root *gdir, coqT, label string, w0 wdSpec, ops []seqOp, wellFormed, nontrivial bool) {
	c := rn.c
	// the probes: the names in the root and in every directory the history changes into
	names := []string{".", "nope"}
	seenName := map[string]bool{".": true, "nope": true}
	addNames := func(d *gdir) {
		if d == nil {
			return
		}
		for _, nm := range childNames(d, 5) {
			if !seenName[nm] {
				seenName[nm] = true
				names = append(names, nm)
			}
		}
	}
	addNames(root)
	addNames(dirAt(root, filepath.Clean(w0.Dir)))
	for _, op := range ops {
		if op.Op == "chdir" {
			addNames(dirAt(root, filepath.Clean(op.Arg)))
		}
	}
	if len(names) > 14 {
		names = names[:14]
	}

	views := []*remotefs.CASFileSystem{w0.fs(b)}
	base := [][]probe{nil}
	if wellFormed {
		base[0] = snapshot(views[0], names)
	}
	obs := []string{}
	obsJS := []any{}
	failed := false
	nChdir := 0
	for k, op := range ops {
		if op.View >= len(views) {
			obs = append(obs, "BNoView")
			obsJS = append(obsJS, "no-such-view")
			continue
		}
		v := views[op.View]
		switch op.Op {
		case "chdir":
			nChdir++
			nv := v.ChangeDir(op.Arg)
			h := -1
			for i, x := range views {
				if x == nv {
					h = i
				}
			}
			if h < 0 {
				h = len(views)
				views = append(views, nv)
				if wellFormed {
					base = append(base, snapshot(nv, names))
					// the new view answers as a view made by New for the same (clean) directory
					if filepath.Clean(op.Arg) == op.Arg {
						c.Oracle()
						t := &pb.Tree{Root: b.tree.Root, Children: append([]*pb.Directory{}, b.tree.Children...)}
						want := snapshot(remotefs.New(b.cas, t, op.Arg), names)
						if i := firstDiff(want, base[h]); i >= 0 && !failed {
							failed = true
							c.Fail("changedir-view-differs-from-new", fmt.Sprintf("ChangeDir(%q) gives a view whose Open/Stat(%q) differ from those of New(c, tree, %q)", op.Arg, names[i], op.Arg),
								map[string]any{"tree": root, "op": "viewseq", "wd0": w0, "seq": ops[:k+1], "probe": names[i], "want": want[i], "got": base[h][i]})
						}
					}
				}
			}
			obs = append(obs, lib.App("BView", lib.Nat(h)))
			obsJS = append(obsJS, map[string]any{"view": h})
		case "open":
			o := doOpen(v, op.Arg)
			obs = append(obs, lib.App("BOpen", o.coq()))
			obsJS = append(obsJS, o)
		case "stat":
			st := doStat(v, op.Arg)
			obs = append(obs, lib.App("BStat", st.coq()))
			obsJS = append(obsJS, st)
		case "readdir":
			pages, ok, pan := doReadDir(v, op.Arg, op.Ns)
			res := "None"
			if pan {
				res = lib.Some("Panic")
			} else if ok {
				items := []string{}
				for _, pg := range pages {
					items = append(items, lib.Pair(coqInfos(pg.Entries), lib.Bool(pg.EOF)))
				}
				res = lib.Some(lib.App("Ok", lib.List(items)))
			}
			obs = append(obs, lib.App("BReadDir", res))
			obsJS = append(obsJS, map[string]any{"pages": pages, "dir": ok, "panicked": pan})
		}
		// the oracle: no operation changes what any existing view answers
		if wellFormed && !failed {
			for i, x := range views {
				c.Oracle()
				now := snapshot(x, names)
				if j := firstDiff(base[i], now); j >= 0 {
					failed = true
					cls := "view-changed-by-" + map[string]string{"chdir": "changedir", "open": "open", "stat": "stat", "readdir": "readdir"}[op.Op]
					c.Fail(cls, fmt.Sprintf("view %d answers Open/Stat(%q) differently after %s(view %d, %q): a view must stay faithful to its tree whatever is done to it or to other views",
						i, names[j], op.Op, op.View, op.Arg),
						map[string]any{"tree": root, "op": "viewseq", "wd0": w0, "seq": ops[:k+1], "view": i, "probe": names[j], "before": base[i][j], "after": now[j]})
					break
				}
			}
		}
	}
	opsCoq := make([]string, len(ops))
	for i, op := range ops {
		opsCoq[i] = op.coq()
	}
	c.Hist("viewseq_changedirs", fmt.Sprint(nChdir))
	c.Hist("viewseq_views", fmt.Sprint(len(views)))
	rn.emit(lib.App("CSeq", coqT, w0.coq(), lib.List(opsCoq), lib.List(obs)),
		map[string]any{"tree": root, "op": "viewseq", "wd0": w0, "seq": ops, "observed": obsJS}, label+"|seq|"+coqT+"|"+fmt.Sprint(w0, ops), nontrivial && nChdir > 0)
}

// finish hands the tree definitions to the case files (they are shared by all cases of a tree).
func (rn *runner) finish() {
	rn.c.Model("From PlzV Require Import Model.C29.\n"+strings.Join(rn.defs, "\n"), "C29.case", "C29.check")
}

func isLinkPath(ents []entry, p string) bool {
	for _, e := range ents {
		if e.path == p && e.kind == "link" {
			return true
		}
	}
	return false
}

// splitComplaints splits the joined error of TestFS into its complaints (continuation lines start with a tab).
func splitComplaints(msg string) []string {
	out := []string{}
	for _, l := range strings.Split(msg, "\n") {
		if l == "" || strings.HasPrefix(l, "TestFS found errors") {
			continue
		}
		if strings.HasPrefix(l, "\t") && len(out) > 0 {
			out[len(out)-1] += " " + strings.TrimSpace(l)
			continue
		}
		out = append(out, l)
	}
	return out
}

func pathFunctionCases(c *lib.Ctx) {
	// the model of filepath.Clean / Join / Dir against the real ones
	alphabet := []string{"a", "b", ".", "..", "", "cd"}
	var paths []string
	var rec func(prefix []string, depth int)
	rec = func(prefix []string, depth int) {
		if len(prefix) > 0 {
			paths = append(paths, strings.Join(prefix, "/"))
		}
		if depth == 0 {
			return
		}
		for _, a := range alphabet {
			rec(append(append([]string{}, prefix...), a), depth-1)
		}
	}
	rec(nil, c.Scale(3, 4))
	paths = append(paths, "", "...", "a/...", ".a", "a.", "..a/b", "a/b/c/../../d", "/../a", "/a/../..", "///", "/.", "/./a/")
	sort.Strings(paths)
	for i, p := range paths {
		if i > 0 && paths[i-1] == p {
			continue
		}
		c.Case(lib.App("CPath", lib.Str(p), lib.Str(cleanOf(p)), lib.Str(dirOf(p)), lib.Str(joinOf("x/y", p)), lib.Str(joinOf("", p)), lib.Str(joinOf(p, ""))),
			map[string]any{"op": "path", "path": p}, "path|"+p, strings.Contains(p, "/"))
	}
}

// loopProbe runs in a child process: a symlink loop that is followed without bound overflows the
// stack, which no recover() can catch. The parent learns it from the exit status.
func loopProbe() {
	for _, t := range corpusTrees()[:1] {
		b := buildTree(t)
		fsys := wdSpec{"new", "."}.fs(b)
		for _, l := range t.Links {
			doOpen(fsys, l.Name)
		}
	}
	os.Exit(0)
}

func hasLoopFlavour(fl []string) bool {
	for _, f := range fl {
		switch f {
		case "self", "selfdot", "loop2", "loop3":
			return true
		}
	}
	return false
}

func main() {
	if os.Getenv("C29_LOOP_PROBE") == "1" {
		loopProbe()
	}
	lib.Main("C29", func(c *lib.Ctx) {
		c.Model("From PlzV Require Import Model.C29.", "C29.case", "C29.check")
		c.Rule("REAPI Trees built from generated abstract trees (depth<=3, width<=4, files with blobs in an in-memory CAS, node properties) plus symlinks of stated flavours " +
			"(good, to-dir, chains, dangling, escaping, absolute, loops of length 1-3 incl. across directories, empty/dot targets, targets through a symlinked directory, lexically odd targets); " +
			"corpus trees first (past witnesses, chains of 39-42 links, duplicate names, missing blob/child, odd names). Per tree: Open and Stat of every node path and of boundary path shapes " +
			"(leading/trailing slash, ./, //, .., nonexistent, below a file), ReadDir call sequences on every directory, other working directories via New and ChangeDir; " +
			"histories of 4-10 calls on up to 5 views of one tree (ChangeDir into its directories and odd arguments from any view, then Open/Stat/ReadDir on older and newer views; one fixed and two generated histories per tree). " +
			"distinct = distinct (tree, operation, name); non-trivial = tree with >=2 entries (ReadDir: directory with >=2 entries; path functions: path with a slash)")
		rn := &runner{c: c}

		// symlink loops first, in a child process, so that a crash is an observed failing input
		loopsCrash := false
		c.Oracle()
		probe := exec.Command(os.Args[0])
		probe.Env = append(os.Environ(), "C29_LOOP_PROBE=1")
		if out, err := probe.CombinedOutput(); err != nil {
			loopsCrash = true
			msg := string(out)
			if len(msg) > 300 {
				msg = msg[:300]
			}
			c.Fail("symlink-loop-crashes-process", "Open of a symlink in a loop (a -> b, b -> a) killed the process: "+err.Error()+": "+msg,
				map[string]any{"tree": corpusTrees()[0], "op": "open", "name": "a"})
			c.Note("symlink loops crash the process: trees with loops are left out of the rest of this run")
		}

		var replay struct {
			Tree *gdir   `json:"tree"`
			Op   string  `json:"op"`
			Wd0  wdSpec  `json:"wd0"`
			Seq  []seqOp `json:"seq"`
		}
		rn.fixedSeqs, rn.seqsPerTree = true, 2
		if c.ReadReplay(&replay) && replay.Tree != nil {
			if replay.Op == "viewseq" {
				// the recorded history first, as a model case and under the oracle
				rn.model = true
				b := buildTree(replay.Tree)
				rn.defs = append(rn.defs, fmt.Sprintf("Definition t%d : tree := %s.", len(rn.defs), b.coqTree()))
				rn.seq(b, replay.Tree, fmt.Sprintf("t%d", len(rn.defs)-1), "replay", replay.Wd0, replay.Seq, true, true)
			}
			rn.tree(c.Rng.Fork(), replay.Tree, true, replay.Op == "testfs", "replay", 40, true)
			rn.finish()
			return
		}

		pathFunctionCases(c)

		for i, t := range corpusTrees() {
			wf := i <= 8 // the last three corpus trees are deliberately ill-formed
			if loopsCrash && (i == 0 || i == 7 || i == 9) {
				continue
			}
			rn.tree(c.Rng.Fork(), t, wf, false, "corpus", 10, true)
		}

		// 1. well-formed trees with only good links: TestFS applies
		n1, m1 := c.Scale(60, 1500), c.Scale(8, 50) // trees; of which with model cases
		for i := 0; i < n1; i++ {
			r := c.Rng.Fork()
			root := genDir(r, "", 0, genOpts{true, 3, 4})
			k := r.Range(0, 3)
			fl := []string{}
			for j := 0; j < k; j++ {
				fl = append(fl, lib.Pick(r, []string{"good", "good", "todir", "chain"}))
			}
			addLinks(r, root, fl)
			rn.tree(r, root, true, true, "wf-loopfree", 6, i < m1)
		}
		// 2. well-formed trees with adversarial links
		n2, m2 := c.Scale(200, 5000), c.Scale(16, 90)
		flavours := []string{"good", "todir", "dangling", "escape", "abs", "self", "selfdot", "loop2", "loop3", "chain", "empty", "dot", "viaLink", "weird"}
		for i := 0; i < n2; i++ {
			r := c.Rng.Fork()
			root := genDir(r, "", 0, genOpts{true, 3, 3})
			k := r.Range(1, 4)
			fl := []string{}
			for j := 0; j < k; j++ {
				fl = append(fl, lib.Pick(r, flavours))
			}
			if loopsCrash && hasLoopFlavour(fl) {
				continue
			}
			addLinks(r, root, fl)
			rn.tree(r, root, true, false, "wf-adversarial", 6, i < m2)
		}
		// 3. ill-formed trees (duplicate names across kinds, missing blobs, missing children): correspondence only
		n3 := c.Scale(5, 20)
		for i := 0; i < n3; i++ {
			r := c.Rng.Fork()
			root := genDir(r, "", 0, genOpts{false, 2, 3})
			fl := []string{lib.Pick(r, flavours), lib.Pick(r, flavours)}
			if loopsCrash && hasLoopFlavour(fl) {
				continue
			}
			addLinks(r, root, fl)
			var dirs []entry
			allDirs(root, "", &dirs)
			for _, d := range dirs {
				if len(d.dir.Dirs) > 0 && r.Chance(1, 2) {
					x := lib.Pick(r, d.dir.Dirs)
					if r.Chance(1, 2) {
						x.Missing = true
					} else {
						d.dir.Files = append(d.dir.Files, &gfile{Name: x.Name, Content: "shadowed", InCAS: true})
						d.dir.Links = append(d.dir.Links, &glink{Name: x.Name, Target: "."})
					}
				}
				if len(d.dir.Files) > 0 && r.Chance(1, 2) {
					x := lib.Pick(r, d.dir.Files)
					if r.Chance(1, 2) {
						x.InCAS = false
					} else {
						d.dir.Links = append(d.dir.Links, &glink{Name: x.Name, Target: "nope"})
					}
				}
			}
			rn.tree(r, root, false, false, "ill-formed", 6, true)
		}
		rn.finish()
	})
}

func cleanOf(p string) string   { return filepath.Clean(p) }
func dirOf(p string) string     { return filepath.Dir(p) }
func joinOf(a, b string) string { return filepath.Join(a, b) }
