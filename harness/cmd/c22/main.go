// C22: `//dir/...` expands to exactly the packages under the directory.
// Implementation side of the correspondence (the real plz.FindAllBuildFiles and, through the verif hook,
// the real findOriginalTask, run on generated directory trees materialised on disk) and the property
// oracle (a declarative, component-wise reference computed from the generated tree, independent of the
// Coq model and of the walk order).  Further streams: whole command lines of labels through the real
// findOriginalTaskSet (oracle: the labels added are the union of what each label stands for), and the real
// query.containsPackage - the search behind the completion of `//dir/` - on every directory of generated trees
// (oracle: never false when `//dir/...` lists a package; equal to a depth-first, queue-free reference).
package main

import (
	"archive/tar"
	"fmt"
	"io"
	"os"
	"path/filepath"
	"sort"
	"strings"

	"verifharness/lib"

	gologging "gopkg.in/op/go-logging.v1"

	"github.com/thought-machine/please/src/core"
	"github.com/thought-machine/please/src/plz"
	"github.com/thought-machine/please/src/query"
)

// ---------------------------------------------------------------------------------------------
// inputs

type node struct {
	Name string  `json:"n"`
	Kind string  `json:"k"` // "f" regular file, "d" directory, "l" symlink to a directory
	Kids []*node `json:"c,omitempty"`
}

type input struct {
	BuildFileNames []string `json:"build_file_names"`
	Blacklist      []string `json:"blacklist"`
	Experimental   []string `json:"experimental"`
	Root           string   `json:"root"`   // clean relative path of a directory of the tree, or "" / "."
	Prefix         string   `json:"prefix"` // FindAllBuildFiles' third argument ("" for `...` expansion)
	Tree           *node    `json:"tree"`   // the repository root directory
	// Kind "" = one `//root/...` label (FindAllBuildFiles + findOriginalTask); "set" = a whole command line of labels
	// (findOriginalTaskSet); "contains" = query.containsPackage(Dir), the search behind the completion of `//dir/`
	Kind    string      `json:"kind,omitempty"`
	Cmdline [][2]string `json:"cmdline,omitempty"` // "set": (package, name) of every label, name "..." = all subpackages
	Dir     string      `json:"dir,omitempty"`     // "contains": clean relative path of a directory of the tree, or "."
}

func d(name string, kids ...*node) *node { return &node{Name: name, Kind: "d", Kids: kids} }
func f(name string) *node                { return &node{Name: name, Kind: "f"} }
func l(name string) *node                { return &node{Name: name, Kind: "l"} }

func (n *node) kid(name string) *node {
	for _, k := range n.Kids {
		if k.Name == name {
			return k
		}
	}
	return nil
}

func comps(p string) []string {
	if p == "" || p == "." {
		return nil
	}
	return strings.Split(p, "/")
}

func (n *node) at(cs []string) *node {
	for _, c := range cs {
		if n == nil || n.Kind != "d" {
			return nil
		}
		n = n.kid(c)
	}
	return n
}

func (n *node) size() int {
	s := 1
	for _, k := range n.Kids {
		s += k.size()
	}
	return s
}

func (n *node) depth() int {
	m := 0
	for _, k := range n.Kids {
		m = max(m, k.depth())
	}
	return m + 1
}

// allDirs lists the relative paths ("" = the root) of every directory of the tree.
func (n *node) allDirs(path string, out *[]string) {
	*out = append(*out, path)
	for _, k := range n.Kids {
		if k.Kind == "d" {
			k.allDirs(strings.TrimPrefix(path+"/"+k.Name, "/"), out)
		}
	}
}

func materialise(dir string, n *node, linkTarget string) {
	for _, k := range n.Kids {
		p := filepath.Join(dir, k.Name)
		switch k.Kind {
		case "d":
			must(os.Mkdir(p, 0o755))
			materialise(p, k, linkTarget)
		case "f":
			must(os.WriteFile(p, []byte("filegroup(name = 't')\n"), 0o644))
		case "l":
			must(os.Symlink(linkTarget, p))
		}
	}
}

func must(err error) {
	if err != nil {
		panic(err)
	}
}

// ---------------------------------------------------------------------------------------------
// Coq printers

// Every distinct string is defined once in the header of the case files (elaborating a string literal is what
// costs time in Coq) and referred to by name afterwards.
var interned = map[string]string{}
var internOrder []string

func str(x string) string {
	id, ok := interned[x]
	if !ok {
		id = fmt.Sprintf("n%d", len(interned))
		interned[x] = id
		internOrder = append(internOrder, x)
	}
	return id
}

func strList(xs []string) string {
	out := make([]string, len(xs))
	for i, x := range xs {
		out[i] = str(x)
	}
	return lib.List(out)
}

// a path is written as P [components] (P = strings.Join(_, "/") in Model/C22.v), so that only names are literals
func path(x string) string {
	if !strings.Contains(x, "/") {
		return str(x)
	}
	return "(P " + strList(strings.Split(x, "/")) + ")"
}

func pathList(xs []string) string {
	out := make([]string, len(xs))
	for i, x := range xs {
		out[i] = path(x)
	}
	return lib.List(out)
}

func header() string {
	var b strings.Builder
	b.WriteString("From PlzV Require Import Model.C22.\nDefinition F := File FReg.\nDefinition L := File FLinkDir.\n")
	for _, x := range internOrder {
		fmt.Fprintf(&b, "Definition %s : str := %s.\n", interned[x], lib.Str(x))
	}
	return b.String()
}

func coqNode(n *node) string {
	switch n.Kind {
	case "f":
		return "F"
	case "l":
		return "L"
	}
	items := make([]string, len(n.Kids))
	for i, k := range n.Kids {
		items[i] = lib.Pair(str(k.Name), coqNode(k))
	}
	return "(Dir " + lib.List(items) + ")"
}

// ---------------------------------------------------------------------------------------------
// the implementation

type observed struct {
	Files  []string `json:"files"`  // names received from FindAllBuildFiles' channel, in order
	Labels []string `json:"labels"` // package names of the labels findOriginalTask added, sorted (prefix == "" only)
}

var baseConfig *core.Configuration

func config(in *input) *core.Configuration {
	if baseConfig == nil {
		baseConfig = core.DefaultConfiguration()
	}
	c := *baseConfig // shallow copy: only the three Parse lists below differ between cases
	c.Parse.BuildFileName = append([]string{}, in.BuildFileNames...)
	c.Parse.BlacklistDirs = append([]string{}, in.Blacklist...)
	c.Parse.ExperimentalDir = append([]string{}, in.Experimental...)
	return &c
}

var scratch, linkTarget string
var state *core.BuildState
var serial int

func run(in *input, withLabels bool) observed {
	serial++
	repo := filepath.Join(scratch, fmt.Sprintf("r%d", serial))
	must(os.Mkdir(repo, 0o755))
	materialise(repo, in.Tree, linkTarget)
	wd, err := os.Getwd()
	must(err)
	must(os.Chdir(repo))
	defer func() {
		must(os.Chdir(wd))
		must(os.RemoveAll(repo))
	}()
	obs := observed{Files: []string{}, Labels: []string{}}
	for name := range plz.FindAllBuildFiles(config(in), in.Root, in.Prefix) {
		obs.Files = append(obs.Files, name)
	}
	if withLabels {
		// one BuildState for the whole run (each one starts a results forwarder that is never stopped)
		if state == nil {
			state = core.NewBuildState(config(in))
		}
		state.Config = config(in)
		before := state.NumActive()
		pkg := in.Root
		if pkg == "." {
			pkg = ""
		}
		plz.VerifC22FindOriginalTask(state, core.BuildLabel{PackageName: pkg, Name: "..."})
		n := state.NumActive() - before
		parses, _ := state.TaskQueues()
		for i := 0; i < n; i++ {
			t := <-parses
			if t.Label.Name != "all" || t.Label.Subrepo != "" {
				obs.Labels = append(obs.Labels, "!"+t.Label.String())
			} else {
				obs.Labels = append(obs.Labels, t.Label.PackageName)
			}
		}
		sort.Strings(obs.Labels)
	}
	return obs
}

// ---------------------------------------------------------------------------------------------
// the property oracle: a declarative reference, by path components

func contains(xs []string, x string) bool {
	for _, y := range xs {
		if x == y {
			return true
		}
	}
	return false
}

func compsPrefix(p, cs []string) bool {
	if len(p) > len(cs) {
		return false
	}
	for i := range p {
		if p[i] != cs[i] {
			return false
		}
	}
	return true
}

func pathStr(cs []string) string {
	if len(cs) == 0 {
		return "."
	}
	return strings.Join(cs, "/")
}

// excludedDir: is the directory with these path components (relative to the repository root) one that the
// property excludes: plz-out, hidden, a configured experimental directory, or blacklisted - by its own name,
// or because a blacklist entry names it or one of its ancestors as a path of WHOLE components.
func excludedDir(in *input, cs []string) bool {
	if len(cs) > 0 {
		b := cs[len(cs)-1]
		if b == "plz-out" || strings.HasPrefix(b, ".") || contains(in.Blacklist, b) {
			return true
		}
	}
	if contains(in.Experimental, pathStr(cs)) {
		return true
	}
	for _, e := range in.Blacklist {
		if compsPrefix(strings.Split(e, "/"), cs) {
			return true
		}
	}
	return false
}

func hasBuildFile(in *input, n *node) bool {
	for _, k := range n.Kids {
		if k.Kind != "d" && contains(in.BuildFileNames, k.Name) {
			return true
		}
	}
	return false
}

// reference: package name -> true for every directory under root (root included) that has a BUILD file
// and no excluded directory on the chain from root down to it.
func reference(in *input) map[string]bool {
	out := map[string]bool{}
	var rec func(n *node, cs []string)
	rec = func(n *node, cs []string) {
		if excludedDir(in, cs) {
			return
		}
		if hasBuildFile(in, n) {
			out[strings.Join(cs, "/")] = true
		}
		for _, k := range n.Kids {
			if k.Kind == "d" {
				rec(k, append(append([]string{}, cs...), k.Name))
			}
		}
	}
	root := comps(in.Root)
	rec(in.Tree.at(root), root)
	return out
}

// fileStopsScan: would the walk callback return SkipDir for this NON-directory entry (plain file: godirwalk
// then abandons the rest of the directory)?  Only used to classify a failure, never to excuse one silently.
func fileLooksExcluded(in *input, dir []string, name string) bool {
	cs := append(append([]string{}, dir...), name)
	if name == "plz-out" || contains(in.Blacklist, name) {
		return true
	}
	if !contains(in.BuildFileNames, name) && contains(in.Experimental, pathStr(cs)) {
		return true
	}
	for _, e := range in.Blacklist {
		if compsPrefix(strings.Split(e, "/"), cs) {
			return true
		}
	}
	return false
}

// classifyMissing gives the defect class of a package that should be listed and is not.
func classifyMissing(in *input, pkg string) string {
	root, target := comps(in.Root), comps(pkg)
	// (1) a plain file, named like an excluded directory, sorted before the entry that leads to the package
	for i := len(root); i <= len(target); i++ {
		dir := in.Tree.at(target[:i])
		var nexts []string
		if i < len(target) {
			nexts = []string{target[i]}
		} else {
			for _, k := range dir.Kids {
				if k.Kind != "d" && contains(in.BuildFileNames, k.Name) {
					nexts = append(nexts, k.Name)
				}
			}
		}
		for _, k := range dir.Kids {
			if k.Kind != "f" || !fileLooksExcluded(in, target[:i], k.Name) {
				continue
			}
			all := true
			for _, nx := range nexts {
				if !(k.Name < nx) {
					all = false
				}
			}
			if all {
				return "file-named-like-excluded-dir-hides-later-siblings"
			}
		}
	}
	// (2) the defect repaired by e0a6f77: a blacklist entry that is a string prefix, not a component prefix
	for i := len(root); i <= len(target); i++ {
		for _, e := range in.Blacklist {
			if strings.HasPrefix(pathStr(target[:i]), e) {
				return "blacklist-entry-matched-as-string-prefix"
			}
		}
	}
	// (3) likewise for experimental directories
	for i := len(root); i <= len(target); i++ {
		for _, e := range in.Experimental {
			if strings.HasPrefix(pathStr(target[:i]), e) {
				return "experimental-dir-matched-as-string-prefix"
			}
		}
	}
	return "package-not-listed"
}

func classifyExtra(in *input, pkg string) string {
	root, target := comps(in.Root), comps(pkg)
	n := in.Tree.at(target)
	if n == nil || n.Kind != "d" || !compsPrefix(root, target) {
		return "listed-package-is-not-a-directory-under-dir"
	}
	if !hasBuildFile(in, n) {
		return "listed-directory-has-no-build-file"
	}
	for i := len(root); i <= len(target); i++ {
		cs := target[:i]
		if len(cs) > 0 && cs[len(cs)-1] == "plz-out" {
			return "plz-out-listed"
		}
		if len(cs) > 0 && strings.HasPrefix(cs[len(cs)-1], ".") {
			return "hidden-directory-listed"
		}
		if contains(in.Experimental, pathStr(cs)) {
			return "experimental-directory-listed"
		}
	}
	return "blacklisted-directory-listed"
}

func pkgOfFile(name string) string {
	dir, _ := filepath.Split(name)
	return strings.Trim(dir, "/")
}

func oracle(c *lib.Ctx, in *input, obs observed, js any) {
	c.Oracle()
	want := reference(in)
	got := map[string]bool{}
	seen := map[string]bool{}
	for _, name := range obs.Files {
		// every name sent must be a BUILD file of the tree, sent once
		cs := comps(name)
		n := in.Tree.at(cs)
		if n == nil || n.Kind == "d" || len(cs) == 0 || !contains(in.BuildFileNames, cs[len(cs)-1]) {
			c.Fail("sent-name-is-not-a-build-file", fmt.Sprintf("FindAllBuildFiles sent %q, which is not a BUILD file of the tree", name), js)
		}
		if seen[name] {
			c.Fail("build-file-sent-twice", fmt.Sprintf("FindAllBuildFiles sent %q twice", name), js)
		}
		seen[name] = true
		got[pkgOfFile(name)] = true
	}
	for _, p := range lib.SortedKeys(want) {
		if !got[p] {
			c.Fail(classifyMissing(in, p), fmt.Sprintf("//%s/... (blacklist %q, experimental %q): package %q has a BUILD file and no excluded directory on its path, but is not listed", in.Root, in.Blacklist, in.Experimental, p), js)
		}
	}
	for _, p := range lib.SortedKeys(got) {
		if !want[p] {
			c.Fail(classifyExtra(in, p), fmt.Sprintf("//%s/... (blacklist %q, experimental %q): %q is listed but is not a non-excluded package under the directory", in.Root, in.Blacklist, in.Experimental, p), js)
		}
	}
	if in.Prefix == "" && obs.Labels != nil {
		// the labels findOriginalTask adds are exactly //<package>:all for the packages of the files sent
		c.Oracle()
		lab := map[string]bool{}
		for _, p := range obs.Labels {
			lab[p] = true
		}
		same := len(lab) == len(got)
		for p := range got {
			same = same && lab[p]
		}
		if !same {
			c.Fail("labels-differ-from-build-file-directories", fmt.Sprintf("findOriginalTask(//%s/...) added :all labels for %q, the BUILD files found are in %q", in.Root, lib.SortedKeys(lab), lib.SortedKeys(got)), js)
		}
	}
}

// ---------------------------------------------------------------------------------------------
// several labels on one command line (findOriginalTaskSet)

func inRepo(in *input, body func()) {
	serial++
	repo := filepath.Join(scratch, fmt.Sprintf("r%d", serial))
	must(os.Mkdir(repo, 0o755))
	materialise(repo, in.Tree, linkTarget)
	wd, err := os.Getwd()
	must(err)
	must(os.Chdir(repo))
	defer func() {
		must(os.Chdir(wd))
		must(os.RemoveAll(repo))
	}()
	body()
}

// runSet feeds the whole command line to the real findOriginalTaskSet and returns the (package, name) pairs of the
// parse tasks it queued - one per AddOriginalTarget call, duplicates kept - sorted.
func runSet(in *input) [][2]string {
	out := [][2]string{}
	inRepo(in, func() {
		if state == nil {
			state = core.NewBuildState(config(in))
		}
		state.Config = config(in)
		labels := make([]core.BuildLabel, len(in.Cmdline))
		for i, l := range in.Cmdline {
			labels[i] = core.BuildLabel{PackageName: l[0], Name: l[1]}
		}
		before := state.NumActive()
		plz.VerifC22FindOriginalTaskSet(state, labels)
		n := state.NumActive() - before
		parses, _ := state.TaskQueues()
		for i := 0; i < n; i++ {
			t := <-parses
			if t.Label.Subrepo != "" {
				out = append(out, [2]string{"!" + t.Label.String(), ""})
			} else {
				out = append(out, [2]string{t.Label.PackageName, t.Label.Name})
			}
		}
	})
	sort.Slice(out, func(i, j int) bool {
		if out[i][0] != out[j][0] {
			return out[i][0] < out[j][0]
		}
		return out[i][1] < out[j][1]
	})
	return out
}

func rootOf(pkg string) string {
	if pkg == "" {
		return "."
	}
	return pkg
}

// what one label of the command line stands for, from the declarative reference
// (label -> how often it is added: once per BUILD file of the package, a package may have several)
func labelStandsFor(in *input, l [2]string) map[[2]string]int {
	out := map[[2]string]int{}
	if l[1] != "..." {
		out[l] = 1
		return out
	}
	one := *in
	one.Root = rootOf(l[0])
	for p := range reference(&one) {
		for _, k := range in.Tree.at(comps(p)).Kids {
			if k.Kind != "d" && contains(in.BuildFileNames, k.Name) {
				out[[2]string{p, "all"}]++
			}
		}
	}
	return out
}

func oracleSet(c *lib.Ctx, in *input, got [][2]string, js any) {
	c.Oracle()
	want := map[[2]string]int{}  // label -> number of times the command-line labels stand for it (once per label and BUILD file)
	first := map[[2]string]int{} // label -> index of the first command-line label that stands for it
	for i, l := range in.Cmdline {
		for x, k := range labelStandsFor(in, l) {
			if want[x] == 0 {
				first[x] = i
			}
			want[x] += k
		}
	}
	have := map[[2]string]int{}
	for _, x := range got {
		have[x]++
	}
	keys := func(m map[[2]string]int) [][2]string {
		ks := [][2]string{}
		for k := range m {
			ks = append(ks, k)
		}
		sort.Slice(ks, func(i, j int) bool { return ks[i][0]+"\x00"+ks[i][1] < ks[j][0]+"\x00"+ks[j][1] })
		return ks
	}
	for _, x := range keys(want) {
		switch {
		case have[x] == 0 && first[x] > 0:
			by := in.Cmdline[first[x]]
			c.Fail("package-of-later-label-on-command-line-not-listed", fmt.Sprintf("command line %q (blacklist %q): //%s:%s, which label #%d //%s:%s stands for, is not added", in.Cmdline, in.Blacklist, x[0], x[1], first[x]+1, by[0], by[1]), js)
		case have[x] == 0:
			c.Fail("package-of-first-label-on-command-line-not-listed", fmt.Sprintf("command line %q (blacklist %q): //%s:%s, which the first label stands for, is not added", in.Cmdline, in.Blacklist, x[0], x[1]), js)
		}
		// how often a label is added (once per label that stands for it and BUILD file of the package) is not part of
		// the property; the correspondence with the model compares it (CSet keeps duplicates)
		if have[x] != 0 && have[x] != want[x] {
			c.Hist("cmdline_multiplicity", "differs from once per label and BUILD file")
		}
	}
	for _, x := range keys(have) {
		if want[x] == 0 {
			c.Fail("label-added-that-no-command-line-label-stands-for", fmt.Sprintf("command line %q (blacklist %q): //%s:%s is added", in.Cmdline, in.Blacklist, x[0], x[1]), js)
		}
	}
}

func coqTargets(in *input) string {
	items := make([]string, len(in.Cmdline))
	for i, l := range in.Cmdline {
		if l[1] == "..." {
			items[i] = lib.App("TDots", path(l[0]), coqNode(in.Tree.at(comps(l[0]))))
		} else {
			items[i] = lib.App("TLabel", path(l[0]), str(l[1]))
		}
	}
	return lib.List(items)
}

func coqPairs(xs [][2]string) string {
	items := make([]string, len(xs))
	for i, x := range xs {
		items[i] = lib.Pair(path(x[0]), str(x[1]))
	}
	return lib.List(items)
}

func oneSet(c *lib.Ctx, in *input, model bool) {
	in.Kind = "set"
	if in.Blacklist == nil {
		in.Blacklist = []string{}
	}
	if in.Experimental == nil {
		in.Experimental = []string{}
	}
	ndots := 0
	for _, l := range in.Cmdline {
		if n := in.Tree.at(comps(l[0])); l[1] == "..." && (n == nil || n.Kind != "d") {
			panic(fmt.Sprintf("generator: %q is not a directory of the tree", l[0]))
		}
		if l[1] == "..." {
			ndots++
		}
	}
	got := runSet(in)
	js := map[string]any{"kind": "set", "build_file_names": in.BuildFileNames, "blacklist": in.Blacklist, "experimental": in.Experimental,
		"cmdline": in.Cmdline, "tree": in.Tree, "added": got}
	key := fmt.Sprintf("set|%q|%q|%q|%q|%s", in.BuildFileNames, in.Blacklist, in.Experimental, in.Cmdline, coqNode(in.Tree))
	nontriv := ndots >= 2 && len(got) >= 2
	if model {
		c.Case(lib.App("CSet", strList(in.BuildFileNames), strList(in.Blacklist), strList(in.Experimental), coqTargets(in), coqPairs(got)), js, key, nontriv)
	} else {
		c.Eval(js, key, nontriv)
	}
	oracleSet(c, in, got, js)
	c.HistN("cmdline_labels", len(in.Cmdline))
	c.HistN("cmdline_labels_added", min(len(got), 12))
	c.Hist("cmdline_shape", cmdlineShape(in))
}

// nameOnlyPrefix: a's path is a proper string prefix of b's without being a prefix by whole components
func nameOnlyPrefix(a, b string) bool {
	return a != "" && a != b && strings.HasPrefix(b, a) && !compsPrefix(comps(a), comps(b))
}

func cmdlineShape(in *input) string {
	var dots []string
	for _, l := range in.Cmdline {
		if l[1] == "..." {
			dots = append(dots, l[0])
		}
	}
	shape := "unrelated roots"
	for i := range dots {
		for j := range dots {
			switch {
			case i < j && nameOnlyPrefix(dots[i], dots[j]):
				return "earlier root is a name prefix of a later one"
			case i > j && nameOnlyPrefix(dots[i], dots[j]):
				shape = "later root is a name prefix of an earlier one"
			case i != j && shape == "unrelated roots" && compsPrefix(comps(dots[i]), comps(dots[j])):
				shape = "nested or repeated roots"
			}
		}
	}
	if len(dots) < 2 {
		return "fewer than two ... labels"
	}
	return shape
}

// addPrefixSibling gives some directory of the tree a sibling whose name extends its name (out -> output, a -> a-2, ...)
func addPrefixSibling(r *lib.Rng, tree *node) {
	var parents []*node
	var rec func(n *node)
	rec = func(n *node) {
		for _, k := range n.Kids {
			if k.Kind == "d" {
				parents = append(parents, n)
				rec(k)
			}
		}
	}
	rec(tree)
	if len(parents) == 0 {
		return
	}
	p := lib.Pick(r, parents)
	var ds []*node
	for _, k := range p.Kids {
		if k.Kind == "d" {
			ds = append(ds, k)
		}
	}
	base := lib.Pick(r, ds)
	name := base.Name + lib.Pick(r, []string{"put", "x", "-2", ".d", "_test", "b"})
	if p.kid(name) != nil {
		return
	}
	sib := d(name, f("BUILD"))
	if r.Bool() {
		sib.Kids = append(sib.Kids, d(lib.Pick(r, []string{"lib", "a", "out", "x"}), f("BUILD")))
	}
	p.Kids = append(p.Kids, sib)
}

// genCmdlines: a tree and one or two command lines over it (a pair = the same labels in both orders)
func genCmdlines(r *lib.Rng, maxDepth int) []*input {
	base := genInput(r, r.Chance(1, 3), maxDepth)
	if r.Chance(2, 3) {
		addPrefixSibling(r, base.Tree)
	}
	var dirs []string
	base.Tree.allDirs("", &dirs)
	mk := func(cl [][2]string) *input {
		in := *base
		in.Root, in.Prefix, in.Cmdline = "", "", cl
		return &in
	}
	extra := func(cl [][2]string) [][2]string {
		for r.Chance(1, 3) && len(cl) < 5 {
			l := [2]string{lib.Pick(r, dirs), lib.Pick(r, []string{"...", "...", "all", "t"})}
			i := r.Range(0, len(cl))
			cl = append(cl[:i:i], append([][2]string{l}, cl[i:]...)...)
		}
		return cl
	}
	var pairs [][2]string
	for _, a := range dirs {
		for _, b := range dirs {
			if nameOnlyPrefix(a, b) {
				pairs = append(pairs, [2]string{a, b})
			}
		}
	}
	if len(pairs) > 0 && r.Chance(3, 4) {
		p := lib.Pick(r, pairs)
		ab := extra([][2]string{{p[0], "..."}, {p[1], "..."}})
		ba := make([][2]string, len(ab))
		for i := range ab {
			ba[len(ab)-1-i] = ab[i]
		}
		return []*input{mk(ab), mk(ba)}
	}
	n := r.Range(2, 4)
	cl := [][2]string{}
	for i := 0; i < n; i++ {
		cl = append(cl, [2]string{lib.Pick(r, dirs), "..."})
	}
	return []*input{mk(extra(cl))}
}

func adversarialSets() []*input {
	pk := func(name string, kids ...*node) *node { return d(name, append([]*node{f("BUILD")}, kids...)...) }
	dots := func(ps ...string) [][2]string {
		out := [][2]string{}
		for _, p := range ps {
			out = append(out, [2]string{p, "..."})
		}
		return out
	}
	t1 := func() *node {
		return d("", pk("out", pk("a")), pk("output", pk("lib")), d("src", pk("a", pk("x")), pk("ab", pk("y")), pk("a.b")), pk(".git", pk("x")), pk("plz-out", pk("gen")))
	}
	none := []string{}
	mk := func(bl []string, cl [][2]string) *input {
		return &input{BuildFileNames: defaultNames, Blacklist: bl, Experimental: none, Tree: t1(), Cmdline: cl}
	}
	return []*input{
		// name prefixes that are not component prefixes, both orders
		mk(none, dots("out", "output")), mk(none, dots("output", "out")),
		mk(none, dots("src/a", "src/ab")), mk(none, dots("src/ab", "src/a")),
		mk(none, dots("src/a", "src/a.b", "src/ab", "out", "output")),
		// nested and repeated labels: everything is added once per label
		mk(none, dots("src", "src/a", "src/a/x")), mk(none, dots("src/a/x", "src/a", "src")), mk(none, dots("out", "out")),
		// `//...` first, then directories it does not descend into but that can be asked for by name
		mk(none, dots("", ".git/x", "plz-out/gen")), mk(none, dots(".git/x", "")),
		// blacklisted by name / by path, asked for explicitly next to a name-prefix sibling
		mk([]string{"out"}, dots("out", "output")), mk([]string{"src/a"}, dots("src/a", "src/ab", "src")),
		// mixed with ordinary labels
		mk(none, [][2]string{{"out", "..."}, {"output", "all"}, {"output", "..."}, {"out/a", "t"}}),
	}
}

// ---------------------------------------------------------------------------------------------
// completion of `//dir/`: query.containsPackage

// refContains: declaratively (depth first, no queue): dir is not isExcluded and holds an entry named like a BUILD
// file, or one of its real sub-directories does
func refContains(in *input, cs []string) bool {
	n := in.Tree.at(cs)
	if n == nil || n.Kind != "d" {
		return false
	}
	last := "."
	if len(cs) > 0 {
		last = cs[len(cs)-1]
	}
	if pathStr(cs) == "plz-out" || contains(in.Blacklist, last) {
		return false
	}
	for _, k := range n.Kids {
		if contains(in.BuildFileNames, k.Name) {
			return true
		}
	}
	for _, k := range n.Kids {
		if k.Kind == "d" && refContains(in, append(append([]string{}, cs...), k.Name)) {
			return true
		}
	}
	return false
}

// completionExcludes: does some directory under cs (cs excluded) stop the completion search (isExcluded)?
func completionExcludesBelow(in *input, n *node) bool {
	for _, k := range n.Kids {
		if k.Kind == "d" && (contains(in.Blacklist, k.Name) || completionExcludesBelow(in, k)) {
			return true
		}
	}
	return false
}

// containsAll runs the real containsPackage for each of the given directories of one tree
func containsAll(c *lib.Ctx, in *input, dirs []string, modelDirs int) {
	in.Kind = "contains"
	if in.Blacklist == nil {
		in.Blacklist = []string{}
	}
	if in.Experimental == nil {
		in.Experimental = []string{}
	}
	found := make([]bool, len(dirs))
	cfg := config(in)
	inRepo(in, func() {
		for i, dir := range dirs {
			found[i] = query.VerifC22ContainsPackage(cfg, dir)
		}
	})
	for i, dir := range dirs {
		cs := comps(dir)
		sub := in.Tree.at(cs)
		js := map[string]any{"kind": "contains", "build_file_names": in.BuildFileNames, "blacklist": in.Blacklist, "experimental": in.Experimental,
			"dir": dir, "tree": in.Tree, "found": found[i]}
		key := fmt.Sprintf("contains|%q|%q|%s|%s", in.BuildFileNames, in.Blacklist, dir, coqNode(sub))
		nontriv := completionExcludesBelow(in, sub) && sub.size() >= 4
		if i < modelDirs {
			c.Case(lib.App("CContains", strList(in.BuildFileNames), strList(in.Blacklist), strList(in.Experimental), path(dir), coqNode(sub), lib.Bool(found[i])), js, key, nontriv)
		} else {
			c.Eval(js, key, nontriv)
		}
		c.Oracle()
		one := *in
		one.Root, one.Prefix = dir, ""
		exp := reference(&one)
		want := refContains(in, cs)
		switch {
		case len(exp) > 0 && !found[i]:
			c.Fail("completion-hides-directory-whose-expansion-lists-packages", fmt.Sprintf("containsPackage(%q) (blacklist %q) is false, but //%s/... lists %q", dir, in.Blacklist, dir, lib.SortedKeys(exp)), js)
		case want && !found[i]:
			c.Fail("completion-search-misses-reachable-build-file", fmt.Sprintf("containsPackage(%q) (blacklist %q) is false, but a BUILD file is reachable through directories that are not excluded", dir, in.Blacklist), js)
		case !want && found[i]:
			c.Fail("completion-search-finds-package-where-none-reachable", fmt.Sprintf("containsPackage(%q) (blacklist %q) is true, but no BUILD file is reachable through directories that are not excluded", dir, in.Blacklist), js)
		}
		c.Hist("contains_package", fmt.Sprintf("%v", found[i]))
		switch {
		case len(exp) > 0:
			c.Hist("contains_vs_expansion", "expansion lists packages")
		case found[i]:
			c.Hist("contains_vs_expansion", "offered by completion, expansion empty (hidden / experimental / nested plz-out / BUILD-named directory ...)")
		default:
			c.Hist("contains_vs_expansion", "neither")
		}
	}
}

func genContains(r *lib.Rng, maxDepth int) (*input, []string) {
	in := genInput(r, r.Chance(1, 3), maxDepth)
	in.Root, in.Prefix = "", ""
	if len(in.Blacklist) == 0 || r.Chance(1, 2) {
		// a blacklisted name that really occurs in the tree
		var names []string
		var rec func(n *node)
		rec = func(n *node) {
			for _, k := range n.Kids {
				if k.Kind == "d" {
					names = append(names, k.Name)
					rec(k)
				}
			}
		}
		rec(in.Tree)
		if len(names) > 0 {
			if x := lib.Pick(r, names); !contains(in.Blacklist, x) {
				in.Blacklist = append(append([]string{}, in.Blacklist...), x)
			}
		}
	}
	var dirs []string
	in.Tree.allDirs("", &dirs)
	dirs[0] = "."
	lib.Shuffle(r, dirs)
	return in, dirs
}

func adversarialContains() (ins []*input, dirs [][]string) {
	pk := func(name string, kids ...*node) *node { return d(name, append([]*node{f("BUILD")}, kids...)...) }
	add := func(bl []string, t *node, ds ...string) {
		ins = append(ins, &input{BuildFileNames: defaultNames, Blacklist: bl, Experimental: []string{}, Tree: t})
		dirs = append(dirs, ds)
	}
	// a blacklisted directory dequeued before the package is found: next to it (sorted first), one level above it,
	// or after it; the candidate's own BUILD file; nothing but the blacklisted directory
	add([]string{"node_modules"}, d("", d("src", d("app", d("node_modules", pk("dep")), pk("ui")), d("deep", d("node_modules"), d("pkg", pk("sub"))),
		d("svc", pk("api"), d("node_modules", pk("dep"))), pk("own", d("node_modules")), d("only", d("node_modules", pk("dep"))), d("node_modules", pk("dep")))),
		"src/app", "src/deep", "src/svc", "src/own", "src/only", "src/node_modules", "src", ".")
	// plz-out only as the whole path; hidden and experimental directories are searched by completion
	add([]string{}, d("", d("plz-out", pk("gen")), d("a", d("plz-out", pk("gen"))), d("b", d(".hid", pk("x"))), d("c")), "plz-out", "a", "a/plz-out", "b", "c", ".")
	// entries named like a BUILD file that are not files; blacklist entries that are paths
	add([]string{"x/y", "y"}, d("", d("a", d("BUILD", f("x"))), d("b", l("BUILD")), d("x", d("y", pk("p")), d("z", d("y", pk("q")))), d("e", f("BUILD.bazel"))), "a", "b", "x", "x/z", "e", ".")
	return
}

// ---------------------------------------------------------------------------------------------
// generators

var defaultNames = []string{"BUILD", "BUILD.plz"}

var dirNames = []string{"out", "output", "outp", "ou", "third_party", "third_partyish", "third_part", "x", "y", "a", "b", "A", "Z",
	"exp", "experimental", "experimentally", "plz-out", "plz-outer", "plz-ou", ".git", ".hidden", "..x", "node_modules", "vendor", "zeta", "~z",
	"build", "BUILD", "BUILD.plz", "pkg", "src", "out.d", "out-", "a b", "q"}
var fileNames = []string{"BUILD", "BUILD.plz", "BUILD.bazel", "BUILD.test", "build", "main.go", "out", "third_party", "vendor", "exp",
	"plz-out", ".hidden", "a", "x", "README", "zz", "experimental", "node_modules", "BUILD.pl", "BUILDX"}
var blacklistPool = []string{"out", "third_party", "node_modules", "vendor", "a/b", "third_party/x", "x/y", "a", "out/a", "exp", "third_part",
	"src/vendor", "BUILD", "out/", "/out", "a//b", "zeta", "x"}
var experimentalPool = []string{"experimental", "exp", "a/exp", "x/experimental", "a", "third_party/exp", "out"}
var buildNameSets = [][]string{defaultNames, defaultNames, defaultNames, {"BUILD"}, {"BUILD.bazel", "BUILD", "BUILD.plz"}, {"BUILD.test"}, {"build", "BUILD"}}

func genTree(r *lib.Rng, depth int, hazards bool) *node {
	n := d("")
	used := map[string]bool{}
	add := func(k *node) {
		if !used[k.Name] {
			used[k.Name] = true
			n.Kids = append(n.Kids, k)
		}
	}
	// BUILD files: most directories are packages
	if r.Chance(3, 5) {
		add(f(lib.Pick(r, []string{"BUILD", "BUILD", "BUILD", "BUILD.plz", "BUILD.bazel", "BUILD.test", "build"})))
		if r.Chance(1, 5) {
			add(f("BUILD.plz"))
		}
	}
	nent := r.Range(1, 6)
	if depth == 0 {
		nent = r.Range(0, 2)
	}
	for i := 0; i < nent; i++ {
		switch {
		case depth > 0 && r.Chance(7, 10):
			k := genTree(r, depth-1, hazards)
			k.Name = lib.Pick(r, dirNames)
			add(k)
		case r.Chance(1, 12):
			add(l(lib.Pick(r, []string{"plz-out", "link", "out", "vendor", "BUILD", "third_party"})))
		default:
			name := lib.Pick(r, fileNames)
			if !hazards && !strings.HasPrefix(name, "BUILD") && (name == "plz-out" || contains(blacklistPool, name) || contains(experimentalPool, name)) {
				name = "f_" + name
			}
			add(f(name))
		}
	}
	lib.Shuffle(r, n.Kids) // the order of the children in the case term is arbitrary: the model sorts
	return n
}

func pickSome(r *lib.Rng, pool []string, maxN int) []string {
	n := r.Range(0, maxN)
	out := []string{}
	for i := 0; i < n; i++ {
		x := lib.Pick(r, pool)
		if !contains(out, x) {
			out = append(out, x)
		}
	}
	return out
}

func genInput(r *lib.Rng, hazards bool, maxDepth int) *input {
	in := &input{BuildFileNames: lib.Pick(r, buildNameSets), Tree: genTree(r, r.Range(2, maxDepth), hazards)}
	in.Blacklist = pickSome(r, blacklistPool, 3)
	if r.Chance(1, 2) {
		in.Experimental = pickSome(r, experimentalPool, 2)
	} else {
		in.Experimental = []string{}
	}
	if !hazards {
		// a BUILD file name that is itself blacklisted makes the BUILD file stop the scan
		bl := in.Blacklist[:0:0]
		for _, e := range in.Blacklist {
			if !contains(in.BuildFileNames, e) {
				bl = append(bl, e)
			}
		}
		in.Blacklist = bl
	}
	in.Root = "."
	if r.Chance(1, 3) {
		var dirs []string
		in.Tree.allDirs("", &dirs)
		in.Root = lib.Pick(r, dirs)
		if in.Root == "" && r.Bool() {
			in.Root = "."
		}
	}
	return in
}

func keyOf(in *input) string { return fmt.Sprintf("%q|%q|%q|%s|%s|%s", in.BuildFileNames, in.Blacklist, in.Experimental, in.Root, in.Prefix, coqNode(in.Tree)) }

// nontrivial: at least two packages are listed or excluded, and some exclusion rule is in play
func nontrivial(in *input) bool {
	var dirs []string
	in.Tree.at(comps(in.Root)).allDirs("", &dirs)
	npk, nex := 0, 0
	root := comps(in.Root)
	for _, p := range dirs {
		cs := append(append([]string{}, root...), comps(p)...)
		if hasBuildFile(in, in.Tree.at(cs)) {
			npk++
		}
		if excludedDir(in, cs) {
			nex++
		}
	}
	return npk >= 2 && nex >= 1
}

func tarTree(path string) *node {
	fh, err := os.Open(path)
	must(err)
	defer fh.Close()
	root := d("")
	tr := tar.NewReader(fh)
	for {
		h, err := tr.Next()
		if err == io.EOF {
			break
		}
		must(err)
		cs := comps(strings.Trim(filepath.Clean(h.Name), "/"))
		if len(cs) == 0 {
			continue
		}
		n := root
		for i, c := range cs {
			k := n.kid(c)
			if k == nil {
				if i == len(cs)-1 && h.Typeflag != tar.TypeDir {
					k = f(c)
				} else {
					k = d(c)
				}
				n.Kids = append(n.Kids, k)
			}
			n = k
		}
	}
	return root
}

// adversarial: the boundary of every rule, by hand
func adversarial() []*input {
	pk := func(name string, kids ...*node) *node { return d(name, append([]*node{f("BUILD")}, kids...)...) }
	none := []string{}
	type in6 struct {
		bfn, bl, exp []string
		root, prefix string
		tree         *node
	}
	six := []in6{
		// the witness of the defect fixed by e0a6f77: `out` must not hide output/, third_party/x not third_party/xy
		{defaultNames, []string{"out"}, none, ".", "", d("", pk("out", pk("a")), pk("output", pk("q")), pk("outp"), pk("ou"), pk("out.d"), pk("out-"))},
		{defaultNames, []string{"third_party/x"}, none, ".", "", d("", d("third_party", pk("x", pk("y")), pk("xy"), pk("x.y")), d("third_partyish", pk("z")), d("a", d("third_party", pk("x"))))},
		{defaultNames, []string{"out", "third_party/x"}, none, "third_party", "", d("", d("third_party", pk("x", pk("y")), pk("xy")), pk("output"))},
		{defaultNames, []string{"out"}, none, "output", "", d("", pk("output", pk("q"), pk("out", pk("r")), pk("outer")))},
		// blacklisting by name applies at any depth, by path only from the repository root
		{defaultNames, []string{"vendor", "a/b"}, none, ".", "", d("", pk("a", pk("b", pk("c")), pk("bc"), pk("vendor")), pk("b", pk("a", pk("b"))), pk("src", pk("vendor", pk("v")), pk("vendored")))},
		{defaultNames, []string{"a/b"}, none, "a/b/c", "", d("", pk("a", pk("b", pk("c", pk("d")))))},
		{defaultNames, []string{"b"}, none, "a/b/c", "", d("", pk("a", pk("b", pk("c", pk("d")))))},
		{defaultNames, []string{"c"}, none, "a/b/c", "", d("", pk("a", pk("b", pk("c", pk("d")))))},
		// plz-out and hidden directories, also as the directory asked for
		{defaultNames, none, none, ".", "", d("", pk("plz-out", pk("gen")), pk("plz-outer"), pk(".git"), pk("..x"), pk("a", pk(".b", pk("c")), pk("plz-out")))},
		{defaultNames, none, none, ".git", "", d("", pk(".git", pk("x")))},
		{defaultNames, none, none, ".git/x", "", d("", pk(".git", pk("x", pk("y"))))},
		{defaultNames, none, none, "plz-out/gen", "", d("", pk("plz-out", pk("gen", pk("y"))))},
		{defaultNames, none, none, "", "", d("", f("BUILD"), pk("a"))},
		// experimental directories: the exact path only
		{defaultNames, none, []string{"experimental"}, ".", "", d("", pk("experimental", pk("e")), pk("experimentally"), pk("a", pk("experimental")))},
		{defaultNames, none, []string{"a/exp"}, ".", "", d("", pk("a", pk("exp", pk("e")), pk("expo")), pk("exp"))},
		{defaultNames, none, []string{"a/exp"}, "a/exp", "", d("", pk("a", pk("exp", pk("e"))))},
		{defaultNames, none, []string{"a/exp"}, "a/exp/e", "", d("", pk("a", pk("exp", pk("e", pk("f")))))},
		// BUILD file recognition
		{[]string{"BUILD.test"}, none, none, ".", "", d("", f("BUILD"), d("a", f("BUILD.test")), d("b", f("BUILD.plz")), d("c", d("BUILD.test", f("x"))))},
		{defaultNames, none, none, ".", "", d("", d("a", d("BUILD", f("BUILD.plz"))), d("b", l("BUILD")), d("c", f("BUILD"), f("BUILD.plz")), d("e", f("build")), d("g", f("BUILDX"), f("BUILD.pl")))},
		// symlinks to directories are neither followed nor do they stop the scan
		{defaultNames, []string{"vendor"}, none, ".", "", d("", pk("a", l("plz-out"), l("vendor"), pk("z")), l("link"), pk("z"))},
		// plain files named like excluded directories (witnesses of the defect fixed by 3d74a58: SkipDir returned for a
		// non-directory made godirwalk abandon the rest of the directory)
		{defaultNames, []string{"third_party"}, none, ".", "", d("", d("pkg", f("BUILD"), f("third_party"), pk("zeta"), pk("alpha")))},
		{defaultNames, none, none, ".", "", d("", f("plz-out"), pk("a"), pk("z"))},
		{defaultNames, none, []string{"exp"}, ".", "", d("", f("exp"), pk("a"), pk("z"))},
		{[]string{"BUILD", "BUILD.plz"}, []string{"BUILD"}, none, ".", "", d("", f("BUILD"), f("BUILD.plz"), pk("a"))},
		{defaultNames, []string{"a/b"}, none, ".", "", d("", pk("a", f("b"), pk("c")), pk("z"))},
		// a non-empty prefix argument (not used by `...` expansion; correspondence only)
		{defaultNames, none, none, ".", "third_party/", d("", pk("third_party", pk("x")), pk("third"), pk("a"))},
		{defaultNames, []string{"x"}, none, ".", "a/b", d("", pk("a", pk("b", pk("c"), pk("x")), pk("bc"), pk("c")), pk("ab"))},
	}
	out := []*input{}
	for _, x := range six {
		out = append(out, &input{BuildFileNames: x.bfn, Blacklist: x.bl, Experimental: x.exp, Root: x.root, Prefix: x.prefix, Tree: x.tree})
	}
	return out
}

// ---------------------------------------------------------------------------------------------

func jsonOf(in *input, obs observed) map[string]any {
	return map[string]any{"build_file_names": in.BuildFileNames, "blacklist": in.Blacklist, "experimental": in.Experimental,
		"root": in.Root, "prefix": in.Prefix, "tree": in.Tree, "files": obs.Files, "labels": obs.Labels}
}

func one(c *lib.Ctx, in *input, model bool) {
	if in.Blacklist == nil {
		in.Blacklist = []string{}
	}
	if in.Experimental == nil {
		in.Experimental = []string{}
	}
	sub := in.Tree.at(comps(in.Root))
	if sub == nil || sub.Kind != "d" {
		panic(fmt.Sprintf("generator: root %q is not a directory of the tree", in.Root))
	}
	obs := run(in, in.Prefix == "")
	js := jsonOf(in, obs)
	if model {
		c.Case(lib.App("CFind", strList(in.BuildFileNames), strList(in.Blacklist), strList(in.Experimental),
			path(in.Root), str(in.Prefix), coqNode(sub), pathList(obs.Files), lib.Opt(in.Prefix == "", pathList(obs.Labels))),
			js, keyOf(in), nontrivial(in))
	} else {
		c.Eval(js, keyOf(in), nontrivial(in))
	}
	if in.Prefix == "" {
		oracle(c, in, obs, js)
	}
	c.HistN("tree_entries", min(in.Tree.size()/10*10, 60))
	c.HistN("packages_listed", min(len(obs.Files), 12))
	c.HistN("blacklist_entries", len(in.Blacklist))
	c.HistN("experimental_entries", len(in.Experimental))
	if in.Root == "." || in.Root == "" {
		c.Hist("root", "repository root")
	} else {
		c.Hist("root", "subdirectory")
	}
}

func main() {
	lib.Main("C22", func(c *lib.Ctx) {
		c.Model("From PlzV Require Import Model.C22.", "C22.case", "C22.check")
		c.Rule("directory trees (depth <= 5, names from a pool with shared prefixes: out/output/outp, third_party/third_partyish, plz-out/plz-outer, " +
			"experimental/experimentally, hidden names, files named like directories, symlinks to directories, several BUILD file names) written to a " +
			"temporary directory; configurations = BUILD file name set x 0-3 blacklist entries (names and paths) x 0-2 experimental dirs; the directory asked " +
			"for is the root or a random directory of the tree. Real plz.FindAllBuildFiles and (hook) findOriginalTask run inside the tree. " +
			"distinct = distinct (configuration, directory, tree); non-trivial = >= 2 directories with a BUILD file under the directory and >= 1 excluded directory. " +
			"Command lines: 2-5 labels over such a tree (`...` labels of random directories, mostly pairs whose paths share a name prefix without being nested - " +
			"out/output, a/a-2 - each pair in both orders; nested and repeated roots; `//...`; ordinary labels in between), run through the real findOriginalTaskSet; " +
			"non-trivial = >= 2 `...` labels and >= 2 labels added. Completion: the real query.containsPackage on every directory of trees whose blacklist names a " +
			"directory that occurs in them; non-trivial = a blacklisted directory below the directory asked for")
		gologging.SetLevel(gologging.CRITICAL, "plz")
		var err error
		// thousands of small trees are created and removed: use a memory file system when there is one
		tmp := ""
		if st, e := os.Stat("/dev/shm"); e == nil && st.IsDir() {
			tmp = "/dev/shm"
		}
		scratch, err = os.MkdirTemp(tmp, "c22-")
		if err != nil {
			scratch, err = os.MkdirTemp("", "c22-")
		}
		must(err)
		defer os.RemoveAll(scratch)
		linkTarget = filepath.Join(scratch, "linktarget")
		must(os.MkdirAll(filepath.Join(linkTarget, "sub"), 0o755))
		must(os.WriteFile(filepath.Join(linkTarget, "BUILD"), []byte(""), 0o644))
		must(os.WriteFile(filepath.Join(linkTarget, "sub", "BUILD"), []byte(""), 0o644))

		var rep input
		defer func() { c.Model(header(), "C22.case", "C22.check") }()
		if c.ReadReplay(&rep) {
			switch rep.Kind {
			case "set":
				oneSet(c, &rep, true)
			case "contains":
				containsAll(c, &rep, []string{rep.Dir}, 1)
			default:
				one(c, &rep, true)
			}
			return
		}

		// 1. adversarial, hand-made + the pre-fix witness repository of the corpus
		for _, in := range adversarial() {
			one(c, in, true)
		}
		if dir := os.Getenv("VERIF_DIR"); dir != "" {
			p := filepath.Join(dir, "corpus", "C22", "blacklist_prefix_repo.tar")
			if _, err := os.Stat(p); err == nil {
				t := tarTree(p)
				one(c, &input{BuildFileNames: defaultNames, Blacklist: []string{"out", "third_party/x"}, Root: ".", Tree: t}, true)
				one(c, &input{BuildFileNames: defaultNames, Blacklist: []string{"out", "third_party/x"}, Root: "third_party", Tree: t}, true)
				c.Note("corpus/C22/blacklist_prefix_repo.tar (witness of the defect fixed by e0a6f77) replayed through FindAllBuildFiles")
			} else {
				c.Note("corpus/C22/blacklist_prefix_repo.tar not found; its tree is also part of the hand-made stream")
			}
		}

		// 2. random trees, model + oracle; two in three contain plain files named like excluded directories
		//    (plz-out, blacklisted names, experimental dirs) and blacklisted BUILD file names
		n := c.Scale(360, 5000)
		for i := 0; i < n; i++ {
			r := c.Rng.Fork()
			one(c, genInput(r, r.Chance(2, 3), 3), true)
		}
		// 3. oracle only
		n = c.Scale(2500, 30000)
		for i := 0; i < n; i++ {
			r := c.Rng.Fork()
			one(c, genInput(r, r.Chance(2, 3), 4), false)
		}

		// 4. several labels on one command line, through the real findOriginalTaskSet: hand-made, then random command
		//    lines biased towards `...` labels whose roots share a name prefix (each such pair in both orders)
		for _, in := range adversarialSets() {
			oneSet(c, in, true)
		}
		n = c.Scale(90, 1200)
		for i := 0; i < n; i++ {
			for _, in := range genCmdlines(c.Rng.Fork(), 3) {
				oneSet(c, in, true)
			}
		}
		n = c.Scale(350, 8000)
		for i := 0; i < n; i++ {
			for _, in := range genCmdlines(c.Rng.Fork(), 4) {
				oneSet(c, in, false)
			}
		}

		// 5. completion of `//dir/`: the real containsPackage on every directory of generated trees
		ains, adirs := adversarialContains()
		for i, in := range ains {
			containsAll(c, in, adirs[i], len(adirs[i]))
		}
		n = c.Scale(50, 800)
		for i := 0; i < n; i++ {
			in, dirs := genContains(c.Rng.Fork(), 3)
			containsAll(c, in, dirs, 3)
		}
		n = c.Scale(250, 6000)
		for i := 0; i < n; i++ {
			in, dirs := genContains(c.Rng.Fork(), 4)
			containsAll(c, in, dirs, 0)
		}
	})
}
