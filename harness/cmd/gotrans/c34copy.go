package main

import (
	"bytes"
	"go/ast"
	"go/printer"
	"go/token"
	"os"
	"path/filepath"
	"strconv"
	"strings"
)

// C34Copy (property C34): from src/fs/copy.go and src/fs/fs.go
//   - the argument tuples RecursiveCopy and RecursiveLink pass to RecursiveCopyOrLinkFile,
//   - WriteFile's default mode and DirPermissions,
//   - the bodies of RecursiveCopyOrLinkFile (and its walk callback), CopyOrLinkFile, copySymlink, CopyFile and
//     WriteFile as guarded straight-line programs: a list of (enclosing if-conditions, statement).  Only blocks made of
//     assignments, returns, defers, expression statements and else-less ifs are recognised; anything else fails closed.
func init() {
	targets["C34Copy"] = func() string {
		fset, cp := parseFile("src/fs/copy.go")
		fset2, fsgo := parseFile("src/fs/fs.go")

		var b strings.Builder
		b.WriteString(genHeader)

		// --- wrappers
		wrapper := func(name string, params []string) string {
			fd := findFunc(cp, "", name)
			got := []string{}
			for _, f := range fd.Type.Params.List {
				for _, n := range f.Names {
					got = append(got, n.Name)
				}
			}
			if strings.Join(got, ",") != strings.Join(params, ",") {
				failShape("%s: parameters are %v, expected %v", name, got, params)
			}
			if len(fd.Body.List) != 1 {
				failShape("%s: body is not a single return", name)
			}
			ret, ok := fd.Body.List[0].(*ast.ReturnStmt)
			if !ok || len(ret.Results) != 1 {
				failShape("%s: body is not a single return", name)
			}
			call, ok := ret.Results[0].(*ast.CallExpr)
			if !ok {
				failShape("%s: does not return a call", name)
			}
			if id, ok := call.Fun.(*ast.Ident); !ok || id.Name != "RecursiveCopyOrLinkFile" || len(call.Args) != 5 {
				failShape("%s: does not call RecursiveCopyOrLinkFile with 5 arguments", name)
			}
			for i, want := range []string{"from", "to"} {
				if id, ok := call.Args[i].(*ast.Ident); !ok || id.Name != want {
					failShape("%s: argument %d is not %s", name, i, want)
				}
			}
			mode := ""
			switch a := call.Args[2].(type) {
			case *ast.Ident:
				if a.Name != "mode" {
					failShape("%s: mode argument is the identifier %s", name, a.Name)
				}
				mode = "None"
			case *ast.BasicLit:
				if a.Kind != token.INT {
					failShape("%s: mode argument is not an integer literal", name)
				}
				v, err := strconv.ParseUint(a.Value, 0, 32)
				if err != nil {
					failShape("%s: bad mode literal %s", name, a.Value)
				}
				mode = "(Some " + strconv.FormatUint(v, 10) + "%N)"
			default:
				failShape("%s: mode argument has an unrecognised shape", name)
			}
			flags := []string{}
			for i := 3; i < 5; i++ {
				id, ok := call.Args[i].(*ast.Ident)
				if !ok || (id.Name != "true" && id.Name != "false") {
					failShape("%s: argument %d is not a boolean literal", name, i)
				}
				flags = append(flags, id.Name)
			}
			return "(" + mode + ", " + flags[0] + ", " + flags[1] + ")"
		}
		b.WriteString("Definition recursive_copy_args : option N * bool * bool := " + wrapper("RecursiveCopy", []string{"from", "to", "mode"}) + ".\n")
		b.WriteString("Definition recursive_link_args : option N * bool * bool := " + wrapper("RecursiveLink", []string{"from", "to"}) + ".\n")

		// --- constants
		dirPerm := uint64(0)
		found := false
		for _, d := range fsgo.Decls {
			gd, ok := d.(*ast.GenDecl)
			if !ok || gd.Tok != token.CONST {
				continue
			}
			for _, s := range gd.Specs {
				vs := s.(*ast.ValueSpec)
				if len(vs.Names) == 1 && vs.Names[0].Name == "DirPermissions" && len(vs.Values) == 1 {
					be, ok := vs.Values[0].(*ast.BinaryExpr)
					if !ok || be.Op != token.OR || exprText(fset2, be.X) != "os.ModeDir" {
						failShape("DirPermissions is not os.ModeDir | <literal>")
					}
					lit, ok := be.Y.(*ast.BasicLit)
					if !ok || lit.Kind != token.INT {
						failShape("DirPermissions is not os.ModeDir | <literal>")
					}
					v, err := strconv.ParseUint(lit.Value, 0, 32)
					if err != nil {
						failShape("DirPermissions: bad literal")
					}
					dirPerm, found = v, true
				}
			}
		}
		if !found {
			failShape("DirPermissions not found")
		}
		b.WriteString("Definition dir_permissions : N := " + strconv.FormatUint(dirPerm, 10) + "%N.\n")

		wf := findFunc(fsgo, "", "WriteFile")
		defMode, found := uint64(0), false
		for _, st := range wf.Body.List {
			is, ok := st.(*ast.IfStmt)
			if !ok || is.Init != nil || is.Else != nil || exprText(fset2, is.Cond) != "mode == 0" {
				continue
			}
			if len(is.Body.List) != 1 {
				failShape("WriteFile: `if mode == 0` body is not one assignment")
			}
			as, ok := is.Body.List[0].(*ast.AssignStmt)
			if !ok || as.Tok != token.ASSIGN || len(as.Lhs) != 1 || len(as.Rhs) != 1 || exprText(fset2, as.Lhs[0]) != "mode" {
				failShape("WriteFile: `if mode == 0` body is not `mode = <literal>`")
			}
			lit, ok := as.Rhs[0].(*ast.BasicLit)
			if !ok || lit.Kind != token.INT {
				failShape("WriteFile: default mode is not a literal")
			}
			v, err := strconv.ParseUint(lit.Value, 0, 32)
			if err != nil {
				failShape("WriteFile: bad default mode literal")
			}
			defMode, found = v, true
		}
		if !found {
			failShape("WriteFile: `if mode == 0 { mode = ... }` not found")
		}
		b.WriteString("Definition default_file_mode : N := " + strconv.FormatUint(defMode, 10) + "%N.\n")

		// --- guarded straight-line programs
		prog := func(name string, fset *token.FileSet, body *ast.BlockStmt) {
			items := flatten(fset, name, body, nil)
			b.WriteString("Definition prog_" + name + " : list (string * string) := [\n")
			for i, it := range items {
				if i > 0 {
					b.WriteString(";\n")
				}
				b.WriteString("  (" + coqString(it[0]) + ", " + coqString(it[1]) + ")")
			}
			b.WriteString("\n].\n")
		}
		top := findFunc(cp, "", "RecursiveCopyOrLinkFile")
		prog("RecursiveCopyOrLinkFile", fset, top.Body)
		// the callback handed to WalkMode
		var cb *ast.FuncLit
		ast.Inspect(top.Body, func(n ast.Node) bool {
			if fl, ok := n.(*ast.FuncLit); ok {
				if cb != nil {
					failShape("RecursiveCopyOrLinkFile: more than one function literal")
				}
				cb = fl
				return false
			}
			return true
		})
		if cb == nil {
			failShape("RecursiveCopyOrLinkFile: walk callback not found")
		}
		prog("walk_callback", fset, cb.Body)
		prog("CopyOrLinkFile", fset, findFunc(cp, "", "CopyOrLinkFile").Body)
		prog("copySymlink", fset, findFunc(cp, "", "copySymlink").Body)
		prog("CopyFile", fset2, findFunc(fsgo, "", "CopyFile").Body)
		prog("WriteFile", fset2, wf.Body)
		fset3, wk := parseFile("src/fs/walk.go")
		wm := findFunc(wk, "", "WalkMode")
		prog("WalkMode", fset3, wm.Body)

		// --- TRANSLATED (the model computes with these, Model/C34.v `temp_policy`, `buffer_shared`)
		b.WriteString("Definition write_file_temp : option (string * string) := " + c34TempPolicy(fset2, wf) + ".\n")
		b.WriteString("Definition walk_options : list (string * string) := [" + strings.Join(c34WalkOptions(fset3, wk, wm), "; ") + "].\n")
		return b.String()
	}
}

// c34TempPolicy translates HOW WriteFile names and opens its temporary file: the one statement that defines
// `tempFile`.
//
//	tempFile, err := os.CreateTemp(dir, file)                        -> None            (a name nobody has: O_EXCL, retried)
//	tempFile, err := os.OpenFile(filepath.Join(dir, PRE+file+SUF), FLAGS, perm)
//	                 FLAGS containing os.O_CREATE, not os.O_EXCL    -> Some (PRE, SUF) (a fixed sibling name, opened over
//	                                                                                      whatever has that name)
//
// and it checks that the rename at the end moves tempFile.Name() onto `to`.  Anything else fails closed.
func c34TempPolicy(fset *token.FileSet, wf *ast.FuncDecl) string {
	var def *ast.AssignStmt
	for _, st := range wf.Body.List {
		as, ok := st.(*ast.AssignStmt)
		if !ok || as.Tok != token.DEFINE || len(as.Lhs) != 2 {
			continue
		}
		if id, ok := as.Lhs[0].(*ast.Ident); ok && id.Name == "tempFile" {
			if def != nil {
				failShape("WriteFile: tempFile is defined twice")
			}
			def = as
		}
	}
	if def == nil || len(def.Rhs) != 1 {
		failShape("WriteFile: `tempFile, err := ...` not found")
	}
	last, ok := wf.Body.List[len(wf.Body.List)-1].(*ast.ReturnStmt)
	if !ok || len(last.Results) != 1 || exprText(fset, last.Results[0]) != "renameFile(tempFile.Name(), to)" {
		failShape("WriteFile: does not end with `return renameFile(tempFile.Name(), to)`")
	}
	call, ok := def.Rhs[0].(*ast.CallExpr)
	if !ok {
		failShape("WriteFile: tempFile is not the result of a call")
	}
	switch exprText(fset, call.Fun) {
	case "os.CreateTemp":
		if len(call.Args) != 2 || exprText(fset, call.Args[0]) != "dir" || exprText(fset, call.Args[1]) != "file" {
			failShape("WriteFile: os.CreateTemp is not called as os.CreateTemp(dir, file): %s", exprText(fset, call))
		}
		return "None"
	case "os.OpenFile":
		if len(call.Args) != 3 {
			failShape("WriteFile: os.OpenFile with %d arguments", len(call.Args))
		}
		join, ok := call.Args[0].(*ast.CallExpr)
		if !ok || exprText(fset, join.Fun) != "filepath.Join" || len(join.Args) != 2 || exprText(fset, join.Args[0]) != "dir" {
			failShape("WriteFile: the temporary file is not filepath.Join(dir, <name>): %s", exprText(fset, call.Args[0]))
		}
		// <name> = a chain of + over string literals and exactly one `file`
		parts := []ast.Expr{}
		var flat func(e ast.Expr)
		flat = func(e ast.Expr) {
			if be, ok := e.(*ast.BinaryExpr); ok && be.Op == token.ADD {
				flat(be.X)
				flat(be.Y)
				return
			}
			if pe, ok := e.(*ast.ParenExpr); ok {
				flat(pe.X)
				return
			}
			parts = append(parts, e)
		}
		flat(join.Args[1])
		pre, suf, seen := "", "", false
		for _, p := range parts {
			switch x := p.(type) {
			case *ast.Ident:
				if x.Name != "file" || seen {
					failShape("WriteFile: temporary name is not built from literals and one `file`: %s", exprText(fset, join.Args[1]))
				}
				seen = true
			case *ast.BasicLit:
				if x.Kind != token.STRING {
					failShape("WriteFile: temporary name has a non-string literal")
				}
				if seen {
					suf += unquote(x)
				} else {
					pre += unquote(x)
				}
			default:
				failShape("WriteFile: temporary name has an unrecognised part: %s", exprText(fset, p))
			}
		}
		if !seen {
			failShape("WriteFile: the temporary name does not depend on `file`")
		}
		flags := map[string]bool{}
		var fl func(e ast.Expr)
		fl = func(e ast.Expr) {
			if be, ok := e.(*ast.BinaryExpr); ok && be.Op == token.OR {
				fl(be.X)
				fl(be.Y)
				return
			}
			flags[exprText(fset, e)] = true
		}
		fl(call.Args[1])
		if !flags["os.O_CREATE"] || flags["os.O_EXCL"] || !(flags["os.O_WRONLY"] || flags["os.O_RDWR"]) {
			failShape("WriteFile: os.OpenFile flags %s are not a plain create-or-reuse", exprText(fset, call.Args[1]))
		}
		return "(Some (" + coqString(pre) + ", " + coqString(suf) + "))"
	}
	failShape("WriteFile: tempFile comes from %s, which is not recognised", exprText(fset, call.Fun))
	return ""
}

// c34WalkOptions translates the godirwalk.Options literal of WalkMode: one (field, kind) per field, kind =
//
//	"func"          a function literal (runs in the caller's goroutine, captures only parameters)
//	"const"         true / false / a basic literal
//	"alloc"         make(...)                   - a value of this call alone
//	"pkgvar:<name>" a package-level variable    - ONE value shared by every walk in the process
//
// anything else fails closed.  Which fields godirwalk reads a directory through is the model's business.
func c34WalkOptions(fset *token.FileSet, wk *ast.File, wm *ast.FuncDecl) []string {
	pkgVars := map[string]bool{}
	for _, rel := range c34PackageFiles("src/fs") {
		_, f := parseFile(rel)
		for _, d := range f.Decls {
			if gd, ok := d.(*ast.GenDecl); ok && gd.Tok == token.VAR {
				for _, s := range gd.Specs {
					for _, n := range s.(*ast.ValueSpec).Names {
						pkgVars[n.Name] = true
					}
				}
			}
		}
	}
	var lit *ast.CompositeLit
	ast.Inspect(wm.Body, func(n ast.Node) bool {
		if cl, ok := n.(*ast.CompositeLit); ok && exprText(fset, cl.Type) == "godirwalk.Options" {
			if lit != nil {
				failShape("WalkMode: more than one godirwalk.Options literal")
			}
			lit = cl
		}
		return true
	})
	if lit == nil {
		failShape("WalkMode: godirwalk.Options literal not found")
	}
	out := []string{}
	for _, el := range lit.Elts {
		kv, ok := el.(*ast.KeyValueExpr)
		if !ok {
			failShape("WalkMode: godirwalk.Options has a positional element")
		}
		key, ok := kv.Key.(*ast.Ident)
		if !ok {
			failShape("WalkMode: godirwalk.Options key is not an identifier")
		}
		kind := ""
		switch v := kv.Value.(type) {
		case *ast.FuncLit:
			kind = "func"
			// the literal may only use its own parameters, WalkMode's parameters and package-level FUNCTIONS/types
			ast.Inspect(v.Body, func(n ast.Node) bool {
				if se, ok := n.(*ast.SelectorExpr); ok {
					if id, ok := se.X.(*ast.Ident); ok && pkgVars[id.Name] && id.Name != "log" {
						failShape("WalkMode: option %s uses the package-level variable %s", key.Name, id.Name)
					}
					return false
				}
				if id, ok := n.(*ast.Ident); ok && pkgVars[id.Name] && id.Name != "log" {
					failShape("WalkMode: option %s uses the package-level variable %s", key.Name, id.Name)
				}
				return true
			})
		case *ast.BasicLit:
			kind = "const"
		case *ast.Ident:
			switch {
			case v.Name == "true" || v.Name == "false":
				kind = "const"
			case pkgVars[v.Name]:
				kind = "pkgvar:" + v.Name
			default:
				failShape("WalkMode: option %s is the identifier %s, which is neither a constant nor a package-level variable", key.Name, v.Name)
			}
		case *ast.CallExpr:
			if id, ok := v.Fun.(*ast.Ident); ok && id.Name == "make" {
				kind = "alloc"
			} else {
				failShape("WalkMode: option %s is the call %s", key.Name, exprText(fset, v))
			}
		default:
			failShape("WalkMode: option %s has an unrecognised value %s", key.Name, exprText(fset, kv.Value))
		}
		out = append(out, "("+coqString(key.Name)+", "+coqString(kind)+")")
	}
	return out
}

// the non-test Go files of a package directory
func c34PackageFiles(dir string) []string {
	ents, err := os.ReadDir(filepath.Join(repo, dir))
	if err != nil {
		failShape("cannot list %s: %v", dir, err)
	}
	out := []string{}
	for _, e := range ents {
		if n := e.Name(); strings.HasSuffix(n, ".go") && !strings.HasSuffix(n, "_test.go") {
			out = append(out, filepath.Join(dir, n))
		}
	}
	return out
}

// exprText prints a node with function literals replaced by `func{...}` (they are flattened separately).
func exprText(fset *token.FileSet, n ast.Node) string {
	var buf bytes.Buffer
	if err := printer.Fprint(&buf, fset, n); err != nil {
		failShape("cannot print node: %v", err)
	}
	return strings.Join(strings.Fields(buf.String()), " ")
}

func stmtText(fset *token.FileSet, n ast.Node) string {
	// cut function literal bodies out of the text: position-based, on the printed form of a copy is awkward, so
	// print the pieces around the literal instead
	var lit *ast.FuncLit
	ast.Inspect(n, func(x ast.Node) bool {
		if fl, ok := x.(*ast.FuncLit); ok && lit == nil {
			lit = fl
			return false
		}
		return true
	})
	if lit == nil {
		return exprText(fset, n)
	}
	saved := lit.Body
	lit.Body = &ast.BlockStmt{}
	defer func() { lit.Body = saved }()
	return strings.ReplaceAll(exprText(fset, n), "{ }", "{...}")
}

// flatten turns a block into (guards, statement) pairs; guards = the enclosing if conditions joined by " && ".
func flatten(fset *token.FileSet, fn string, body *ast.BlockStmt, guards []string) [][2]string {
	out := [][2]string{}
	g := strings.Join(guards, " && ")
	for _, st := range body.List {
		switch x := st.(type) {
		case *ast.AssignStmt, *ast.ReturnStmt, *ast.DeferStmt, *ast.ExprStmt:
			out = append(out, [2]string{g, stmtText(fset, x)})
		case *ast.IfStmt:
			cond := exprText(fset, x.Cond)
			if x.Init != nil {
				cond = stmtText(fset, x.Init) + "; " + cond
			}
			if x.Else != nil {
				// `if ...; err != nil { return err } else if c { ... }`: a chain of alternatives
				out = append(out, flatten(fset, fn, x.Body, append(append([]string{}, guards...), "("+cond+")"))...)
				switch e := x.Else.(type) {
				case *ast.IfStmt:
					out = append(out, flatten(fset, fn, &ast.BlockStmt{List: []ast.Stmt{e}}, append(append([]string{}, guards...), "!("+cond+")"))...)
				case *ast.BlockStmt:
					out = append(out, flatten(fset, fn, e, append(append([]string{}, guards...), "!("+cond+")"))...)
				default:
					failShape("%s: unrecognised else branch", fn)
				}
				continue
			}
			out = append(out, flatten(fset, fn, x.Body, append(append([]string{}, guards...), "("+cond+")"))...)
		default:
			failShape("%s: statement kind %T is not recognised", fn, st)
		}
	}
	return out
}
