package main

import (
	"go/ast"
	"strings"
)

// C12Store (property C12): the phase order of dirCache.Store, where storeFiles writes, and how
// retrieve turns (found, err) into its result (src/cache/dir_cache.go).
//
// Recognised shape of Store (six statements):
//
//	cacheDir := cache.getPath(target, key, "")
//	tmpDir := cache.getFullPath(target, key, "", "=")
//	cache.markDir(cacheDir, 0)
//	if err := fs.RemoveAll(cacheDir); err != nil { ...; return }
//	cache.storeFiles(target, key, "", cacheDir, tmpDir, files, true)
//	if err := os.Rename(tmpDir, cacheDir); err != nil && !os.IsNotExist(err) { ... }
//
// of storeFiles: the only calls that write are cache.storeCompressed(target, tmpDir, files) and
// cache.storeFile(target, out, tmpDir); of retrieve: `found, err := cache.retrieveFiles(...)`,
// `if err != nil && !os.IsNotExist(err) { ...; return false } else if found { ... }`, `return found`;
// of retrieveFiles: the compressed branch is `return true, cache.retrieveCompressed(target, cacheDir)`.
func init() {
	targets["C12Store"] = func() string {
		_, f := parseFile("src/cache/dir_cache.go")
		st := findFunc(f, "dirCache", "Store")
		body := st.Body.List
		if len(body) != 6 {
			failShape("Store: expected 6 statements, found %d", len(body))
		}
		assign := func(s ast.Stmt, rhsPrefix string) (string, string) {
			as, ok := s.(*ast.AssignStmt)
			if !ok || len(as.Lhs) != 1 || len(as.Rhs) != 1 {
				failShape("Store: %s is not a single assignment", c12StmtText(s))
			}
			r := cnExpr(as.Rhs[0])
			if !strings.HasPrefix(r, rhsPrefix) {
				failShape("Store: %s does not assign from %s", c12StmtText(s), rhsPrefix)
			}
			return cnExpr(as.Lhs[0]), r
		}
		finalVar, finalRhs := assign(body[0], "cache.getPath(")
		if finalRhs != `cache.getPath(target, key, "")` {
			failShape("Store: final path is %s", finalRhs)
		}
		tmpVar, tmpRhs := assign(body[1], "cache.getFullPath(")
		call := body[1].(*ast.AssignStmt).Rhs[0].(*ast.CallExpr)
		if len(call.Args) != 4 || cnExpr(call.Args[0]) != "target" || cnExpr(call.Args[1]) != "key" || cnExpr(call.Args[2]) != `""` {
			failShape("Store: temporary path is %s", tmpRhs)
		}
		lit, ok := call.Args[3].(*ast.BasicLit)
		if !ok {
			failShape("Store: temporary suffix %s is not a literal", cnExpr(call.Args[3]))
		}
		suffix := unquote(lit)
		es, ok := body[2].(*ast.ExprStmt)
		if !ok || cnExpr(es.X) != "cache.markDir("+finalVar+", 0)" {
			failShape("Store: third statement is not markDir of the final path")
		}
		name := func(v string) string {
			switch v {
			case finalVar:
				return "final"
			case tmpVar:
				return "tmp"
			}
			failShape("Store: unexpected path variable %s", v)
			return ""
		}
		// phase 1: RemoveAll, returning on error
		if1, ok := body[3].(*ast.IfStmt)
		if !ok || if1.Init == nil || if1.Else != nil || cnExpr(if1.Cond) != "err != nil" {
			failShape("Store: fourth statement is not `if err := fs.RemoveAll(..); err != nil {..}`")
		}
		rmAs, ok := if1.Init.(*ast.AssignStmt)
		if !ok || len(rmAs.Rhs) != 1 {
			failShape("Store: RemoveAll init")
		}
		rmCall, ok := rmAs.Rhs[0].(*ast.CallExpr)
		if !ok || cnExpr(rmCall.Fun) != "fs.RemoveAll" || len(rmCall.Args) != 1 {
			failShape("Store: fourth statement calls %s", cnExpr(rmAs.Rhs[0]))
		}
		if n := len(if1.Body.List); n == 0 {
			failShape("Store: RemoveAll error branch is empty")
		} else if _, ok := if1.Body.List[n-1].(*ast.ReturnStmt); !ok {
			failShape("Store: RemoveAll error branch does not return")
		}
		phases := []string{`PRemoveAll "` + name(cnExpr(rmCall.Args[0])) + `"`}
		// phase 2: storeFiles
		es, ok = body[4].(*ast.ExprStmt)
		if !ok {
			failShape("Store: fifth statement is not a call")
		}
		sfCall, ok := es.X.(*ast.CallExpr)
		if !ok || cnExpr(sfCall.Fun) != "cache.storeFiles" || len(sfCall.Args) != 7 {
			failShape("Store: fifth statement is %s", cnExpr(es.X))
		}
		if name(cnExpr(sfCall.Args[3])) != "final" {
			failShape("Store: storeFiles' cacheDir argument is %s", cnExpr(sfCall.Args[3]))
		}
		phases = append(phases, `PStoreInto "`+name(cnExpr(sfCall.Args[4]))+`"`)
		// phase 3: rename, errors only logged
		if2, ok := body[5].(*ast.IfStmt)
		if !ok || if2.Init == nil || if2.Else != nil || cnExpr(if2.Cond) != "err != nil && !os.IsNotExist(err)" {
			failShape("Store: last statement is not `if err := os.Rename(..); err != nil && !os.IsNotExist(err) {..}`")
		}
		rnAs, ok := if2.Init.(*ast.AssignStmt)
		if !ok || len(rnAs.Rhs) != 1 {
			failShape("Store: Rename init")
		}
		rnCall, ok := rnAs.Rhs[0].(*ast.CallExpr)
		if !ok || cnExpr(rnCall.Fun) != "os.Rename" || len(rnCall.Args) != 2 {
			failShape("Store: last statement calls %s", cnExpr(rnAs.Rhs[0]))
		}
		phases = append(phases, `PRename "`+name(cnExpr(rnCall.Args[0]))+`" "`+name(cnExpr(rnCall.Args[1]))+`"`)

		// --- storeFiles: where the writers write
		sf := findFunc(f, "dirCache", "storeFiles")
		params := []string{}
		for _, p := range sf.Type.Params.List {
			for _, n := range p.Names {
				params = append(params, n.Name)
			}
		}
		if strings.Join(params, ",") != "target,key,suffix,cacheDir,tmpDir,files,clean" {
			failShape("storeFiles: parameters are %v", params)
		}
		var writers []string
		ast.Inspect(sf.Body, func(n ast.Node) bool {
			c, ok := n.(*ast.CallExpr)
			if !ok {
				return true
			}
			switch cnExpr(c.Fun) {
			case "cache.storeCompressed", "cache.storeFile":
				writers = append(writers, cnExpr(c))
			case "cache.markDir", "uint64":
			default:
				failShape("storeFiles: unexpected call %s", cnExpr(c))
			}
			return true
		})
		if strings.Join(writers, " | ") != "cache.storeCompressed(target, tmpDir, files) | cache.storeFile(target, out, tmpDir)" {
			failShape("storeFiles: writers are %v", writers)
		}

		// --- retrieve: (found, err) -> result
		rt := findFunc(f, "dirCache", "retrieve")
		if len(rt.Body.List) != 3 {
			failShape("retrieve: expected 3 statements")
		}
		if as, ok := rt.Body.List[0].(*ast.AssignStmt); !ok || len(as.Lhs) != 2 || len(as.Rhs) != 1 ||
			cnExpr(as.Lhs[0]) != "found" || cnExpr(as.Lhs[1]) != "err" || !strings.HasPrefix(cnExpr(as.Rhs[0]), "cache.retrieveFiles(") {
			failShape("retrieve: first statement is not `found, err := cache.retrieveFiles(..)`")
		}
		rif, ok := rt.Body.List[1].(*ast.IfStmt)
		if !ok || cnExpr(rif.Cond) != "err != nil && !os.IsNotExist(err)" {
			failShape("retrieve: error test is %s", c12StmtText(rt.Body.List[1]))
		}
		if n := len(rif.Body.List); n == 0 {
			failShape("retrieve: empty error branch")
		} else if r, ok := rif.Body.List[n-1].(*ast.ReturnStmt); !ok || len(r.Results) != 1 || cnExpr(r.Results[0]) != "false" {
			failShape("retrieve: error branch does not return false")
		}
		rr, ok := rt.Body.List[2].(*ast.ReturnStmt)
		if !ok || len(rr.Results) != 1 || cnExpr(rr.Results[0]) != "found" {
			failShape("retrieve: does not end in `return found`")
		}
		// --- retrieveFiles: what the compressed branch reports
		rf := findFunc(f, "dirCache", "retrieveFiles")
		compressedFound := ""
		ast.Inspect(rf.Body, func(n ast.Node) bool {
			r, ok := n.(*ast.ReturnStmt)
			if ok && len(r.Results) == 2 && strings.HasPrefix(cnExpr(r.Results[1]), "cache.retrieveCompressed(") {
				compressedFound = cnExpr(r.Results[0])
				if cnExpr(r.Results[1]) != "cache.retrieveCompressed(target, cacheDir)" {
					failShape("retrieveFiles: compressed branch reads %s", cnExpr(r.Results[1]))
				}
			}
			return true
		})
		if compressedFound != "true" && compressedFound != "false" {
			failShape("retrieveFiles: compressed branch not recognised")
		}

		// --- the error branches: storeCompressed (what happens to the temporary tarball when the
		// archive loop returned an error) and storeFile (what happens when RecursiveLink failed)
		errBranch := func(fn, callPrefix string, vars map[string]string) []string {
			fd := findFunc(f, "dirCache", fn)
			var found *ast.IfStmt
			for _, st := range fd.Body.List {
				is, ok := st.(*ast.IfStmt)
				if !ok || is.Init == nil {
					continue
				}
				as, ok := is.Init.(*ast.AssignStmt)
				if !ok || len(as.Rhs) != 1 || !strings.HasPrefix(cnExpr(as.Rhs[0]), callPrefix) {
					continue
				}
				if found != nil {
					failShape("%s: two `if err := %s..` statements", fn, callPrefix)
				}
				if cnExpr(is.Cond) != "err != nil" || is.Else != nil {
					failShape("%s: error test of %s is `%s` (or has an else)", fn, callPrefix, cnExpr(is.Cond))
				}
				found = is
			}
			if found == nil {
				failShape("%s: no `if err := %s..; err != nil` statement", fn, callPrefix)
			}
			var out []string
			for _, st := range found.Body.List {
				switch x := st.(type) {
				case *ast.ReturnStmt:
					out = append(out, "EReturn")
				case *ast.ExprStmt:
					call, ok := x.X.(*ast.CallExpr)
					if !ok {
						failShape("%s: error branch statement %s", fn, c12StmtText(st))
					}
					switch fun := cnExpr(call.Fun); {
					case strings.HasPrefix(fun, "log."):
						out = append(out, "EWarn")
					case (fun == "fs.RemoveAll" || fun == "os.RemoveAll" || fun == "os.Remove") && len(call.Args) == 1:
						v, ok := vars[cnExpr(call.Args[0])]
						if !ok {
							failShape("%s: error branch removes %s", fn, cnExpr(call.Args[0]))
						}
						out = append(out, `ERemoveAll "`+v+`"`)
					default:
						failShape("%s: error branch calls %s", fn, fun)
					}
				default:
					failShape("%s: error branch statement %s", fn, c12StmtText(st))
				}
			}
			return out
		}
		// storeCompressed(target, filename, files) is called with filename = tmpDir (checked above)
		sc := findFunc(f, "dirCache", "storeCompressed")
		scParams := []string{}
		for _, p := range sc.Type.Params.List {
			for _, n := range p.Names {
				scParams = append(scParams, n.Name)
			}
		}
		if strings.Join(scParams, ",") != "target,filename,files" {
			failShape("storeCompressed: parameters are %v", scParams)
		}
		compErr := errBranch("storeCompressed", "cache.storeCompressed2(target, filename, files)", map[string]string{"filename": "tmp"})
		plainErr := errBranch("storeFile", "fs.RecursiveLink(outFile, cachedFile)", map[string]string{})
		// storeCompressed2 must hand the loop's error back: every `return err` inside the walk loop
		sc2 := findFunc(f, "dirCache", "storeCompressed2")
		loopReturnsErr := false
		ast.Inspect(sc2.Body, func(n ast.Node) bool {
			rs, ok := n.(*ast.RangeStmt)
			if !ok {
				return true
			}
			for _, st := range rs.Body.List {
				is, ok := st.(*ast.IfStmt)
				if !ok || is.Init == nil || cnExpr(is.Cond) != "err != nil" || len(is.Body.List) != 1 {
					failShape("storeCompressed2: loop statement %s", c12StmtText(st))
				}
				as, ok := is.Init.(*ast.AssignStmt)
				if !ok || len(as.Rhs) != 1 || !strings.HasPrefix(cnExpr(as.Rhs[0]), "fs.Walk(") {
					failShape("storeCompressed2: loop statement %s", c12StmtText(st))
				}
				r, ok := is.Body.List[0].(*ast.ReturnStmt)
				if !ok || len(r.Results) != 1 || cnExpr(r.Results[0]) != "err" {
					failShape("storeCompressed2: a walk error is not returned")
				}
				loopReturnsErr = true
			}
			return false
		})
		if !loopReturnsErr {
			failShape("storeCompressed2: walk loop not recognised")
		}

		var b strings.Builder
		b.WriteString(genHeader)
		b.WriteString("Inductive phase := PRemoveAll (p : string) | PStoreInto (p : string) | PRename (a b : string).\n")
		b.WriteString("(* dirCache.Store, in statement order; \"final\" = getPath(target, key, \"\"), \"tmp\" = getFullPath(target, key, \"\", tmp_suffix) *)\n")
		b.WriteString("Definition store_phases : list phase := [" + strings.Join(phases, "; ") + "].\n")
		b.WriteString("Definition tmp_suffix : string := " + coqString(suffix) + ".\n")
		b.WriteString("(* retrieve(): an error that is not IsNotExist gives false, otherwise `found`; the compressed branch of\n   retrieveFiles reports found = this value together with retrieveCompressed's error *)\n")
		b.WriteString("Definition notexist_error_keeps_found : bool := true.\n")
		b.WriteString("Definition compressed_found_with_error : bool := " + compressedFound + ".\n")
		b.WriteString("(* error branches, in statement order: storeCompressed after `if err := cache.storeCompressed2(..); err != nil`\n   (\"tmp\" = its filename parameter = Store's temporary path) and storeFile after `if err := fs.RecursiveLink(..); err != nil` *)\n")
		b.WriteString("Inductive errstmt := EWarn | ERemoveAll (p : string) | EReturn.\n")
		b.WriteString("Definition compressed_error_branch : list errstmt := [" + strings.Join(compErr, "; ") + "].\n")
		b.WriteString("Definition plain_link_error_branch : list errstmt := [" + strings.Join(plainErr, "; ") + "].\n")
		b.WriteString(c12RetrieveSide(f))
		return b.String()
	}
}

func c12StmtText(s ast.Stmt) string {
	switch x := s.(type) {
	case *ast.AssignStmt:
		l := []string{}
		for _, e := range x.Lhs {
			l = append(l, cnExpr(e))
		}
		r := []string{}
		for _, e := range x.Rhs {
			r = append(r, cnExpr(e))
		}
		return strings.Join(l, ", ") + " " + x.Tok.String() + " " + strings.Join(r, ", ")
	case *ast.ExprStmt:
		return cnExpr(x.X)
	case *ast.IfStmt:
		return "if " + cnExpr(x.Cond)
	}
	return "statement"
}

// c12RetrieveSide translates the retrieve side that a dirty out directory depends on:
//
//   - ensureRetrieveReady, statement by statement, into a small program. Recognised statements:
//     `fullOut := filepath.Join(core.RepoRoot, target.OutDir(), out)` (first, pinned),
//     `if strings.ContainsRune(out, '/') { <simple statements> }` (no else),
//     `if err := OP; err != nil { return "", err }`, `return fullOut, OP`, `return fullOut, nil`, with
//     OP = os.MkdirAll(filepath.Dir(fullOut), core.DirPermissions) | fs.RemoveAll(fullOut) | os.RemoveAll(fullOut);
//   - that both retrieve loops call it on the path they are about to create;
//   - what the uncompressed loop of retrieveFiles reports as `found` next to an error;
//   - whether retrieveCompressed opens regular files with O_TRUNC.
func c12RetrieveSide(f *ast.File) string {
	rr := findFunc(f, "dirCache", "ensureRetrieveReady")
	params := []string{}
	for _, p := range rr.Type.Params.List {
		for _, n := range p.Names {
			params = append(params, n.Name)
		}
	}
	if strings.Join(params, ",") != "target,out" {
		failShape("ensureRetrieveReady: parameters are %v", params)
	}
	body := rr.Body.List
	if len(body) < 2 {
		failShape("ensureRetrieveReady: %d statements", len(body))
	}
	if as, ok := body[0].(*ast.AssignStmt); !ok || c12StmtText(as) != "fullOut := filepath.Join(core.RepoRoot, target.OutDir(), out)" {
		failShape("ensureRetrieveReady: first statement is %s", c12StmtText(body[0]))
	}
	op := func(e ast.Expr) string {
		switch cnExpr(e) {
		case "os.MkdirAll(filepath.Dir(fullOut), core.DirPermissions)":
			return "OMkdirAllParent"
		case "fs.RemoveAll(fullOut)", "os.RemoveAll(fullOut)":
			return "ORemoveAllFull"
		}
		failShape("ensureRetrieveReady: unrecognised operation %s", cnExpr(e))
		return ""
	}
	simple := func(st ast.Stmt) string {
		switch x := st.(type) {
		case *ast.ReturnStmt:
			if len(x.Results) != 2 || cnExpr(x.Results[0]) != "fullOut" {
				failShape("ensureRetrieveReady: return of %d values / not of fullOut", len(x.Results))
			}
			if cnExpr(x.Results[1]) == "nil" {
				return "RReturnOk"
			}
			return "RReturnOp " + op(x.Results[1])
		case *ast.IfStmt:
			if x.Init == nil || x.Else != nil || cnExpr(x.Cond) != "err != nil" || len(x.Body.List) != 1 {
				failShape("ensureRetrieveReady: statement `%s` is not `if err := OP; err != nil { return \"\", err }`", c12StmtText(x))
			}
			as, ok := x.Init.(*ast.AssignStmt)
			if !ok || len(as.Lhs) != 1 || len(as.Rhs) != 1 || cnExpr(as.Lhs[0]) != "err" {
				failShape("ensureRetrieveReady: init of `%s`", c12StmtText(x))
			}
			r, ok := x.Body.List[0].(*ast.ReturnStmt)
			if !ok || len(r.Results) != 2 || cnExpr(r.Results[0]) != `""` || cnExpr(r.Results[1]) != "err" {
				failShape("ensureRetrieveReady: the error of %s is not returned", cnExpr(as.Rhs[0]))
			}
			return "RTry " + op(as.Rhs[0])
		}
		failShape("ensureRetrieveReady: unrecognised statement %s", c12StmtText(st))
		return ""
	}
	var prog []string
	for _, st := range body[1:] {
		if is, ok := st.(*ast.IfStmt); ok && is.Init == nil {
			if cnExpr(is.Cond) != "strings.ContainsRune(out, '/')" || is.Else != nil {
				failShape("ensureRetrieveReady: condition `%s` (or an else branch)", cnExpr(is.Cond))
			}
			var inner []string
			for _, s2 := range is.Body.List {
				inner = append(inner, simple(s2))
			}
			prog = append(prog, "RIfNested ["+strings.Join(inner, "; ")+"]")
			continue
		}
		prog = append(prog, "RS ("+simple(st)+")")
	}
	// the last statement executed on every path must be a return
	if last := prog[len(prog)-1]; !strings.HasPrefix(last, "RS (RReturn") {
		failShape("ensureRetrieveReady: does not end in a return")
	}

	// both loops prepare the path they are about to create
	rf := findFunc(f, "dirCache", "retrieveFiles")
	var loop *ast.RangeStmt
	for _, st := range rf.Body.List {
		if r, ok := st.(*ast.RangeStmt); ok {
			if loop != nil {
				failShape("retrieveFiles: two range loops")
			}
			loop = r
		}
	}
	if loop == nil || cnExpr(loop.X) != "outs" || cnExpr(loop.Value) != "out" {
		failShape("retrieveFiles: `for _, out := range outs` not found")
	}
	if len(loop.Body.List) < 1 || c12StmtText(loop.Body.List[0]) != "realOut, err := cache.ensureRetrieveReady(target, out)" {
		failShape("retrieveFiles: the loop does not start with ensureRetrieveReady(target, out)")
	}
	plainFound := ""
	linked := false
	ast.Inspect(loop.Body, func(n ast.Node) bool {
		switch x := n.(type) {
		case *ast.ReturnStmt:
			if len(x.Results) != 2 || cnExpr(x.Results[1]) != "err" {
				failShape("retrieveFiles: loop returns %s", c12StmtText(&ast.ExprStmt{X: x.Results[0]}))
			}
			v := cnExpr(x.Results[0])
			if v != "true" && v != "false" {
				failShape("retrieveFiles: loop returns found = %s", v)
			}
			if plainFound != "" && plainFound != v {
				failShape("retrieveFiles: the loop's error returns disagree about found")
			}
			plainFound = v
		case *ast.CallExpr:
			if cnExpr(x) == "fs.RecursiveLink(cachedOut, realOut)" {
				linked = true
			}
		}
		return true
	})
	if plainFound == "" || !linked {
		failShape("retrieveFiles: loop body not recognised (error returns %q, RecursiveLink %v)", plainFound, linked)
	}
	rc := findFunc(f, "dirCache", "retrieveCompressed")
	ready, flags := false, ""
	ast.Inspect(rc.Body, func(n ast.Node) bool {
		switch x := n.(type) {
		case *ast.AssignStmt:
			if c12StmtText(x) == "out, err := cache.ensureRetrieveReady(target, hdr.Name)" {
				ready = true
			}
		case *ast.CallExpr:
			if cnExpr(x.Fun) == "os.OpenFile" && len(x.Args) == 3 {
				if cnExpr(x.Args[0]) != "out" || flags != "" {
					failShape("retrieveCompressed: OpenFile of %s", cnExpr(x.Args[0]))
				}
				flags = cnExpr(x.Args[1])
			}
		}
		return true
	})
	if !ready {
		failShape("retrieveCompressed: ensureRetrieveReady(target, hdr.Name) not found")
	}
	trunc := false
	seen := map[string]bool{}
	for _, fl := range strings.Split(flags, "|") {
		fl = strings.TrimSpace(fl)
		switch fl {
		case "os.O_WRONLY", "os.O_CREATE", "os.O_RDWR":
		case "os.O_TRUNC":
			trunc = true
		default:
			failShape("retrieveCompressed: open flag %q", fl)
		}
		seen[fl] = true
	}
	if !seen["os.O_CREATE"] || !(seen["os.O_WRONLY"] || seen["os.O_RDWR"]) {
		failShape("retrieveCompressed: open flags %s", flags)
	}

	var b strings.Builder
	b.WriteString("(* ensureRetrieveReady(target, out), after `fullOut := filepath.Join(core.RepoRoot, target.OutDir(), out)`:\n   RIfNested = `if strings.ContainsRune(out, '/') {..}`, RTry op = `if err := op; err != nil { return \"\", err }`,\n   RReturnOp op = `return fullOut, op`, RReturnOk = `return fullOut, nil`; both retrieve loops call it on the path\n   they create next (retrieveFiles: the output; retrieveCompressed: hdr.Name) *)\n")
	b.WriteString("Inductive rop := OMkdirAllParent | ORemoveAllFull.\n")
	b.WriteString("Inductive rsimple := RTry (o : rop) | RReturnOp (o : rop) | RReturnOk.\n")
	b.WriteString("Inductive rstmt := RS (x : rsimple) | RIfNested (body : list rsimple).\n")
	b.WriteString("Definition retrieve_ready : list rstmt := [" + strings.Join(prog, "; ") + "].\n")
	b.WriteString("(* retrieveFiles, uncompressed loop: `found` returned next to an error of ensureRetrieveReady / RecursiveLink *)\n")
	b.WriteString("Definition plain_found_with_error : bool := " + plainFound + ".\n")
	b.WriteString("(* retrieveCompressed: os.OpenFile(out, " + flags + ", mode) has O_TRUNC *)\n")
	fmt := "false"
	if trunc {
		fmt = "true"
	}
	b.WriteString("Definition compressed_write_truncates : bool := " + fmt + ".\n")
	return b.String()
}
