package main

import (
	"bytes"
	"go/ast"
	"go/printer"
	"go/token"
	"go/types"
	"regexp"
	"strconv"
	"strings"
)

// C38Fmt (property C38): the regular parts of src/format/fmt.go and of the asp lexer's first-byte dispatch.
//
//   - format(): the calls ParseBuild -> simplify -> Format -> bytes.Equal must appear in this order;
//   - simplify(): the whole body must be the one known loop; its start offset is a parameter;
//   - subinclude(): the whole body must be the one known shape; the callee name and the Go type of the
//     argument test are parameters;
//   - lexer.go nextToken: the identifier-start condition (byte ranges), the labels of `switch next` clause by
//     clause, the clauses whose body is a bare l.fail(...), and the message of the default clause.
//
// Anything else fails closed.
func init() {
	targets["C38Fmt"] = func() string {
		var b strings.Builder
		b.WriteString(genHeader)

		fset, ff := parseFile("src/format/fmt.go")
		body := func(name string) string {
			fd := findFunc(ff, "", name)
			var buf bytes.Buffer
			if err := printer.Fprint(&buf, fset, fd.Body); err != nil {
				failShape("cannot print %s: %v", name, err)
			}
			// drop comments and all white space: the shape is compared token by token
			src := regexp.MustCompile(`(?m)//.*$`).ReplaceAllString(buf.String(), "")
			return strings.Join(strings.Fields(src), "")
		}

		// --- format ------------------------------------------------------------------------------------
		fm := body("format")
		pipeline := []string{"build.ParseBuild(filename,before)", "simplify(f)", "after:=build.Format(f)", "bytes.Equal(before,after)"}
		at := 0
		for _, step := range pipeline {
			i := strings.Index(fm[at:], step)
			if i < 0 {
				failShape("format: %q not found (in this order: %v)", step, pipeline)
			}
			at += i + len(step)
		}
		for _, once := range []string{"build.ParseBuild(", "simplify(", "build.Format("} {
			if strings.Count(fm, once) != 1 {
				failShape("format: %q occurs %d times", once, strings.Count(fm, once))
			}
		}
		if !strings.Contains(fm, "fs.WriteFile(bytes.NewReader(after),filename,info.Mode())") {
			failShape("format: the rewrite does not write `after`")
		}
		if !strings.Contains(fm, "os.Stdout.Write(after)") {
			failShape("format: the non-rewriting mode does not print `after`")
		}
		b.WriteString("Definition format_pipeline : list string := [\"ParseBuild\"; \"simplify\"; \"Format\"; \"Equal\"].\n")

		// --- simplify ----------------------------------------------------------------------------------
		simp := regexp.MustCompile(`^\{fori:=len\(f\.Stmt\)-(\d+);i>=0;i--\{` +
			`ifcall:=subinclude\(f\.Stmt\[i\]\);call!=nil\{` +
			`ifnext:=subinclude\(f\.Stmt\[i\+1\]\);next!=nil\{` +
			`call\.List=append\(call\.List,next\.List\.\.\.\)` +
			`f\.Stmt=slices\.Delete\(f\.Stmt,i\+1,i\+2\)` +
			`call\.ForceCompact=true` +
			`call\.ForceMultiLine=false` +
			`\}\}\}\}$`)
		m := simp.FindStringSubmatch(body("simplify"))
		if m == nil {
			failShape("simplify: body is not the known merge loop: %s", body("simplify"))
		}
		b.WriteString("Definition loop_start_offset : nat := " + m[1] + ".\n")

		// --- subinclude --------------------------------------------------------------------------------
		sub := regexp.MustCompile(`^\{ifcall,ok:=expr\.\(\*build\.CallExpr\);ok\{` +
			`ifx,ok:=call\.X\.\(\*build\.Ident\);ok&&x\.Name=="(\w+)"\{` +
			`for_,arg:=rangecall\.List\{` +
			`if_,ok:=arg\.\(\*build\.(\w+)\);!ok\{returnnil\}` +
			`\}returncall\}\}returnnil\}$`)
		m = sub.FindStringSubmatch(body("subinclude"))
		if m == nil {
			failShape("subinclude: body is not the known shape: %s", body("subinclude"))
		}
		b.WriteString("Definition sub_callee : string := " + coqString(m[1]) + ".\n")
		b.WriteString("Definition sub_arg_types : list string := " + coqStringList([]string{m[2]}) + ".\n")

		// --- asp lexer -----------------------------------------------------------------------------------
		_, fl := parseFile("src/parse/asp/lexer.go")
		nt := findFunc(fl, "lex", "nextToken")
		byteOf := func(e ast.Expr) int {
			switch x := e.(type) {
			case *ast.BasicLit:
				if x.Kind == token.CHAR {
					r := []rune(unquote(x))
					if len(r) == 1 && r[0] <= 255 {
						return int(r[0])
					}
				} else if x.Kind == token.INT {
					if n, err := strconv.Atoi(x.Value); err == nil && n >= 0 && n <= 255 {
						return n
					}
				}
			case *ast.SelectorExpr:
				if types.ExprString(x) == "utf8.RuneSelf" {
					return 128
				}
			}
			failShape("nextToken: %s is not a byte", types.ExprString(e))
			return 0
		}
		// the `else if <cond> { return l.consumeIdent(pos) }`
		var identCond ast.Expr
		ast.Inspect(nt.Body, func(n ast.Node) bool {
			is, ok := n.(*ast.IfStmt)
			if !ok || len(is.Body.List) != 1 {
				return true
			}
			if r, ok := is.Body.List[0].(*ast.ReturnStmt); ok && len(r.Results) == 1 && types.ExprString(r.Results[0]) == "l.consumeIdent(pos)" {
				if identCond != nil {
					failShape("nextToken: more than one branch returns l.consumeIdent(pos)")
				}
				identCond = is.Cond
			}
			return true
		})
		if identCond == nil {
			failShape("nextToken: the branch returning l.consumeIdent(pos) was not found")
		}
		var ranges [][2]int
		var disj func(e ast.Expr)
		cmp := func(e ast.Expr, op token.Token) (int, bool) {
			be, ok := e.(*ast.BinaryExpr)
			if !ok || be.Op != op || types.ExprString(be.X) != "next" {
				return 0, false
			}
			return byteOf(be.Y), true
		}
		disj = func(e ast.Expr) {
			if p, ok := e.(*ast.ParenExpr); ok {
				e = p.X
			}
			be, ok := e.(*ast.BinaryExpr)
			if !ok {
				failShape("nextToken: identifier condition: %s", types.ExprString(e))
			}
			switch be.Op {
			case token.LOR:
				disj(be.X)
				disj(be.Y)
			case token.LAND:
				lo, ok1 := cmp(be.X, token.GEQ)
				hi, ok2 := cmp(be.Y, token.LEQ)
				if !ok1 || !ok2 {
					failShape("nextToken: identifier condition: %s", types.ExprString(e))
				}
				ranges = append(ranges, [2]int{lo, hi})
			case token.EQL:
				v, _ := cmp(be, token.EQL)
				ranges = append(ranges, [2]int{v, v})
			case token.GEQ:
				v, _ := cmp(be, token.GEQ)
				ranges = append(ranges, [2]int{v, 255})
			default:
				failShape("nextToken: identifier condition: %s", types.ExprString(e))
			}
		}
		disj(identCond)
		rs := make([]string, len(ranges))
		for i, r := range ranges {
			rs[i] = "(" + strconv.Itoa(r[0]) + ", " + strconv.Itoa(r[1]) + ")"
		}
		b.WriteString("Definition asp_ident_start : list (N * N) := [" + strings.Join(rs, "; ") + "]%N.\n")

		var sw *ast.SwitchStmt
		ast.Inspect(nt.Body, func(n ast.Node) bool {
			if s, ok := n.(*ast.SwitchStmt); ok && s.Tag != nil && types.ExprString(s.Tag) == "next" {
				if sw != nil {
					failShape("nextToken: more than one `switch next`")
				}
				sw = s
			}
			return true
		})
		if sw == nil {
			failShape("nextToken: no `switch next`")
		}
		bareFail := func(cc *ast.CaseClause) (string, bool) {
			if len(cc.Body) != 1 {
				return "", false
			}
			es, ok := cc.Body[0].(*ast.ExprStmt)
			if !ok {
				return "", false
			}
			call, ok := es.X.(*ast.CallExpr)
			if !ok || types.ExprString(call.Fun) != "l.fail" || len(call.Args) < 2 {
				return "", false
			}
			lit, ok := call.Args[1].(*ast.BasicLit)
			if !ok || lit.Kind != token.STRING {
				return "", false
			}
			return unquote(lit), true
		}
		var cases, fails []string
		defaultMsg, sawDefault := "", false
		for _, c := range sw.Body.List {
			cc := c.(*ast.CaseClause)
			if cc.List == nil {
				msg, ok := bareFail(cc)
				if !ok {
					failShape("nextToken: the default clause is not a bare l.fail(...)")
				}
				defaultMsg, sawDefault = msg, true
				continue
			}
			labels := make([]string, len(cc.List))
			for i, e := range cc.List {
				labels[i] = strconv.Itoa(byteOf(e))
			}
			l := "[" + strings.Join(labels, "; ") + "]"
			cases = append(cases, l)
			if _, ok := bareFail(cc); ok {
				fails = append(fails, l)
			}
		}
		if !sawDefault {
			failShape("nextToken: `switch next` has no default clause")
		}
		b.WriteString("Definition asp_switch_cases : list (list N) :=\n  [" + strings.Join(cases, ";\n   ") + "]%N.\n")
		b.WriteString("Definition asp_fail_cases : list (list N) := [" + strings.Join(fails, "; ") + "]%N.\n")
		b.WriteString("Definition asp_default_message : string := " + coqString(defaultMsg) + ".\n")

		// --- asp lexer: what consumeString appends for the byte after a backslash ---------------------------
		// `if escaped { if next == 'n' {...} else if ... else {...}; escaped = false; continue }`: every branch is a
		// disjunction of `next == <byte>` (optionally `&& multiline`) whose body only appends bytes / `next` to value
		// (and counts lines).  A rule is (bytes, needs multiline, appended) with None standing for `next`.
		cs := findFunc(fl, "lex", "consumeString")
		var escIf *ast.IfStmt
		ast.Inspect(cs.Body, func(n ast.Node) bool {
			if is, ok := n.(*ast.IfStmt); ok && types.ExprString(is.Cond) == "escaped" {
				if escIf != nil {
					failShape("consumeString: more than one `if escaped`")
				}
				escIf = is
			}
			return true
		})
		if escIf == nil || escIf.Else != nil || len(escIf.Body.List) != 3 {
			failShape("consumeString: `if escaped { <chain>; escaped = false; continue }` not found")
		}
		if as, ok := escIf.Body.List[1].(*ast.AssignStmt); !ok || types.ExprString(as.Lhs[0]) != "escaped" || types.ExprString(as.Rhs[0]) != "false" {
			failShape("consumeString: the escape branch does not reset `escaped`")
		}
		if br, ok := escIf.Body.List[2].(*ast.BranchStmt); !ok || br.Tok != token.CONTINUE {
			failShape("consumeString: the escape branch does not `continue`")
		}
		appended := func(body *ast.BlockStmt) string {
			out := []string{}
			for _, st := range body.List {
				switch x := st.(type) {
				case *ast.IncDecStmt:
					if types.ExprString(x.X) != "l.line" {
						failShape("consumeString: escape branch: %s", types.ExprString(x.X))
					}
				case *ast.AssignStmt:
					lhs := types.ExprString(x.Lhs[0])
					if lhs == "l.col" && types.ExprString(x.Rhs[0]) == "0" {
						continue
					}
					call, ok := x.Rhs[0].(*ast.CallExpr)
					if lhs != "value" || !ok || types.ExprString(call.Fun) != "append" || len(call.Args) < 2 || types.ExprString(call.Args[0]) != "value" || call.Ellipsis.IsValid() {
						failShape("consumeString: escape branch: unknown statement %s = %s", lhs, types.ExprString(x.Rhs[0]))
					}
					for _, a := range call.Args[1:] {
						if types.ExprString(a) == "next" {
							out = append(out, "None")
						} else {
							out = append(out, "Some "+strconv.Itoa(byteOf(a)))
						}
					}
				default:
					failShape("consumeString: escape branch: unknown statement")
				}
			}
			return "[" + strings.Join(out, "; ") + "]"
		}
		var rules []string
		escDefault := ""
		var chain ast.Stmt = escIf.Body.List[0]
		for chain != nil {
			switch x := chain.(type) {
			case *ast.IfStmt:
				if x.Init != nil {
					failShape("consumeString: escape chain: if with an init statement")
				}
				var bs []string
				ml := false
				var cond func(e ast.Expr)
				cond = func(e ast.Expr) {
					if p, ok := e.(*ast.ParenExpr); ok {
						e = p.X
					}
					if id, ok := e.(*ast.Ident); ok && id.Name == "multiline" {
						ml = true
						return
					}
					be, ok := e.(*ast.BinaryExpr)
					if !ok {
						failShape("consumeString: escape chain condition: %s", types.ExprString(e))
					}
					switch be.Op {
					case token.LOR:
						cond(be.X)
						cond(be.Y)
					case token.LAND:
						if types.ExprString(be.Y) != "multiline" || ml {
							failShape("consumeString: escape chain condition: %s", types.ExprString(e))
						}
						cond(be.X)
						ml = true
					case token.EQL:
						if types.ExprString(be.X) != "next" {
							failShape("consumeString: escape chain condition: %s", types.ExprString(e))
						}
						bs = append(bs, strconv.Itoa(byteOf(be.Y)))
					default:
						failShape("consumeString: escape chain condition: %s", types.ExprString(e))
					}
				}
				cond(x.Cond)
				if ml && len(bs) != 1 {
					failShape("consumeString: escape chain: `&& multiline` on a disjunction")
				}
				mls := "false"
				if ml {
					mls = "true"
				}
				rules = append(rules, "(["+strings.Join(bs, "; ")+"], "+mls+", "+appended(x.Body)+")")
				chain = x.Else
			case *ast.BlockStmt:
				escDefault = appended(x)
				chain = nil
			default:
				failShape("consumeString: escape chain: unknown statement")
			}
		}
		if escDefault == "" {
			failShape("consumeString: the escape chain has no final else")
		}
		b.WriteString("Definition asp_escape_rules : list (list N * bool * list (option N)) :=\n  [" + strings.Join(rules, ";\n   ") + "]%N.\n")
		b.WriteString("Definition asp_escape_default : list (option N) := " + escDefault + "%N.\n")

		// --- asp operator precedence (grammar.go Operator.Precedence) ----------------------------------------
		_, fg := parseFile("src/parse/asp/grammar.go")
		pf := findFunc(fg, "Operator", "Precedence")
		if len(pf.Body.List) != 1 {
			failShape("Precedence: the body is not a single switch")
		}
		psw, ok := pf.Body.List[0].(*ast.SwitchStmt)
		if !ok || psw.Init != nil || psw.Tag == nil || types.ExprString(psw.Tag) != "o" {
			failShape("Precedence: the body is not `switch o`")
		}
		intOf := func(cc *ast.CaseClause) string {
			if len(cc.Body) != 1 {
				failShape("Precedence: a clause is not a single return")
			}
			ret, ok := cc.Body[0].(*ast.ReturnStmt)
			if !ok || len(ret.Results) != 1 {
				failShape("Precedence: a clause is not a single return")
			}
			e := ret.Results[0]
			neg := false
			if u, ok := e.(*ast.UnaryExpr); ok && u.Op == token.SUB {
				neg, e = true, u.X
			}
			lit, ok := e.(*ast.BasicLit)
			if !ok || lit.Kind != token.INT {
				failShape("Precedence: a clause does not return an integer literal")
			}
			if _, err := strconv.Atoi(lit.Value); err != nil {
				failShape("Precedence: %s", lit.Value)
			}
			if neg {
				return "(-" + lit.Value + ")"
			}
			return lit.Value
		}
		var precs []string
		precDefault, sawPrecDefault := "", false
		seenOp := map[string]bool{}
		for _, c := range psw.Body.List {
			cc := c.(*ast.CaseClause)
			if cc.List == nil {
				precDefault, sawPrecDefault = intOf(cc), true
				continue
			}
			v := intOf(cc)
			for _, e := range cc.List {
				id, ok := e.(*ast.Ident)
				if !ok || seenOp[id.Name] {
					failShape("Precedence: case label %s", types.ExprString(e))
				}
				seenOp[id.Name] = true
				precs = append(precs, "("+coqString(id.Name)+", "+v+")")
			}
		}
		if !sawPrecDefault {
			failShape("Precedence: no default clause")
		}
		b.WriteString("Definition asp_precedence : list (string * Z) :=\n  [" + strings.Join(precs, "; ") + "]%Z.\n")
		b.WriteString("Definition asp_precedence_default : Z := " + precDefault + "%Z.\n")
		return b.String()
	}
}
