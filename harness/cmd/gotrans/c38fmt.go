package main

import (
	"bytes"
	"go/ast"
	"go/printer"
	"go/token"
	"go/types"
	"regexp"
	"strconv"
	"strings"
)

// C38Fmt (property C38): the regular parts of src/format/fmt.go and of the asp lexer's first-byte dispatch.
//
//   - format(): the calls ParseBuild -> simplify -> Format -> bytes.Equal must appear in this order;
//   - simplify(): the whole body must be the one known loop; its start offset is a parameter;
//   - subinclude(): the whole body must be the one known shape; the callee name and the Go type of the
//     argument test are parameters;
//   - lexer.go nextToken: the identifier-start condition (byte ranges), the labels of `switch next` clause by
//     clause, the clauses whose body is a bare l.fail(...), and the message of the default clause.
//
// Anything else fails closed.
func init() {
	targets["C38Fmt"] = func() string {
		var b strings.Builder
		b.WriteString(genHeader)

		fset, ff := parseFile("src/format/fmt.go")
		body := func(name string) string {
			fd := findFunc(ff, "", name)
			var buf bytes.Buffer
			if err := printer.Fprint(&buf, fset, fd.Body); err != nil {
				failShape("cannot print %s: %v", name, err)
			}
			// drop comments and all white space: the shape is compared token by token
			src := regexp.MustCompile(`(?m)//.*$`).ReplaceAllString(buf.String(), "")
			return strings.Join(strings.Fields(src), "")
		}

		// --- format ------------------------------------------------------------------------------------
		fm := body("format")
		pipeline := []string{"build.ParseBuild(filename,before)", "simplify(f)", "after:=build.Format(f)", "bytes.Equal(before,after)"}
		at := 0
		for _, step := range pipeline {
			i := strings.Index(fm[at:], step)
			if i < 0 {
				failShape("format: %q not found (in this order: %v)", step, pipeline)
			}
			at += i + len(step)
		}
		for _, once := range []string{"build.ParseBuild(", "simplify(", "build.Format("} {
			if strings.Count(fm, once) != 1 {
				failShape("format: %q occurs %d times", once, strings.Count(fm, once))
			}
		}
		if !strings.Contains(fm, "fs.WriteFile(bytes.NewReader(after),filename,info.Mode())") {
			failShape("format: the rewrite does not write `after`")
		}
		if !strings.Contains(fm, "os.Stdout.Write(after)") {
			failShape("format: the non-rewriting mode does not print `after`")
		}
		b.WriteString("Definition format_pipeline : list string := [\"ParseBuild\"; \"simplify\"; \"Format\"; \"Equal\"].\n")

		// --- simplify ----------------------------------------------------------------------------------
		simp := regexp.MustCompile(`^\{fori:=len\(f\.Stmt\)-(\d+);i>=0;i--\{` +
			`ifcall:=subinclude\(f\.Stmt\[i\]\);call!=nil\{` +
			`ifnext:=subinclude\(f\.Stmt\[i\+1\]\);next!=nil\{` +
			`call\.List=append\(call\.List,next\.List\.\.\.\)` +
			`f\.Stmt=slices\.Delete\(f\.Stmt,i\+1,i\+2\)` +
			`call\.ForceCompact=true` +
			`call\.ForceMultiLine=false` +
			`\}\}\}\}$`)
		m := simp.FindStringSubmatch(body("simplify"))
		if m == nil {
			failShape("simplify: body is not the known merge loop: %s", body("simplify"))
		}
		b.WriteString("Definition loop_start_offset : nat := " + m[1] + ".\n")

		// --- subinclude --------------------------------------------------------------------------------
		sub := regexp.MustCompile(`^\{ifcall,ok:=expr\.\(\*build\.CallExpr\);ok\{` +
			`ifx,ok:=call\.X\.\(\*build\.Ident\);ok&&x\.Name=="(\w+)"\{` +
			`for_,arg:=rangecall\.List\{` +
			`if_,ok:=arg\.\(\*build\.(\w+)\);!ok\{returnnil\}` +
			`\}returncall\}\}returnnil\}$`)
		m = sub.FindStringSubmatch(body("subinclude"))
		if m == nil {
			failShape("subinclude: body is not the known shape: %s", body("subinclude"))
		}
		b.WriteString("Definition sub_callee : string := " + coqString(m[1]) + ".\n")
		b.WriteString("Definition sub_arg_types : list string := " + coqStringList([]string{m[2]}) + ".\n")

		// --- asp lexer -----------------------------------------------------------------------------------
		_, fl := parseFile("src/parse/asp/lexer.go")
		nt := findFunc(fl, "lex", "nextToken")
		byteOf := func(e ast.Expr) int {
			switch x := e.(type) {
			case *ast.BasicLit:
				if x.Kind == token.CHAR {
					r := []rune(unquote(x))
					if len(r) == 1 && r[0] <= 255 {
						return int(r[0])
					}
				} else if x.Kind == token.INT {
					if n, err := strconv.Atoi(x.Value); err == nil && n >= 0 && n <= 255 {
						return n
					}
				}
			case *ast.SelectorExpr:
				if types.ExprString(x) == "utf8.RuneSelf" {
					return 128
				}
			}
			failShape("nextToken: %s is not a byte", types.ExprString(e))
			return 0
		}
		// the `else if <cond> { return l.consumeIdent(pos) }`
		var identCond ast.Expr
		ast.Inspect(nt.Body, func(n ast.Node) bool {
			is, ok := n.(*ast.IfStmt)
			if !ok || len(is.Body.List) != 1 {
				return true
			}
			if r, ok := is.Body.List[0].(*ast.ReturnStmt); ok && len(r.Results) == 1 && types.ExprString(r.Results[0]) == "l.consumeIdent(pos)" {
				if identCond != nil {
					failShape("nextToken: more than one branch returns l.consumeIdent(pos)")
				}
				identCond = is.Cond
			}
			return true
		})
		if identCond == nil {
			failShape("nextToken: the branch returning l.consumeIdent(pos) was not found")
		}
		var ranges [][2]int
		var disj func(e ast.Expr)
		cmp := func(e ast.Expr, op token.Token) (int, bool) {
			be, ok := e.(*ast.BinaryExpr)
			if !ok || be.Op != op || types.ExprString(be.X) != "next" {
				return 0, false
			}
			return byteOf(be.Y), true
		}
		disj = func(e ast.Expr) {
			if p, ok := e.(*ast.ParenExpr); ok {
				e = p.X
			}
			be, ok := e.(*ast.BinaryExpr)
			if !ok {
				failShape("nextToken: identifier condition: %s", types.ExprString(e))
			}
			switch be.Op {
			case token.LOR:
				disj(be.X)
				disj(be.Y)
			case token.LAND:
				lo, ok1 := cmp(be.X, token.GEQ)
				hi, ok2 := cmp(be.Y, token.LEQ)
				if !ok1 || !ok2 {
					failShape("nextToken: identifier condition: %s", types.ExprString(e))
				}
				ranges = append(ranges, [2]int{lo, hi})
			case token.EQL:
				v, _ := cmp(be, token.EQL)
				ranges = append(ranges, [2]int{v, v})
			case token.GEQ:
				v, _ := cmp(be, token.GEQ)
				ranges = append(ranges, [2]int{v, 255})
			default:
				failShape("nextToken: identifier condition: %s", types.ExprString(e))
			}
		}
		disj(identCond)
		rs := make([]string, len(ranges))
		for i, r := range ranges {
			rs[i] = "(" + strconv.Itoa(r[0]) + ", " + strconv.Itoa(r[1]) + ")"
		}
		b.WriteString("Definition asp_ident_start : list (N * N) := [" + strings.Join(rs, "; ") + "]%N.\n")

		var sw *ast.SwitchStmt
		ast.Inspect(nt.Body, func(n ast.Node) bool {
			if s, ok := n.(*ast.SwitchStmt); ok && s.Tag != nil && types.ExprString(s.Tag) == "next" {
				if sw != nil {
					failShape("nextToken: more than one `switch next`")
				}
				sw = s
			}
			return true
		})
		if sw == nil {
			failShape("nextToken: no `switch next`")
		}
		bareFail := func(cc *ast.CaseClause) (string, bool) {
			if len(cc.Body) != 1 {
				return "", false
			}
			es, ok := cc.Body[0].(*ast.ExprStmt)
			if !ok {
				return "", false
			}
			call, ok := es.X.(*ast.CallExpr)
			if !ok || types.ExprString(call.Fun) != "l.fail" || len(call.Args) < 2 {
				return "", false
			}
			lit, ok := call.Args[1].(*ast.BasicLit)
			if !ok || lit.Kind != token.STRING {
				return "", false
			}
			return unquote(lit), true
		}
		var cases, fails []string
		defaultMsg, sawDefault := "", false
		for _, c := range sw.Body.List {
			cc := c.(*ast.CaseClause)
			if cc.List == nil {
				msg, ok := bareFail(cc)
				if !ok {
					failShape("nextToken: the default clause is not a bare l.fail(...)")
				}
				defaultMsg, sawDefault = msg, true
				continue
			}
			labels := make([]string, len(cc.List))
			for i, e := range cc.List {
				labels[i] = strconv.Itoa(byteOf(e))
			}
			l := "[" + strings.Join(labels, "; ") + "]"
			cases = append(cases, l)
			if _, ok := bareFail(cc); ok {
				fails = append(fails, l)
			}
		}
		if !sawDefault {
			failShape("nextToken: `switch next` has no default clause")
		}
		b.WriteString("Definition asp_switch_cases : list (list N) :=\n  [" + strings.Join(cases, ";\n   ") + "]%N.\n")
		b.WriteString("Definition asp_fail_cases : list (list N) := [" + strings.Join(fails, "; ") + "]%N.\n")
		b.WriteString("Definition asp_default_message : string := " + coqString(defaultMsg) + ".\n")
		return b.String()
	}
}
