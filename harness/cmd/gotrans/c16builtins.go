package main

import (
	"go/ast"
	"go/token"
	"go/types"
	"strings"
)

// C16Builtins (property C16): two pieces of the BUILD language whose result must be a FRESH / STABLE value are
// translated statement by statement, so that a "fast path" or a different comparison changes the generated
// definitions and with them the proofs of Proof/C16_Sort.v:
//
//   - the `case Union:` clause of pyDict.Operator (src/parse/asp/objects.go) becomes a list of steps of the
//     little language Model/C16_Sort.v interprets (check the operand, make the result, copy one side, return the
//     result; an `if len(x) == 0 { return y }` early return is translated too - the proof that the result is a new
//     dict then no longer goes through);
//   - builtins.go sorted(): which sort function is called (sort.SliceStable since /repo 62283f2; sort.Slice is still
//     recognised and translated, the proofs then fail: it is only stable up to 12 elements), which operator each of the
//     two comparison closures hands to s.operator as a function of `reverse`, that the list is cloned first, and whether
//     the result is post-processed (slices.Reverse) before it is returned.
//
// Anything else fails closed.
func init() {
	targets["C16Builtins"] = func() string {
		fsO, fo := parseFile("src/parse/asp/objects.go")
		fsB, fb := parseFile("src/parse/asp/builtins.go")
		stmtText := func(fs *token.FileSet, st ...ast.Stmt) string {
			return bodyText(fs, &ast.FuncDecl{Name: ast.NewIdent("stmt"), Body: &ast.BlockStmt{List: st}})
		}

		// ---------------------------------------------------------------- pyDict.Operator, case Union
		op := findFunc(fo, "pyDict", "Operator")
		var union *ast.CaseClause
		for _, st := range op.Body.List {
			sw, ok := st.(*ast.SwitchStmt)
			if !ok {
				continue
			}
			for _, c := range sw.Body.List {
				cc := c.(*ast.CaseClause)
				for _, e := range cc.List {
					if id, ok := e.(*ast.Ident); ok && id.Name == "Union" {
						if len(cc.List) != 1 || union != nil {
							failShape("pyDict.Operator: Union shares its case clause or is listed twice")
						}
						union = cc
					}
				}
			}
		}
		if union == nil {
			failShape("pyDict.Operator has no `case Union:`")
		}
		if len(union.Body) < 2 {
			failShape("pyDict.Operator case Union is too short")
		}
		matchShape("pyDict.Operator case Union (operand check)", stmtText(fsO, union.Body[0], union.Body[1]),
			`{ d2, ok := operand.(pyDict) if !ok { panic("Operator to | must be another dict, not " + operand.Type()) } }`)
		steps := []string{"UCheckDict"}
		side := func(e ast.Expr) string {
			switch types.ExprString(e) {
			case "d":
				return "ULeft"
			case "d2":
				return "URight"
			}
			failShape("pyDict.Operator case Union: %s is neither operand", types.ExprString(e))
			return ""
		}
		var early func(is *ast.IfStmt)
		early = func(is *ast.IfStmt) {
			// if len(x) == 0 { return y }  [else if ...]
			be, ok := is.Cond.(*ast.BinaryExpr)
			if is.Init != nil || !ok || be.Op != token.EQL || types.ExprString(be.Y) != "0" {
				failShape("pyDict.Operator case Union: unrecognised condition %s", types.ExprString(is.Cond))
			}
			call, ok := be.X.(*ast.CallExpr)
			if !ok || types.ExprString(call.Fun) != "len" || len(call.Args) != 1 {
				failShape("pyDict.Operator case Union: unrecognised condition %s", types.ExprString(is.Cond))
			}
			if len(is.Body.List) != 1 {
				failShape("pyDict.Operator case Union: early-return body is not a single return")
			}
			ret, ok := is.Body.List[0].(*ast.ReturnStmt)
			if !ok || len(ret.Results) != 1 {
				failShape("pyDict.Operator case Union: early-return body is not a single return")
			}
			steps = append(steps, "UReturnIfEmpty "+side(call.Args[0])+" "+side(ret.Results[0]))
			switch e := is.Else.(type) {
			case nil:
			case *ast.IfStmt:
				early(e)
			default:
				failShape("pyDict.Operator case Union: unrecognised else branch")
			}
		}
		made, returned := false, false
		for _, st := range union.Body[2:] {
			if returned {
				failShape("pyDict.Operator case Union: statements after the final return")
			}
			switch t := st.(type) {
			case *ast.AssignStmt:
				matchShape("pyDict.Operator case Union (make)", stmtText(fsO, t), `{ ret := make(pyDict, len(d)+len(d2)) }`)
				if made {
					failShape("pyDict.Operator case Union: the result is made twice")
				}
				made = true
				steps = append(steps, "UMake")
			case *ast.RangeStmt:
				if !made {
					failShape("pyDict.Operator case Union: copy before make")
				}
				src := side(t.X)
				t2 := *t
				t2.X = ast.NewIdent("SRC")
				matchShape("pyDict.Operator case Union (copy loop)", stmtText(fsO, &t2), `{ for k, v := range SRC { ret[k] = v } }`)
				steps = append(steps, "UCopy "+src)
			case *ast.IfStmt:
				early(t)
			case *ast.ReturnStmt:
				matchShape("pyDict.Operator case Union (return)", stmtText(fsO, t), `{ return ret }`)
				if !made {
					failShape("pyDict.Operator case Union: return before make")
				}
				returned = true
				steps = append(steps, "UReturnRet")
			default:
				failShape("pyDict.Operator case Union: unrecognised statement %s", stmtText(fsO, st))
			}
		}
		if !returned {
			failShape("pyDict.Operator case Union does not end in `return ret`")
		}

		// ---------------------------------------------------------------- sorted()
		sf := findFunc(fb, "", "sorted")
		body := sf.Body.List
		if len(body) < 8 {
			failShape("sorted() is too short")
		}
		matchShape("sorted() (arguments)", stmtText(fsB, body[0:5]...),
			`{ l, isList := args[0].(pyList) key, isFunc := args[1].(*pyFunc) reverse, isBool := args[2].(pyBool)
			   s.Assert(isList, "Argument seq must be a list, not %s", args[0].Type())
			   s.Assert(isBool, "Argument reverse must be a bool, not %s", args[2].Type()) }`)
		rest := body[5:]
		// optional: order := A ; if reverse { order = B }
		orderDefault, orderReverse := "", ""
		if as, ok := rest[0].(*ast.AssignStmt); ok && as.Tok == token.DEFINE && len(as.Lhs) == 1 && types.ExprString(as.Lhs[0]) == "order" {
			id, ok := as.Rhs[0].(*ast.Ident)
			if !ok {
				failShape("sorted(): order is not initialised with an operator constant")
			}
			orderDefault, orderReverse = id.Name, id.Name
			rest = rest[1:]
			if is, ok := rest[0].(*ast.IfStmt); ok && types.ExprString(is.Cond) == "reverse" {
				if is.Init != nil || is.Else != nil || len(is.Body.List) != 1 {
					failShape("sorted(): unrecognised `if reverse`")
				}
				as2, ok := is.Body.List[0].(*ast.AssignStmt)
				if !ok || as2.Tok != token.ASSIGN || len(as2.Lhs) != 1 || types.ExprString(as2.Lhs[0]) != "order" {
					failShape("sorted(): unrecognised `if reverse`")
				}
				id2, ok := as2.Rhs[0].(*ast.Ident)
				if !ok {
					failShape("sorted(): order is not set to an operator constant")
				}
				orderReverse = id2.Name
				rest = rest[1:]
			}
		}
		if len(rest) < 3 {
			failShape("sorted(): clone / sort / return missing")
		}
		matchShape("sorted() (clone)", stmtText(fsB, rest[0]), `{ l = slices.Clone(l) }`)
		ifKey, ok := rest[1].(*ast.IfStmt)
		if !ok || ifKey.Init != nil || types.ExprString(ifKey.Cond) != "key == nil" {
			failShape("sorted(): `if key == nil` not found after the clone")
		}
		els, ok := ifKey.Else.(*ast.BlockStmt)
		if !ok || len(ifKey.Body.List) != 1 || len(els.List) != 2 {
			failShape("sorted(): the two sort.Slice branches have an unrecognised shape")
		}
		const hole = "OPERATOR"
		// the operator argument of the single s.operator call inside a statement, replaced by a hole; the sort function
		// (sort.Slice / sort.SliceStable) of the single sort call, replaced by SORTFN
		sortFns := []string{}
		operatorOf := func(st ast.Stmt) string {
			found := []string{}
			ast.Inspect(st, func(n ast.Node) bool {
				if c, ok := n.(*ast.CallExpr); ok {
					if fn := types.ExprString(c.Fun); fn == "sort.Slice" || fn == "sort.SliceStable" {
						sortFns = append(sortFns, fn)
						c.Fun = ast.NewIdent("SORTFN")
					}
				}
				if c, ok := n.(*ast.CallExpr); ok && types.ExprString(c.Fun) == "s.operator" && len(c.Args) == 3 {
					found = append(found, types.ExprString(c.Args[0]))
					c.Args[0] = ast.NewIdent(hole)
				}
				return true
			})
			if len(found) != 1 {
				failShape("sorted(): a comparison closure does not call s.operator exactly once")
			}
			return found[0]
		}
		opNoKey := operatorOf(ifKey.Body.List[0])
		opKey := operatorOf(els.List[1])
		matchShape("sorted() (sort without key)", stmtText(fsB, ifKey.Body.List[0]),
			`{ SORTFN(l, func(i, j int) bool { return s.operator(OPERATOR, l[i], l[j]).IsTruthy() }) }`)
		matchShape("sorted() (sort with key)", stmtText(fsB, els.List...),
			`{ s.Assert(isFunc, "Argument key must be callable, not %s", args[1].Type())
			   SORTFN(l, func(i, j int) bool {
			     iKey := key.Call(s, &Call{ Arguments: []CallArgument{{ Value: Expression{optimised: &optimisedExpression{Constant: l[i]}}, }}, })
			     jKey := key.Call(s, &Call{ Arguments: []CallArgument{{ Value: Expression{optimised: &optimisedExpression{Constant: l[j]}}, }}, })
			     return s.operator(OPERATOR, iKey, jKey).IsTruthy() }) }`)
		if len(sortFns) != 2 {
			failShape("sorted(): expected exactly one sort.Slice / sort.SliceStable call per branch, found %v", sortFns)
		}
		opFun := func(x string) string {
			if x == "order" {
				if orderDefault == "" {
					failShape("sorted(): the comparison uses `order`, which is not defined")
				}
				return "fun reverse : bool => if reverse then " + coqString(orderReverse) + "%string else " + coqString(orderDefault) + "%string"
			}
			if !token.IsIdentifier(x) {
				failShape("sorted(): the comparison operator %s is not a constant", x)
			}
			return "fun _ : bool => " + coqString(x) + "%string"
		}
		// post-processing between the sort and the return
		postReverse := "false"
		post := rest[2 : len(rest)-1]
		switch len(post) {
		case 0:
		case 1:
			matchShape("sorted() (post-processing)", stmtText(fsB, post[0]), `{ if reverse { slices.Reverse(l) } }`)
			postReverse = "true"
		default:
			failShape("sorted(): unrecognised statements between the sort and the return")
		}
		matchShape("sorted() (return)", stmtText(fsB, rest[len(rest)-1]), `{ return l }`)

		// ---------------------------------------------------------------- pyRange.Len
		// the body becomes a Gallina function over Z: Go's int + and - as Z.add / Z.sub, a compound operand of / wrapped
		// to 64 bits (`wrap`), / as Z.quot, <= as Z.leb, || as orb, `if c { return 0 }; return e` as if-then-else
		lenFn := findFunc(fo, "pyRange", "Len")
		if lenFn == nil || lenFn.Body == nil {
			failShape("pyRange.Len not found")
		}
		var zexpr func(e ast.Expr) (string, bool)
		zexpr = func(e ast.Expr) (string, bool) { // the term, and whether it is a leaf (a field or a literal)
			switch x := e.(type) {
			case *ast.ParenExpr:
				return zexpr(x.X)
			case *ast.BasicLit:
				if x.Kind != token.INT {
					failShape("pyRange.Len: literal %s", x.Value)
				}
				return x.Value + "%Z", true
			case *ast.SelectorExpr:
				switch types.ExprString(x) {
				case "r.Start":
					return "start", true
				case "r.Stop":
					return "stop", true
				case "r.Step":
					return "step", true
				}
			case *ast.CallExpr:
				if types.ExprString(x.Fun) == "int" && len(x.Args) == 1 {
					return zexpr(x.Args[0])
				}
			case *ast.BinaryExpr:
				a, la := zexpr(x.X)
				b, lb := zexpr(x.Y)
				switch x.Op {
				case token.ADD:
					return "(Z.add " + a + " " + b + ")", false
				case token.SUB:
					return "(Z.sub " + a + " " + b + ")", false
				case token.QUO:
					if !la {
						a = "(wrap " + a + ")"
					}
					if !lb {
						b = "(wrap " + b + ")"
					}
					return "(Z.quot " + a + " " + b + ")", false
				}
			}
			failShape("pyRange.Len: unrecognised expression %s", types.ExprString(e))
			return "", false
		}
		var zcond func(e ast.Expr) string
		zcond = func(e ast.Expr) string {
			switch x := e.(type) {
			case *ast.ParenExpr:
				return zcond(x.X)
			case *ast.BinaryExpr:
				switch x.Op {
				case token.LOR:
					return "(orb " + zcond(x.X) + " " + zcond(x.Y) + ")"
				case token.LEQ:
					a, _ := zexpr(x.X)
					b, _ := zexpr(x.Y)
					return "(Z.leb " + a + " " + b + ")"
				}
			}
			failShape("pyRange.Len: unrecognised condition %s", types.ExprString(e))
			return ""
		}
		var zbody func(l []ast.Stmt) string
		zbody = func(l []ast.Stmt) string {
			if len(l) == 0 {
				failShape("pyRange.Len: falls off the end")
			}
			switch st := l[0].(type) {
			case *ast.ReturnStmt:
				if len(st.Results) != 1 || len(l) != 1 {
					failShape("pyRange.Len: unrecognised return")
				}
				r, _ := zexpr(st.Results[0])
				return r
			case *ast.IfStmt:
				if st.Init != nil || st.Else != nil {
					failShape("pyRange.Len: unrecognised if")
				}
				return "(if " + zcond(st.Cond) + " then " + zbody(st.Body.List) + " else " + zbody(l[1:]) + ")"
			}
			failShape("pyRange.Len: unrecognised statement")
			return ""
		}
		rangeLen := zbody(lenFn.Body.List)

		// ---------------------------------------------------------------- scope.interpretOps: the guards of the mixed-precedence branch
		// (follow-up 2) AspTables pins the whole body textually; here the if / else-if chain between the two leading fast paths and
		// the final evaluation of the right operand is TRANSLATED into a list of guards, in source order, which Model/C16_Effects.v
		// interprets (flat_ops_g). Dropping the short-circuit guard, or testing it after the unary guard, changes the list and the
		// proofs of Proof/C16_Effects.v (flat_ops_g over the generated list IS flat_ops; a deciding left operand evaluates nothing).
		fsI, fi := parseFile("src/parse/asp/interpreter.go")
		norm := func(x string) string { return strings.TrimSpace(ws.ReplaceAllString(x, " ")) }
		iops := findFunc(fi, "scope", "interpretOps")
		if iops == nil || iops.Body == nil || len(iops.Body.List) < 4 {
			failShape("scope.interpretOps not found or too short")
		}
		ib := iops.Body.List
		matchShape("scope.interpretOps (the two leading cases)", stmtText(fsI, ib[0], ib[1]),
			`{ if len(ops) == 1 { return s.interpretOp(obj, ops[0]) }
			   if ops[0].Op.Precedence() >= ops[1].Op.Precedence() { return s.interpretOps(s.interpretOp(obj, ops[0]), ops[1:]) } }`)
		matchShape("scope.interpretOps (evaluation of the right operand)", stmtText(fsI, ib[len(ib)-2:]...),
			`{ nobj := s.interpretOps(s.interpretExpression(ops[0].Expr), ops[1:])
			   return s.interpretOp(obj, OpExpression{ Op: ops[0].Op, Expr: &Expression{optimised: &optimisedExpression{Constant: nobj}}, }) }`)
		guards := []string{}
		var guard func(is *ast.IfStmt)
		guard = func(is *ast.IfStmt) {
			if is.Init != nil {
				failShape("scope.interpretOps: a guard with an init statement")
			}
			txt := norm(stmtText(fsI, &ast.IfStmt{Cond: is.Cond, Body: is.Body}))
			switch txt {
			case norm(`{ if ops[0].Op.Lazy() && obj.IsTruthy() != (ops[0].Op == And) { return obj } }`):
				guards = append(guards, "GShortCircuit")
			case norm(`{ if ops[0].Expr == nil { return s.interpretOp(s.interpretOps(obj, ops[1:]), ops[0]) } }`):
				guards = append(guards, "GUnary")
			default:
				failShape("scope.interpretOps: unrecognised guard %s", txt)
			}
			switch e := is.Else.(type) {
			case nil:
			case *ast.IfStmt:
				guard(e)
			default:
				failShape("scope.interpretOps: a guard chain ends in a plain else")
			}
		}
		for _, st := range ib[2 : len(ib)-2] {
			is, ok := st.(*ast.IfStmt)
			if !ok {
				failShape("scope.interpretOps: unrecognised statement %s", stmtText(fsI, st))
			}
			guard(is)
		}

		// ---------------------------------------------------------------- the scope a comprehension's variables are bound in
		// interpretJoin (the optimised 'lit'.join([... for ...])) and interpretList: `cs := s.NewScope(s.filename, s.mode)` is a
		// child scope (JChild), `cs := s` the enclosing scope itself (JSame); the iterable is evaluated in s, the loop variables are
		// bound and the element expression evaluated in cs
		compScope := func(fn string, uses ...string) string {
			fd := findFunc(fi, "scope", fn)
			if fd == nil || fd.Body == nil {
				failShape("scope.%s not found", fn)
			}
			res := ""
			for _, st := range fd.Body.List {
				as, ok := st.(*ast.AssignStmt)
				if !ok || len(as.Lhs) != 1 || len(as.Rhs) != 1 || types.ExprString(as.Lhs[0]) != "cs" {
					continue
				}
				if res != "" || as.Tok != token.DEFINE {
					failShape("scope.%s: cs is assigned more than once", fn)
				}
				switch types.ExprString(as.Rhs[0]) {
				case "s.NewScope(s.filename, s.mode)":
					res = "JChild"
				case "s":
					res = "JSame"
				default:
					failShape("scope.%s: cs := %s is neither a child scope nor the enclosing scope", fn, types.ExprString(as.Rhs[0]))
				}
			}
			if res == "" {
				failShape("scope.%s: no `cs := ...` at the top level of the body", fn)
			}
			body := bodyText(fsI, fd)
			for _, u := range uses {
				if !strings.Contains(body, norm(u)) {
					failShape("scope.%s: `%s` not found", fn, u)
				}
			}
			if strings.Contains(body, "s.evaluateComprehension(") && !strings.Contains(body, "cs.evaluateComprehension(") {
				failShape("scope.%s: the comprehension is evaluated in s", fn)
			}
			return res
		}
		joinScope := compScope("interpretJoin", "it := s.iterable(list.Comprehension.Expr)", "cs.evaluateComprehension(it, list.Comprehension, func(li pyObject) {",
			"x := cs.interpretExpression(list.Values[0])")
		listScope := compScope("interpretList", "it, l := s.iterableLen(expr.Comprehension.Expr)", "cs.evaluateComprehension(it, expr.Comprehension, func(li pyObject) {",
			"ret = append(ret, cs.interpretExpression(expr.Values[0]))")

		return "From Coq Require Import List String ZArith. Import ListNotations.\n" +
			"(* pyRange.Len (objects.go): Go int arithmetic over Z; wrap = reduction to a signed 64-bit int *)\n" +
			"Definition pyrange_len (wrap : Z -> Z) (start stop step : Z) : Z := " + rangeLen + ".\n" +
			"(* pyDict.Operator, case Union (objects.go), statement by statement *)\n" +
			"Inductive uside := ULeft | URight.\n" +
			"Inductive ustep :=\n" +
			"| UCheckDict                          (* d2, ok := operand.(pyDict); if !ok { panic } *)\n" +
			"| UReturnIfEmpty (test ret : uside)   (* if len(test) == 0 { return ret } *)\n" +
			"| UMake                               (* ret := make(pyDict, len(d)+len(d2)) *)\n" +
			"| UCopy (src : uside)                 (* for k, v := range src { ret[k] = v } *)\n" +
			"| UReturnRet.                         (* return ret *)\n" +
			"Definition dict_union_steps : list ustep := [" + strings.Join(steps, "; ") + "].\n" +
			"(* sorted() (builtins.go): the operator each comparison closure passes to s.operator, as a function of `reverse` *)\n" +
			"Definition sorted_op_nokey : bool -> string := " + opFun(opNoKey) + ".\n" +
			"Definition sorted_op_key : bool -> string := " + opFun(opKey) + ".\n" +
			"(* the sort function each branch calls *)\n" +
			"Definition sorted_fn_nokey : string := " + coqString(sortFns[0]) + "%string.\n" +
			"Definition sorted_fn_key : string := " + coqString(sortFns[1]) + "%string.\n" +
			"(* `if reverse { slices.Reverse(l) }` between the sort and the return *)\n" +
			"Definition sorted_post_reverse : bool := " + postReverse + ".\n" +
			"(* l = slices.Clone(l) before the sort: the caller's list is not written *)\n" +
			"Definition sorted_clones : bool := true.\n" +
			"(* scope.interpretOps (interpreter.go), the branch taken when the NEXT operator binds tighter: the guards tested, in source\n" +
			"   order, before the right operand and the rest of the chain are evaluated *)\n" +
			"Inductive opsguard :=\n" +
			"| GShortCircuit   (* if ops[0].Op.Lazy() && obj.IsTruthy() != (ops[0].Op == And) { return obj } *)\n" +
			"| GUnary.         (* if ops[0].Expr == nil { return s.interpretOp(s.interpretOps(obj, ops[1:]), ops[0]) } *)\n" +
			"Definition interpret_ops_guards : list opsguard := [" + strings.Join(guards, "; ") + "].\n" +
			"(* the scope the loop variables of a comprehension are bound in: cs := s.NewScope(..) (JChild) or cs := s (JSame) *)\n" +
			"Inductive compscope := JChild | JSame.\n" +
			"Definition join_comp_scope : compscope := " + joinScope + ".   (* scope.interpretJoin: 'lit'.join([e for x in l]) *)\n" +
			"Definition list_comp_scope : compscope := " + listScope + ".   (* scope.interpretList: [e for x in l] *)\n"
	}
}
