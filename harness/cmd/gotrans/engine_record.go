package main

import (
	"bytes"
	"go/ast"
	"go/printer"
	"go/token"
	"strings"
)

// EngineRecord (properties C01, C03, C02): the layout of the record that writeRuleHash attaches to outputs,
// the slots readRuleHashFromXattrs reads each field from, the order of the comparisons in needsBuilding and
// the parts CollapseHash folds into the cache key - read off src/build/incrementality.go and src/core/utils.go.
// Every recognised expression is compared literally; any other shape fails closed.
func nodeText(fset *token.FileSet, n ast.Node) string {
	var buf bytes.Buffer
	printer.Fprint(&buf, fset, n)
	return buf.String()
}

func init() {
	targets["EngineRecord"] = func() string {
		var b strings.Builder
		b.WriteString("From Coq Require Import List.\nImport ListNotations.\n")
		b.WriteString("Inductive part := PRulePre | PRulePost | PConfig | PSource | PSecret.\n")
		b.WriteString("Inductive field := FRule | FConfig | FSource | FSecret.\n")
		b.WriteString("Inductive check := CMetadata | CConfig | CRule | CSource | CSecret | COutputsExist | CForced.\n")

		fset, f := parseFile("src/build/incrementality.go")
		show := func(n ast.Node) string {
			var buf bytes.Buffer
			printer.Fprint(&buf, fset, n)
			return strings.Join(strings.Fields(buf.String()), " ")
		}

		// ---- targetHash: the parts in the order they are appended
		th := findFunc(f, "", "targetHash")
		var parts []string
		for _, s := range th.Body.List {
			switch show(s) {
			case `hash := append(RuleHash(state, target, false, false), RuleHash(state, target, false, true)...)`:
				parts = append(parts, "PRulePre", "PRulePost")
			case `hash = append(hash, state.Hashes.Config...)`:
				parts = append(parts, "PConfig")
			case `hash2, err := sourceHash(state, target)`, `if err != nil { return nil, err }`:
			case `return append(hash, hash2...), nil`:
				parts = append(parts, "PSource")
			default:
				failShape("targetHash: unrecognised statement {%s}", show(s))
			}
		}
		// ---- writeRuleHash: targetHash ++ secretHash, written to every output
		wr := findFunc(f, "", "writeRuleHash")
		ws := []string{}
		for _, s := range wr.Body.List {
			ws = append(ws, show(s))
		}
		wtext := strings.Join(ws, " ; ")
		if !strings.HasPrefix(wtext, `hash, err := targetHash(state, target) ; if err != nil { return err } ; secretHash, err := secretHash(state, target) ; if err != nil { return err } ; hash = append(hash, secretHash...) ; outputs := target.FullOutputs()`) {
			failShape("writeRuleHash: unrecognised prefix {%s}", wtext)
		}
		if !strings.Contains(wtext, `for _, output := range outputs { if err := fs.RecordAttr(output, hash, xattrName, state.XattrsSupported); err != nil { return err } }`) {
			failShape("writeRuleHash: the record is not written to every output {%s}", wtext)
		}
		parts = append(parts, "PSecret")
		b.WriteString("Definition written_parts : list part := [" + strings.Join(parts, "; ") + "].\n")

		// ---- readRuleHashFromXattrs: the two composite literals at the end
		rd := findFunc(f, "", "readRuleHashFromXattrs")
		slot := func(e ast.Expr) string {
			switch show(e) {
			case `h[0:hashLength]`:
				return "0"
			case `h[hashLength : 2*hashLength]`:
				return "1"
			case `h[2*hashLength : 3*hashLength]`:
				return "2"
			case `h[3*hashLength : 4*hashLength]`:
				return "3"
			case `h[4*hashLength : fullHashLength]`:
				return "4"
			}
			failShape("readRuleHashFromXattrs: unrecognised slice {%s}", show(e))
			return ""
		}
		fieldName := map[string]string{"rule": "FRule", "config": "FConfig", "source": "FSource", "secret": "FSecret"}
		readLit := func(cl *ast.CompositeLit) string {
			var out []string
			for _, el := range cl.Elts {
				kv, ok := el.(*ast.KeyValueExpr)
				if !ok {
					failShape("readRuleHashFromXattrs: positional composite literal")
				}
				k := show(kv.Key)
				if k == "postBuildHash" {
					continue
				}
				fn, ok := fieldName[k]
				if !ok {
					failShape("readRuleHashFromXattrs: unknown field %s", k)
				}
				out = append(out, "("+fn+", "+slot(kv.Value)+")")
			}
			return "[" + strings.Join(out, "; ") + "]"
		}
		n := len(rd.Body.List)
		if n < 2 {
			failShape("readRuleHashFromXattrs: too short")
		}
		ifPost, ok := rd.Body.List[n-2].(*ast.IfStmt)
		if !ok || show(ifPost.Cond) != "postBuild" || len(ifPost.Body.List) != 1 {
			failShape("readRuleHashFromXattrs: no `if postBuild { return ... }` before the final return")
		}
		retPost, ok1 := ifPost.Body.List[0].(*ast.ReturnStmt)
		retPre, ok2 := rd.Body.List[n-1].(*ast.ReturnStmt)
		if !ok1 || !ok2 || len(retPost.Results) != 1 || len(retPre.Results) != 1 {
			failShape("readRuleHashFromXattrs: unrecognised returns")
		}
		clPost, ok1 := retPost.Results[0].(*ast.CompositeLit)
		clPre, ok2 := retPre.Results[0].(*ast.CompositeLit)
		if !ok1 || !ok2 {
			failShape("readRuleHashFromXattrs: returns are not composite literals")
		}
		b.WriteString("Definition read_pre : list (field * nat) := " + readLit(clPre) + ".\n")
		b.WriteString("Definition read_post : list (field * nat) := " + readLit(clPost) + ".\n")

		// ---- needsBuilding: the comparisons, in order
		nb := findFunc(f, "", "needsBuilding")
		var checks []string
		for _, s := range nb.Body.List {
			switch st := s.(type) {
			case *ast.IfStmt:
				switch show(st.Cond) {
				case `!fs.FileExists(targetBuildMetadataFileName(target))`:
					checks = append(checks, "CMetadata")
				case `!bytes.Equal(oldHashes.config, state.Hashes.Config)`:
					checks = append(checks, "CConfig")
				case `!bytes.Equal(oldHashes.rule, newRuleHash)`:
					checks = append(checks, "CRule")
				case `err != nil || !bytes.Equal(oldHashes.source, newSourceHash)`:
					checks = append(checks, "CSource")
				case `err != nil || !bytes.Equal(oldHashes.secret, newSecretHash)`:
					checks = append(checks, "CSecret")
				default:
					failShape("needsBuilding: unrecognised condition {%s}", show(st.Cond))
				}
				last := st.Body.List[len(st.Body.List)-1]
				if show(last) != "return true" {
					failShape("needsBuilding: the branch of {%s} does not end in `return true`", show(st.Cond))
				}
			case *ast.RangeStmt:
				if show(st.X) != "target.Outputs()" || !strings.Contains(show(st.Body), "if !core.PathExists(realOutput)") || !strings.Contains(show(st.Body), "return true") {
					failShape("needsBuilding: unrecognised loop {%s}", show(st))
				}
				checks = append(checks, "COutputsExist")
			case *ast.AssignStmt:
				switch show(st) {
				case `oldHashes := readRuleHashFromXattrs(state, target, postBuild)`, `newRuleHash := RuleHash(state, target, false, postBuild)`,
					`newSourceHash, err := sourceHash(state, target)`, `newSecretHash, err := secretHash(state, target)`:
				default:
					failShape("needsBuilding: unrecognised assignment {%s}", show(st))
				}
			case *ast.ReturnStmt:
				if show(st) != "return state.ShouldRebuild(target)" {
					failShape("needsBuilding: unrecognised final return {%s}", show(st))
				}
				checks = append(checks, "CForced")
			default:
				failShape("needsBuilding: unrecognised statement {%s}", show(s))
			}
		}
		b.WriteString("Definition needs_building_checks : list check := [" + strings.Join(checks, "; ") + "].\n")

		// ---- CollapseHash: which 20-byte parts are folded into the key
		uset, uf := parseFile("src/core/utils.go")
		ch := findFunc(uf, "", "CollapseHash")
		ushow := func(n ast.Node) string {
			var buf bytes.Buffer
			printer.Fprint(&buf, uset, n)
			return strings.Join(strings.Fields(buf.String()), " ")
		}
		var ifs *ast.IfStmt
		for _, s := range ch.Body.List {
			if i, ok := s.(*ast.IfStmt); ok {
				ifs = i
			}
		}
		if ifs == nil || ushow(ifs.Cond) != `bytes.Equal(key[0:sha1.Size], key[sha1.Size:2*sha1.Size])` || ifs.Else == nil {
			failShape("CollapseHash: no if/else on the equality of the two rule hashes")
		}
		xorParts := func(blk *ast.BlockStmt) string {
			if len(blk.List) != 1 {
				failShape("CollapseHash: branch is not a single loop")
			}
			loop, ok := blk.List[0].(*ast.ForStmt)
			if !ok || len(loop.Body.List) != 1 {
				failShape("CollapseHash: branch is not a single loop with one statement")
			}
			as, ok := loop.Body.List[0].(*ast.AssignStmt)
			if !ok || as.Tok != token.ASSIGN || ushow(as.Lhs[0]) != "short[i]" {
				failShape("CollapseHash: unrecognised loop body {%s}", ushow(loop.Body))
			}
			var out []string
			for _, term := range strings.Split(ushow(as.Rhs[0]), " ^ ") {
				switch term {
				case "key[i]":
					out = append(out, "0")
				case "key[i+sha1.Size]":
					out = append(out, "1")
				case "key[i+2*sha1.Size]":
					out = append(out, "2")
				case "key[i+3*sha1.Size]":
					out = append(out, "3")
				default:
					failShape("CollapseHash: unrecognised term {%s}", term)
				}
			}
			return "[" + strings.Join(out, "; ") + "]"
		}
		elseBlk, ok := ifs.Else.(*ast.BlockStmt)
		if !ok {
			failShape("CollapseHash: else is not a block")
		}
		b.WriteString("Definition collapse_rules_equal : list nat := " + xorParts(ifs.Body) + ".\n")
		b.WriteString("Definition collapse_rules_differ : list nat := " + xorParts(elseBlk) + ".\n")

		// ---- buildTarget: the two-phase check of targets the build can modify, and the order in which a finished
		// build records its results (the model's build_rule_od / run_od follow exactly this order)
		bset, bf := parseFile("src/build/build_step.go")
		bt := findFunc(bf, "", "buildTarget")
		var bbuf bytes.Buffer
		printer.Fprint(&bbuf, bset, bt.Body)
		body := strings.Join(strings.Fields(bbuf.String()), " ")
		steps := []struct{ name, text string }{
			{"SPreCheck", "if !target.IsFilegroup && !needsBuilding(state, target, false) {"},
			{"SCouldModify", "if target.BuildCouldModifyTarget() {"},
			{"SLoadMetadata", "metadata, err = loadTargetMetadata(target)"},
			{"SAddMetadataOuts", "addOutDirOutsFromMetadata(target, metadata)"},
			{"SPostCheck", "if !target.BuildCouldModifyTarget() || !needsBuilding(state, target, true) {"},
			{"SUnchanged", "return nil // Nothing needs to be done."},
			{"SRunCommand", "metadata, err = build(state, target, cacheKey)"},
			{"SAddFoundOuts", "metadata.OutputDirOuts, err = addOutputDirectoriesToBuildOutput(target)"},
			{"SStoreMetadata", "} else if err := StoreTargetMetadata(target, metadata); err != nil {"},
			{"SMoveOutputs", "outs, outputsChanged, err := moveOutputs(state, target)"},
			{"SWriteRecord", "if _, err = calculateAndCheckRuleHash(state, target); err != nil {"},
		}
		// comments are not printed by go/printer for a bare node: drop the comment of SUnchanged when it is absent
		pos := -1
		var names []string
		for _, st := range steps {
			text := st.text
			// the first occurrence after the previous step (some statements recur in the cache branch further down)
			i := strings.Index(body[pos+1:], text)
			if i >= 0 {
				i += pos + 1
			}
			if i < 0 && st.name == "SUnchanged" {
				text = "return nil"
				i = strings.Index(body[pos+1:], text)
				if i >= 0 {
					i += pos + 1
				}
			}
			if i < 0 {
				failShape("buildTarget: statement {%s} not found", st.text)
			}
			if i <= pos {
				failShape("buildTarget: statement {%s} is not after the previous step", st.text)
			}
			pos = i
			names = append(names, st.name)
		}
		b.WriteString("Inductive bstep := " + strings.Join(names, " | ") + ".\n")
		b.WriteString("Definition build_target_order : list bstep := [" + strings.Join(names, "; ") + "].\n")

		// ---- sourceHash: what is written into the hash per source and per output of a tool (the model's source key:
		// (path, stream) for a source, the stream alone for a tool)
		bshow := func(n ast.Node) string {
			var buf bytes.Buffer
			printer.Fprint(&buf, bset, n)
			return strings.Join(strings.Fields(buf.String()), " ")
		}
		sh := findFunc(f, "", "sourceHash")
		var srcW, toolW []string
		toolAcc := ""
		writes := func(body *ast.BlockStmt, hashed string, into *[]string) {
			for _, st := range body.List {
				switch t := show(st); t {
				case `result, err := state.PathHasher.Hash(` + hashed + `, false, true, false)`, `if err != nil { return nil, err }`:
				case `h.Write(result)`:
					*into = append(*into, "WHash")
				case `h.Write([]byte(` + hashed + `))`:
					*into = append(*into, "WPath")
				default:
					failShape("sourceHash: unrecognised statement {%s}", t)
				}
			}
		}
		for _, st := range sh.Body.List {
			switch x := st.(type) {
			case *ast.RangeStmt:
				switch show(x.X) {
				case `core.IterSources(state, state.Graph, target, false)`:
					if show(x.Key) != "src" || x.Value != nil {
						failShape("sourceHash: unrecognised loop over the sources {%s}", show(x))
					}
					writes(x.Body, "src", &srcW)
				case `target.AllTools()`, `target.Tools`:
					// which tools enter the source hash: AllTools() = the list-form tools followed by the dict-form (named)
					// ones; the field Tools = the list-form ones only. The model follows whichever the source has
					// (Engine.hashed_tool_paths); the theorems need TAllTools.
					if toolAcc != "" {
						failShape("sourceHash: more than one loop over the tools")
					}
					toolAcc = map[string]string{`target.AllTools()`: "TAllTools", `target.Tools`: "TUnnamedTools"}[show(x.X)]
					if show(x.Value) != "tool" {
						failShape("sourceHash: unrecognised loop over the tools {%s}", show(x))
					}
					if len(x.Body.List) != 1 {
						failShape("sourceHash: unrecognised loop over the tools {%s}", show(x))
					}
					in, ok := x.Body.List[0].(*ast.RangeStmt)
					if !ok || show(in.X) != `tool.FullPaths(state.Graph)` || show(in.Value) != "path" {
						failShape("sourceHash: unrecognised loop over the tools {%s}", show(x))
					}
					writes(in.Body, "path", &toolW)
				default:
					failShape("sourceHash: unrecognised loop {%s}", show(x))
				}
			default:
				switch show(st) {
				case `h := sha1.New()`, `return h.Sum(nil), nil`:
				default:
					failShape("sourceHash: unrecognised statement {%s}", show(st))
				}
			}
		}
		b.WriteString("Inductive hwrite := WHash | WPath.\n")
		b.WriteString("Definition source_hash_per_source : list hwrite := [" + strings.Join(srcW, "; ") + "].\n")
		b.WriteString("Definition source_hash_per_tool_output : list hwrite := [" + strings.Join(toolW, "; ") + "].\n")
		if toolAcc == "" {
			failShape("sourceHash: no loop over the tools")
		}
		b.WriteString("Inductive tools_accessor := TAllTools | TUnnamedTools.\n")
		b.WriteString("Definition source_hash_tools : tools_accessor := " + toolAcc + ".\n")

		// ---- outputHash (build_step.go): is every output re-hashed (recalc = true) - on the single-output fast path and in
		// the loop over several outputs? After a cache restore the memo of the path hasher still holds the hashes of the
		// files that were there before (buildTarget hashed them for oldOutputHash): Model/C02.v, restore_trace.
		oh := findFunc(bf, "", "outputHash")
		recalcArg := func(e ast.Expr, first string) string {
			call, ok := e.(*ast.CallExpr)
			if !ok || bshow(call.Fun) != "hasher.Hash" || len(call.Args) != 4 || bshow(call.Args[0]) != first ||
				bshow(call.Args[2]) != "!target.IsFilegroup" || bshow(call.Args[3]) != "target.HashLastModified()" {
				failShape("outputHash: unrecognised hash call {%s}", bshow(e))
			}
			switch v := bshow(call.Args[1]); v {
			case "true", "false":
				return v
			default:
				failShape("outputHash: the recalc argument {%s} is not a literal", v)
			}
			return ""
		}
		var recalcSingle, recalcEach string
		for _, st := range oh.Body.List {
			switch x := st.(type) {
			case *ast.IfStmt:
				if bshow(x.Cond) != "combine == nil" || len(x.Body.List) != 1 {
					failShape("outputHash: unrecognised branch {%s}", bshow(x.Cond))
				}
				ret, ok := x.Body.List[0].(*ast.ReturnStmt)
				if !ok || len(ret.Results) != 1 {
					failShape("outputHash: the single-output branch is not one return")
				}
				recalcSingle = recalcArg(ret.Results[0], "outputs[0]")
			case *ast.RangeStmt:
				if bshow(x.X) != "outputs" || bshow(x.Value) != "filename" || len(x.Body.List) == 0 {
					failShape("outputHash: unrecognised loop {%s}", bshow(x.X))
				}
				as, ok := x.Body.List[0].(*ast.AssignStmt)
				if !ok || len(as.Rhs) != 1 || bshow(as.Lhs[0]) != "h2" {
					failShape("outputHash: the loop does not start with the hash of the output")
				}
				recalcEach = recalcArg(as.Rhs[0], "filename")
			default:
				switch bshow(st) {
				case `h := combine()`, `return h.Sum(nil), nil`:
				default:
					failShape("outputHash: unrecognised statement {%s}", bshow(st))
				}
			}
		}
		if recalcSingle == "" || recalcEach == "" {
			failShape("outputHash: single-output branch or loop missing")
		}
		b.WriteString("Definition output_hash_recalc_single : bool := " + recalcSingle + ".\n")
		b.WriteString("Definition output_hash_recalc_each : bool := " + recalcEach + ".\n")
		// the order on the restore path: buildTarget hashes the outputs that are there (oldOutputHash) BEFORE the cache is asked,
		// retrieveArtifacts hashes them again (calculateAndCheckRuleHash -> OutputHash -> outputHash) AFTER the retrieve
		if i, j := strings.Index(body, "oldOutputHash := outputHashOrNil(target, target.FullOutputs(), state.PathHasher, state.PathHasher.NewHash)"), strings.Index(body, "retrieveArtifacts(state, target, oldOutputHash)"); i < 0 || j < 0 || i > j {
			failShape("buildTarget: oldOutputHash is not computed before retrieveArtifacts")
		}
		ra := bshow(findFunc(bf, "", "retrieveArtifacts").Body)
		if i, j := strings.Index(ra, "retrieveFromCache(state.Cache, target, cacheKey, target.Outputs())"), strings.Index(ra, "newOutputHash, err := calculateAndCheckRuleHash(state, target)"); i < 0 || j < 0 || i > j {
			failShape("retrieveArtifacts: the outputs are not hashed after the retrieve")
		}
		b.WriteString("Definition restore_hashes_before_and_after : bool := true.\n")

		// ---- prepareDirectories / prepareDirectory: the temporary directory is removed and recreated before every build
		// (the model treats it as a function of the sources: Engine.run_action, command CatAll)
		pds := findFunc(bf, "", "prepareDirectories")
		if len(pds.Body.List) == 0 || bshow(pds.Body.List[0]) != `if err := prepareDirectory(target.TmpDir(), true); err != nil { return err }` {
			failShape("prepareDirectories: the temporary directory is not prepared first with remove = true")
		}
		pd := findFunc(bf, "", "prepareDirectory")
		if len(pd.Body.List) == 0 || bshow(pd.Body.List[0]) != `if remove { if err := fs.RemoveAll(directory); err != nil { return err } }` {
			failShape("prepareDirectory: does not start with `if remove { RemoveAll(directory) }` {%s}", bshow(pd.Body.List[0]))
		}
		// buildTarget calls prepareDirectories before build(); checked by text order
		if i, j := strings.Index(body, "if err := prepareDirectories(target); err != nil {"), strings.Index(body, "metadata, err = build(state, target, cacheKey)"); i < 0 || j < 0 || i > j {
			failShape("buildTarget: prepareDirectories is not called before build")
		}
		b.WriteString("Definition tmp_dir_removed_before_build : bool := true.\n")

		// ---- filegroupBuilder.Build: keep when the hashes are equal, else RemoveAll, EnsureDir, recursive link
		fgset, fgf := parseFile("src/build/filegroup.go")
		fb := findFunc(fgf, "filegroupBuilder", "Build")
		var fgbuf bytes.Buffer
		printer.Fprint(&fgbuf, fgset, fb.Body)
		fgbody := strings.Join(strings.Fields(fgbuf.String()), " ")
		fgsteps := []struct{ name, text string }{
			{"FgSourceExists", "if !fs.PathExists(from) {"},
			{"FgSameHashKeep", "if same, err := isSameFileContent(state, target.HashLastModified(), from, to); err != nil {"},
			{"FgRemoveAll", "if err := fs.RemoveAll(to); err != nil {"},
			{"FgEnsureDir", "} else if err := fs.EnsureDir(to); err != nil {"},
			{"FgLinkRecursively", "if err := fs.RecursiveCopyOrLinkFile(from, to, target.OutMode(), !target.IsBinary || !isSourceFile, true); err != nil {"},
		}
		var fgnames []string
		fpos := -1
		for _, st := range fgsteps {
			i := strings.Index(fgbody, st.text)
			if i < 0 {
				continue // a missing step disappears from the list: the proof about the list breaks
			}
			if i <= fpos {
				failShape("filegroupBuilder.Build: statement {%s} out of order", st.text)
			}
			fpos = i
			fgnames = append(fgnames, st.name)
		}
		b.WriteString("Inductive fgstep := FgSourceExists | FgSameHashKeep | FgRemoveAll | FgEnsureDir | FgLinkRecursively.\n")
		b.WriteString("Definition filegroup_build_steps : list fgstep := [" + strings.Join(fgnames, "; ") + "].\n")

		// ---- follow-up of the seeded changes C01/r2-m1..m3, C02/r2-m1: TRANSLATED statements (the model follows them)
		// readRuleHashFromXattrs: the loop over the outputs as a little program over the accumulator h
		//   RMissingFails     `if b == nil { return ruleHashes{} }`
		//   RDifferentFails   `else if h != nil && !bytes.Equal(h, b) { return ruleHashes{} }`
		//   RKeepFirst        `else if h == nil { h = b }`
		//   RTakeLast         `h = b` at the end of the body
		var rloop []string
		var loop *ast.RangeStmt
		for _, s := range rd.Body.List {
			if rs, ok := s.(*ast.RangeStmt); ok {
				if loop != nil {
					failShape("readRuleHashFromXattrs: more than one loop")
				}
				loop = rs
			}
		}
		if loop == nil || show(loop.X) != "target.FullOutputs()" || show(loop.Value) != "output" {
			failShape("readRuleHashFromXattrs: no loop over target.FullOutputs()")
		}
		for i, s := range loop.Body.List {
			switch x := s.(type) {
			case *ast.AssignStmt:
				switch t := show(x); {
				case i == 0 && t == `b := fs.ReadAttr(output, xattrName, state.XattrsSupported)`:
				case i > 0 && i == len(loop.Body.List)-1 && t == `h = b`:
					rloop = append(rloop, "RTakeLast")
				default:
					failShape("readRuleHashFromXattrs: unrecognised statement in the loop {%s}", t)
				}
			case *ast.IfStmt:
				for cur := x; cur != nil; {
					body := show(cur.Body)
					switch cond := show(cur.Cond); {
					case cond == `b == nil` && body == `{ return ruleHashes{} }`:
						rloop = append(rloop, "RMissingFails")
					case cond == `h != nil && !bytes.Equal(h, b)` && body == `{ return ruleHashes{} }`:
						rloop = append(rloop, "RDifferentFails")
					case cond == `h == nil` && body == `{ h = b }`:
						rloop = append(rloop, "RKeepFirst")
					default:
						failShape("readRuleHashFromXattrs: unrecognised branch in the loop {if %s %s}", cond, body)
					}
					switch e := cur.Else.(type) {
					case nil:
						cur = nil
					case *ast.IfStmt:
						cur = e
					default:
						failShape("readRuleHashFromXattrs: unrecognised else in the loop {%s}", show(cur.Else))
					}
				}
			default:
				failShape("readRuleHashFromXattrs: unrecognised statement in the loop {%s}", show(s))
			}
		}
		b.WriteString("Inductive rstep := RMissingFails | RDifferentFails | RKeepFirst | RTakeLast.\n")
		b.WriteString("Definition read_record_loop : list rstep := [" + strings.Join(rloop, "; ") + "].\n")

		// filegroupBuilder.Build: the statements of the "same file, nothing to do" way out
		var sbacts []string
		foundSame := false
		for _, st := range fb.Body.List {
			ifs, ok := st.(*ast.IfStmt)
			if !ok || ifs.Init == nil || !strings.HasPrefix(strings.Join(strings.Fields(nodeText(fgset, ifs.Init)), " "), `same, err := isSameFileContent(`) {
				continue
			}
			el, ok := ifs.Else.(*ast.IfStmt)
			if !ok || strings.Join(strings.Fields(nodeText(fgset, el.Cond)), " ") != "same" || el.Else != nil {
				failShape("filegroupBuilder.Build: no `else if same { ... }` after isSameFileContent")
			}
			foundSame = true
			for _, s := range el.Body.List {
				switch t := strings.Join(strings.Fields(nodeText(fgset, s)), " "); t {
				case `builder.built[to] = false`:
					sbacts = append(sbacts, "SbMarkBuilt")
				case `state.PathHasher.CopyHash(from, to)`:
					sbacts = append(sbacts, "SbCopyHash")
				case `return false, nil`:
					sbacts = append(sbacts, "SbReturn")
				default:
					failShape("filegroupBuilder.Build: unrecognised statement in the same-file branch {%s}", t)
				}
			}
		}
		if !foundSame {
			failShape("filegroupBuilder.Build: isSameFileContent branch not found")
		}
		b.WriteString("Inductive sbact := SbMarkBuilt | SbCopyHash | SbReturn.\n")
		b.WriteString("Definition fg_same_file_acts : list sbact := [" + strings.Join(sbacts, "; ") + "].\n")

		// fs.PathHasher.hash: the conjuncts of the guard on READING the hash from the xattr; storeHash: the plz-out guard;
		// PathHasher.Hash: what the nil mark left by CopyHash does (the `else if present` branch of the memo prologue)
		hset, hf := parseFile("src/fs/hash.go")
		htext := func(n ast.Node) string { return strings.Join(strings.Fields(nodeText(hset, n)), " ") }
		hfn := findFunc(hf, "PathHasher", "hash")
		var guard []string
		if len(hfn.Body.List) == 0 {
			failShape("PathHasher.hash: empty")
		}
		gif, ok := hfn.Body.List[0].(*ast.IfStmt)
		if !ok || htext(gif.Body) != `{ if b, err := xattr.LGet(path, hasher.xattrName); err == nil { return b, nil } }` || gif.Else != nil {
			failShape("PathHasher.hash: does not start with the xattr read")
		}
		for _, cj := range strings.Split(htext(gif.Cond), " && ") {
			switch cj {
			case `read`:
				guard = append(guard, "GRead")
			case `strings.HasPrefix(path, "plz-out/")`:
				guard = append(guard, "GBelowPlzOut")
			case `hasher.useXattrs`:
				guard = append(guard, "GUseXattrs")
			default:
				failShape("PathHasher.hash: unrecognised conjunct of the xattr read guard {%s}", cj)
			}
		}
		if !strings.Contains(htext(hfn.Body), `} else if store && hasher.useXattrs { hasher.storeHash(path, hash) }`) {
			failShape("PathHasher.hash: unrecognised store")
		}
		b.WriteString("Inductive hguard := GRead | GBelowPlzOut | GUseXattrs.\n")
		b.WriteString("Definition hasher_read_guard : list hguard := [" + strings.Join(guard, "; ") + "].\n")
		sfn := findFunc(hf, "PathHasher", "storeHash")
		storeGuard := "false"
		if len(sfn.Body.List) > 0 && htext(sfn.Body.List[0]) == `if !strings.HasPrefix(path, "plz-out/") { return }` {
			storeGuard = "true"
		}
		b.WriteString("Definition hasher_store_below_plz_out_only : bool := " + storeGuard + ".\n")
		Hfn := findFunc(hf, "PathHasher", "Hash")
		var nilacts []string
		foundPro := false
		for _, st := range Hfn.Body.List {
			ifs, ok := st.(*ast.IfStmt)
			if !ok || htext(ifs.Cond) != "!recalc" {
				continue
			}
			foundPro = true
			var inner *ast.IfStmt
			for _, s := range ifs.Body.List {
				if x, ok := s.(*ast.IfStmt); ok {
					inner = x
				}
			}
			if inner == nil || htext(inner.Cond) != `present && cached != nil` || htext(inner.Body) != `{ return cached, nil }` {
				failShape("PathHasher.Hash: unrecognised memo prologue")
			}
			switch e := inner.Else.(type) {
			case nil:
			case *ast.IfStmt:
				if htext(e.Cond) != "present" || e.Else != nil {
					failShape("PathHasher.Hash: unrecognised branch for the nil mark {%s}", htext(e.Cond))
				}
				for _, s := range e.Body.List {
					switch t := htext(s); t {
					case `store = false`:
						nilacts = append(nilacts, "NStoreFalse")
					case `recalc = true`:
						nilacts = append(nilacts, "NRecalcTrue")
					default:
						failShape("PathHasher.Hash: unrecognised statement for the nil mark {%s}", t)
					}
				}
			default:
				failShape("PathHasher.Hash: unrecognised else in the memo prologue")
			}
		}
		if !foundPro || !strings.Contains(htext(Hfn.Body), `result, err := hasher.hash(path, store, !recalc, timestamp)`) {
			failShape("PathHasher.Hash: memo prologue or the call of hash(path, store, !recalc, ...) not found")
		}
		b.WriteString("Inductive nilact := NStoreFalse | NRecalcTrue.\n")
		b.WriteString("Definition hasher_nil_mark : list nilact := [" + strings.Join(nilacts, "; ") + "].\n")
		return b.String()
	}
}
