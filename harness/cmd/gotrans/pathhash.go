package main

import (
	"bytes"
	"go/ast"
	"go/printer"
	"go/token"
	"regexp"
	"strconv"
	"strings"
)

// PathHashProg (property C09): what PathHasher.hash (src/fs/hash.go) feeds to the hash for each kind
// of entry, as small "emit programs", plus the marker constant and the walk options of
// fs.WalkMode (src/fs/walk.go).
//
// Recognised shape of PathHasher.hash (everything else fails closed):
//
//	h := hasher.new(); info, err := os.Lstat(path)
//	if err == nil && info.Mode()&os.ModeSymlink != 0 {        top-level symlink
//	    ... h.Write(boolTrueHashValue)
//	    if rel := hasher.ensureRelative(dest); <in-repo cond> { h.Write([]byte(rel)) } else { hasher.fileHash(h, path) ... }
//	} else if err == nil && info.IsDir() {                    directory
//	    err = WalkMode(path, func(p string, mode Mode) error {
//	        if mode.IsSymlink() { ... h.Write(boolTrueHashValue) } else if !mode.IsDir() { return hasher.fileHash(h, p) }
//	        return nil })
//	} else { if timestamp { timestampHash } else { fileHash(h, path) } }   anything else
//
// Every use of `h` inside the function must be one of the recognised ones (so an added
// h.Write(name) is a shape failure, not a silent omission).
func init() {
	targets["PathHashProg"] = func() string {
		fset, f := parseFile("src/fs/hash.go")
		curFset := fset // the file set of the file the node being printed belongs to
		show := func(n ast.Node) string {
			var b bytes.Buffer
			if err := printer.Fprint(&b, curFset, n); err != nil {
				failShape("cannot print node: %v", err)
			}
			// one line, single spaces; line breaks inside an argument list leave "( x" / "x )" behind
			out := strings.Join(strings.Fields(b.String()), " ")
			out = strings.ReplaceAll(strings.ReplaceAll(out, "( ", "("), " )", ")")
			return strings.ReplaceAll(out, ",)", ")")
		}

		// --- the marker constant
		var marker []string
		for _, d := range f.Decls {
			gd, ok := d.(*ast.GenDecl)
			if !ok || gd.Tok != token.VAR {
				continue
			}
			for _, sp := range gd.Specs {
				vs := sp.(*ast.ValueSpec)
				if len(vs.Names) != 1 || vs.Names[0].Name != "boolTrueHashValue" {
					continue
				}
				if len(vs.Values) != 1 {
					failShape("boolTrueHashValue: not a single initialiser")
				}
				cl, ok := vs.Values[0].(*ast.CompositeLit)
				if !ok || show(cl.Type) != "[]byte" {
					failShape("boolTrueHashValue is not a []byte literal")
				}
				marker = []string{}
				for _, e := range cl.Elts {
					bl, ok := e.(*ast.BasicLit)
					if !ok || bl.Kind != token.INT {
						failShape("boolTrueHashValue element is not an integer literal")
					}
					v, err := strconv.ParseUint(bl.Value, 0, 8)
					if err != nil {
						failShape("boolTrueHashValue element %s is not a byte", bl.Value)
					}
					marker = append(marker, strconv.FormatUint(v, 10))
				}
			}
		}
		if marker == nil {
			failShape("var boolTrueHashValue not found")
		}

		fd := findFunc(f, "PathHasher", "hash")

		// emits lists, in source order, what the statements of a block write to h.
		// It does not descend into nested if statements or function literals: the caller handles those.
		var usesH func(n ast.Node) bool
		usesH = func(n ast.Node) bool {
			found := false
			ast.Inspect(n, func(x ast.Node) bool {
				if id, ok := x.(*ast.Ident); ok && id.Name == "h" {
					found = true
				}
				return !found
			})
			return found
		}
		classifyCall := func(c *ast.CallExpr) string {
			switch s := show(c); s {
			case "h.Write(boolTrueHashValue)":
				return "EMarker"
			case "h.Write([]byte(rel))":
				return "ETarget"
			case "hasher.fileHash(h, path)", "hasher.fileHash(h, p)":
				return "EContent"
			case "hasher.timestampHash(h, path)":
				return "ETimestamp"
			case "h.Sum(nil)":
				return ""
			default:
				failShape("unrecognised use of the hash in PathHasher.hash: %s", s)
			}
			return ""
		}
		var emitsStmt func(st ast.Stmt) []string
		emitsExpr := func(e ast.Expr) []string {
			out := []string{}
			if !usesH(e) {
				return out
			}
			c, ok := e.(*ast.CallExpr)
			if !ok {
				failShape("unrecognised use of the hash: %s", show(e))
			}
			if k := classifyCall(c); k != "" {
				out = append(out, k)
			}
			return out
		}
		emitsStmt = func(st ast.Stmt) []string {
			if !usesH(st) {
				return nil
			}
			switch x := st.(type) {
			case *ast.ExprStmt:
				return emitsExpr(x.X)
			case *ast.AssignStmt:
				out := []string{}
				for _, r := range x.Rhs {
					out = append(out, emitsExpr(r)...)
				}
				return out
			case *ast.ReturnStmt:
				out := []string{}
				for _, r := range x.Results {
					out = append(out, emitsExpr(r)...)
				}
				return out
			}
			failShape("unrecognised statement using the hash: %s", show(st))
			return nil
		}
		emitsBlock := func(b *ast.BlockStmt, skip func(ast.Stmt) bool) []string {
			out := []string{}
			for _, st := range b.List {
				if skip != nil && skip(st) {
					continue
				}
				out = append(out, emitsStmt(st)...)
			}
			return out
		}

		// --- locate the three-way if
		var top *ast.IfStmt
		sawNew := false
		xattrReadSeen, xattrNeedsRead, xattrNeedsEnabled, xattrReadPrefix := false, "false", "false", ""
		storeSeen := false
		var conjuncts func(e ast.Expr) []ast.Expr
		conjuncts = func(e ast.Expr) []ast.Expr {
			if pe, ok := e.(*ast.ParenExpr); ok {
				return conjuncts(pe.X)
			}
			if be, ok := e.(*ast.BinaryExpr); ok && be.Op == token.LAND {
				return append(conjuncts(be.X), conjuncts(be.Y)...)
			}
			return []ast.Expr{e}
		}
		for _, st := range fd.Body.List {
			if as, ok := st.(*ast.AssignStmt); ok && show(as) == "h := hasher.new()" {
				sawNew = true
				continue
			}
			if is, ok := st.(*ast.IfStmt); ok && strings.Contains(show(is.Cond), "os.ModeSymlink") {
				if top != nil {
					failShape("two symlink tests in PathHasher.hash")
				}
				top = is
				continue
			}
			if is, ok := st.(*ast.IfStmt); ok && strings.Contains(show(is.Cond), "hasher.useXattrs") && !usesH(is.Body) {
				// the xattr short-cut (follow-up 2): not part of the stream, but it decides WHETHER the stream is
				// computed at all.  Its condition is translated conjunct by conjunct, its body is fixed.
				if sawNew || xattrReadSeen {
					failShape("xattr short-cut of PathHasher.hash is not the first statement: %s", show(is))
				}
				xattrReadSeen = true
				if b := show(is.Body); b != "{ if b, err := xattr.LGet(path, hasher.xattrName); err == nil { return b, nil } }" || is.Else != nil || is.Init != nil {
					failShape("xattr short-cut of PathHasher.hash changed shape: %s", show(is))
				}
				for _, cj := range conjuncts(is.Cond) {
					switch cs := show(cj); {
					case cs == "read":
						xattrNeedsRead = "true"
					case cs == "hasher.useXattrs":
						xattrNeedsEnabled = "true"
					default:
						m := regexp.MustCompile(`^strings\.HasPrefix\(path, ("[^"\\]*")\)$`).FindStringSubmatch(cs)
						if m == nil || xattrReadPrefix != "" {
							failShape("xattr short-cut: unrecognised condition %s", cs)
						}
						xattrReadPrefix, _ = strconv.Unquote(m[1])
						if xattrReadPrefix == "" {
							failShape("xattr short-cut: empty prefix literal")
						}
					}
				}
				continue
			}
			if as, ok := st.(*ast.AssignStmt); ok && (show(as) == "info, err := os.Lstat(path)" || show(as) == "hash := h.Sum(nil)") {
				continue
			}
			if is, ok := st.(*ast.IfStmt); ok && strings.Contains(show(is), "hasher.storeHash") {
				// after the stream is complete: an error returns the partial digest, success may store the xattr
				if show(is) != "if err != nil { return hash, err } else if store && hasher.useXattrs { hasher.storeHash(path, hash) }" {
					failShape("tail of PathHasher.hash (error return / xattr store) changed shape: %s", show(is))
				}
				storeSeen = true
				continue
			}
			if usesH(st) {
				if rs, ok := st.(*ast.ReturnStmt); ok && !strings.Contains(show(rs), "h.") {
					continue
				}
				failShape("unrecognised top-level statement using the hash: %s", show(st))
			}
		}
		if !sawNew || top == nil {
			failShape("PathHasher.hash: `h := hasher.new()` or the symlink test not found")
		}
		if !xattrReadSeen || !storeSeen {
			failShape("PathHasher.hash: the xattr short-cut or the xattr store was not found")
		}
		if last := show(fd.Body.List[len(fd.Body.List)-1]); last != "return hash, err" {
			failShape("PathHasher.hash no longer ends with `return hash, err`: %s", last)
		}
		// storeHash: which paths may carry a stored hash
		shm := regexp.MustCompile(`^\{ if !strings\.HasPrefix\(path, ("[^"\\]*")\) \{ return \} if err := xattr\.LSet\(path, hasher\.xattrName, hash\); err != nil && os\.IsPermission\(err\) \{`).FindStringSubmatch(show(findFunc(f, "PathHasher", "storeHash").Body))
		if shm == nil {
			failShape("PathHasher.storeHash changed shape: %s", show(findFunc(f, "PathHasher", "storeHash").Body))
		}
		xattrStorePrefix, _ := strconv.Unquote(shm[1])
		if c := show(top.Cond); c != "err == nil && info.Mode()&os.ModeSymlink != 0" {
			failShape("top-level symlink condition changed: %s", c)
		}

		// --- branch 1: top-level symlink
		var inner *ast.IfStmt
		pre := emitsBlock(top.Body, func(st ast.Stmt) bool {
			if is, ok := st.(*ast.IfStmt); ok && usesH(is) {
				if inner != nil {
					failShape("top-level symlink branch: more than one conditional write")
				}
				inner = is
				return true
			}
			return false
		})
		if inner == nil || inner.Init == nil || show(inner.Init) != "rel := hasher.ensureRelative(dest)" {
			failShape("top-level symlink branch: `if rel := hasher.ensureRelative(dest); ...` not found")
		}
		if c := show(inner.Cond); c != "(rel != dest || !filepath.IsAbs(dest)) && !filepath.IsAbs(path)" {
			failShape("in-repo condition of the symlink branch changed: %s", c)
		}
		inRepo := append(append([]string{}, pre...), emitsBlock(inner.Body, nil)...)
		els, ok := inner.Else.(*ast.BlockStmt)
		if !ok {
			failShape("symlink branch: else block expected")
		}
		outside := append(append([]string{}, pre...), emitsBlock(els, nil)...)
		for i, e := range outside {
			if e == "EContent" {
				outside[i] = "EPointee" // fileHash(h, path) follows the link
			}
		}

		// --- branch 2: directory
		dirIf, ok := top.Else.(*ast.IfStmt)
		if !ok || show(dirIf.Cond) != "err == nil && info.IsDir()" {
			failShape("directory branch `else if err == nil && info.IsDir()` not found")
		}
		if len(dirIf.Body.List) != 1 {
			failShape("directory branch is not a single WalkMode call")
		}
		as, ok := dirIf.Body.List[0].(*ast.AssignStmt)
		if !ok || len(as.Rhs) != 1 {
			failShape("directory branch is not `err = WalkMode(...)`")
		}
		call, ok := as.Rhs[0].(*ast.CallExpr)
		if !ok || show(call.Fun) != "WalkMode" || len(call.Args) != 2 || show(call.Args[0]) != "path" {
			failShape("directory branch is not `err = WalkMode(path, callback)`")
		}
		cb, ok := call.Args[1].(*ast.FuncLit)
		if !ok || show(cb.Type) != "func(p string, mode Mode) error" {
			failShape("WalkMode callback has an unexpected signature")
		}
		if len(cb.Body.List) != 2 || show(cb.Body.List[1]) != "return nil" {
			failShape("WalkMode callback is not `if ... {} else if ... {}; return nil`")
		}
		linkIf, ok := cb.Body.List[0].(*ast.IfStmt)
		if !ok || show(linkIf.Cond) != "mode.IsSymlink()" {
			failShape("WalkMode callback does not start with `if mode.IsSymlink()`")
		}
		walkLink := emitsBlock(linkIf.Body, func(st ast.Stmt) bool {
			if is, ok := st.(*ast.IfStmt); ok {
				if usesH(is) {
					failShape("conditional write in the symlink case of the walk")
				}
				return true
			}
			return false
		})
		fileIf, ok := linkIf.Else.(*ast.IfStmt)
		if !ok || show(fileIf.Cond) != "!mode.IsDir()" || fileIf.Else != nil {
			failShape("WalkMode callback: `else if !mode.IsDir()` without further else expected")
		}
		walkFile := emitsBlock(fileIf.Body, nil)
		walkDir := []string{} // directories fall through to `return nil`

		// --- branch 3: everything else
		fileBlock, ok := dirIf.Else.(*ast.BlockStmt)
		if !ok || len(fileBlock.List) != 1 {
			failShape("plain-file branch is not a single if statement")
		}
		tsIf, ok := fileBlock.List[0].(*ast.IfStmt)
		if !ok || show(tsIf.Cond) != "timestamp" {
			failShape("plain-file branch is not `if timestamp {...} else {...}`")
		}
		if ts := emitsBlock(tsIf.Body, nil); len(ts) != 1 || ts[0] != "ETimestamp" {
			failShape("timestamp branch changed")
		}
		fb, ok := tsIf.Else.(*ast.BlockStmt)
		if !ok {
			failShape("plain-file branch: else block expected")
		}
		topFile := emitsBlock(fb, nil)

		// --- fileHash copies the whole file into h; WHICH buffer the bytes pass through is translated (follow-up 2):
		//   _, err = io.Copy(h, file)                                  a buffer private to the call       -> BufPrivate
		//   for { n, err := file.Read(B); h.Write(B[:n]); ... }        B a local `B := make([]byte, ..)`  -> BufPrivate
		//                                                              B a field `hasher.<name>`          -> BufShared
		fh := findFunc(f, "PathHasher", "fileHash")
		fhText := show(fh.Body)
		if !strings.HasPrefix(fhText, "{ file, err := os.Open(filename) if err != nil { return err } ") {
			failShape("fileHash no longer opens the file first: %s", fhText)
		}
		bufKind := ""
		if fhText == "{ file, err := os.Open(filename) if err != nil { return err } _, err = io.Copy(h, file) file.Close() return err }" {
			bufKind = "BufPrivate"
		} else {
			var loop *ast.ForStmt
			locals := map[string]bool{}
			for _, st := range fh.Body.List[2:] {
				switch x := st.(type) {
				case *ast.DeferStmt:
					if show(x) != "defer file.Close()" {
						failShape("fileHash: unrecognised defer %s", show(x))
					}
				case *ast.AssignStmt:
					m := regexp.MustCompile(`^(\w+) := make\(\[\]byte, [^()]+\)$`).FindStringSubmatch(show(x))
					if m == nil {
						failShape("fileHash: unrecognised statement %s", show(x))
					}
					locals[m[1]] = true
				case *ast.ForStmt:
					if loop != nil || x.Init != nil || x.Cond != nil || x.Post != nil {
						failShape("fileHash: unrecognised loop %s", show(x))
					}
					loop = x
				default:
					failShape("fileHash: unrecognised statement %s", show(st))
				}
			}
			if loop == nil {
				failShape("fileHash neither calls io.Copy(h, file) nor loops over file.Read: %s", fhText)
			}
			m := regexp.MustCompile(`^\{ n, err := file\.Read\(([\w.]+)\) h\.Write\(([\w.]+)\[:n\]\) if err == io\.EOF \{ return nil \} else if err != nil \{ return err \} \}$`).FindStringSubmatch(show(loop.Body))
			if m == nil || m[1] != m[2] {
				failShape("fileHash: read loop changed shape: %s", show(loop.Body))
			}
			switch {
			case locals[m[1]]:
				bufKind = "BufPrivate"
			case regexp.MustCompile(`^hasher\.\w+$`).MatchString(m[1]):
				bufKind = "BufShared" // one buffer per PathHasher: every concurrent fileHash goes through it
			default:
				failShape("fileHash: cannot tell whose buffer %s is", m[1])
			}
		}

		// --- walk options
		wfset, wf := parseFile("src/fs/walk.go")
		curFset = wfset
		wm := findFunc(wf, "", "WalkMode")
		var opts *ast.CompositeLit
		ast.Inspect(wm.Body, func(x ast.Node) bool {
			if cl, ok := x.(*ast.CompositeLit); ok && show(cl.Type) == "godirwalk.Options" {
				opts = cl
			}
			return true
		})
		if opts == nil {
			failShape("WalkMode: godirwalk.Options literal not found")
		}
		sorted, follows := "true", "false"
		for _, e := range opts.Elts {
			kv, ok := e.(*ast.KeyValueExpr)
			if !ok {
				failShape("godirwalk.Options: positional element")
			}
			switch k := show(kv.Key); k {
			case "Callback":
				if show(kv.Value) != "func(name string, info *godirwalk.Dirent) error { return callback(name, info) }" {
					failShape("godirwalk callback is not a plain forwarder: %s", show(kv.Value))
				}
			case "Unsorted":
				if show(kv.Value) == "true" {
					sorted = "false"
				} else if show(kv.Value) != "false" {
					failShape("Unsorted is not a literal")
				}
			case "FollowSymbolicLinks":
				if show(kv.Value) == "true" {
					follows = "true"
				} else if show(kv.Value) != "false" {
					failShape("FollowSymbolicLinks is not a literal")
				}
			default:
				failShape("godirwalk.Options: unexpected option %s", k)
			}
		}

		curFset = fset
		// --- the memo (property C09, follow-up): Hash's cache lookup, MoveHash/CopyHash/SetHash, ensureRelative.
		// The bodies are compared as a whole against the shape the memo model in Model/C09.v was written from;
		// the parameters the model takes from here are the copy flags and the forgotten-path prefix.
		body := func(name string) string { return show(findFunc(f, "PathHasher", name).Body) }
		expect := func(name, want string) {
			if got := body(name); got != want {
				failShape("PathHasher.%s changed shape:\n  got  %s\n  want %s", name, got, want)
			}
		}
		expect("ensureRelative", `{ if strings.HasPrefix(path, hasher.root) { return strings.TrimLeft(strings.TrimPrefix(path, hasher.root), "/") } return path }`)
		expect("SetHash", `{ hasher.mutex.Lock() hasher.memo[path] = hash hasher.mutex.Unlock() hasher.storeHash(path, hash) }`)
		// Hash (follow-up 2): the statement that records the result is translated - guarded by `err == nil` or not
		hashPre := `{ path = hasher.ensureRelative(path) if !recalc { hasher.mutex.RLock() cached, present := hasher.memo[path] hasher.mutex.RUnlock() if present && cached != nil { return cached, nil } else if present { store = false recalc = true } } if !PathExists(path) { return nil, fmt.Errorf("cannot calculate hash for %s: %s", path, os.ErrNotExist) } hasher.mutex.Lock() if pending, present := hasher.wait[path]; present { hasher.mutex.Unlock() <-pending.Ch return pending.Hash, pending.Err } pending := &pendingHash{Ch: make(chan struct{})} hasher.wait[path] = pending hasher.mutex.Unlock() result, err := hasher.hash(path, store, !recalc, timestamp) hasher.mutex.Lock() `
		hashPost := ` delete(hasher.wait, path) hasher.mutex.Unlock() pending.Hash = result pending.Err = err close(pending.Ch) return result, err }`
		memoGuarded := ""
		switch body("Hash") {
		case hashPre + "if err == nil { hasher.memo[path] = result }" + hashPost:
			memoGuarded = "true"
		case hashPre + "hasher.memo[path] = result" + hashPost:
			memoGuarded = "false"
		default:
			failShape("PathHasher.Hash changed shape:\n  got  %s\n  want %s", body("Hash"), hashPre+"if err == nil { hasher.memo[path] = result }"+hashPost)
		}
		flagOf := func(name string) string {
			m := regexp.MustCompile(`^\{ hasher\.moveOrCopyHash\(oldPath, newPath, (true|false)\) \}$`).FindStringSubmatch(body(name))
			if m == nil {
				failShape("PathHasher.%s is not a plain call of moveOrCopyHash(oldPath, newPath, <literal>): %s", name, body(name))
			}
			return m[1]
		}
		copyFlag, moveFlag := flagOf("CopyHash"), flagOf("MoveHash")
		mc := findFunc(f, "PathHasher", "moveOrCopyHash")
		if sig := show(mc.Type); sig != "func(oldPath, newPath string, copy bool)" {
			failShape("moveOrCopyHash signature changed: %s", sig)
		}
		mm := regexp.MustCompile(`^\{ oldPath = hasher\.ensureRelative\(oldPath\) newPath = hasher\.ensureRelative\(newPath\) hasher\.mutex\.Lock\(\) defer hasher\.mutex\.Unlock\(\) if oldHash, present := hasher\.memo\[oldPath\]; present \{ hasher\.memo\[newPath\] = oldHash if !copy && strings\.HasPrefix\(oldPath, ("[^"\\]*")\) \{ delete\(hasher\.memo, oldPath\) \} \} else if copy \{ hasher\.memo\[newPath\] = nil \} \}$`).FindStringSubmatch(show(mc.Body))
		if mm == nil {
			failShape("PathHasher.moveOrCopyHash changed shape: %s", show(mc.Body))
		}
		tmpPrefix, err := strconv.Unquote(mm[1])
		if err != nil {
			failShape("moveOrCopyHash: prefix literal %s", mm[1])
		}
		bytesOf := func(x string) string {
			out := []string{}
			for i := 0; i < len(x); i++ {
				out = append(out, strconv.Itoa(int(x[i])))
			}
			return "[" + strings.Join(out, "; ") + "]%N"
		}

		list := func(xs []string) string { return "[" + strings.Join(xs, "; ") + "]" }
		return "From Coq Require Import List NArith. Import ListNotations.\n" +
			"(* what is written to the hash for one entry: the marker constant, the file's bytes, the link's\n" +
			"   (repo-relative) target, or the bytes of the file a link outside the repository points to *)\n" +
			"Inductive emit := EMarker | EContent | ETarget | EPointee.\n" +
			"Definition marker : list N := " + list(marker) + "%N.\n" +
			"Definition top_link_in_repo : list emit := " + list(inRepo) + ".\n" +
			"Definition top_link_outside : list emit := " + list(outside) + ".\n" +
			"Definition top_file : list emit := " + list(topFile) + ".\n" +
			"Definition walk_link : list emit := " + list(walkLink) + ".\n" +
			"Definition walk_file : list emit := " + list(walkFile) + ".\n" +
			"Definition walk_dir : list emit := " + list(walkDir) + ".\n" +
			"Definition walk_sorted : bool := " + sorted + ".\n" +
			"Definition walk_follows_links : bool := " + follows + ".\n" +
			"(* the memo: moveOrCopyHash(old, new, copy) as called by CopyHash / MoveHash, and the path prefix whose\n" +
			"   entry MoveHash forgets *)\n" +
			"Definition copy_hash_copies : bool := " + copyFlag + ".\n" +
			"Definition move_hash_copies : bool := " + moveFlag + ".\n" +
			"Definition memo_forget_prefix : list N := " + bytesOf(tmpPrefix) + ". (* " + tmpPrefix + " *)\n" +
			"(* follow-up 2. Hash records the result of hash() in the memo: only when hash() returned no error? *)\n" +
			"Definition memo_store_requires_success : bool := " + memoGuarded + ".\n" +
			"(* the xattr short-cut at the top of hash(): the conjuncts of its condition (read = not recalculating,\n" +
			"   hasher.useXattrs, strings.HasPrefix(path, prefix); no prefix test = the empty prefix), and the prefix\n" +
			"   outside which storeHash refuses to write *)\n" +
			"Definition xattr_read_needs_read : bool := " + xattrNeedsRead + ".\n" +
			"Definition xattr_read_needs_enabled : bool := " + xattrNeedsEnabled + ".\n" +
			"Definition xattr_read_prefix : list N := " + bytesOf(xattrReadPrefix) + ". (* " + xattrReadPrefix + " *)\n" +
			"Definition xattr_store_prefix : list N := " + bytesOf(xattrStorePrefix) + ". (* " + xattrStorePrefix + " *)\n" +
			"(* fileHash: the buffer the file's bytes pass through on their way into the hash - private to the call\n" +
			"   (io.Copy, a local slice) or one buffer shared by every call on the same PathHasher *)\n" +
			"Inductive buf_kind := BufPrivate | BufShared.\n" +
			"Definition file_copy_buffer : buf_kind := " + bufKind + ".\n"
	}
}
