package main

import (
	"go/ast"
	"go/token"
	"go/types"
	"sort"
	"strconv"
	"strings"
)

// AspTables (properties C16, C17, C18): the operator tables of the BUILD language, regenerated from
// src/parse/asp/grammar.go:
//
//   - Operator.Precedence(): the switch is translated case by case into an association list
//     (constant name -> precedence) plus the default;
//   - Operator.Lazy(): the set of short-circuit operators;
//   - the `operators` map (source token -> constant name);
//
// and the body of scope.interpretOps (interpreter.go) is pinned to the statement shape the model's
// flat_ops (Model/C16_Ops.v) was transcribed from.  Anything else fails closed.
func init() {
	targets["AspTables"] = func() string {
		fsI, fi := parseFile("src/parse/asp/interpreter.go")
		_, fg := parseFile("src/parse/asp/grammar.go")

		// --- Precedence -------------------------------------------------------------------------
		fd := findFunc(fg, "Operator", "Precedence")
		if len(fd.Body.List) != 1 {
			failShape("Operator.Precedence is not a single switch statement")
		}
		sw, ok := fd.Body.List[0].(*ast.SwitchStmt)
		if !ok || sw.Init != nil || types.ExprString(sw.Tag) != "o" {
			failShape("Operator.Precedence is not `switch o { ... }`")
		}
		intOf := func(e ast.Expr) string {
			neg := false
			if u, ok := e.(*ast.UnaryExpr); ok && u.Op == token.SUB {
				neg, e = true, u.X
			}
			bl, ok := e.(*ast.BasicLit)
			if !ok || bl.Kind != token.INT {
				failShape("Operator.Precedence returns something that is not an integer literal")
			}
			n, err := strconv.Atoi(bl.Value)
			if err != nil {
				failShape("Operator.Precedence: bad integer %s", bl.Value)
			}
			if neg {
				n = -n
			}
			if n < 0 {
				return "(" + strconv.Itoa(n) + ")"
			}
			return strconv.Itoa(n)
		}
		table, def := []string{}, ""
		seen := map[string]bool{}
		for _, c := range sw.Body.List {
			cc := c.(*ast.CaseClause)
			if len(cc.Body) != 1 {
				failShape("Operator.Precedence: a case is not a single return")
			}
			ret, ok := cc.Body[0].(*ast.ReturnStmt)
			if !ok || len(ret.Results) != 1 {
				failShape("Operator.Precedence: a case is not a single return")
			}
			v := intOf(ret.Results[0])
			if cc.List == nil {
				def = v
				continue
			}
			for _, e := range cc.List {
				id, ok := e.(*ast.Ident)
				if !ok {
					failShape("Operator.Precedence: case label is not a constant name")
				}
				if seen[id.Name] {
					failShape("Operator.Precedence: %s listed twice", id.Name)
				}
				seen[id.Name] = true
				table = append(table, "("+coqString(id.Name)+", "+v+")")
			}
		}
		if def == "" {
			failShape("Operator.Precedence has no default case")
		}

		// --- Lazy ---------------------------------------------------------------------------------
		fl := findFunc(fg, "Operator", "Lazy")
		if len(fl.Body.List) != 1 {
			failShape("Operator.Lazy is not a single return")
		}
		ret, ok := fl.Body.List[0].(*ast.ReturnStmt)
		if !ok || len(ret.Results) != 1 {
			failShape("Operator.Lazy is not a single return")
		}
		lazy := []string{}
		var disj func(e ast.Expr)
		disj = func(e ast.Expr) {
			be, ok := e.(*ast.BinaryExpr)
			if !ok {
				failShape("Operator.Lazy is not a disjunction of `o == Const`")
			}
			switch be.Op {
			case token.LOR:
				disj(be.X)
				disj(be.Y)
			case token.EQL:
				id, ok := be.Y.(*ast.Ident)
				if !ok || types.ExprString(be.X) != "o" {
					failShape("Operator.Lazy is not a disjunction of `o == Const`")
				}
				lazy = append(lazy, id.Name)
			default:
				failShape("Operator.Lazy is not a disjunction of `o == Const`")
			}
		}
		disj(ret.Results[0])

		// --- the operators map ---------------------------------------------------------------------
		toks := []string{}
		for _, d := range fg.Decls {
			gd, ok := d.(*ast.GenDecl)
			if !ok || gd.Tok != token.VAR {
				continue
			}
			for _, sp := range gd.Specs {
				vs := sp.(*ast.ValueSpec)
				if len(vs.Names) != 1 || vs.Names[0].Name != "operators" || len(vs.Values) != 1 {
					continue
				}
				cl, ok := vs.Values[0].(*ast.CompositeLit)
				if !ok {
					failShape("var operators is not a composite literal")
				}
				for _, e := range cl.Elts {
					kv, ok := e.(*ast.KeyValueExpr)
					if !ok {
						failShape("var operators: element is not key: value")
					}
					k, ok1 := kv.Key.(*ast.BasicLit)
					v, ok2 := kv.Value.(*ast.Ident)
					if !ok1 || !ok2 || k.Kind != token.STRING {
						failShape("var operators: element is not \"token\": Const")
					}
					toks = append(toks, "("+coqString(unquote(k))+", "+coqString(v.Name)+")")
				}
			}
		}
		if len(toks) == 0 {
			failShape("var operators not found")
		}
		sort.Strings(toks)

		// --- interpretOps: pinned ------------------------------------------------------------------
		const opsShape = `{
			if len(ops) == 1 { return s.interpretOp(obj, ops[0]) }
			if ops[0].Op.Precedence() >= ops[1].Op.Precedence() { return s.interpretOps(s.interpretOp(obj, ops[0]), ops[1:]) }
			if ops[0].Op.Lazy() && obj.IsTruthy() != (ops[0].Op == And) { return obj } else if ops[0].Expr == nil { return s.interpretOp(s.interpretOps(obj, ops[1:]), ops[0]) }
			nobj := s.interpretOps(s.interpretExpression(ops[0].Expr), ops[1:])
			return s.interpretOp(obj, OpExpression{ Op: ops[0].Op, Expr: &Expression{optimised: &optimisedExpression{Constant: nobj}}, }) }`
		matchShape("scope.interpretOps", bodyText(fsI, findFunc(fi, "scope", "interpretOps")), opsShape)

		// --- pyList.concat (list + list): pinned -----------------------------------------------------
		// Model/C16_Prim.v list_add (Asp) allocates a NEW array of exact capacity for every list + list. The pin fails
		// closed if concat changes shape; that pyList.Operator(Add) calls it on both paths is checked textually.
		fsO, fo := parseFile("src/parse/asp/objects.go")
		const concatShape = `{
			ret := make(pyList, 0, len(l)+len(l2))
			return append(append(ret, l...), l2...) }`
		cf := findFunc(fo, "pyList", "concat")
		if cf == nil {
			failShape("pyList.concat not found: list + list is no longer the fresh-array concatenation the C16 model describes")
		}
		matchShape("pyList.concat", bodyText(fsO, cf), concatShape)
		opText := bodyText(fsO, findFunc(fo, "pyList", "Operator"))
		if !strings.Contains(opText, "return l.concat(l2.pyList)") || !strings.Contains(opText, "return l.concat(l2)") ||
			strings.Contains(opText, "append(l, l2") {
			failShape("pyList.Operator(Add) does not return l.concat(...) on both paths")
		}

		return "From Coq Require Import List String ZArith. Import ListNotations. Open Scope string_scope. Open Scope Z_scope.\n" +
			"(* Operator.Precedence(): constant name -> precedence, and the default of the switch *)\n" +
			"Definition asp_prec_table : list (string * Z) := [" + joinSemi(table) + "].\n" +
			"Definition asp_prec_default : Z := " + def + ".\n" +
			"(* Operator.Lazy() *)\n" +
			"Definition asp_lazy : list string := " + coqStringList(lazy) + ".\n" +
			"(* var operators: source token -> constant name *)\n" +
			"Definition asp_operators : list (string * string) := [" + joinSemi(toks) + "].\n" +
			"(* scope.interpretOps has the statement shape Model/C16_Ops.v (flat_ops) was transcribed from *)\n" +
			"Definition asp_interpret_ops_pinned : bool := true.\n" +
			"(* pyList.Operator(Add) returns l.concat(l2), and concat is append(append(make(pyList, 0, len(l)+len(l2)), l...), l2...):\n" +
			"   the shape Model/C16_Prim.v list_add (Asp) was transcribed from *)\n" +
			"Definition asp_list_concat_pinned : bool := true.\n"
	}
}

func joinSemi(xs []string) string {
	out := ""
	for i, x := range xs {
		if i > 0 {
			out += "; "
		}
		out += x
	}
	return out
}
