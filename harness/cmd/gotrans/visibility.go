package main

import (
	"bytes"
	"go/ast"
	"go/printer"
	"go/token"
	"regexp"
	"strconv"
	"strings"
)

// Visibility (property C33): the functions that decide visibility and test_only are small and
// regular.  Each one is pinned to the exact statement shape the Coq model (Model/C33.v) was
// written from, with the string/character literals left as holes; the literals are regenerated
// into Gen/Visibility.v, the model is written against them and Proof/C33.v proves the facts about
// them that the theorems need.  Any other shape fails closed.

var visWS = regexp.MustCompile(`\s+`)

func visText(fset *token.FileSet, n ast.Node) string {
	var b bytes.Buffer
	if err := (&printer.Config{Mode: printer.RawFormat}).Fprint(&b, fset, n); err != nil {
		failShape("cannot print node: %v", err)
	}
	return strings.TrimSpace(visWS.ReplaceAllString(b.String(), " "))
}

// visMatch matches text against a template in which §S is a string-literal hole and §C a
// character-literal hole; it returns the unquoted literals in order.
func visMatch(what, text, template string) []string {
	tpl := strings.TrimSpace(visWS.ReplaceAllString(template, " "))
	q := regexp.QuoteMeta(tpl)
	q = strings.ReplaceAll(q, "§S", "(\"(?:[^\"\\\\]|\\\\.)*\"|`[^`]*`)")
	q = strings.ReplaceAll(q, "§C", `('(?:[^'\\]|\\.)*')`)
	m := regexp.MustCompile("^" + q + "$").FindStringSubmatch(text)
	if m == nil {
		failShape("%s does not have the shape the C33 model was written from.\n  expected: %s\n  found:    %s", what, tpl, text)
	}
	out := []string{}
	for _, lit := range m[1:] {
		kind := token.STRING
		if strings.HasPrefix(lit, "'") {
			kind = token.CHAR
		}
		out = append(out, unquote(&ast.BasicLit{Kind: kind, Value: lit}))
	}
	return out
}

func visByte(what, x string) string {
	if len(x) != 1 {
		failShape("%s is %q: the C33 model needs a single byte here", what, x)
	}
	return strconv.Itoa(int(x[0]))
}

func visSame(what string, xs ...string) string {
	for _, x := range xs[1:] {
		if x != xs[0] {
			failShape("%s: the literals %q are expected to be one and the same", what, xs)
		}
	}
	return xs[0]
}

func visEmpty(what, x string) {
	if x != "" {
		failShape("%s is %q, expected the empty string", what, x)
	}
}

func init() {
	targets["Visibility"] = func() string {
		fsL, fl := parseFile("src/core/build_label.go")
		fsT, ft := parseFile("src/core/build_target.go")
		fsS, fs := parseFile("src/core/state.go")
		body := func(fset *token.FileSet, f *ast.File, recv, name string) string {
			return visText(fset, findFunc(f, recv, name).Body)
		}

		// --- build_label.go ---------------------------------------------------------------------
		m := visMatch("BuildLabel.IsAllSubpackages", body(fsL, fl, "BuildLabel", "IsAllSubpackages"), `{ return label.Name == §S }`)
		allSub := m[0]
		m = visMatch("BuildLabel.IsAllTargets", body(fsL, fl, "BuildLabel", "IsAllTargets"), `{ return label.Name == §S }`)
		allTargets := m[0]

		m = visMatch("BuildLabel.Includes", body(fsL, fl, "BuildLabel", "Includes"), `{
			if (label.PackageName == §S && label.IsAllSubpackages()) || that.PackageName == label.PackageName || strings.HasPrefix(that.PackageName, label.PackageName+§S) {
				if label.IsAllSubpackages() { return true
				} else if label.PackageName == that.PackageName {
					if label.Name == that.Name || label.IsAllTargets() { return true } } }
			return false }`)
		visEmpty("the root package name in Includes", m[0])
		pkgSep := m[1]

		m = visMatch("BuildLabel.Parent", body(fsL, fl, "BuildLabel", "Parent"), `{
			index := strings.IndexRune(label.Name, §C)
			if index == -1 || !strings.HasPrefix(label.Name, §S) { return label }
			label.Name = strings.TrimLeft(label.Name[:index], §S)
			return label }`)
		tagSep := visByte("the tag separator in Parent", m[0])
		if m[0][0] >= 0x80 {
			failShape("the tag separator in Parent is not ASCII: IndexRune is modelled as a byte search")
		}
		hidden := visByte("the hidden-name prefix in Parent", visSame("Parent: HasPrefix / TrimLeft literals", m[1], m[2]))

		visMatch("BuildLabel.CanSee", body(fsL, fl, "BuildLabel", "CanSee"), `{
			if label.PackageName == dep.Label.PackageName { return true
			} else if dep.Label.isExperimental(state) && !label.isExperimental(state) {
				log.Error(§S, label, dep.Label)
				return false }
			parent := label.Parent()
			for _, vis := range dep.Visibility { if vis.Includes(parent) { return true } }
			if dep.Label.PackageName == parent.PackageName { return true }
			if label.isExperimental(state) {
				log.Info(§S, dep.Label, label)
				return true }
			return false }`)

		m = visMatch("BuildLabel.isExperimental", body(fsL, fl, "BuildLabel", "isExperimental"), `{
			if label.Subrepo != §S { return false }
			for _, exp := range state.experimentalLabels { if exp.Includes(label) { return true } }
			return false }`)
		visEmpty("the host repository's Subrepo in isExperimental", m[0])

		// WholeGraph is what PUBLIC is parsed to
		var public []string
		for _, d := range fl.Decls {
			gd, ok := d.(*ast.GenDecl)
			if !ok || gd.Tok != token.VAR {
				continue
			}
			for _, sp := range gd.Specs {
				vs := sp.(*ast.ValueSpec)
				if len(vs.Names) == 1 && vs.Names[0].Name == "WholeGraph" && len(vs.Values) == 1 {
					public = visMatch("WholeGraph", visText(fsL, vs.Values[0]), `[]BuildLabel{{PackageName: §S, Name: §S}}`)
				}
			}
		}
		if public == nil {
			failShape("var WholeGraph not found in build_label.go")
		}

		// --- build_target.go --------------------------------------------------------------------
		visMatch("BuildTarget.CanSee", body(fsT, ft, "BuildTarget", "CanSee"), `{ return target.Label.CanSee(state, dep) }`)
		visMatch("BuildTarget.IsTest", body(fsT, ft, "BuildTarget", "IsTest"), `{ return target.Test != nil }`)
		visMatch("BuildTarget.CheckDependencyVisibility", body(fsT, ft, "BuildTarget", "CheckDependencyVisibility"), `{
			for _, d := range target.dependencies {
				dep := state.Graph.TargetOrDie(*d.declared)
				if !target.CanSee(state, dep) {
					return fmt.Errorf(§S, dep.Label, target.Label)
				} else if dep.TestOnly && !target.IsTest() && !target.TestOnly {
					if target.Label.isExperimental(state) {
						log.Info(§S, dep.Label, target.Label)
					} else {
						return fmt.Errorf(§S, target.Label, dep.Label) } } }
			return nil }`)

		// --- state.go: experimentalLabels ---------------------------------------------------------
		var expName []string
		ast.Inspect(findFunc(fs, "", "NewBuildState"), func(n ast.Node) bool {
			if rs, ok := n.(*ast.RangeStmt); ok && strings.Contains(visText(fsS, rs.X), "ExperimentalDir") {
				expName = visMatch("the experimentalLabels loop of NewBuildState", visText(fsS, rs), `for _, exp := range config.Parse.ExperimentalDir {
					state.experimentalLabels = append(state.experimentalLabels, BuildLabel{PackageName: exp, Name: §S}) }`)
			}
			return true
		})
		if expName == nil {
			failShape("NewBuildState: loop over config.Parse.ExperimentalDir not found")
		}
		// nothing else may write the field
		for _, file := range []string{"src/core/state.go", "src/core/build_label.go", "src/core/build_target.go"} {
			fset, f := parseFile(file)
			ast.Inspect(f, func(n ast.Node) bool {
				if as, ok := n.(*ast.AssignStmt); ok {
					for _, l := range as.Lhs {
						if strings.HasSuffix(visText(fset, l), ".experimentalLabels") && !strings.HasPrefix(visText(fset, as), "state.experimentalLabels = append(state.experimentalLabels, BuildLabel{PackageName: exp,") {
							failShape("%s: unexpected assignment to experimentalLabels: %s", file, visText(fset, as))
						}
					}
				}
				return true
			})
		}

		return genHeader +
			"(* literals of src/core/build_label.go, build_target.go, state.go as used by Model/C33.v *)\n" +
			"Definition all_subpackages_name : string := " + coqString(allSub) + ".\n" +
			"Definition all_targets_name : string := " + coqString(allTargets) + ".\n" +
			"Definition package_separator : string := " + coqString(pkgSep) + ".\n" +
			"Definition tag_separator : N := " + tagSep + "%N.\n" +
			"Definition hidden_prefix : N := " + hidden + "%N.\n" +
			"Definition experimental_label_name : string := " + coqString(expName[0]) + ".\n" +
			"Definition public_package : string := " + coqString(public[0]) + ".\n" +
			"Definition public_name : string := " + coqString(public[1]) + ".\n"
	}
}

// ---------------------------------------------------------------------------------------------
// VisibilityFlow (property C33, end-to-end part): the three statements outside src/core on which
// "a build fails exactly when some edge is not permitted" also rests are TRANSLATED (not only
// pinned) into Gen/VisibilityFlow.v; Model/C33_E2E.v executes the translated definitions and
// Proof/C33_E2E.v proves its theorems about them, so that a change of the source changes the
// generated program and breaks the proof instead of the translator:
//   - src/build/build_step.go  buildTarget: the order of validation, early returns and build
//     effects on the local and on the remote path (a list of steps);
//   - src/parse/asp/targets.go parseVisibility: which strings are turned into WholeGraph[0]
//     unconditionally / under Bazel compatibility; populateTarget: the first-element shortcut;
//   - src/parse/asp/objects.go pyConfig.Merge: the little program that brings the CONFIG of a
//     subincluded file into the package's own overlay (fresh allocation vs. adopting the map).

func flowStr(e ast.Expr) (string, bool) {
	if l, ok := e.(*ast.BasicLit); ok && l.Kind == token.STRING {
		return unquote(l), true
	}
	return "", false
}

func flowUnparen(e ast.Expr) ast.Expr {
	for {
		p, ok := e.(*ast.ParenExpr)
		if !ok {
			return e
		}
		e = p.X
	}
}

func flowDisjuncts(e ast.Expr) []ast.Expr {
	e = flowUnparen(e)
	if b, ok := e.(*ast.BinaryExpr); ok && b.Op == token.LOR {
		return append(flowDisjuncts(b.X), flowDisjuncts(b.Y)...)
	}
	return []ast.Expr{e}
}

// flowBuildSteps linearises one path (local or remote) of buildTarget into the step names of the
// generated inductive type.
type flowPath struct{ steps []string }

func (p *flowPath) add(s string) {
	if s != "BValidate" {
		for _, x := range p.steps {
			if x == s {
				return
			}
		}
	}
	p.steps = append(p.steps, s)
}

func flowScan(fset *token.FileSet, n ast.Node, paths ...*flowPath) {
	emit := func(s string) {
		for _, p := range paths {
			p.add(s)
		}
	}
	ast.Inspect(n, func(n ast.Node) bool {
		switch x := n.(type) {
		case *ast.FuncLit:
			return false // the deferred recover()
		case *ast.IfStmt:
			cond := visText(fset, x.Cond)
			body := visText(fset, x.Body)
			switch cond {
			case "!target.IsFilegroup && !needsBuilding(state, target, false)":
				if strings.Contains(body, "validateBuildTargetBeforeBuild") {
					failShape("buildTarget: validation inside the incrementality check is not a shape the C33 model knows")
				}
				if !strings.Contains(body, "return nil") {
					failShape("buildTarget: the incrementality check no longer returns early: %s", body)
				}
				emit("BReturnIfUnchanged")
				return false
			case "target.IsFilegroup":
				if strings.Contains(body, "buildFilegroup(state, target)") {
					if strings.Contains(body, "validateBuildTargetBeforeBuild") {
						failShape("buildTarget: validation inside the filegroup branch is not a shape the C33 model knows")
					}
					if !strings.HasSuffix(body, "return nil }") {
						failShape("buildTarget: the filegroup branch no longer returns: %s", body)
					}
					emit("BBuildFilegroupReturn")
					return false
				}
			}
		case *ast.ReturnStmt:
			if len(x.Results) == 1 {
				if c, ok := x.Results[0].(*ast.CallExpr); ok && visText(fset, c.Fun) == "prepareOnly" {
					emit("BReturnPrepareOnly")
					return false
				}
			}
		case *ast.CallExpr:
			switch visText(fset, x.Fun) {
			case "validateBuildTargetBeforeBuild":
				if got := visText(fset, x); got != "validateBuildTargetBeforeBuild(state, target)" {
					failShape("buildTarget: unexpected validation call %s", got)
				}
				emit("BValidate")
			case "state.Parser.RunPreBuildFunction":
				emit("BPreBuild")
			case "state.RemoteClient.Build":
				emit("BRemoteBuild")
			case "retrieveArtifacts":
				emit("BRetrieveReturn")
			case "build":
				emit("BBuild")
			}
		}
		return true
	})
}

func init() {
	targets["VisibilityFlow"] = func() string {
		// --- build_step.go -----------------------------------------------------------------------
		fsB, fb := parseFile("src/build/build_step.go")
		m := visText(fsB, findFunc(fb, "", "validateBuildTargetBeforeBuild").Body)
		if !strings.HasPrefix(m, "{ if err := target.CheckDependencyVisibility(state); err != nil { return err }") {
			failShape("validateBuildTargetBeforeBuild does not start with the dependency-visibility check: %s", m)
		}
		bt := findFunc(fb, "", "buildTarget")
		local, remote := &flowPath{}, &flowPath{}
		split := false
		for _, st := range bt.Body.List {
			if is, ok := st.(*ast.IfStmt); ok && !split && visText(fsB, is.Cond) == "runRemotely" && is.Init == nil {
				eb, ok := is.Else.(*ast.BlockStmt)
				if !ok {
					failShape("buildTarget: `if runRemotely` without an else block")
				}
				split = true
				flowScan(fsB, is.Body, remote)
				flowScan(fsB, eb, local)
				continue
			}
			flowScan(fsB, st, local, remote)
		}
		if !split {
			failShape("buildTarget: the local/remote split `if runRemotely { ... } else { ... }` was not found")
		}
		// every validation must be followed by the error return
		nVal := 0
		ast.Inspect(bt.Body, func(n ast.Node) bool {
			switch x := n.(type) {
			case *ast.IfStmt:
				if x.Init != nil && strings.Contains(visText(fsB, x.Init), "validateBuildTargetBeforeBuild") {
					if got := visText(fsB, x); got != "if err := validateBuildTargetBeforeBuild(state, target); err != nil { return err }" {
						failShape("buildTarget: unexpected shape of the validation: %s", got)
					}
					nVal++
				}
			case *ast.AssignStmt:
				if strings.Contains(visText(fsB, x), "validateBuildTargetBeforeBuild") && visText(fsB, x) == "err = validateBuildTargetBeforeBuild(state, target)" {
					nVal++
				}
			}
			return true
		})
		src := visText(fsB, bt.Body)
		if c := strings.Count(src, "validateBuildTargetBeforeBuild("); c != nVal {
			failShape("buildTarget: %d validation calls, %d of them in a recognised shape", c, nVal)
		}
		if strings.Contains(src, "err = validateBuildTargetBeforeBuild(state, target)") &&
			!strings.Contains(src, "err = validateBuildTargetBeforeBuild(state, target) if err != nil { return err }") {
			failShape("buildTarget: the result of the validation is not returned")
		}

		// --- targets.go --------------------------------------------------------------------------
		fsP, fp := parseFile("src/parse/asp/targets.go")
		pv := findFunc(fp, "", "parseVisibility")
		if len(pv.Body.List) != 4 {
			failShape("parseVisibility: expected 4 statements, found %d", len(pv.Body.List))
		}
		first, ok := pv.Body.List[0].(*ast.IfStmt)
		if !ok || first.Init != nil || first.Else != nil || visText(fsP, first.Body) != "{ return core.WholeGraph[0] }" {
			failShape("parseVisibility: the first statement is not `if <cond> { return core.WholeGraph[0] }`")
		}
		var always, bazel []string
		for _, d := range flowDisjuncts(first.Cond) {
			b, ok := d.(*ast.BinaryExpr)
			if !ok {
				failShape("parseVisibility: unrecognised disjunct %s", visText(fsP, d))
			}
			eq := b
			underBazel := false
			if b.Op == token.LAND {
				if visText(fsP, b.X) != "s.state.Config.Bazel.Compatibility" {
					failShape("parseVisibility: unrecognised guard %s", visText(fsP, b.X))
				}
				underBazel = true
				eq, ok = flowUnparen(b.Y).(*ast.BinaryExpr)
				if !ok {
					failShape("parseVisibility: unrecognised disjunct %s", visText(fsP, d))
				}
			}
			lit, isLit := flowStr(eq.Y)
			if eq.Op != token.EQL || visText(fsP, eq.X) != "vis" || !isLit {
				failShape("parseVisibility: unrecognised comparison %s", visText(fsP, eq))
			}
			if underBazel {
				bazel = append(bazel, lit)
			} else {
				always = append(always, lit)
			}
		}
		visMatch("parseVisibility (after the special strings)", visText(fsP, &ast.BlockStmt{List: pv.Body.List[1:]}), `{
			l := s.parseLabelInPackage(vis, s.pkg)
			if s.state.Config.Bazel.Compatibility {
				switch l.Name {
				case §S: l.Name = §S
				case §S: l.Name = §S } }
			return l }`)
		var firstPublic []string
		ast.Inspect(findFunc(fp, "", "populateTarget"), func(n ast.Node) bool {
			if is, ok := n.(*ast.IfStmt); ok && is.Init != nil && visText(fsP, is.Init) == "vis, ok := asList(args[visibilityBuildRuleArgIdx])" {
				firstPublic = visMatch("the visibility block of populateTarget", visText(fsP, is), `if vis, ok := asList(args[visibilityBuildRuleArgIdx]); ok && len(vis) != 0 {
					if v, ok := vis[0].(pyString); ok && v == §S { t.Visibility = core.WholeGraph
					} else { addStrings(s, §S, args[visibilityBuildRuleArgIdx], func(str string) { t.Visibility = append(t.Visibility, parseVisibility(s, str)) }) } }`)
				return false
			}
			return true
		})
		if firstPublic == nil {
			failShape("populateTarget: the visibility block was not found")
		}

		// --- objects.go / builtins.go / interpreter.go --------------------------------------------
		fsO, fo := parseFile("src/parse/asp/objects.go")
		mg := findFunc(fo, "pyConfig", "Merge")
		if len(mg.Body.List) != 2 {
			failShape("pyConfig.Merge: expected 2 statements, found %d", len(mg.Body.List))
		}
		nilIf, ok := mg.Body.List[0].(*ast.IfStmt)
		if !ok || nilIf.Init != nil || nilIf.Else != nil || visText(fsO, nilIf.Cond) != "c.overlay == nil" {
			failShape("pyConfig.Merge: the first statement is not `if c.overlay == nil { ... }`")
		}
		var nilBranch []string
		for _, st := range nilIf.Body.List {
			switch t := visText(fsO, st); t {
			case "c.overlay = make(pyDict, len(other.overlay))", "c.overlay = make(pyDict)", "c.overlay = pyDict{}":
				nilBranch = append(nilBranch, "MAllocFresh")
			case "c.overlay = other.overlay":
				nilBranch = append(nilBranch, "MAdopt")
			case "return":
				nilBranch = append(nilBranch, "MReturn")
			default:
				failShape("pyConfig.Merge: unrecognised statement in the nil branch: %s", t)
			}
		}
		if t := visText(fsO, mg.Body.List[1]); t != "for k, v := range other.overlay { c.overlay[k] = v }" {
			failShape("pyConfig.Merge: the second statement is not the entry-by-entry copy: %s", t)
		}
		visMatch("pyConfig.IndexAssign", visText(fsO, findFunc(fo, "pyConfig", "IndexAssign").Body), `{
			key := string(index.(pyString))
			if c.overlay == nil { c.overlay = pyDict{key: value} } else { c.overlay[key] = value } }`)
		visMatch("pyConfig.Copy", visText(fsO, findFunc(fo, "pyConfig", "Copy").Body), `{ return &pyConfig{base: c.base} }`)
		visMatch("pyConfig.Get", visText(fsO, findFunc(fo, "pyConfig", "Get").Body), `{
			if c.overlay != nil { if obj, present := c.overlay[key]; present { return obj } }
			if obj, present := c.base.dict[key]; present { return obj }
			return fallback }`)
		fsU, fu := parseFile("src/parse/asp/builtins.go")
		visMatch("defaultFromConfig", visText(fsU, findFunc(fu, "", "defaultFromConfig").Body), `{
			if arg == nil || arg == None { return config.Get(name, arg) }
			return arg }`)
		br := visText(fsU, findFunc(fu, "", "buildRule").Body)
		keyRe := regexp.MustCompile(`args\[(visibility|testOnly)BuildRuleArgIdx\] = defaultFromConfig\(s\.config, args\[(visibility|testOnly)BuildRuleArgIdx\], ("[A-Z_]+")\)`)
		keys := map[string]string{}
		for _, mm := range keyRe.FindAllStringSubmatch(br, -1) {
			if mm[1] != mm[2] {
				failShape("buildRule: default of %s stored into %s", mm[2], mm[1])
			}
			keys[mm[1]] = mm[3]
		}
		if len(keys) != 2 {
			failShape("buildRule: the defaultFromConfig lines for visibility and test_only were not found")
		}
		pk := visText(fsU, findFunc(fu, "", "pkg").Body)
		for _, want := range []string{"k = strings.ToUpper(k)", "s.config.IndexAssign(pyString(k), v)"} {
			if !strings.Contains(pk, want) {
				failShape("package(): `%s` not found", want)
			}
		}
		fsI, fi := parseFile("src/parse/asp/interpreter.go")
		sa := visText(fsI, findFunc(fi, "scope", "SetAll").Body)
		if !strings.Contains(sa, `if k == "CONFIG" {`) || !strings.Contains(sa, "s.config.Merge(c)") {
			failShape("scope.SetAll: the CONFIG merge was not found")
		}
		si := visText(fsI, findFunc(fi, "interpreter", "Subinclude").Body)
		for _, want := range []string{"s.config = i.scope.config.Copy()", `if s.config.overlay == nil { delete(locals, "CONFIG")`} {
			if !strings.Contains(si, want) {
				failShape("interpreter.Subinclude: `%s` not found", want)
			}
		}

		steps := func(p *flowPath) string { return "[" + strings.Join(p.steps, "; ") + "]" }
		return genHeader +
			"(* buildTarget (src/build/build_step.go): validation, early returns and build effects in source order *)\n" +
			"Inductive bstep := BValidate | BPreBuild | BReturnPrepareOnly | BReturnIfUnchanged | BBuildFilegroupReturn\n" +
			"  | BRetrieveReturn | BBuild | BRemoteBuild.\n" +
			"Definition build_target_local : list bstep := " + steps(local) + ".\n" +
			"Definition build_target_remote : list bstep := " + steps(remote) + ".\n" +
			"(* parseVisibility / populateTarget (src/parse/asp/targets.go) *)\n" +
			"Definition public_strings : list string := " + coqStringList(always) + ".\n" +
			"Definition bazel_public_strings : list string := " + coqStringList(bazel) + ".\n" +
			"Definition first_element_public : string := " + coqString(firstPublic[0]) + ".\n" +
			"(* pyConfig.Merge (src/parse/asp/objects.go): `if c.overlay == nil { nil_branch }; copy` *)\n" +
			"Inductive mstmt := MAllocFresh | MAdopt | MReturn | MCopyAll.\n" +
			"Definition merge_nil_branch : list mstmt := [" + strings.Join(nilBranch, "; ") + "].\n" +
			"Definition merge_rest : list mstmt := [MCopyAll].\n" +
			"(* buildRule (src/parse/asp/builtins.go): the CONFIG keys of the per-package defaults *)\n" +
			"Definition default_visibility_key : string := " + keys["visibility"] + ".\n" +
			"Definition default_testonly_key : string := " + keys["testOnly"] + ".\n"
	}
}
