package main

import (
	"bytes"
	"go/ast"
	"go/printer"
	"go/token"
	"regexp"
	"strconv"
	"strings"
)

// Visibility (property C33): the functions that decide visibility and test_only are small and
// regular.  Each one is pinned to the exact statement shape the Coq model (Model/C33.v) was
// written from, with the string/character literals left as holes; the literals are regenerated
// into Gen/Visibility.v, the model is written against them and Proof/C33.v proves the facts about
// them that the theorems need.  Any other shape fails closed.

var visWS = regexp.MustCompile(`\s+`)

func visText(fset *token.FileSet, n ast.Node) string {
	var b bytes.Buffer
	if err := (&printer.Config{Mode: printer.RawFormat}).Fprint(&b, fset, n); err != nil {
		failShape("cannot print node: %v", err)
	}
	return strings.TrimSpace(visWS.ReplaceAllString(b.String(), " "))
}

// visMatch matches text against a template in which §S is a string-literal hole and §C a
// character-literal hole; it returns the unquoted literals in order.
func visMatch(what, text, template string) []string {
	tpl := strings.TrimSpace(visWS.ReplaceAllString(template, " "))
	q := regexp.QuoteMeta(tpl)
	q = strings.ReplaceAll(q, "§S", "(\"(?:[^\"\\\\]|\\\\.)*\"|`[^`]*`)")
	q = strings.ReplaceAll(q, "§C", `('(?:[^'\\]|\\.)*')`)
	m := regexp.MustCompile("^" + q + "$").FindStringSubmatch(text)
	if m == nil {
		failShape("%s does not have the shape the C33 model was written from.\n  expected: %s\n  found:    %s", what, tpl, text)
	}
	out := []string{}
	for _, lit := range m[1:] {
		kind := token.STRING
		if strings.HasPrefix(lit, "'") {
			kind = token.CHAR
		}
		out = append(out, unquote(&ast.BasicLit{Kind: kind, Value: lit}))
	}
	return out
}

func visByte(what, x string) string {
	if len(x) != 1 {
		failShape("%s is %q: the C33 model needs a single byte here", what, x)
	}
	return strconv.Itoa(int(x[0]))
}

func visSame(what string, xs ...string) string {
	for _, x := range xs[1:] {
		if x != xs[0] {
			failShape("%s: the literals %q are expected to be one and the same", what, xs)
		}
	}
	return xs[0]
}

func visEmpty(what, x string) {
	if x != "" {
		failShape("%s is %q, expected the empty string", what, x)
	}
}

func init() {
	targets["Visibility"] = func() string {
		fsL, fl := parseFile("src/core/build_label.go")
		fsT, ft := parseFile("src/core/build_target.go")
		fsS, fs := parseFile("src/core/state.go")
		body := func(fset *token.FileSet, f *ast.File, recv, name string) string {
			return visText(fset, findFunc(f, recv, name).Body)
		}

		// --- build_label.go ---------------------------------------------------------------------
		m := visMatch("BuildLabel.IsAllSubpackages", body(fsL, fl, "BuildLabel", "IsAllSubpackages"), `{ return label.Name == §S }`)
		allSub := m[0]
		m = visMatch("BuildLabel.IsAllTargets", body(fsL, fl, "BuildLabel", "IsAllTargets"), `{ return label.Name == §S }`)
		allTargets := m[0]

		m = visMatch("BuildLabel.Includes", body(fsL, fl, "BuildLabel", "Includes"), `{
			if (label.PackageName == §S && label.IsAllSubpackages()) || that.PackageName == label.PackageName || strings.HasPrefix(that.PackageName, label.PackageName+§S) {
				if label.IsAllSubpackages() { return true
				} else if label.PackageName == that.PackageName {
					if label.Name == that.Name || label.IsAllTargets() { return true } } }
			return false }`)
		visEmpty("the root package name in Includes", m[0])
		pkgSep := m[1]

		m = visMatch("BuildLabel.Parent", body(fsL, fl, "BuildLabel", "Parent"), `{
			index := strings.IndexRune(label.Name, §C)
			if index == -1 || !strings.HasPrefix(label.Name, §S) { return label }
			label.Name = strings.TrimLeft(label.Name[:index], §S)
			return label }`)
		tagSep := visByte("the tag separator in Parent", m[0])
		if m[0][0] >= 0x80 {
			failShape("the tag separator in Parent is not ASCII: IndexRune is modelled as a byte search")
		}
		hidden := visByte("the hidden-name prefix in Parent", visSame("Parent: HasPrefix / TrimLeft literals", m[1], m[2]))

		visMatch("BuildLabel.CanSee", body(fsL, fl, "BuildLabel", "CanSee"), `{
			if label.PackageName == dep.Label.PackageName { return true
			} else if dep.Label.isExperimental(state) && !label.isExperimental(state) {
				log.Error(§S, label, dep.Label)
				return false }
			parent := label.Parent()
			for _, vis := range dep.Visibility { if vis.Includes(parent) { return true } }
			if dep.Label.PackageName == parent.PackageName { return true }
			if label.isExperimental(state) {
				log.Info(§S, dep.Label, label)
				return true }
			return false }`)

		m = visMatch("BuildLabel.isExperimental", body(fsL, fl, "BuildLabel", "isExperimental"), `{
			if label.Subrepo != §S { return false }
			for _, exp := range state.experimentalLabels { if exp.Includes(label) { return true } }
			return false }`)
		visEmpty("the host repository's Subrepo in isExperimental", m[0])

		// WholeGraph is what PUBLIC is parsed to
		var public []string
		for _, d := range fl.Decls {
			gd, ok := d.(*ast.GenDecl)
			if !ok || gd.Tok != token.VAR {
				continue
			}
			for _, sp := range gd.Specs {
				vs := sp.(*ast.ValueSpec)
				if len(vs.Names) == 1 && vs.Names[0].Name == "WholeGraph" && len(vs.Values) == 1 {
					public = visMatch("WholeGraph", visText(fsL, vs.Values[0]), `[]BuildLabel{{PackageName: §S, Name: §S}}`)
				}
			}
		}
		if public == nil {
			failShape("var WholeGraph not found in build_label.go")
		}

		// --- build_target.go --------------------------------------------------------------------
		visMatch("BuildTarget.CanSee", body(fsT, ft, "BuildTarget", "CanSee"), `{ return target.Label.CanSee(state, dep) }`)
		visMatch("BuildTarget.IsTest", body(fsT, ft, "BuildTarget", "IsTest"), `{ return target.Test != nil }`)
		visMatch("BuildTarget.CheckDependencyVisibility", body(fsT, ft, "BuildTarget", "CheckDependencyVisibility"), `{
			for _, d := range target.dependencies {
				dep := state.Graph.TargetOrDie(*d.declared)
				if !target.CanSee(state, dep) {
					return fmt.Errorf(§S, dep.Label, target.Label)
				} else if dep.TestOnly && !target.IsTest() && !target.TestOnly {
					if target.Label.isExperimental(state) {
						log.Info(§S, dep.Label, target.Label)
					} else {
						return fmt.Errorf(§S, target.Label, dep.Label) } } }
			return nil }`)

		// --- state.go: experimentalLabels ---------------------------------------------------------
		var expName []string
		ast.Inspect(findFunc(fs, "", "NewBuildState"), func(n ast.Node) bool {
			if rs, ok := n.(*ast.RangeStmt); ok && strings.Contains(visText(fsS, rs.X), "ExperimentalDir") {
				expName = visMatch("the experimentalLabels loop of NewBuildState", visText(fsS, rs), `for _, exp := range config.Parse.ExperimentalDir {
					state.experimentalLabels = append(state.experimentalLabels, BuildLabel{PackageName: exp, Name: §S}) }`)
			}
			return true
		})
		if expName == nil {
			failShape("NewBuildState: loop over config.Parse.ExperimentalDir not found")
		}
		// nothing else may write the field
		for _, file := range []string{"src/core/state.go", "src/core/build_label.go", "src/core/build_target.go"} {
			fset, f := parseFile(file)
			ast.Inspect(f, func(n ast.Node) bool {
				if as, ok := n.(*ast.AssignStmt); ok {
					for _, l := range as.Lhs {
						if strings.HasSuffix(visText(fset, l), ".experimentalLabels") && !strings.HasPrefix(visText(fset, as), "state.experimentalLabels = append(state.experimentalLabels, BuildLabel{PackageName: exp,") {
							failShape("%s: unexpected assignment to experimentalLabels: %s", file, visText(fset, as))
						}
					}
				}
				return true
			})
		}

		return genHeader +
			"(* literals of src/core/build_label.go, build_target.go, state.go as used by Model/C33.v *)\n" +
			"Definition all_subpackages_name : string := " + coqString(allSub) + ".\n" +
			"Definition all_targets_name : string := " + coqString(allTargets) + ".\n" +
			"Definition package_separator : string := " + coqString(pkgSep) + ".\n" +
			"Definition tag_separator : N := " + tagSep + "%N.\n" +
			"Definition hidden_prefix : N := " + hidden + "%N.\n" +
			"Definition experimental_label_name : string := " + coqString(expName[0]) + ".\n" +
			"Definition public_package : string := " + coqString(public[0]) + ".\n" +
			"Definition public_name : string := " + coqString(public[1]) + ".\n"
	}
}
