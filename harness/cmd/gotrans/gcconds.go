package main

import (
	"bytes"
	"fmt"
	"go/ast"
	"go/printer"
	"go/token"
	"go/types"
	"regexp"
	"strings"
)

// GcConds (property C25): src/gc/gc.go.
//
//   - every boolean condition that decides what `plz gc` keeps or removes inside targetsToRemove is
//     TRANSLATED from the Go expression into a Gallina boolean function over named atoms
//     (Gen/GcConds.v); Model/C25.v is written against these functions and Proof/C25.v proves the
//     facts about them that the safety theorem needs, by computation over the booleans;
//   - the condition of publicDependencies that decides whether a dependency is a hidden sub-target
//     of the same rule (and is looked through) is translated too, as a function over an abstract
//     label type with `eqb` and `parent` (same_rule_cond);
//   - the statement skeleton of targetsToRemove and of publicDependencies (conditions replaced by
//     holes, log calls dropped) and the complete bodies of addTarget, gcSibling, isIncluded and
//     anyInclude are pinned to the text the model was written from.
//
// Anything else fails closed.

var gccWS = regexp.MustCompile(`\s+`)

func gccIsLogCall(s ast.Stmt) bool {
	es, ok := s.(*ast.ExprStmt)
	if !ok {
		return false
	}
	call, ok := es.X.(*ast.CallExpr)
	if !ok {
		return false
	}
	sel, ok := call.Fun.(*ast.SelectorExpr)
	if !ok {
		return false
	}
	id, ok := sel.X.(*ast.Ident)
	return ok && id.Name == "log" && sel.Sel.Name != "Fatalf" && sel.Sel.Name != "Fatal"
}

// gccDropLogs removes log.Debug/Notice/Warning statements (no effect on the result) from every block.
func gccDropLogs(n ast.Node) {
	ast.Inspect(n, func(x ast.Node) bool {
		if b, ok := x.(*ast.BlockStmt); ok {
			out := b.List[:0:0]
			for _, s := range b.List {
				if !gccIsLogCall(s) {
					out = append(out, s)
				}
			}
			b.List = out
		}
		return true
	})
}

func gccText(fset *token.FileSet, n ast.Node) string {
	var b bytes.Buffer
	if err := (&printer.Config{Mode: printer.RawFormat}).Fprint(&b, fset, n); err != nil {
		failShape("cannot print node: %v", err)
	}
	return strings.TrimSpace(gccWS.ReplaceAllString(b.String(), " "))
}

// gccBool translates a Go boolean expression over the given atoms (Go source text -> Gallina
// variable) into a Gallina term.  Only !, &&, || and parentheses are understood.
func gccBool(what string, e ast.Expr, atoms map[string]string) string {
	switch x := e.(type) {
	case *ast.ParenExpr:
		return gccBool(what, x.X, atoms)
	case *ast.UnaryExpr:
		if x.Op == token.NOT {
			return "(negb " + gccBool(what, x.X, atoms) + ")"
		}
	case *ast.BinaryExpr:
		switch x.Op {
		case token.LAND:
			return "(" + gccBool(what, x.X, atoms) + " && " + gccBool(what, x.Y, atoms) + ")"
		case token.LOR:
			return "(" + gccBool(what, x.X, atoms) + " || " + gccBool(what, x.Y, atoms) + ")"
		}
	}
	txt := types.ExprString(e)
	if v, ok := atoms[txt]; ok {
		return v
	}
	failShape("%s: the sub-expression `%s` is not one of the atoms the C25 model knows (%v)", what, txt, gccKeys(atoms))
	return ""
}

// gccLabelCond translates a boolean expression whose atoms are equalities between label-valued
// expressions (Go source text -> Gallina term) into a Gallina term over an abstract label type with
// `eqb` and `parent`.  Only ==, !=, !, &&, || and parentheses are understood.
func gccLabelCond(what string, e ast.Expr, labels map[string]string) string {
	switch x := e.(type) {
	case *ast.ParenExpr:
		return gccLabelCond(what, x.X, labels)
	case *ast.UnaryExpr:
		if x.Op == token.NOT {
			return "(negb " + gccLabelCond(what, x.X, labels) + ")"
		}
	case *ast.BinaryExpr:
		switch x.Op {
		case token.LAND:
			return "(" + gccLabelCond(what, x.X, labels) + " && " + gccLabelCond(what, x.Y, labels) + ")"
		case token.LOR:
			return "(" + gccLabelCond(what, x.X, labels) + " || " + gccLabelCond(what, x.Y, labels) + ")"
		case token.EQL, token.NEQ:
			a, okA := labels[types.ExprString(x.X)]
			b, okB := labels[types.ExprString(x.Y)]
			if okA && okB {
				t := "(eqb " + a + " " + b + ")"
				if x.Op == token.NEQ {
					t = "(negb " + t + ")"
				}
				return t
			}
		}
	}
	failShape("%s: the sub-expression `%s` is not a comparison of labels the C25 model knows (%v)", what, types.ExprString(e), gccKeys(labels))
	return ""
}

func gccKeys(m map[string]string) []string {
	out := []string{}
	for k := range m {
		out = append(out, k)
	}
	return out
}

type gccCond struct {
	name   string            // Gallina function
	params []string          // its parameters, in order
	atoms  map[string]string // Go text -> parameter
	doc    string
}

func gccPin(what, got, want string) {
	want = strings.TrimSpace(gccWS.ReplaceAllString(want, " "))
	if got != want {
		failShape("%s does not have the shape the C25 model was written from.\n  expected: %s\n  found:    %s", what, want, got)
	}
}

func init() {
	targets["GcConds"] = func() string {
		fset, f := parseFile("src/gc/gc.go")

		// ---- targetsToRemove: translate the conditions, pin the skeleton ------------------------
		fd := findFunc(f, "", "targetsToRemove")
		gccDropLogs(fd.Body)
		var ifs []*ast.IfStmt
		ast.Inspect(fd.Body, func(x ast.Node) bool {
			if s, ok := x.(*ast.IfStmt); ok {
				ifs = append(ifs, s)
			}
			return true
		})
		// the decision conditions, by position among the if statements of the function
		conds := map[int]gccCond{
			0: {"root_cond", []string{"is_binary", "is_test", "include_tests", "has_keep_label", "named", "in_subrepo"},
				map[string]string{"target.IsBinary": "is_binary", "target.IsTest()": "is_test", "includeTests": "include_tests",
					"target.HasAnyLabel(keepLabels)": "has_keep_label", "anyInclude(targetsToKeep, target.Label)": "named",
					`target.Label.Subrepo != ""`: "in_subrepo"},
				"a target of the graph is a GC root"},
			3: {"tests_pass_cond", []string{"include_tests"}, map[string]string{"includeTests": "include_tests"},
				"the pass over the tests runs"},
			5: {"keep_test_cond", []string{"kept", "test_only"}, map[string]string{"keepTargets[dep]": "kept", "dep.TestOnly": "test_only"},
				"a test is kept because of this public dependency"},
			6: {"keep_testonly_cond", []string{"kept", "test_only"}, map[string]string{"keepTargets[dep]": "kept", "dep.TestOnly": "test_only"},
				"(else) the public dependency of a test is kept itself"},
			7: {"remove_cond", []string{"has_parent", "kept", "included"},
				map[string]string{"sibling.HasParent()": "has_parent", "keepTargets[sibling]": "kept", "isIncluded(sibling, filter)": "included"},
				"a target is proposed for removal (all about its gc sibling)"},
			8: {"remove_src_cond", []string{"kept_src"}, map[string]string{"keepSrcs[src]": "kept_src"},
				"a source of a removed target is proposed for deletion"},
		}
		if len(ifs) != 9 {
			failShape("targetsToRemove has %d if statements, the C25 model was written from 9", len(ifs))
		}
		var out strings.Builder
		out.WriteString("From Coq Require Import Bool.\nOpen Scope bool_scope.\n")
		out.WriteString("(* property C25: the decision conditions of targetsToRemove (src/gc/gc.go), translated from the Go\n   expressions; see harness/cmd/gotrans/gcconds.go *)\nModule GcConds.\n")
		for i, s := range ifs {
			c, ok := conds[i]
			if !ok {
				continue
			}
			term := gccBool(c.name, s.Cond, c.atoms)
			fmt.Fprintf(&out, "(* %s:  %s *)\nDefinition %s (%s : bool) : bool := %s.\n", c.doc, types.ExprString(s.Cond), c.name, strings.Join(c.params, " "), term)
		}
		for i, s := range ifs {
			s.Cond = ast.NewIdent(fmt.Sprintf("C%d", i))
		}
		// conditions 1, 2, 4 are plain atoms and stay in the skeleton text
		ifs[1].Cond = ast.NewIdent("target_IsAllSubpackages")
		ifs[2].Cond = ast.NewIdent("pkg_IsIncludedIn_target")
		ifs[4].Cond = ast.NewIdent("target_IsTest")
		// (the original texts of 1, 2, 4 were checked just below, before being replaced)
		_ = ifs
		gccPin("targetsToRemove (skeleton)", gccText(fset, fd.Body), `{
			keepTargets := targetMap{}
			for _, target := range graph.AllTargets() { if C0 { addTarget(graph, keepTargets, target) } }
			for _, pkg := range graph.PackageMap() {
				for _, subinclude := range pkg.Subincludes { addTarget(graph, keepTargets, graph.TargetOrDie(subinclude)) } }
			for _, target := range targets {
				if target_IsAllSubpackages {
					for _, pkg := range graph.PackageMap() {
						if pkg_IsIncludedIn_target {
							for _, target := range pkg.AllTargets() { addTarget(graph, keepTargets, target) } } }
				} else { addTarget(graph, keepTargets, graph.Target(target)) } }
			if C3 {
				for _, target := range graph.AllTargets() {
					if target_IsTest {
						for _, dep := range publicDependencies(graph, target) {
							if C5 { addTarget(graph, keepTargets, target)
							} else if C6 { addTarget(graph, keepTargets, dep) } } } } }
			keepSrcs := map[string]bool{}
			for target := range keepTargets { for _, src := range target.AllLocalSourcePaths() { keepSrcs[src] = true } }
			ret := make(core.BuildLabels, 0, len(keepTargets))
			retSrcs := []string{}
			for _, target := range graph.AllTargets() {
				if sibling := gcSibling(graph, target); C7 {
					ret = append(ret, target.Label)
					for _, src := range target.AllLocalSourcePaths() { if C8 { retSrcs = append(retSrcs, src) } } } }
			sort.Sort(ret)
			sort.Strings(retSrcs)
			return ret, retSrcs }`)

		// the three atom conditions, re-read from a fresh parse (the AST above was rewritten)
		fset2, f2 := parseFile("src/gc/gc.go")
		var ifs2 []*ast.IfStmt
		ast.Inspect(findFunc(f2, "", "targetsToRemove").Body, func(x ast.Node) bool {
			if s, ok := x.(*ast.IfStmt); ok {
				ifs2 = append(ifs2, s)
			}
			return true
		})
		for i, want := range map[int]string{1: "target.IsAllSubpackages()", 2: "pkg.IsIncludedIn(target)", 4: "target.IsTest()"} {
			if got := types.ExprString(ifs2[i].Cond); got != want {
				failShape("targetsToRemove: condition %d is `%s`, the C25 model was written from `%s`", i, got, want)
			}
		}

		// ---- the small functions: pinned completely -------------------------------------------------
		pin := func(name, want string) {
			d := findFunc(f2, "", name)
			gccDropLogs(d.Body)
			gccPin(name, gccText(fset2, d.Body), want)
		}
		pin("addTarget", `{
			if m[target] || target == nil { return }
			m[target] = true
			for _, dep := range target.DeclaredDependencies() { addTarget(graph, m, graph.Target(dep)) }
			for _, dep := range target.Dependencies() { addTarget(graph, m, dep) }
			if target.Subrepo != nil && target.Subrepo.Target != nil { addTarget(graph, m, target.Subrepo.Target) } }`)
		// publicDependencies: the condition "this dependency is a hidden sub-target of my own rule, look
		// through it" is translated (over an abstract label type: the model instantiates eqb and parent
		// with its BuildLabel == and BuildLabel.Parent); everything around it is pinned
		{
			var pifs []*ast.IfStmt
			ast.Inspect(findFunc(f2, "", "publicDependencies").Body, func(x ast.Node) bool {
				if s, ok := x.(*ast.IfStmt); ok {
					pifs = append(pifs, s)
				}
				return true
			})
			if len(pifs) != 3 {
				failShape("publicDependencies has %d if statements, the C25 model was written from 3", len(pifs))
			}
			term := gccLabelCond("same_rule_cond", pifs[1].Cond, map[string]string{
				"depTarget.Label.Parent()": "(parent dep)", "target.Label.Parent()": "(parent target)",
				"depTarget.Label": "dep", "target.Label": "target"})
			fmt.Fprintf(&out, "(* publicDependencies looks through this dependency (a hidden sub-target of the same rule):  %s *)\n"+
				"Definition same_rule_cond {L : Type} (eqb : L -> L -> bool) (parent : L -> L) (dep target : L) : bool := %s.\n",
				types.ExprString(pifs[1].Cond), term)
			pifs[1].Cond = ast.NewIdent("SAME_RULE")
		}
		out.WriteString("End GcConds.\n")
		pin("publicDependencies", `{
			ret := []*core.BuildTarget{}
			for _, dep := range target.DeclaredDependencies() {
				if depTarget := graph.Target(dep); depTarget != nil {
					if SAME_RULE {
						ret = append(ret, publicDependencies(graph, depTarget)...)
					} else { ret = append(ret, depTarget) } } }
			if target.Subrepo != nil && target.Subrepo.Target != nil { ret = append(ret, target.Subrepo.Target) }
			return ret }`)
		pin("gcSibling", `{
			for _, l := range t.PrefixedLabels("gc_sibling:") {
				if t2 := graph.Target(core.NewBuildLabel(t.Label.PackageName, l)); t2 != nil { return t2 } }
			return t }`)
		pin("isIncluded", `{
			if len(filter) == 0 { return true }
			for _, f := range filter { if f.Includes(target.Label) { return true } }
			return false }`)
		pin("anyInclude", `{
			for _, l := range labels { if l.Includes(label) { return true } }
			return false }`)
		return out.String()
	}
}

// ---------------------------------------------------------------------------------------------------
// GcPkgMap (property C25, follow-up 2): the package side of the graph that targetsToRemove enumerates
// its roots over.  gc.go ranges over graph.PackageMap() - twice - to find every package's subincludes
// and to expand a named `//pkg/...` root; a package that PackageMap() loses is a set of roots lost.
//
//   - the key PackageMap() files a package under (src/core/graph.go) is TRANSLATED into the Gallina
//     function pkgmap_key over the package's subrepo name and name;
//   - packageKey.String() (src/core/build_label.go), which that key expression calls, is TRANSLATED
//     into package_key_string (an if/return chain over string comparisons and concatenations);
//   - the key AddPackage stores a package under (the packageKey struct: a pair) is TRANSLATED into
//     store_key;
//   - the statements around them (the loop of PackageMap, the Add-or-panic of AddPackage) are pinned.
//
// Proof/C25_PkgMap.v proves, about these generated functions, that PackageMap() loses no package of
// the graph (pkgmap_key is injective on well-formed names that differ as store keys).

// gccStrExpr translates a Go string expression into a Gallina term of type str.  Understood: string
// literals, +, parentheses, the given atoms, and packageKey{Subrepo: a, Name: b}.String().
func gccStrExpr(what string, e ast.Expr, atoms map[string]string) string {
	switch x := e.(type) {
	case *ast.ParenExpr:
		return gccStrExpr(what, x.X, atoms)
	case *ast.BasicLit:
		if x.Kind == token.STRING {
			return "(s " + coqString(unquote(x)) + ")"
		}
	case *ast.BinaryExpr:
		if x.Op == token.ADD {
			return "(" + gccStrExpr(what, x.X, atoms) + " ++ " + gccStrExpr(what, x.Y, atoms) + ")"
		}
	case *ast.CallExpr:
		if sel, ok := x.Fun.(*ast.SelectorExpr); ok && sel.Sel.Name == "String" && len(x.Args) == 0 {
			if cl, ok := sel.X.(*ast.CompositeLit); ok {
				sub, name := gccPackageKeyLit(what, cl, atoms)
				return "(package_key_string " + sub + " " + name + ")"
			}
		}
	}
	txt := types.ExprString(e)
	if v, ok := atoms[txt]; ok {
		return v
	}
	failShape("%s: the sub-expression `%s` is not a string expression the C25 model knows (%v)", what, txt, gccKeys(atoms))
	return ""
}

// gccPackageKeyLit reads packageKey{Subrepo: a, Name: b} (keyed fields, any order, a missing field is
// the empty string) and returns the translated (subrepo, name).
func gccPackageKeyLit(what string, cl *ast.CompositeLit, atoms map[string]string) (sub, name string) {
	if id, ok := cl.Type.(*ast.Ident); !ok || id.Name != "packageKey" {
		failShape("%s: composite literal of type %s, expected packageKey", what, types.ExprString(cl.Type))
	}
	sub, name = `(s "")`, `(s "")`
	seen := map[string]bool{}
	for _, el := range cl.Elts {
		kv, ok := el.(*ast.KeyValueExpr)
		if !ok {
			failShape("%s: packageKey literal with positional fields", what)
		}
		k, ok := kv.Key.(*ast.Ident)
		if !ok || seen[k.Name] {
			failShape("%s: packageKey literal with an unreadable or repeated field", what)
		}
		seen[k.Name] = true
		switch k.Name {
		case "Subrepo":
			sub = gccStrExpr(what, kv.Value, atoms)
		case "Name":
			name = gccStrExpr(what, kv.Value, atoms)
		default:
			failShape("%s: packageKey has no field %s in the C25 model", what, k.Name)
		}
	}
	return sub, name
}

// gccStrCond translates a boolean expression over comparisons of string expressions.
func gccStrCond(what string, e ast.Expr, atoms map[string]string) string {
	switch x := e.(type) {
	case *ast.ParenExpr:
		return gccStrCond(what, x.X, atoms)
	case *ast.UnaryExpr:
		if x.Op == token.NOT {
			return "(negb " + gccStrCond(what, x.X, atoms) + ")"
		}
	case *ast.BinaryExpr:
		switch x.Op {
		case token.LAND:
			return "(" + gccStrCond(what, x.X, atoms) + " && " + gccStrCond(what, x.Y, atoms) + ")"
		case token.LOR:
			return "(" + gccStrCond(what, x.X, atoms) + " || " + gccStrCond(what, x.Y, atoms) + ")"
		case token.EQL:
			return "(str_eqb " + gccStrExpr(what, x.X, atoms) + " " + gccStrExpr(what, x.Y, atoms) + ")"
		case token.NEQ:
			return "(negb (str_eqb " + gccStrExpr(what, x.X, atoms) + " " + gccStrExpr(what, x.Y, atoms) + "))"
		}
	}
	failShape("%s: the condition `%s` is not a comparison of strings the C25 model knows", what, types.ExprString(e))
	return ""
}

// gccReturnChain translates `if c1 { return e1 } ... return en` into nested Gallina ifs.
func gccReturnChain(what string, stmts []ast.Stmt, atoms map[string]string) string {
	if len(stmts) == 0 {
		failShape("%s: falls off the end without a return", what)
	}
	switch x := stmts[0].(type) {
	case *ast.ReturnStmt:
		if len(x.Results) != 1 || len(stmts) != 1 {
			failShape("%s: a return that is not the last statement or does not return one value", what)
		}
		return gccStrExpr(what, x.Results[0], atoms)
	case *ast.IfStmt:
		if x.Init != nil || x.Else != nil {
			failShape("%s: an if statement with an initialiser or an else branch", what)
		}
		return "(if " + gccStrCond(what, x.Cond, atoms) + " then " + gccReturnChain(what, x.Body.List, atoms) +
			" else " + gccReturnChain(what, stmts[1:], atoms) + ")"
	}
	failShape("%s: statement `%T` is neither `if c { return e }` nor `return e`", what, stmts[0])
	return ""
}

func init() {
	targets["GcPkgMap"] = func() string {
		var out strings.Builder
		out.WriteString("From PlzV Require Import Base.Harness.\n")
		out.WriteString("(* property C25: the keys BuildGraph.AddPackage / BuildGraph.PackageMap() (src/core/graph.go) file a package\n" +
			"   under and packageKey.String() (src/core/build_label.go), translated from the Go expressions;\n" +
			"   see harness/cmd/gotrans/gcconds.go *)\nModule GcPkgMap.\n")

		// ---- packageKey.String() ----------------------------------------------------------------------
		_, fl := parseFile("src/core/build_label.go")
		ks := findFunc(fl, "packageKey", "String")
		if ks.Recv.List[0].Names == nil || len(ks.Recv.List[0].Names) != 1 || ks.Recv.List[0].Names[0].Name != "key" {
			failShape("packageKey.String: the receiver is not called `key`")
		}
		if _, isPtr := ks.Recv.List[0].Type.(*ast.StarExpr); isPtr {
			failShape("packageKey.String: pointer receiver")
		}
		keyAtoms := map[string]string{"key.Subrepo": "sub", "key.Name": "name"}
		fmt.Fprintf(&out, "(* packageKey.String() *)\nDefinition package_key_string (sub name : str) : str := %s.\n",
			gccReturnChain("packageKey.String", ks.Body.List, keyAtoms))
		// the struct itself: two string fields, nothing else takes part in the identity of a package
		found := false
		for _, d := range fl.Decls {
			gd, ok := d.(*ast.GenDecl)
			if !ok || gd.Tok != token.TYPE {
				continue
			}
			for _, sp := range gd.Specs {
				ts := sp.(*ast.TypeSpec)
				if ts.Name.Name != "packageKey" {
					continue
				}
				found = true
				st, ok := ts.Type.(*ast.StructType)
				if !ok {
					failShape("packageKey is not a struct")
				}
				fields := []string{}
				for _, fld := range st.Fields.List {
					if id, ok := fld.Type.(*ast.Ident); !ok || id.Name != "string" {
						failShape("packageKey has a field that is not a string")
					}
					for _, n := range fld.Names {
						fields = append(fields, n.Name)
					}
				}
				sortStrings(fields)
				if strings.Join(fields, ",") != "Name,Subrepo" {
					failShape("packageKey has the fields %v, the C25 model was written from Name, Subrepo", fields)
				}
			}
		}
		if !found {
			failShape("type packageKey not found in src/core/build_label.go")
		}

		// ---- PackageMap() and AddPackage --------------------------------------------------------------
		fset, fg := parseFile("src/core/graph.go")
		pkgAtoms := map[string]string{"pkg.SubrepoName": "sub", "pkg.Name": "name"}
		pm := findFunc(fg, "BuildGraph", "PackageMap")
		var keyExpr ast.Expr
		ast.Inspect(pm.Body, func(x ast.Node) bool {
			if as, ok := x.(*ast.AssignStmt); ok && len(as.Lhs) == 1 && len(as.Rhs) == 1 {
				if ix, ok := as.Lhs[0].(*ast.IndexExpr); ok {
					if keyExpr != nil {
						failShape("PackageMap: more than one map assignment")
					}
					keyExpr = ix.Index
					ix.Index = ast.NewIdent("KEY")
				}
			}
			return true
		})
		if keyExpr == nil {
			failShape("PackageMap: no map assignment found")
		}
		fmt.Fprintf(&out, "(* BuildGraph.PackageMap() files pkg under:  %s *)\nDefinition pkgmap_key (sub name : str) : str := %s.\n",
			gccText(fset, keyExpr), gccStrExpr("PackageMap key", keyExpr, pkgAtoms))
		gccPin("BuildGraph.PackageMap (skeleton)", gccText(fset, pm.Body), `{
			packages := map[string]*Package{}
			for _, pkg := range graph.packages.Values() { packages[KEY] = pkg }
			return packages }`)

		ap := findFunc(fg, "BuildGraph", "AddPackage")
		if len(ap.Body.List) == 0 {
			failShape("AddPackage: empty body")
		}
		as, ok := ap.Body.List[0].(*ast.AssignStmt)
		if !ok || len(as.Lhs) != 1 || len(as.Rhs) != 1 || types.ExprString(as.Lhs[0]) != "key" {
			failShape("AddPackage: the first statement is not `key := ...`")
		}
		cl, ok := as.Rhs[0].(*ast.CompositeLit)
		if !ok {
			failShape("AddPackage: key is not a packageKey literal")
		}
		ssub, sname := gccPackageKeyLit("AddPackage key", cl, pkgAtoms)
		fmt.Fprintf(&out, "(* BuildGraph.AddPackage stores pkg under the struct (compared field by field):  %s *)\n"+
			"Definition store_key (sub name : str) : str * str := (%s, %s).\n", gccText(fset, as.Rhs[0]), ssub, sname)
		as.Rhs[0] = ast.NewIdent("KEY")
		gccPin("BuildGraph.AddPackage (skeleton)", gccText(fset, ap.Body), `{
			key := KEY
			if !graph.packages.Add(key, pkg) { panic("Attempt to re-add existing package: " + key.String()) } }`)
		out.WriteString("End GcPkgMap.\n")
		return out.String()
	}
}

func sortStrings(xs []string) {
	for i := 1; i < len(xs); i++ {
		for j := i; j > 0 && xs[j] < xs[j-1]; j-- {
			xs[j], xs[j-1] = xs[j-1], xs[j]
		}
	}
}
