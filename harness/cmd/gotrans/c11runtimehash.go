package main

import (
	"bytes"
	"fmt"
	"go/ast"
	"go/printer"
	"go/token"
	"go/types"
	"regexp"
	"strings"
)

// C11RuntimeHash (property C11).
//
//   - src/build/incrementality.go RuntimeHash: what the loop over core.IterRuntimeFiles writes into the
//     hash per runtime file is TRANSLATED into Gen/C11RuntimeHash.v (`loop_writes`): the digest of the
//     path (WPathHash) and/or a name of the path (WPathName), and HOW the per-file values reach the combining
//     hash (`files_combine`): directly, in iteration order (CInOrder), or through a slice that is sorted before
//     it is written out (CSorted).  Model/C11.v builds the runtime key from both.
//   - src/test/test_step.go: the closures needToRun and cacheOutputFiles of test(), the guard around the
//     call of cacheOutputFiles and the reuse condition are pinned (log calls dropped) to the text
//     Model/C11.v `test_step` was written from.
//   - src/core/utils.go IterRuntimeFiles: the order of its sections (outputs, run-time dependencies, data,
//     test tools, debug) and pushOut's de-duplication on the destination are pinned.
//
// Anything else fails closed.

var c11WS = regexp.MustCompile(`\s+`)

func c11IsLogCall(s ast.Stmt) bool {
	es, ok := s.(*ast.ExprStmt)
	if !ok {
		return false
	}
	call, ok := es.X.(*ast.CallExpr)
	if !ok {
		return false
	}
	sel, ok := call.Fun.(*ast.SelectorExpr)
	if !ok {
		return false
	}
	id, ok := sel.X.(*ast.Ident)
	return ok && id.Name == "log" && strings.HasPrefix(sel.Sel.Name, "Debug")
}

func c11DropLogs(n ast.Node) {
	ast.Inspect(n, func(x ast.Node) bool {
		if b, ok := x.(*ast.BlockStmt); ok {
			out := b.List[:0:0]
			for _, s := range b.List {
				if !c11IsLogCall(s) {
					out = append(out, s)
				}
			}
			b.List = out
		}
		return true
	})
}

// c11DropWarnings removes log.Warning(...) statements.
func c11DropWarnings(n ast.Node) {
	ast.Inspect(n, func(x ast.Node) bool {
		if b, ok := x.(*ast.BlockStmt); ok {
			out := b.List[:0:0]
			for _, s := range b.List {
				keep := true
				if es, ok := s.(*ast.ExprStmt); ok {
					if call, ok := es.X.(*ast.CallExpr); ok && strings.HasPrefix(types.ExprString(call.Fun), "log.Warning") {
						keep = false
					}
				}
				if keep {
					out = append(out, s)
				}
			}
			b.List = out
		}
		return true
	})
}

func c11Text(fset *token.FileSet, n ast.Node) string {
	var b bytes.Buffer
	if err := (&printer.Config{Mode: printer.RawFormat}).Fprint(&b, fset, n); err != nil {
		failShape("cannot print node: %v", err)
	}
	// comments are not printed for sub-nodes; normalise white space
	return strings.TrimSpace(c11WS.ReplaceAllString(b.String(), " "))
}

func c11Norm(want string) string { return strings.TrimSpace(c11WS.ReplaceAllString(want, " ")) }

func c11CoqBytes(x string) string {
	parts := []string{}
	for i := 0; i < len(x); i++ {
		parts = append(parts, fmt.Sprint(x[i]))
	}
	return "[" + strings.Join(parts, "; ") + "]%N"
}

func c11Pin(what, got, want string) {
	want = strings.TrimSpace(c11WS.ReplaceAllString(want, " "))
	if got != want {
		failShape("%s does not have the shape the C11 model was written from.\n  expected: %s\n  found:    %s", what, want, got)
	}
}

// c11Closure finds `name := func(...) ... { ... }` directly inside the body of fd.
func c11Closure(fd *ast.FuncDecl, name string) *ast.FuncLit {
	for _, st := range fd.Body.List {
		as, ok := st.(*ast.AssignStmt)
		if !ok || as.Tok != token.DEFINE || len(as.Lhs) != 1 || len(as.Rhs) != 1 {
			continue
		}
		if id, ok := as.Lhs[0].(*ast.Ident); ok && id.Name == name {
			if fl, ok := as.Rhs[0].(*ast.FuncLit); ok {
				return fl
			}
		}
	}
	failShape("closure %s not found in %s", name, fd.Name.Name)
	return nil
}

func init() {
	targets["C11RuntimeHash"] = func() string {
		// ---- RuntimeHash ----
		fset, f := parseFile("src/build/incrementality.go")
		fd := findFunc(f, "", "RuntimeHash")
		// The loop over core.IterRuntimeFiles is TRANSLATED: per runtime file it either writes into the combining hash
		// directly (the digests are combined in iteration order: files_combine = CInOrder) or appends to a slice that a
		// second loop writes out later; a sort of that slice between the two loops makes files_combine = CSorted
		// (the file part becomes a hash of the multiset of contents).
		var loop, outLoop *ast.RangeStmt
		loopIdx := -1
		for i, st := range fd.Body.List {
			if rs, ok := st.(*ast.RangeStmt); ok {
				switch {
				case loop == nil:
					loop, loopIdx = rs, i
				case outLoop == nil:
					outLoop = rs
				default:
					failShape("RuntimeHash: more than two range loops")
				}
			}
		}
		if loop == nil {
			failShape("RuntimeHash: no range loop")
		}
		call, ok := loop.X.(*ast.CallExpr)
		if !ok || !strings.HasSuffix(types.ExprString(call.Fun), "IterRuntimeFiles") {
			failShape("RuntimeHash: the loop does not range over core.IterRuntimeFiles but over %s", types.ExprString(loop.X))
		}
		names := map[string]bool{}
		if id, ok := loop.Key.(*ast.Ident); ok && id.Name != "_" {
			names[id.Name] = true
		}
		if loop.Value != nil {
			if id, ok := loop.Value.(*ast.Ident); ok && id.Name != "_" {
				names[id.Name] = true
			}
		}
		hashVar := ""
		writes := []string{}
		collected := "" // the slice the per-file values are appended to, when they are not written directly
		direct := false
		classify := func(arg string) string {
			switch {
			case arg == hashVar && hashVar != "":
				return "WPathHash"
			case strings.HasPrefix(arg, "[]byte(") && names[strings.TrimSuffix(strings.TrimPrefix(arg, "[]byte("), ")")]:
				return "WPathName"
			}
			failShape("RuntimeHash loop: %s is neither the path digest nor a path name", arg)
			return ""
		}
		for i, st := range loop.Body.List {
			switch x := st.(type) {
			case *ast.AssignStmt:
				if i == 0 {
					if len(x.Lhs) != 2 || len(x.Rhs) != 1 {
						failShape("RuntimeHash loop: unexpected assignment %s", c11Text(fset, x))
					}
					c11Pin("RuntimeHash loop: the path hash call", c11Text(fset, x.Rhs[0]), "state.PathHasher.Hash(src, false, true, false)")
					hashVar = x.Lhs[0].(*ast.Ident).Name
					continue
				}
				// <slice> = append(<slice>, <value>)
				ap, ok := x.Rhs[0].(*ast.CallExpr)
				if !ok || x.Tok != token.ASSIGN || len(x.Lhs) != 1 || len(x.Rhs) != 1 || types.ExprString(ap.Fun) != "append" || len(ap.Args) != 2 ||
					ap.Ellipsis.IsValid() || types.ExprString(ap.Args[0]) != types.ExprString(x.Lhs[0]) {
					failShape("RuntimeHash loop: unexpected assignment %s", c11Text(fset, x))
				}
				if _, ok := x.Lhs[0].(*ast.Ident); !ok || (collected != "" && collected != types.ExprString(x.Lhs[0])) || direct {
					failShape("RuntimeHash loop: per-file values go to more than one place (%s)", c11Text(fset, x))
				}
				collected = types.ExprString(x.Lhs[0])
				writes = append(writes, classify(types.ExprString(ap.Args[1])))
			case *ast.IfStmt:
				c11Pin("RuntimeHash loop: the error check", c11Text(fset, x), "if err != nil { return result, err }")
			case *ast.ExprStmt:
				c, ok := x.X.(*ast.CallExpr)
				if !ok || types.ExprString(c.Fun) != "h.Write" || len(c.Args) != 1 {
					failShape("RuntimeHash loop: unexpected statement %s", c11Text(fset, x))
				}
				if collected != "" {
					failShape("RuntimeHash loop: per-file values go to more than one place (%s)", c11Text(fset, x))
				}
				direct = true
				writes = append(writes, classify(types.ExprString(c.Args[0])))
			default:
				failShape("RuntimeHash loop: unexpected statement %s", c11Text(fset, st))
			}
		}
		combine := "CInOrder"
		if collected == "" {
			if outLoop != nil {
				failShape("RuntimeHash: a second range loop (over %s) although the first writes into the hash directly", types.ExprString(outLoop.X))
			}
		} else {
			// the slice must be written out, element by element, by the second loop - and nothing but a sort may touch it in between
			if outLoop == nil || types.ExprString(outLoop.X) != collected {
				failShape("RuntimeHash: the per-file values are collected in %s but no later loop ranges over it", collected)
			}
			val, ok := outLoop.Value.(*ast.Ident)
			if !ok || len(outLoop.Body.List) != 1 || c11Text(fset, outLoop.Body.List[0]) != "h.Write("+val.Name+")" {
				failShape("RuntimeHash: the loop over %s is not `for _, x := range %s { h.Write(x) }`: %s", collected, collected, c11Text(fset, outLoop))
			}
			if k, ok := outLoop.Key.(*ast.Ident); outLoop.Key != nil && (!ok || k.Name != "_") {
				failShape("RuntimeHash: the loop over %s uses its index", collected)
			}
			for _, st := range fd.Body.List[loopIdx+1:] {
				if st == ast.Stmt(outLoop) {
					break
				}
				txt := c11Text(fset, st)
				switch {
				case txt == "h := sha1.New()":
				case strings.HasPrefix(txt, "sort.Slice("+collected+",") || strings.HasPrefix(txt, "sort.SliceStable("+collected+",") ||
					strings.HasPrefix(txt, "slices.SortFunc("+collected+","):
					combine = "CSorted"
				default:
					failShape("RuntimeHash: unrecognised statement between the two loops: %s", txt)
				}
			}
		}
		// the frame around the loop
		c11Pin("RuntimeHash: first statement", c11Text(fset, fd.Body.List[0]),
			"hash := append(RuleHash(state, target, true, false), RuleHash(state, target, true, true)...)")
		c11Pin("RuntimeHash: result", c11Text(fset, fd.Body.List[len(fd.Body.List)-1]), "return append(hash, h.Sum(nil)...), nil")

		// ---- test(): needToRun, cacheOutputFiles, the reuse and store conditions ----
		tfset, tf := parseFile("src/test/test_step.go")
		tfd := findFunc(tf, "", "test")
		c11DropLogs(tfd)
		// needToRun: the leading `if <guard> { return true }` statements are TRANSLATED into Gen `need_to_run_guards`
		// (Model/C11.v interprets them: a run that one of them catches never reuses a result); the rest is pinned.
		ntr := c11Closure(tfd, "needToRun").Body.List
		runGuards := []string{}
		for len(ntr) > 0 {
			switch c11Text(tfset, ntr[0]) {
			case c11Norm(`if state.ForceRerun { return true }`):
				runGuards = append(runGuards, "NGForceRerun")
			case c11Norm(`if len(state.TestArgs) > 0 { return true }`):
				runGuards = append(runGuards, "NGArgs")
			default:
				goto guardsDone
			}
			ntr = ntr[1:]
		}
	guardsDone:
		c11Pin("needToRun (after its leading guards)", c11Text(tfset, &ast.BlockStmt{List: ntr}), `{
			if s := target.State(); (s == core.Unchanged || s == core.Reused) && core.PathExists(target.TestResultsFile()) {
				if needCoverage && !verifyHash(state, target.CoverageFile(), hash) {
					return true
				} else if !verifyHash(state, target.TestResultsFile(), hash) {
					return true
				}
				return false
			}
			files := []string{filepath.Base(target.TestResultsFile())}
			if needCoverage { files = append(files, filepath.Base(target.CoverageFile())) }
			return !retrieveFromCache(state, target, hash, files)
		}`)
		// cacheOutputFiles is TRANSLATED: the order of its guards and effects becomes Gen `store_steps`, which
		// Model/C11.v interprets (a guard that comes after an effect no longer protects it).
		storeSteps := []string{}
		cof := c11Closure(tfd, "cacheOutputFiles").Body.List
		for i, st := range cof {
			txt := c11Text(tfset, st)
			switch txt {
			case c11Norm(`if len(state.TestArgs) > 0 { return false }`):
				storeSteps = append(storeSteps, "SGuardArgs")
			case c11Norm(`if results.Failures() > 0 { return false }`):
				storeSteps = append(storeSteps, "SGuardFailures")
			case c11Norm(`if err := moveOutputFile(state, hash, outputFile, target.TestResultsFile(), dummyOutput); err != nil {
				state.LogTestResult(target, run, core.TargetTestFailed, results, coverage, err, "Failed to move test output file")
				return false
			}`):
				storeSteps = append(storeSteps, "SMoveResults")
			case c11Norm(`if state.Cache != nil && !runRemotely {
				state.Cache.Store(target, hash, append(outs, filepath.Base(target.TestResultsFile())))
			}`):
				storeSteps = append(storeSteps, "SCacheStore")
			case "return true":
				if i != len(cof)-1 {
					failShape("cacheOutputFiles: `return true` is not the last statement")
				}
			default:
				failShape("cacheOutputFiles: unrecognised statement %s", txt)
			}
		}
		if len(cof) == 0 || c11Text(tfset, cof[len(cof)-1]) != "return true" {
			failShape("cacheOutputFiles does not end with `return true`")
		}
		reuse, store, remove := false, false, false
		for _, st := range tfd.Body.List {
			ifs, ok := st.(*ast.IfStmt)
			if !ok {
				continue
			}
			txt := c11Text(tfset, ifs)
			if strings.HasPrefix(txt, "if state.NumTestRuns == 1 && !runRemotely && !needToRun()") {
				c11Pin("the reuse branch of test()", txt, `if state.NumTestRuns == 1 && !runRemotely && !needToRun() {
					if cachedResults := cachedTestResults(); cachedResults != nil { target.Test.Results = cachedResults
					return } }`)
				reuse = true
			}
			if strings.HasPrefix(txt, "if err := RemoveTestOutputs(target); err != nil") {
				if !reuse {
					failShape("test(): RemoveTestOutputs comes before the reuse branch")
				}
				remove = true
			}
			if strings.HasPrefix(txt, "if state.NumTestRuns == 1 {") {
				if !remove {
					failShape("test(): the test runs before RemoveTestOutputs")
				}
				c11Pin("the single-run branch of test()", c11Text(tfset, ifs.Body), `{
					var results core.TestSuite
					results, coverage = doFlakeRun(state, target, run, runRemotely)
					target.AddTestResults(results)
					outs := moveOutputFiles(target.Test.Results, coverage)
					if target.Test.Results.TestCases.AllSucceeded() { cacheOutputFiles(target.Test.Results, coverage, outs) }
				}`)
				store = true
			}
		}
		if !reuse || !store {
			failShape("test(): reuse branch found=%v, single-run branch found=%v", reuse, store)
		}
		c11Pin("verifyHash", c11Text(tfset, findFunc(tf, "", "verifyHash").Body),
			"{ return bytes.Equal(hash, fs.ReadAttr(filename, xattrName, state.XattrsSupported)) }")
		rth := findFunc(tf, "", "runtimeHash")
		c11Pin("runtimeHash (tail)", c11Text(tfset, &ast.BlockStmt{List: rth.Body.List[len(rth.Body.List)-3:]}), `{
			hash, err := build.RuntimeHash(state, target, run)
			if err == nil { hash = core.CollapseHash(hash) }
			return hash, err
		}`)

		// ---- IterRuntimeFiles: pushOut and the order of the sections ----
		ufset, uf := parseFile("src/core/utils.go")
		ufd := findFunc(uf, "", "IterRuntimeFiles")
		ret, ok := ufd.Body.List[0].(*ast.ReturnStmt)
		if !ok || len(ufd.Body.List) != 1 {
			failShape("IterRuntimeFiles is not a single return of an iterator function")
		}
		body := ret.Results[0].(*ast.FuncLit).Body
		sections := []string{}
		for _, st := range body.List {
			switch x := st.(type) {
			case *ast.AssignStmt:
				if id, ok := x.Lhs[0].(*ast.Ident); ok && id.Name == "pushOut" {
					c11Pin("IterRuntimeFiles.pushOut", c11Text(ufset, x.Rhs[0].(*ast.FuncLit).Body), `{
						if absoluteOuts { out = filepath.Join(RepoRoot, runtimeDir, out) }
						if !done[out] { done[out] = true
						if !yield(src, out) { return false } }
						return true }`)
				}
			case *ast.RangeStmt:
				sections = append(sections, types.ExprString(x.X))
			case *ast.IfStmt:
				sections = append(sections, "if "+types.ExprString(x.Cond))
			}
		}
		want := []string{"target.Outputs()", "target.IterAllRuntimeDependencies(graph)", "target.AllData()", "if target.Test != nil", "if target.Debug != nil"}
		if strings.Join(sections, " | ") != strings.Join(want, " | ") {
			failShape("IterRuntimeFiles: sections are %v, the model was written for %v", sections, want)
		}

		// ---- ruleHash: what the runtime section writes for a test (TRANSLATED into `rule_test_writes`) ----
		rfd := findFunc(f, "", "ruleHash")
		var rt *ast.IfStmt
		for _, st := range rfd.Body.List {
			if ifs, ok := st.(*ast.IfStmt); ok && types.ExprString(ifs.Cond) == "runtime" {
				if rt != nil {
					failShape("ruleHash: more than one `if runtime` block")
				}
				rt = ifs
			}
		}
		if rt == nil || rt.Else != nil || len(rt.Body.List) != 2 {
			failShape("ruleHash: the `if runtime` block is not (data loop; if target.IsTest())")
		}
		c11Pin("ruleHash: the data loop of the runtime section", c11Text(fset, rt.Body.List[0]),
			`for _, datum := range target.AllData() { h.Write([]byte(datum.String())) }`)
		tst, ok := rt.Body.List[1].(*ast.IfStmt)
		if !ok || types.ExprString(tst.Cond) != "target.IsTest()" || tst.Else != nil {
			failShape("ruleHash: the runtime section does not end with `if target.IsTest() {...}`")
		}
		ruleWrites := []string{}
		for _, st := range tst.Body.List {
			switch txt := c11Text(fset, st); txt {
			case c11Norm(`for _, output := range target.Test.Outputs { h.Write([]byte(output)) }`):
				ruleWrites = append(ruleWrites, "RWTestOutputs")
			case "hashOptionalBool(h, target.Test.Sandbox)":
				ruleWrites = append(ruleWrites, "RWSandbox")
			case "h.Write([]byte(target.GetTestCommand(state)))":
				ruleWrites = append(ruleWrites, "RWTestCmdEffective")
			case "h.Write([]byte(target.Test.Command))":
				ruleWrites = append(ruleWrites, "RWTestCmdSingle")
			case "h.Write([]byte(target.Test.ArgsPlaceholder))":
				ruleWrites = append(ruleWrites, "RWArgsPlaceholder")
			default:
				failShape("ruleHash: unrecognised statement in the test part of the runtime section: %s", txt)
			}
		}

		// ---- BuildTarget.getCommand: the order in which a per-config command is chosen (TRANSLATED) ----
		bfset, bf := parseFile("src/core/build_target.go")
		c11Pin("GetTestCommand", c11Text(bfset, findFunc(bf, "BuildTarget", "GetTestCommand").Body),
			"{ return target.getCommand(state, target.Test.Commands, target.Test.Command) }")
		gc := findFunc(bf, "BuildTarget", "getCommand")
		c11DropWarnings(gc)
		if len(gc.Body.List) != 5 {
			failShape("getCommand: %d statements, the model was written for an if-chain followed by the highest-key loop", len(gc.Body.List))
		}
		choices := []string{}
		chain, ok := gc.Body.List[0].(*ast.IfStmt)
		if !ok || c11Text(bfset, chain.Cond) != "commands == nil" || c11Text(bfset, chain.Body) != "{ return singleCommand }" {
			failShape("getCommand does not start with `if commands == nil { return singleCommand }`")
		}
		for e := chain.Else; e != nil; {
			ifs, ok := e.(*ast.IfStmt)
			if !ok || ifs.Init == nil || c11Text(bfset, ifs.Cond) != "present" || c11Text(bfset, ifs.Body) != "{ return command }" {
				failShape("getCommand: unrecognised branch %s", c11Text(bfset, e))
			}
			switch c11Text(bfset, ifs.Init) {
			case "command, present := commands[state.Config.Build.Config]":
				choices = append(choices, "ChActive")
			case "command, present := commands[state.Config.Build.FallbackConfig]":
				choices = append(choices, "ChFallback")
			default:
				failShape("getCommand: unrecognised lookup %s", c11Text(bfset, ifs.Init))
			}
			e = ifs.Else
		}
		c11Pin("getCommand: the highest-key fallback", c11Text(bfset, &ast.BlockStmt{List: gc.Body.List[1:]}), `{
			highestCommand := ""
			highestConfig := ""
			for config, command := range commands {
				if config > highestConfig { highestConfig = config
				highestCommand = command }
			}
			return highestCommand
		}`)
		choices = append(choices, "ChHighest")

		// ---- core.TestCommand: test arguments are appended to the command (no placeholder) ----
		cfset, cf := parseFile("src/core/command_replacements.go")
		tcf := findFunc(cf, "", "TestCommand")
		c11Pin("core.TestCommand", c11Text(cfset, tcf.Body), `{
			cmd, err := ReplaceTestSequences(state, target, target.GetTestCommand(state))
			if err != nil { return cmd, err }
			if target.Test != nil && target.Test.ArgsPlaceholder != "" {
				placeholder := target.Test.ArgsPlaceholder
				if !strings.Contains(cmd, placeholder) {
					return "", fmt.Errorf("command %q does not contain expected arguments placeholder %q", cmd, target.Test.ArgsPlaceholder)
				}
				args := ""
				if len(state.TestArgs) > 0 { args = strings.Join(state.TestArgs, " ") }
				cmd = strings.ReplaceAll(cmd, placeholder, args)
			} else if len(state.TestArgs) > 0 {
				cmd += " " + strings.Join(state.TestArgs, " ")
			}
			return cmd, nil
		}`)

		// ---- the default build config and fallback config (src/core/config.go DefaultConfiguration) ----
		_, gf := parseFile("src/core/config.go")
		defaults := map[string]string{}
		ast.Inspect(findFunc(gf, "", "DefaultConfiguration"), func(n ast.Node) bool {
			as, ok := n.(*ast.AssignStmt)
			if !ok || len(as.Lhs) != 1 || len(as.Rhs) != 1 {
				return true
			}
			lhs := types.ExprString(as.Lhs[0])
			if lhs == "config.Build.Config" || lhs == "config.Build.FallbackConfig" {
				lit, ok := as.Rhs[0].(*ast.BasicLit)
				if !ok || lit.Kind != token.STRING {
					failShape("DefaultConfiguration: %s is not set to a string literal", lhs)
				}
				if _, dup := defaults[lhs]; dup {
					failShape("DefaultConfiguration: %s is set twice", lhs)
				}
				defaults[lhs] = strings.Trim(lit.Value, "\"")
			}
			return true
		})
		if len(defaults) != 2 {
			failShape("DefaultConfiguration does not set both Build.Config and Build.FallbackConfig (found %v)", defaults)
		}

		// ---- filegroupBuilder.Build: the "same file" branch marks the output as never-read-xattrs (CopyHash) ----
		gfset, ff := parseFile("src/build/filegroup.go")
		sameCopies := false
		ast.Inspect(findFunc(ff, "filegroupBuilder", "Build"), func(n ast.Node) bool {
			ifs, ok := n.(*ast.IfStmt)
			if !ok || types.ExprString(ifs.Cond) != "same" {
				return true
			}
			for _, st := range ifs.Body.List {
				if c11Text(gfset, st) == "state.PathHasher.CopyHash(from, to)" {
					sameCopies = true
				}
			}
			return true
		})

		var b strings.Builder
		b.WriteString("(* RuntimeHash (src/build/incrementality.go): what the loop over core.IterRuntimeFiles writes per runtime file.\n")
		b.WriteString("   needToRun / cacheOutputFiles / the reuse and store branches of test() (src/test/test_step.go) and the\n")
		b.WriteString("   section order and pushOut of IterRuntimeFiles (src/core/utils.go) were checked against the pinned shapes. *)\n")
		b.WriteString("From Coq Require Import List NArith. Import ListNotations.\n")
		b.WriteString("Inductive write := WPathHash | WPathName.\n")
		fmt.Fprintf(&b, "Definition loop_writes : list write := [%s].\n", strings.Join(writes, "; "))
		b.WriteString("(* RuntimeHash: how the per-file values are combined - CInOrder: written into the combining hash in the order\n")
		b.WriteString("   IterRuntimeFiles yields the files; CSorted: collected into a slice that is sorted before it is written out. *)\n")
		b.WriteString("Inductive fcombine := CInOrder | CSorted.\n")
		fmt.Fprintf(&b, "Definition files_combine : fcombine := %s.\n", combine)
		b.WriteString("(* ruleHash(runtime=true), test part of the runtime section: what is written, in order.  RWTestCmdEffective =\n")
		b.WriteString("   target.GetTestCommand(state) (the command of the active build config); RWTestCmdSingle = target.Test.Command\n")
		b.WriteString("   (the plain-string form only, empty for a per-config dict). *)\n")
		b.WriteString("Inductive rwrite := RWTestOutputs | RWSandbox | RWTestCmdEffective | RWTestCmdSingle | RWArgsPlaceholder.\n")
		fmt.Fprintf(&b, "Definition rule_test_writes : list rwrite := [%s].\n", strings.Join(ruleWrites, "; "))
		b.WriteString("(* needToRun (src/test/test_step.go): its leading `if <guard> { return true }` statements, in order. *)\n")
		b.WriteString("Inductive run_guard := NGForceRerun | NGArgs.\n")
		fmt.Fprintf(&b, "Definition need_to_run_guards : list run_guard := [%s].\n", strings.Join(runGuards, "; "))
		b.WriteString("(* cacheOutputFiles (src/test/test_step.go): its guards and effects, in order. *)\n")
		b.WriteString("Inductive store_step := SGuardArgs | SGuardFailures | SMoveResults | SCacheStore.\n")
		fmt.Fprintf(&b, "Definition store_steps : list store_step := [%s].\n", strings.Join(storeSteps, "; "))
		b.WriteString("(* BuildTarget.getCommand (src/core/build_target.go): where a per-config command is looked up, in order. *)\n")
		b.WriteString("Inductive cmd_choice := ChActive | ChFallback | ChHighest.\n")
		fmt.Fprintf(&b, "Definition get_command_order : list cmd_choice := [%s].\n", strings.Join(choices, "; "))
		fmt.Fprintf(&b, "(* DefaultConfiguration (src/core/config.go): Build.Config = %q, Build.FallbackConfig = %q *)\n",
			defaults["config.Build.Config"], defaults["config.Build.FallbackConfig"])
		fmt.Fprintf(&b, "Definition default_config : list N := %s.\n", c11CoqBytes(defaults["config.Build.Config"]))
		fmt.Fprintf(&b, "Definition fallback_config : list N := %s.\n", c11CoqBytes(defaults["config.Build.FallbackConfig"]))
		b.WriteString("(* filegroupBuilder.Build (src/build/filegroup.go): the branch for an output that already is the same file as its\n")
		b.WriteString("   source calls PathHasher.CopyHash, which keeps the content-hash xattr off the inode shared with the source file. *)\n")
		fmt.Fprintf(&b, "Definition filegroup_same_branch_copies_hash : bool := %v.\n", sameCopies)
		return b.String()
	}
}
