package main

import (
	"bytes"
	"fmt"
	"go/ast"
	"go/printer"
	"go/token"
	"go/types"
	"regexp"
	"strings"
)

// C11RuntimeHash (property C11).
//
//   - src/build/incrementality.go RuntimeHash: what the loop over core.IterRuntimeFiles writes into the
//     hash per runtime file is TRANSLATED into Gen/C11RuntimeHash.v (`loop_writes`): the digest of the
//     path (WPathHash) and/or a name of the path (WPathName).  Model/C11.v builds the runtime key from it.
//   - src/test/test_step.go: the closures needToRun and cacheOutputFiles of test(), the guard around the
//     call of cacheOutputFiles and the reuse condition are pinned (log calls dropped) to the text
//     Model/C11.v `test_step` was written from.
//   - src/core/utils.go IterRuntimeFiles: the order of its sections (outputs, run-time dependencies, data,
//     test tools, debug) and pushOut's de-duplication on the destination are pinned.
//
// Anything else fails closed.

var c11WS = regexp.MustCompile(`\s+`)

func c11IsLogCall(s ast.Stmt) bool {
	es, ok := s.(*ast.ExprStmt)
	if !ok {
		return false
	}
	call, ok := es.X.(*ast.CallExpr)
	if !ok {
		return false
	}
	sel, ok := call.Fun.(*ast.SelectorExpr)
	if !ok {
		return false
	}
	id, ok := sel.X.(*ast.Ident)
	return ok && id.Name == "log" && strings.HasPrefix(sel.Sel.Name, "Debug")
}

func c11DropLogs(n ast.Node) {
	ast.Inspect(n, func(x ast.Node) bool {
		if b, ok := x.(*ast.BlockStmt); ok {
			out := b.List[:0:0]
			for _, s := range b.List {
				if !c11IsLogCall(s) {
					out = append(out, s)
				}
			}
			b.List = out
		}
		return true
	})
}

func c11Text(fset *token.FileSet, n ast.Node) string {
	var b bytes.Buffer
	if err := (&printer.Config{Mode: printer.RawFormat}).Fprint(&b, fset, n); err != nil {
		failShape("cannot print node: %v", err)
	}
	// comments are not printed for sub-nodes; normalise white space
	return strings.TrimSpace(c11WS.ReplaceAllString(b.String(), " "))
}

func c11Pin(what, got, want string) {
	want = strings.TrimSpace(c11WS.ReplaceAllString(want, " "))
	if got != want {
		failShape("%s does not have the shape the C11 model was written from.\n  expected: %s\n  found:    %s", what, want, got)
	}
}

// c11Closure finds `name := func(...) ... { ... }` directly inside the body of fd.
func c11Closure(fd *ast.FuncDecl, name string) *ast.FuncLit {
	for _, st := range fd.Body.List {
		as, ok := st.(*ast.AssignStmt)
		if !ok || as.Tok != token.DEFINE || len(as.Lhs) != 1 || len(as.Rhs) != 1 {
			continue
		}
		if id, ok := as.Lhs[0].(*ast.Ident); ok && id.Name == name {
			if fl, ok := as.Rhs[0].(*ast.FuncLit); ok {
				return fl
			}
		}
	}
	failShape("closure %s not found in %s", name, fd.Name.Name)
	return nil
}

func init() {
	targets["C11RuntimeHash"] = func() string {
		// ---- RuntimeHash ----
		fset, f := parseFile("src/build/incrementality.go")
		fd := findFunc(f, "", "RuntimeHash")
		var loop *ast.RangeStmt
		for _, st := range fd.Body.List {
			if rs, ok := st.(*ast.RangeStmt); ok {
				if loop != nil {
					failShape("RuntimeHash: more than one range loop")
				}
				loop = rs
			}
		}
		if loop == nil {
			failShape("RuntimeHash: no range loop")
		}
		call, ok := loop.X.(*ast.CallExpr)
		if !ok || !strings.HasSuffix(types.ExprString(call.Fun), "IterRuntimeFiles") {
			failShape("RuntimeHash: the loop does not range over core.IterRuntimeFiles but over %s", types.ExprString(loop.X))
		}
		names := map[string]bool{}
		if id, ok := loop.Key.(*ast.Ident); ok && id.Name != "_" {
			names[id.Name] = true
		}
		if loop.Value != nil {
			if id, ok := loop.Value.(*ast.Ident); ok && id.Name != "_" {
				names[id.Name] = true
			}
		}
		hashVar := ""
		writes := []string{}
		for i, st := range loop.Body.List {
			switch x := st.(type) {
			case *ast.AssignStmt:
				if i != 0 || len(x.Lhs) != 2 || len(x.Rhs) != 1 {
					failShape("RuntimeHash loop: unexpected assignment %s", c11Text(fset, x))
				}
				c11Pin("RuntimeHash loop: the path hash call", c11Text(fset, x.Rhs[0]), "state.PathHasher.Hash(src, false, true, false)")
				hashVar = x.Lhs[0].(*ast.Ident).Name
			case *ast.IfStmt:
				c11Pin("RuntimeHash loop: the error check", c11Text(fset, x), "if err != nil { return result, err }")
			case *ast.ExprStmt:
				c, ok := x.X.(*ast.CallExpr)
				if !ok || types.ExprString(c.Fun) != "h.Write" || len(c.Args) != 1 {
					failShape("RuntimeHash loop: unexpected statement %s", c11Text(fset, x))
				}
				arg := types.ExprString(c.Args[0])
				switch {
				case arg == hashVar && hashVar != "":
					writes = append(writes, "WPathHash")
				case strings.HasPrefix(arg, "[]byte(") && names[strings.TrimSuffix(strings.TrimPrefix(arg, "[]byte("), ")")]:
					writes = append(writes, "WPathName")
				default:
					failShape("RuntimeHash loop: h.Write(%s) is neither the path digest nor a path name", arg)
				}
			default:
				failShape("RuntimeHash loop: unexpected statement %s", c11Text(fset, st))
			}
		}
		// the frame around the loop
		c11Pin("RuntimeHash: first statement", c11Text(fset, fd.Body.List[0]),
			"hash := append(RuleHash(state, target, true, false), RuleHash(state, target, true, true)...)")
		c11Pin("RuntimeHash: result", c11Text(fset, fd.Body.List[len(fd.Body.List)-1]), "return append(hash, h.Sum(nil)...), nil")

		// ---- test(): needToRun, cacheOutputFiles, the reuse and store conditions ----
		tfset, tf := parseFile("src/test/test_step.go")
		tfd := findFunc(tf, "", "test")
		c11DropLogs(tfd)
		c11Pin("needToRun", c11Text(tfset, c11Closure(tfd, "needToRun").Body), `{
			if state.ForceRerun { return true }
			if s := target.State(); (s == core.Unchanged || s == core.Reused) && core.PathExists(target.TestResultsFile()) {
				if needCoverage && !verifyHash(state, target.CoverageFile(), hash) {
					return true
				} else if !verifyHash(state, target.TestResultsFile(), hash) {
					return true
				}
				return false
			}
			files := []string{filepath.Base(target.TestResultsFile())}
			if needCoverage { files = append(files, filepath.Base(target.CoverageFile())) }
			return !retrieveFromCache(state, target, hash, files)
		}`)
		c11Pin("cacheOutputFiles", c11Text(tfset, c11Closure(tfd, "cacheOutputFiles").Body), `{
			if len(state.TestArgs) > 0 { return false }
			if results.Failures() > 0 { return false }
			if err := moveOutputFile(state, hash, outputFile, target.TestResultsFile(), dummyOutput); err != nil {
				state.LogTestResult(target, run, core.TargetTestFailed, results, coverage, err, "Failed to move test output file")
				return false
			}
			if state.Cache != nil && !runRemotely {
				state.Cache.Store(target, hash, append(outs, filepath.Base(target.TestResultsFile())))
			}
			return true
		}`)
		reuse, store, remove := false, false, false
		for _, st := range tfd.Body.List {
			ifs, ok := st.(*ast.IfStmt)
			if !ok {
				continue
			}
			txt := c11Text(tfset, ifs)
			if strings.HasPrefix(txt, "if state.NumTestRuns == 1 && !runRemotely && !needToRun()") {
				c11Pin("the reuse branch of test()", txt, `if state.NumTestRuns == 1 && !runRemotely && !needToRun() {
					if cachedResults := cachedTestResults(); cachedResults != nil { target.Test.Results = cachedResults
					return } }`)
				reuse = true
			}
			if strings.HasPrefix(txt, "if err := RemoveTestOutputs(target); err != nil") {
				if !reuse {
					failShape("test(): RemoveTestOutputs comes before the reuse branch")
				}
				remove = true
			}
			if strings.HasPrefix(txt, "if state.NumTestRuns == 1 {") {
				if !remove {
					failShape("test(): the test runs before RemoveTestOutputs")
				}
				c11Pin("the single-run branch of test()", c11Text(tfset, ifs.Body), `{
					var results core.TestSuite
					results, coverage = doFlakeRun(state, target, run, runRemotely)
					target.AddTestResults(results)
					outs := moveOutputFiles(target.Test.Results, coverage)
					if target.Test.Results.TestCases.AllSucceeded() { cacheOutputFiles(target.Test.Results, coverage, outs) }
				}`)
				store = true
			}
		}
		if !reuse || !store {
			failShape("test(): reuse branch found=%v, single-run branch found=%v", reuse, store)
		}
		c11Pin("verifyHash", c11Text(tfset, findFunc(tf, "", "verifyHash").Body),
			"{ return bytes.Equal(hash, fs.ReadAttr(filename, xattrName, state.XattrsSupported)) }")
		rth := findFunc(tf, "", "runtimeHash")
		c11Pin("runtimeHash (tail)", c11Text(tfset, &ast.BlockStmt{List: rth.Body.List[len(rth.Body.List)-3:]}), `{
			hash, err := build.RuntimeHash(state, target, run)
			if err == nil { hash = core.CollapseHash(hash) }
			return hash, err
		}`)

		// ---- IterRuntimeFiles: pushOut and the order of the sections ----
		ufset, uf := parseFile("src/core/utils.go")
		ufd := findFunc(uf, "", "IterRuntimeFiles")
		ret, ok := ufd.Body.List[0].(*ast.ReturnStmt)
		if !ok || len(ufd.Body.List) != 1 {
			failShape("IterRuntimeFiles is not a single return of an iterator function")
		}
		body := ret.Results[0].(*ast.FuncLit).Body
		sections := []string{}
		for _, st := range body.List {
			switch x := st.(type) {
			case *ast.AssignStmt:
				if id, ok := x.Lhs[0].(*ast.Ident); ok && id.Name == "pushOut" {
					c11Pin("IterRuntimeFiles.pushOut", c11Text(ufset, x.Rhs[0].(*ast.FuncLit).Body), `{
						if absoluteOuts { out = filepath.Join(RepoRoot, runtimeDir, out) }
						if !done[out] { done[out] = true
						if !yield(src, out) { return false } }
						return true }`)
				}
			case *ast.RangeStmt:
				sections = append(sections, types.ExprString(x.X))
			case *ast.IfStmt:
				sections = append(sections, "if "+types.ExprString(x.Cond))
			}
		}
		want := []string{"target.Outputs()", "target.IterAllRuntimeDependencies(graph)", "target.AllData()", "if target.Test != nil", "if target.Debug != nil"}
		if strings.Join(sections, " | ") != strings.Join(want, " | ") {
			failShape("IterRuntimeFiles: sections are %v, the model was written for %v", sections, want)
		}

		var b strings.Builder
		b.WriteString("(* RuntimeHash (src/build/incrementality.go): what the loop over core.IterRuntimeFiles writes per runtime file.\n")
		b.WriteString("   needToRun / cacheOutputFiles / the reuse and store branches of test() (src/test/test_step.go) and the\n")
		b.WriteString("   section order and pushOut of IterRuntimeFiles (src/core/utils.go) were checked against the pinned shapes. *)\n")
		b.WriteString("From Coq Require Import List. Import ListNotations.\n")
		b.WriteString("Inductive write := WPathHash | WPathName.\n")
		fmt.Fprintf(&b, "Definition loop_writes : list write := [%s].\n", strings.Join(writes, "; "))
		return b.String()
	}
}
