package main

import (
	"bytes"
	"go/ast"
	"go/printer"
	"go/token"
	"regexp"
	"sort"
	"strings"
)

// C24Changes (property C24): the functions behind `plz query changes`.
// Each function body must have exactly the recognised shape (comments and layout aside); the «holes» are the
// parameters the model depends on and are emitted as Gallina definitions:
//   - src/query/changes.go  changedTargets: the two loop sentinels, the subrepo of the package lookup, the level that
//     disables the reverse-dependency step, the flags passed to FindRevdeps (hidden, followSubincludes);
//     diffGraphs: the disjunction that marks a target as changed; targetChanged: the RuleHash flags;
//     sourceHash: which tools are hashed.
//   - src/core/build_target.go  HasSource: the input lists and the two match tests; HasAbsoluteSource: the trimmed prefix.
//   - src/query/reverse_deps.go  buildRevdeps: the edge kinds; FindRevdeps: the initial pushes; findRevdeps: the depth
//     limit test, the unlimited value, the report test (same sentences as C23Levels, checked independently).
//
// Anything else fails closed.

var c24Hole = regexp.MustCompile(`«(\w+)»`)

// c24Match matches the whitespace-normalised body against a template and returns the holes.
func c24Match(where, body, template string) map[string]string {
	template = strings.Join(strings.Fields(template), " ")
	names := []string{}
	var re strings.Builder
	re.WriteString("^")
	last := 0
	for _, m := range c24Hole.FindAllStringSubmatchIndex(template, -1) {
		re.WriteString(regexp.QuoteMeta(template[last:m[0]]))
		re.WriteString(`("[^"]*"|[-\w.!=<>]+)`)
		names = append(names, template[m[2]:m[3]])
		last = m[1]
	}
	re.WriteString(regexp.QuoteMeta(template[last:]))
	re.WriteString("$")
	got := regexp.MustCompile(re.String()).FindStringSubmatch(body)
	if got == nil {
		failShape("%s has an unrecognised shape: %s", where, body)
	}
	out := map[string]string{}
	for i, n := range names {
		if old, ok := out[n]; ok && old != got[i+1] {
			failShape("%s: hole %s bound to both %s and %s", where, n, old, got[i+1])
		}
		out[n] = got[i+1]
	}
	return out
}

func c24Body(fset *token.FileSet, fd *ast.FuncDecl) string {
	var b bytes.Buffer
	if err := printer.Fprint(&b, fset, fd.Body); err != nil {
		failShape("cannot print %s: %v", fd.Name.Name, err)
	}
	return strings.Join(strings.Fields(b.String()), " ")
}

func init() {
	targets["C24Changes"] = func() string {
		vals := map[string]string{}
		use := func(file, recv, fn, template string) {
			fset, f := parseFile(file)
			for k, v := range c24Match(file+": "+fn, c24Body(fset, findFunc(f, recv, fn)), template) {
				vals[fn+"_"+k] = v
			}
		}
		use("src/query/changes.go", "", "changedTargets", `{
			for _, filename := range files {
				for dir := filename; dir != «stop1» && dir != «stop2»; {
					dir = filepath.Dir(dir)
					pkgName := dir
					if pkgName == «dot» { pkgName = «root» }
					if pkg := state.Graph.Package(pkgName, «subrepo»); pkg != nil {
						for _, t := range pkg.AllTargets() {
							if t.HasAbsoluteSource(filename) { changed[t] = struct{}{} }
						}
						break
					}
				}
			}
			labels := make(core.BuildLabels, 0, len(changed))
			for target := range changed { labels = append(labels, target.Label) }
			if level != «nolevel» {
				revdeps := FindRevdeps(state, labels, «hidden», «follow», includeSubrepos, level)
				for dep := range revdeps {
					if _, present := changed[dep]; !present { labels = append(labels, dep.Label) }
				}
			}
			ls := make(core.BuildLabels, 0, len(labels))
			for _, l := range labels {
				t := state.Graph.TargetOrDie(l)
				if state.ShouldInclude(t) && (includeSubrepos || t.Subrepo == nil) { ls = append(ls, l) }
			}
			sort.Sort(ls)
			return ls
		}`)
		use("src/query/changes.go", "", "Changes", `{ return changedTargets(state, files, map[*core.BuildTarget]struct{}{}, level, includeSubrepos) }`)
		use("src/query/changes.go", "", "DiffGraphs", `{
			log.Notice("Calculating difference...")
			changed := diffGraphs(before, after)
			log.Debugf("Number of changed targets on a non-recursive diff between before and after build graphs: %d", len(changed))
			log.Info("Including changed files...")
			return changedTargets(after, files, changed, level, includeSubrepos)
		}`)
		use("src/query/changes.go", "", "diffGraphs", `{
			configChanged := !bytes.Equal(before.Hashes.Config, after.Hashes.Config)
			log.Debugf("Has config changed between before and after build states: %v", configChanged)
			changed := map[*core.BuildTarget]struct{}{}
			for _, afterTarget := range after.Graph.AllTargets() {
				if beforeTarget := before.Graph.Target(afterTarget.Label); beforeTarget == nil || targetChanged(before, after, beforeTarget, afterTarget) || configChanged {
					changed[afterTarget] = struct{}{}
				}
			}
			return changed
		}`)
		use("src/query/changes.go", "", "targetChanged", `{
			h1 := build.RuleHash(s1, t1, «runtime», «postbuild»)
			h2 := build.RuleHash(s2, t2, «runtime», «postbuild»)
			if !bytes.Equal(h1, h2) { return true }
			h1, err1 := sourceHash(s1, t1)
			h2, err2 := sourceHash(s2, t2)
			return !bytes.Equal(h1, h2) || err1 != nil || err2 != nil
		}`)
		use("src/query/changes.go", "", "sourceHash", `{
			var hash []byte
			for _, tool := range target.AllTools() {
				if _, ok := tool.Label(); ok { continue }
				hash = append(hash, toolPathHash(state, tool)...)
			}
			return hash, nil
		}`)
		use("src/core/build_target.go", "BuildTarget", "HasSource", `{
			for _, src := range append(target.«inputs1»(), target.«inputs2»()...) {
				if s := src.String(); s == source || strings.HasPrefix(source, s+«sep») { return true }
			}
			return false
		}`)
		use("src/core/build_target.go", "BuildTarget", "HasAbsoluteSource", `{ return target.HasSource(strings.TrimPrefix(source, target.Label.PackageName+«sep»)) }`)
		use("src/query/reverse_deps.go", "", "buildRevdeps", `{
			targets := graph.AllTargets()
			revdeps := make(map[core.BuildLabel][]*core.BuildTarget, len(targets))
			for _, t := range targets {
				for _, d := range t.DeclaredDependencies() {
					if t2 := graph.Target(d); t2 == nil {
						revdeps[d] = append(revdeps[d], t2)
					} else {
						for _, p := range t2.ProvideFor(t) { revdeps[p] = append(revdeps[p], t) }
					}
				}
				if includeSubrepos && t.Subrepo != nil && t.Subrepo.Target != nil {
					revdeps[t.Subrepo.Target.Label] = append(revdeps[t.Subrepo.Target.Label], t)
				}
			}
			return revdeps
		}`)
		use("src/query/reverse_deps.go", "", "FindRevdeps", `{
			r := newRevdeps(state.Graph, hidden, followSubincludes, includeSubrepos, depth)
			for _, label := range targets {
				target := state.Graph.TargetOrDie(label)
				r.os.Push(&node{ target: target, depth: «depth0», })
				if !hidden && !label.IsHidden() {
					for _, child := range state.Graph.PackageByLabel(label).AllTargets() {
						if child.Parent(state.Graph) == target { r.os.Push(&node{ target: child, depth: «depth0», }) }
					}
				}
			}
			return r.findRevdeps(state)
		}`)
		use("src/query/reverse_deps.go", "revdeps", "findRevdeps", `{
			ret := make(map[*core.BuildTarget]struct{}, 1000)
			for next := r.os.Pop(); next != nil; next = r.os.Pop() {
				ts := r.revdeps[next.target.Label]
				if r.followSubincludes {
					for _, p := range r.subincludes[next.target.Label] { ts = append(ts, p.AllTargets()...) }
				}
				for _, t := range ts {
					depth := next.depth
					if r.hidden || !isSameTarget(state.Graph, next.target, t) { depth++ }
					if next.depth «limop» r.maxDepth || r.maxDepth == «unlimited» {
						if depth «repop» «repbound» {
							if r.hidden || !t.Label.IsHidden() {
								ret[t] = struct{}{}
							} else if parent := t.Parent(state.Graph); parent != nil {
								ret[parent] = struct{}{}
							}
						}
						r.os.Push(&node{ target: t, depth: depth, })
					}
				}
			}
			return ret
		}`)
		use("src/query/reverse_deps.go", "openSet", "Push", `{
			if _, present := os.done[n.target.Label]; !present {
				os.done[n.target.Label] = struct{}{}
				os.items.PushBack(n)
			}
		}`)
		use("src/query/reverse_deps.go", "openSet", "Pop", `{
			next := os.items.Front()
			if next == nil { return nil }
			os.items.Remove(next)
			return next.Value.(*node)
		}`)
		flow, first, fallback, checkoutArgv := c24SinceFlow()
		keys := make([]string, 0, len(vals))
		for k := range vals {
			keys = append(keys, k)
		}
		sort.Strings(keys)
		var b strings.Builder
		b.WriteString(genHeader)
		b.WriteString("(* the parameters of the recognised shapes of changes.go / reverse_deps.go / HasSource, as source text *)\n")
		for _, k := range keys {
			b.WriteString("Definition " + k + " : string := " + coqString(vals[k]) + ".\n")
		}
		b.WriteString("(* src/please.go \"query.changes\", exact mode: the statements from `original := ...` to the end, translated;\n" +
			"   src/scm/git.go: the git commands CurrentRevIdentifier and Checkout run *)\n")
		b.WriteString("Definition query_changes_flow : list string := " + coqStringList(flow) + ".\n")
		b.WriteString("Definition CurrentRevIdentifier_first : list string := " + coqStringList(first) + ".\n")
		b.WriteString("Definition CurrentRevIdentifier_fallback : list string := " + coqStringList(fallback) + ".\n")
		b.WriteString("Definition Checkout_argv : list string := " + coqStringList(checkoutArgv) + ".\n")
		return b.String()
	}
}

// ---------------------------------------------------------------------------------------------
// `plz query changes --since REV`, exact mode: src/please.go buildFunctions["query.changes"], src/scm/git.go

func c24Text(fset *token.FileSet, n ast.Node) string {
	var b bytes.Buffer
	if err := printer.Fprint(&b, fset, n); err != nil {
		failShape("cannot print a node: %v", err)
	}
	return strings.Join(strings.Fields(b.String()), " ")
}

// the string literals of a printed argument list `"a", "b", x` -> [a b $x]
func c24Argv(where, args string) []string {
	out := []string{}
	for _, a := range strings.Split(args, ", ") {
		a = strings.TrimSpace(a)
		switch {
		case len(a) >= 2 && a[0] == '"' && a[len(a)-1] == '"' && !strings.Contains(a[1:len(a)-1], `"`):
			out = append(out, a[1:len(a)-1])
		case regexp.MustCompile(`^\w+$`).MatchString(a):
			out = append(out, "$"+a)
		default:
			failShape("%s: argument %s of a git command is neither a string literal nor a variable", where, a)
		}
	}
	return out
}

// c24SinceFlow translates the exact-mode tail of query.changes into the step language of Model/C24.v (one token per
// statement, in source order), and reads the argument vectors of the git commands it relies on.
// The part of the function before `original := ...` (level defaulting, the three early returns of the inexact
// modes) is pinned.
func c24SinceFlow() (flow, first, fallback, checkout []string) {
	fset, f := parseFile("src/please.go")
	var lit *ast.FuncLit
	ast.Inspect(f, func(n ast.Node) bool {
		kv, ok := n.(*ast.KeyValueExpr)
		if !ok {
			return true
		}
		if k, ok := kv.Key.(*ast.BasicLit); ok && k.Kind == token.STRING && k.Value == `"query.changes"` {
			if fl, ok := kv.Value.(*ast.FuncLit); ok {
				if lit != nil {
					failShape("src/please.go: two \"query.changes\" entries")
				}
				lit = fl
			}
		}
		return true
	})
	if lit == nil {
		failShape("src/please.go: no \"query.changes\" function literal")
	}
	stmts := lit.Body.List
	start := -1
	for i, st := range stmts {
		if strings.HasPrefix(c24Text(fset, st), "original := ") {
			start = i
			break
		}
	}
	if start < 0 {
		failShape("src/please.go query.changes: no `original := ...` statement")
	}
	prefix := []string{}
	for _, st := range stmts[:start] {
		prefix = append(prefix, c24Text(fset, st))
	}
	wantPrefix := strings.Join(strings.Fields(`
		opts.BuildFlags.Exclude = append(opts.BuildFlags.Exclude, "manual", "manual:"+core.OsArch)
		includeSubrepos := opts.Query.Changes.IncludeSubrepos
		level := opts.Query.Changes.Level
		transitive := opts.Query.Changes.IncludeDependees == "transitive"
		direct := opts.Query.Changes.IncludeDependees == "direct"
		if transitive || direct { log.Warning("include_dependees is deprecated. Please use level instead") }
		if (transitive || direct) && level != -2 { log.Warning("Both level and include_dependees are set. Using the value from level") }
		switch { case transitive && (level == -2): level = -1 case direct && (level == -2): level = 1 case level == -2: level = 0 }
		runInexact := func(files []string) int { return runQuery(true, core.WholeGraph, func(state *core.BuildState) { for _, target := range query.Changes(state, files, level, includeSubrepos) { fmt.Println(target.String()) } }) }
		if len(opts.Query.Changes.Args.Files) > 0 { return runInexact(opts.Query.Changes.Args.Files.Get()) }
		scm := scm.MustNew(core.RepoRoot)
		if opts.Query.Changes.In != "" { return runInexact(scm.ChangesIn(opts.Query.Changes.In, "")) } else if opts.Query.Changes.Inexact { return runInexact(scm.ChangedFiles(opts.Query.Changes.Since, true, "")) }
	`), " ")
	if got := strings.Join(prefix, " "); c24NoComments(got) != wantPrefix {
		failShape("src/please.go query.changes: the part before `original := ...` has an unrecognised shape: %s", got)
	}
	checkoutRe := regexp.MustCompile(`^if err := scm\.Checkout\(([\w.]+)\); err != nil \{ log\.Fatalf\("%s", err\) \}$`)
	parseRe := regexp.MustCompile(`^(_|success), (before|after) := runBuild\(core\.WholeGraph, false, false, false\)$`)
	diffRe := regexp.MustCompile(`^for _, target := range query\.DiffGraphs\((\w+), (\w+), files, level, includeSubrepos\) \{ fmt\.Println\(target\.String\(\)\) \}$`)
	origRe := regexp.MustCompile(`^original := scm\.CurrentRevIdentifier\((true|false)\)$`)
	for i, st := range stmts[start:] {
		x := c24NoComments(c24Text(fset, st))
		last := i == len(stmts[start:])-1
		switch {
		case origRe.MatchString(x):
			flow = append(flow, "original:"+origRe.FindStringSubmatch(x)[1])
		case x == `files := scm.ChangedFiles(opts.Query.Changes.Since, true, "")`:
			flow = append(flow, "files")
		case strings.HasPrefix(x, "log.Debugf("):
		case checkoutRe.MatchString(x):
			switch arg := checkoutRe.FindStringSubmatch(x)[1]; arg {
			case "opts.Query.Changes.Since":
				flow = append(flow, "checkout:since")
			case "original":
				flow = append(flow, "checkout:original")
			default:
				failShape("src/please.go query.changes: checkout of %s", arg)
			}
		case x == "readConfig()":
			flow = append(flow, "readconfig")
		case parseRe.MatchString(x):
			flow = append(flow, "parse:"+parseRe.FindStringSubmatch(x)[2])
		case x == "if !success { return 1 }":
		case diffRe.MatchString(x):
			m := diffRe.FindStringSubmatch(x)
			flow = append(flow, "diff:"+m[1]+","+m[2])
		case x == "return 0" && last:
		default:
			failShape("src/please.go query.changes: unrecognised statement in the exact-mode tail: %s", x)
		}
	}
	// readConfig assigns the package-level `config`, runBuild builds from it
	rc := c24NoComments(c24Body(fset, findFunc(f, "", "readConfig")))
	if !strings.HasPrefix(rc, "{ cfg, err := core.ReadDefaultConfigFiles(fs.HostFS, opts.BuildFlags.Profile)") || !strings.HasSuffix(rc, "config = cfg return cfg }") {
		failShape("src/please.go readConfig has an unrecognised shape: %s", rc)
	}
	rb := c24NoComments(c24Body(fset, findFunc(f, "", "runBuild")))
	if !strings.HasSuffix(rb, "return Please(targets, config, shouldBuild, shouldTest) }") || strings.Contains(rb, "config =") || strings.Contains(rb, "config :=") {
		failShape("src/please.go runBuild has an unrecognised shape: %s", rb)
	}
	// scm/git.go
	gset, g := parseFile("src/scm/git.go")
	cri := c24NoComments(c24Body(gset, findFunc(g, "git", "CurrentRevIdentifier")))
	criRe := regexp.MustCompile(`^\{ if !permanent \{ out, err := exec\.Command\("git", ([^()]*)\)\.CombinedOutput\(\) if err == nil \{ return strings\.TrimSpace\(string\(out\)\) \} \} ` +
		`out, err := exec\.Command\("git", ([^()]*)\)\.CombinedOutput\(\) if err != nil \{ log\.Fatalf\(.*\) \} return strings\.TrimSpace\(string\(out\)\) \}$`)
	m := criRe.FindStringSubmatch(cri)
	if m == nil {
		failShape("src/scm/git.go CurrentRevIdentifier has an unrecognised shape: %s", cri)
	}
	first, fallback = c24Argv("CurrentRevIdentifier", m[1]), c24Argv("CurrentRevIdentifier", m[2])
	co := c24NoComments(c24Body(gset, findFunc(g, "git", "Checkout")))
	coRe := regexp.MustCompile(`^\{ if out, err := exec\.Command\("git", ([^()]*)\)\.CombinedOutput\(\); err != nil \{ return fmt\.Errorf\(.*\) \} return nil \}$`)
	cm := coRe.FindStringSubmatch(co)
	if cm == nil {
		failShape("src/scm/git.go Checkout has an unrecognised shape: %s", co)
	}
	checkout = c24Argv("Checkout", cm[1])
	return
}

// go/printer does not print the file's comments when it is handed a statement or a body (they hang off *ast.File),
// so the normalised text is already comment free.
func c24NoComments(x string) string { return x }
