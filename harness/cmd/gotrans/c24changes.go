package main

import (
	"bytes"
	"go/ast"
	"go/printer"
	"go/token"
	"regexp"
	"sort"
	"strings"
)

// C24Changes (property C24): the functions behind `plz query changes`.
// Each function body must have exactly the recognised shape (comments and layout aside); the «holes» are the
// parameters the model depends on and are emitted as Gallina definitions:
//   - src/query/changes.go  changedTargets: the two loop sentinels, the subrepo of the package lookup, the level that
//     disables the reverse-dependency step, the flags passed to FindRevdeps (hidden, followSubincludes);
//     diffGraphs: the disjunction that marks a target as changed; targetChanged: the RuleHash flags;
//     sourceHash: which tools are hashed.
//   - src/core/build_target.go  HasSource: the input lists and the two match tests; HasAbsoluteSource: the trimmed prefix.
//   - src/query/reverse_deps.go  buildRevdeps: the edge kinds; FindRevdeps: the initial pushes; findRevdeps: the depth
//     limit test, the unlimited value, the report test (same sentences as C23Levels, checked independently).
//
// Anything else fails closed.

var c24Hole = regexp.MustCompile(`«(\w+)»`)

// c24Match matches the whitespace-normalised body against a template and returns the holes.
func c24Match(where, body, template string) map[string]string {
	template = strings.Join(strings.Fields(template), " ")
	names := []string{}
	var re strings.Builder
	re.WriteString("^")
	last := 0
	for _, m := range c24Hole.FindAllStringSubmatchIndex(template, -1) {
		re.WriteString(regexp.QuoteMeta(template[last:m[0]]))
		re.WriteString(`("[^"]*"|[-\w.!=<>]+)`)
		names = append(names, template[m[2]:m[3]])
		last = m[1]
	}
	re.WriteString(regexp.QuoteMeta(template[last:]))
	re.WriteString("$")
	got := regexp.MustCompile(re.String()).FindStringSubmatch(body)
	if got == nil {
		failShape("%s has an unrecognised shape: %s", where, body)
	}
	out := map[string]string{}
	for i, n := range names {
		if old, ok := out[n]; ok && old != got[i+1] {
			failShape("%s: hole %s bound to both %s and %s", where, n, old, got[i+1])
		}
		out[n] = got[i+1]
	}
	return out
}

func c24Body(fset *token.FileSet, fd *ast.FuncDecl) string {
	var b bytes.Buffer
	if err := printer.Fprint(&b, fset, fd.Body); err != nil {
		failShape("cannot print %s: %v", fd.Name.Name, err)
	}
	return strings.Join(strings.Fields(b.String()), " ")
}

func init() {
	targets["C24Changes"] = func() string {
		vals := map[string]string{}
		use := func(file, recv, fn, template string) {
			fset, f := parseFile(file)
			for k, v := range c24Match(file+": "+fn, c24Body(fset, findFunc(f, recv, fn)), template) {
				vals[fn+"_"+k] = v
			}
		}
		use("src/query/changes.go", "", "changedTargets", `{
			for _, filename := range files {
				for dir := filename; dir != «stop1» && dir != «stop2»; {
					dir = filepath.Dir(dir)
					pkgName := dir
					if pkgName == «dot» { pkgName = «root» }
					if pkg := state.Graph.Package(pkgName, «subrepo»); pkg != nil {
						for _, t := range pkg.AllTargets() {
							if t.HasAbsoluteSource(filename) { changed[t] = struct{}{} }
						}
						break
					}
				}
			}
			labels := make(core.BuildLabels, 0, len(changed))
			for target := range changed { labels = append(labels, target.Label) }
			if level != «nolevel» {
				revdeps := FindRevdeps(state, labels, «hidden», «follow», includeSubrepos, level)
				for dep := range revdeps {
					if _, present := changed[dep]; !present { labels = append(labels, dep.Label) }
				}
			}
			ls := make(core.BuildLabels, 0, len(labels))
			for _, l := range labels {
				t := state.Graph.TargetOrDie(l)
				if state.ShouldInclude(t) && (includeSubrepos || t.Subrepo == nil) { ls = append(ls, l) }
			}
			sort.Sort(ls)
			return ls
		}`)
		use("src/query/changes.go", "", "Changes", `{ return changedTargets(state, files, map[*core.BuildTarget]struct{}{}, level, includeSubrepos) }`)
		use("src/query/changes.go", "", "DiffGraphs", `{
			log.Notice("Calculating difference...")
			changed := diffGraphs(before, after)
			log.Debugf("Number of changed targets on a non-recursive diff between before and after build graphs: %d", len(changed))
			log.Info("Including changed files...")
			return changedTargets(after, files, changed, level, includeSubrepos)
		}`)
		use("src/query/changes.go", "", "diffGraphs", `{
			configChanged := !bytes.Equal(before.Hashes.Config, after.Hashes.Config)
			log.Debugf("Has config changed between before and after build states: %v", configChanged)
			changed := map[*core.BuildTarget]struct{}{}
			for _, afterTarget := range after.Graph.AllTargets() {
				if beforeTarget := before.Graph.Target(afterTarget.Label); beforeTarget == nil || targetChanged(before, after, beforeTarget, afterTarget) || configChanged {
					changed[afterTarget] = struct{}{}
				}
			}
			return changed
		}`)
		use("src/query/changes.go", "", "targetChanged", `{
			h1 := build.RuleHash(s1, t1, «runtime», «postbuild»)
			h2 := build.RuleHash(s2, t2, «runtime», «postbuild»)
			if !bytes.Equal(h1, h2) { return true }
			h1, err1 := sourceHash(s1, t1)
			h2, err2 := sourceHash(s2, t2)
			return !bytes.Equal(h1, h2) || err1 != nil || err2 != nil
		}`)
		use("src/query/changes.go", "", "sourceHash", `{
			var hash []byte
			for _, tool := range target.AllTools() {
				if _, ok := tool.Label(); ok { continue }
				hash = append(hash, toolPathHash(state, tool)...)
			}
			return hash, nil
		}`)
		use("src/core/build_target.go", "BuildTarget", "HasSource", `{
			for _, src := range append(target.«inputs1»(), target.«inputs2»()...) {
				if s := src.String(); s == source || strings.HasPrefix(source, s+«sep») { return true }
			}
			return false
		}`)
		use("src/core/build_target.go", "BuildTarget", "HasAbsoluteSource", `{ return target.HasSource(strings.TrimPrefix(source, target.Label.PackageName+«sep»)) }`)
		use("src/query/reverse_deps.go", "", "buildRevdeps", `{
			targets := graph.AllTargets()
			revdeps := make(map[core.BuildLabel][]*core.BuildTarget, len(targets))
			for _, t := range targets {
				for _, d := range t.DeclaredDependencies() {
					if t2 := graph.Target(d); t2 == nil {
						revdeps[d] = append(revdeps[d], t2)
					} else {
						for _, p := range t2.ProvideFor(t) { revdeps[p] = append(revdeps[p], t) }
					}
				}
				if includeSubrepos && t.Subrepo != nil && t.Subrepo.Target != nil {
					revdeps[t.Subrepo.Target.Label] = append(revdeps[t.Subrepo.Target.Label], t)
				}
			}
			return revdeps
		}`)
		use("src/query/reverse_deps.go", "", "FindRevdeps", `{
			r := newRevdeps(state.Graph, hidden, followSubincludes, includeSubrepos, depth)
			for _, label := range targets {
				target := state.Graph.TargetOrDie(label)
				r.os.Push(&node{ target: target, depth: «depth0», })
				if !hidden && !label.IsHidden() {
					for _, child := range state.Graph.PackageByLabel(label).AllTargets() {
						if child.Parent(state.Graph) == target { r.os.Push(&node{ target: child, depth: «depth0», }) }
					}
				}
			}
			return r.findRevdeps(state)
		}`)
		use("src/query/reverse_deps.go", "revdeps", "findRevdeps", `{
			ret := make(map[*core.BuildTarget]struct{}, 1000)
			for next := r.os.Pop(); next != nil; next = r.os.Pop() {
				ts := r.revdeps[next.target.Label]
				if r.followSubincludes {
					for _, p := range r.subincludes[next.target.Label] { ts = append(ts, p.AllTargets()...) }
				}
				for _, t := range ts {
					depth := next.depth
					if r.hidden || !isSameTarget(state.Graph, next.target, t) { depth++ }
					if next.depth «limop» r.maxDepth || r.maxDepth == «unlimited» {
						if depth «repop» «repbound» {
							if r.hidden || !t.Label.IsHidden() {
								ret[t] = struct{}{}
							} else if parent := t.Parent(state.Graph); parent != nil {
								ret[parent] = struct{}{}
							}
						}
						r.os.Push(&node{ target: t, depth: depth, })
					}
				}
			}
			return ret
		}`)
		use("src/query/reverse_deps.go", "openSet", "Push", `{
			if _, present := os.done[n.target.Label]; !present {
				os.done[n.target.Label] = struct{}{}
				os.items.PushBack(n)
			}
		}`)
		use("src/query/reverse_deps.go", "openSet", "Pop", `{
			next := os.items.Front()
			if next == nil { return nil }
			os.items.Remove(next)
			return next.Value.(*node)
		}`)
		keys := make([]string, 0, len(vals))
		for k := range vals {
			keys = append(keys, k)
		}
		sort.Strings(keys)
		var b strings.Builder
		b.WriteString(genHeader)
		b.WriteString("(* the parameters of the recognised shapes of changes.go / reverse_deps.go / HasSource, as source text *)\n")
		for _, k := range keys {
			b.WriteString("Definition " + k + " : string := " + coqString(vals[k]) + ".\n")
		}
		return b.String()
	}
}
