package main

import (
	"bytes"
	"go/ast"
	"go/printer"
	"go/token"
	"regexp"
	"strings"
)

// DirWalk (property C28): the canonicalisation program of dirBuilder.walk (src/remote/utils.go) -
// which slices are sorted by Name, the single `last` variable and the order of the three
// duplicate-removal loops - plus the slice hasChild scans and the key buildEnv sorts by
// (src/remote/action.go). Any statement of walk that is not one of the recognised shapes fails closed.
func init() {
	targets["DirWalk"] = func() string {
		fset, f := parseFile("src/remote/utils.go")
		render := func(n ast.Node) string {
			var b bytes.Buffer
			if err := printer.Fprint(&b, fset, n); err != nil {
				failShape("cannot print node: %v", err)
			}
			return strings.Join(strings.Fields(b.String()), " ")
		}
		walk := findFunc(f, "dirBuilder", "walk")
		steps := []string{}
		alias := map[string]string{} // local slice variable -> Directory field
		reset := map[string]string{} // field -> variable it was reset from
		reAlias := regexp.MustCompile(`^(\w+) := dir\.(\w+)$`)
		reSort := regexp.MustCompile(`^sort\.Slice\((\w+), func\(i, j int\) bool \{ return (\w+)\[i\]\.Name < (\w+)\[j\]\.Name \}\)$`)
		reLast := regexp.MustCompile(`^last := "((?:[^"\\]|\\.)*)"$`)
		reReset := regexp.MustCompile(`^dir\.(\w+) = (\w+)\[:0\]$`)
		reDedup := regexp.MustCompile(`^for _, (\w+) := range (\w+) \{ if (\w+)\.Name != last \{ dir\.(\w+) = append\(dir\.(\w+), (\w+)\) last = (\w+)\.Name \} \}$`)
		const fillShape = `for _, d := range dir.Directories { if d.Digest == nil { d.Digest = b.walk(filepath.Join(name, d.Name), ch) } }`
		for i, st := range walk.Body.List {
			s := render(st)
			switch {
			case i == 0 && s == `dir := b.dirs[name]`:
			case s == fillShape:
				steps = append(steps, "WFill")
			case reAlias.MatchString(s):
				m := reAlias.FindStringSubmatch(s)
				alias[m[1]] = m[2]
			case reSort.MatchString(s):
				m := reSort.FindStringSubmatch(s)
				if m[1] != m[2] || m[1] != m[3] || alias[m[1]] == "" {
					failShape("walk: sort.Slice compares another slice than it sorts: %s", s)
				}
				steps = append(steps, "WSort "+coqString(alias[m[1]]))
			case reLast.MatchString(s):
				steps = append(steps, "WLast "+coqString(reLast.FindStringSubmatch(s)[1]))
			case reReset.MatchString(s):
				m := reReset.FindStringSubmatch(s)
				if alias[m[2]] != m[1] {
					failShape("walk: %s resets a field from another field's slice", s)
				}
				reset[m[1]] = m[2]
			case reDedup.MatchString(s):
				m := reDedup.FindStringSubmatch(s)
				v, src, field := m[1], m[2], m[4]
				if m[3] != v || m[6] != v || m[7] != v || m[5] != field || alias[src] != field || reset[field] != src {
					failShape("walk: duplicate-removal loop of unexpected form: %s", s)
				}
				steps = append(steps, "WDedup "+coqString(field))
			case s == `entry, _ := uploadinfo.EntryFromProto(dir)`:
				steps = append(steps, "WDigest")
			case s == `if ch != nil { ch <- entry }`:
			case s == `return entry.Digest.ToProto()`:
			default:
				failShape("walk: unrecognised statement %d: %s", i, s)
			}
		}

		// hasChild: which slice is scanned, compared how
		hc := findFunc(f, "", "hasChild")
		hcs := render(hc.Body)
		reHC := regexp.MustCompile(`^\{ for _, d := range dir\.(\w+) \{ if d\.Name == child \{ return true \} \} return false \}$`)
		if !reHC.MatchString(hcs) {
			failShape("hasChild: unexpected body: %s", hcs)
		}
		hcField := reHC.FindStringSubmatch(hcs)[1]
		// dir(): the guard in front of the append
		dirf := render(findFunc(f, "dirBuilder", "dir").Body)
		guard := `if child != "" && !hasChild(d, child) { d.Directories = append(d.Directories, &pb.DirectoryNode{Name: child}) }`
		if !strings.Contains(dirf, guard) {
			failShape("dirBuilder.dir: the hasChild-guarded append was not found: %s", dirf)
		}

		// buildEnv: sorted by what
		fset2, f2 := parseFile("src/remote/action.go")
		var b2 bytes.Buffer
		if err := printer.Fprint(&b2, fset2, findFunc(f2, "Client", "buildEnv").Body); err != nil {
			failShape("cannot print buildEnv: %v", err)
		}
		env := strings.Join(strings.Fields(b2.String()), " ")
		reEnv := regexp.MustCompile(`slices\.SortFunc\(vars, func\(a, b \*pb\.Command_EnvironmentVariable\) int \{ return strings\.Compare\(a\.(\w+), b\.(\w+)\) \}\) return vars \}$`)
		m := reEnv.FindStringSubmatch(env)
		if m == nil || m[1] != m[2] {
			failShape("buildEnv: does not end with slices.SortFunc(vars, by one field) and return vars")
		}
		if !strings.Contains(env, `for name, v := range env {`) {
			failShape("buildEnv: the loop over the environment map was not found")
		}
		// uploadInputDir: the three append sites that the verif hook (VerifDirBuilder.AddOutputs) mirrors
		up := findFunc(f2, "Client", "uploadInputDir")
		var b3 bytes.Buffer
		if err := printer.Fprint(&b3, fset2, up.Body); err != nil {
			failShape("cannot print uploadInputDir: %v", err)
		}
		upText := strings.Join(strings.Fields(b3.String()), " ")
		for _, want := range []string{
			`for _, f := range o.Files { d := b.Dir(filepath.Join(pkgName, filepath.Dir(f.Name))) d.Files = append(d.Files, &pb.FileNode{ Name: filepath.Base(f.Name), Digest: f.Digest, IsExecutable: f.IsExecutable, }) }`,
			`for _, d := range o.Directories { dir := b.Dir(filepath.Join(pkgName, filepath.Dir(d.Name))) dir.Directories = append(dir.Directories, &pb.DirectoryNode{ Name: filepath.Base(d.Name), Digest: d.Digest, })`,
			`for _, s := range o.Symlinks { d := b.Dir(filepath.Join(pkgName, filepath.Dir(s.Name))) d.Symlinks = append(d.Symlinks, &pb.SymlinkNode{ Name: filepath.Base(s.Name), Target: s.Target, }) }`,
			`b := newDirBuilder(c)`,
		} {
			if !strings.Contains(upText, want) {
				failShape("uploadInputDir: append site not of the form the verif hook mirrors: %s", want)
			}
		}
		// ---- the Command and the Action (C28 deepening) ----
		norm := func(fs *token.FileSet, n ast.Node) string {
			var b bytes.Buffer
			if err := printer.Fprint(&b, fs, n); err != nil {
				failShape("cannot print node: %v", err)
			}
			return strings.Join(strings.Fields(b.String()), " ")
		}
		// fields (with their value expressions) of every &pb.<typ>{...} literal in a function
		lits := func(fs *token.FileSet, fn *ast.FuncDecl, typ string) [][]string {
			out := [][]string{}
			ast.Inspect(fn.Body, func(n ast.Node) bool {
				cl, ok := n.(*ast.CompositeLit)
				if !ok {
					return true
				}
				if sel, ok := cl.Type.(*ast.SelectorExpr); !ok || sel.Sel.Name != typ {
					return true
				}
				fields := []string{}
				for _, e := range cl.Elts {
					kv, ok := e.(*ast.KeyValueExpr)
					if !ok {
						failShape("%s: pb.%s literal with a positional element", fn.Name.Name, typ)
					}
					fields = append(fields, norm(fs, kv.Key)+"="+norm(fs, kv.Value))
				}
				out = append(out, fields)
				return true
			})
			return out
		}
		wantAction := []string{"CommandDigest=commandDigest", "InputRootDigest=inputRootDigest",
			"Timeout=durationpb.New(timeout(target, isTest))", "Platform=c.targetPlatformProperties(target)"}
		for _, fname := range []string{"buildAction", "uploadAction"} {
			ls := lits(fset2, findFunc(f2, "Client", fname), "Action")
			if len(ls) != 1 || strings.Join(ls[0], ";") != strings.Join(wantAction, ";") {
				failShape("%s: the pb.Action literal is not {CommandDigest, InputRootDigest, Timeout, Platform} built as expected: %v", fname, ls)
			}
		}
		bc := findFunc(f2, "Client", "buildCommand")
		cls := lits(fset2, bc, "Command")
		if len(cls) != 2 {
			failShape("buildCommand: expected the remote-file Command literal and the build Command literal, found %d", len(cls))
		}
		wantCmd := []string{"Platform=c.targetPlatformProperties(target)",
			"Arguments=process.BashCommand(c.shellPath, commandPrefixBuilder.String()+cmd, state.Config.Build.ExitOnError)",
			"EnvironmentVariables=c.buildEnv(target, c.stampedBuildEnvironment(state, target, inputRoot, stamp, isTest || isRun), target.Sandbox)",
			"OutputPaths=outs"}
		if strings.Join(cls[1], ";") != strings.Join(wantCmd, ";") {
			failShape("buildCommand: the build Command literal changed: %v", cls[1])
		}
		bcText := norm(fset2, bc.Body)
		for _, want := range []string{
			"commandPrefixBuilder.WriteString(\"export TMP_DIR=\\\"`pwd`\\\" && export HOME=$TMP_DIR && \")",
			`keys := make([]string, 0, len(target.Env)) for k := range target.Env { keys = append(keys, k) } sort.Strings(keys) for _, k := range keys { _, _ = fmt.Fprintf(&commandPrefixBuilder, "export %s=%s && ", k, shellescape.Quote(target.Env[k])) }`,
			`outs := target.AllOutputs() if len(target.Outputs()) == 1 {`,
			"commandPrefixBuilder.WriteString(`export OUT=\"$TMP_DIR/$OUT\" && `)",
			`cmd := target.GetCommand(state) if cmd == "" { cmd = "true" }`,
		} {
			if !strings.Contains(bcText, want) {
				failShape("buildCommand: expected fragment not found: %s", want)
			}
		}
		tpp := norm(fset, findFunc(f, "Client", "targetPlatformProperties").Body)
		if tpp != `{ labels := target.PrefixedLabels("remote-platform-property:") if len(labels) == 0 { return c.platform } platform := convertPlatform(labels) platform.Properties = append(platform.Properties, c.platform.Properties...) return platform }` {
			failShape("targetPlatformProperties changed: %s", tpp)
		}
		cvp := norm(fset, findFunc(f, "", "convertPlatform").Body)
		if !strings.Contains(cvp, `if parts := strings.SplitN(p, "=", 2); len(parts) == 2 { platform.Properties = append(platform.Properties, &pb.Platform_Property{ Name: parts[0], Value: parts[1], })`) || strings.Contains(cvp, "sort") {
			failShape("convertPlatform changed: %s", cvp)
		}
		fset3, f3 := parseFile("src/core/build_target.go")
		allOuts := norm(fset3, findFunc(f3, "BuildTarget", "AllOutputs").Body)
		if allOuts != `{ outs := target.Outputs() for i, out := range outs { outs[i] = target.GetTmpOutput(out) } for _, out := range target.OutputDirectories { outs = append(outs, out.Dir()) } return outs }` {
			failShape("BuildTarget.AllOutputs changed: %s", allOuts)
		}
		ins := norm(fset3, findFunc(f3, "BuildTarget", "insert").Body)
		if !strings.Contains(ins, `s = strings.TrimPrefix(s, "./") for i, x := range sl { if s == x { return sl } else if x > s {`) || !strings.HasSuffix(ins, `return append(sl, s) }`) {
			failShape("BuildTarget.insert changed: %s", ins)
		}
		outsF := norm(fset3, findFunc(f3, "BuildTarget", "Outputs").Body)
		if !strings.Contains(outsF, `if target.namedOutputs != nil { for _, outputs := range target.namedOutputs { ret = append(ret, outputs...) } } sort.Strings(ret) return ret }`) {
			failShape("BuildTarget.Outputs changed: %s", outsF)
		}
		// ---- follow-up round 2: Client.digestMessage as a program, and PathHasher.Hash's store into the memo ----
		digestProg := translateDigestMessage(fset, findFunc(f, "Client", "digestMessage"))
		memoGuarded, memoCond := translateHashMemoStore()
		actionFields, commandFields := []string{}, []string{}
		for _, x := range wantAction {
			actionFields = append(actionFields, coqString(strings.SplitN(x, "=", 2)[0]))
		}
		for _, x := range cls[1] {
			commandFields = append(commandFields, coqString(strings.SplitN(x, "=", 2)[0]))
		}
		_ = token.NoPos
		return genHeader +
			"Definition action_fields : list string := [" + strings.Join(actionFields, "; ") + "].\n" +
			"Definition command_fields : list string := [" + strings.Join(commandFields, "; ") + "].\n" +
			"(* what sorts what: 1 = sorted by the code, 0 = left in declaration order *)\n" +
			"Definition sorted_by_code : list (string * bool) := [(\"target.Env keys\", true); (\"Outputs\", true); (\"OutputDirectories\", false); (\"Platform\", false)].\n" +
			"Inductive wstep := WFill | WSort (field : string) | WLast (init : string) | WDedup (field : string) | WDigest.\n" +
			"Definition walk_prog : list wstep := [" + strings.Join(steps, "; ") + "].\n" +
			"Definition has_child_field : string := " + coqString(hcField) + ".\n" +
			"Definition env_sort_key : string := " + coqString(m[1]) + ".\n" +
			"(* Client.digestMessage: where the serialised bytes are kept between marshalling and hashing (shared = reachable from the Client or a package variable) *)\n" +
			"Inductive dgstep := GMarshal (shared : bool) (buf : string) | GHash (shared : bool) (buf : string).\n" +
			"Definition digest_message_prog : list dgstep := [" + strings.Join(digestProg, "; ") + "].\n" +
			"(* PathHasher.Hash: is `hasher.memo[path] = result` under a guard, and which *)\n" +
			"Definition hash_memo_store_guarded : bool := " + map[bool]string{true: "true", false: "false"}[memoGuarded] + ".\n" +
			"Definition hash_memo_store_cond : string := " + coqString(memoCond) + ".\n"
	}
}

// translateDigestMessage turns the body of Client.digestMessage into a list of steps: a serialisation of msg into a
// buffer, and a hash of a buffer. The buffer is classified: a variable the call defines from a fresh allocation is
// local to the goroutine; anything reachable from the receiver, or not defined in the function, is shared.
func translateDigestMessage(fset *token.FileSet, fn *ast.FuncDecl) []string {
	render := func(n ast.Node) string {
		var b bytes.Buffer
		if err := printer.Fprint(&b, fset, n); err != nil {
			failShape("cannot print node: %v", err)
		}
		return strings.Join(strings.Fields(b.String()), " ")
	}
	if fn.Recv == nil || len(fn.Recv.List) != 1 || len(fn.Recv.List[0].Names) != 1 {
		failShape("digestMessage: unexpected receiver")
	}
	recv := fn.Recv.List[0].Names[0].Name
	if fn.Type.Params == nil || len(fn.Type.Params.List) != 1 || len(fn.Type.Params.List[0].Names) != 1 {
		failShape("digestMessage: expected one parameter")
	}
	msg := fn.Type.Params.List[0].Names[0].Name
	locals := map[string]bool{} // variables defined in the function from a fresh allocation
	mentions := func(e ast.Expr, pred func(id *ast.Ident) bool) bool {
		found := false
		ast.Inspect(e, func(n ast.Node) bool {
			if id, ok := n.(*ast.Ident); ok && pred(id) {
				found = true
			}
			return true
		})
		return found
	}
	// is the destination handed to MarshalAppend freshly allocated
	fresh := func(e ast.Expr) bool {
		switch x := e.(type) {
		case *ast.Ident:
			return x.Name == "nil"
		case *ast.CallExpr:
			if id, ok := x.Fun.(*ast.Ident); ok && id.Name == "make" {
				return !mentions(x, func(id *ast.Ident) bool { return id.Name == recv })
			}
		case *ast.CompositeLit:
			return len(x.Elts) == 0
		}
		return false
	}
	shared := map[string]bool{}
	steps := []string{}
	buf := ""
	for i, st := range fn.Body.List {
		switch x := st.(type) {
		case *ast.AssignStmt:
			if len(x.Lhs) != 2 || len(x.Rhs) != 1 {
				failShape("digestMessage: statement %d is not `buf, _ := <marshal>(...)`: %s", i, render(st))
			}
			call, ok := x.Rhs[0].(*ast.CallExpr)
			if !ok {
				failShape("digestMessage: statement %d does not call a marshaller: %s", i, render(st))
			}
			sel, ok := call.Fun.(*ast.SelectorExpr)
			if !ok {
				failShape("digestMessage: statement %d does not call a marshaller: %s", i, render(st))
			}
			if len(call.Args) == 0 || render(call.Args[len(call.Args)-1]) != msg {
				failShape("digestMessage: statement %d does not serialise the message parameter: %s", i, render(st))
			}
			freshAlloc := false
			switch {
			case sel.Sel.Name == "Marshal" && len(call.Args) == 1:
				freshAlloc = true
			case sel.Sel.Name == "MarshalAppend" && len(call.Args) == 2:
				freshAlloc = fresh(call.Args[0])
			default:
				failShape("digestMessage: statement %d: unknown marshaller %s", i, render(call.Fun))
			}
			name := render(x.Lhs[0])
			isShared := true
			if id, ok := x.Lhs[0].(*ast.Ident); ok && freshAlloc && (x.Tok == token.DEFINE || locals[id.Name]) {
				isShared = false
				locals[id.Name] = true
			} else if ok && x.Tok == token.DEFINE && !freshAlloc {
				// a local slice header over storage that is not fresh: the bytes are shared
				isShared = true
			}
			shared[name] = isShared
			buf = name
			steps = append(steps, "GMarshal "+map[bool]string{true: "true", false: "false"}[isShared]+" "+coqString(name))
		case *ast.ReturnStmt:
			if len(x.Results) != 1 || i != len(fn.Body.List)-1 {
				failShape("digestMessage: unexpected return: %s", render(st))
			}
			re := regexp.MustCompile(`^digest\.NewFromBlob\((.+)\)\.ToProto\(\)$`)
			m := re.FindStringSubmatch(render(x.Results[0]))
			if m == nil {
				failShape("digestMessage: does not return digest.NewFromBlob(<buffer>).ToProto(): %s", render(st))
			}
			if m[1] != buf {
				failShape("digestMessage: hashes %s but serialised into %s", m[1], buf)
			}
			steps = append(steps, "GHash "+map[bool]string{true: "true", false: "false"}[shared[m[1]]]+" "+coqString(m[1]))
		default:
			failShape("digestMessage: unrecognised statement %d: %s", i, render(st))
		}
	}
	if len(steps) < 2 {
		failShape("digestMessage: no marshal + hash found")
	}
	return steps
}

// translateHashMemoStore finds, in PathHasher.Hash (src/fs/hash.go), the one store `hasher.memo[path] = result`
// that follows `result, err := hasher.hash(...)` and reports whether it stands under an if, and under which condition.
func translateHashMemoStore() (bool, string) {
	fset, f := parseFile("src/fs/hash.go")
	render := func(n ast.Node) string {
		var b bytes.Buffer
		if err := printer.Fprint(&b, fset, n); err != nil {
			failShape("cannot print node: %v", err)
		}
		return strings.Join(strings.Fields(b.String()), " ")
	}
	fn := findFunc(f, "PathHasher", "Hash")
	const store = `hasher.memo[path] = result`
	seenHash, found, guarded, cond := false, 0, false, ""
	for _, st := range fn.Body.List {
		s := render(st)
		if strings.HasPrefix(s, `result, err := hasher.hash(path, `) {
			seenHash = true
			continue
		}
		if s == store {
			if !seenHash {
				failShape("PathHasher.Hash: the memo is written before hasher.hash is called")
			}
			found++
			continue
		}
		if ifs, ok := st.(*ast.IfStmt); ok && strings.Contains(s, `hasher.memo[path] =`) {
			if !seenHash || ifs.Init != nil || ifs.Else != nil || len(ifs.Body.List) != 1 || render(ifs.Body.List[0]) != store {
				failShape("PathHasher.Hash: the store into the memo is not `if <cond> { hasher.memo[path] = result }`: %s", s)
			}
			found++
			guarded, cond = true, render(ifs.Cond)
			continue
		}
		if strings.Contains(s, `hasher.memo[path] =`) {
			failShape("PathHasher.Hash: unrecognised store into the memo: %s", s)
		}
	}
	if found != 1 {
		failShape("PathHasher.Hash: expected exactly one store into the memo after hasher.hash, found %d", found)
	}
	if guarded && cond != "err == nil" {
		failShape("PathHasher.Hash: the memo store is guarded by %q, not by err == nil", cond)
	}
	// the other half of the pair: hasher.hash hands back the running sum together with the error
	hs := render(findFunc(f, "PathHasher", "hash").Body)
	if !strings.Contains(hs, `hash := h.Sum(nil) if err != nil { return hash, err }`) {
		failShape("PathHasher.hash: no longer returns the sum so far together with the error (the model's FBad carries that sum)")
	}
	return guarded, cond
}
