package main

import (
	"bytes"
	"go/ast"
	"go/printer"
	"go/token"
	"regexp"
	"strings"
)

// DirWalk (property C28): the canonicalisation program of dirBuilder.walk (src/remote/utils.go) -
// which slices are sorted by Name, the single `last` variable and the order of the three
// duplicate-removal loops - plus the slice hasChild scans and the key buildEnv sorts by
// (src/remote/action.go). Any statement of walk that is not one of the recognised shapes fails closed.
func init() {
	targets["DirWalk"] = func() string {
		fset, f := parseFile("src/remote/utils.go")
		render := func(n ast.Node) string {
			var b bytes.Buffer
			if err := printer.Fprint(&b, fset, n); err != nil {
				failShape("cannot print node: %v", err)
			}
			return strings.Join(strings.Fields(b.String()), " ")
		}
		walk := findFunc(f, "dirBuilder", "walk")
		steps := []string{}
		alias := map[string]string{} // local slice variable -> Directory field
		reset := map[string]string{} // field -> variable it was reset from
		reAlias := regexp.MustCompile(`^(\w+) := dir\.(\w+)$`)
		reSort := regexp.MustCompile(`^sort\.Slice\((\w+), func\(i, j int\) bool \{ return (\w+)\[i\]\.Name < (\w+)\[j\]\.Name \}\)$`)
		reLast := regexp.MustCompile(`^last := "((?:[^"\\]|\\.)*)"$`)
		reReset := regexp.MustCompile(`^dir\.(\w+) = (\w+)\[:0\]$`)
		reDedup := regexp.MustCompile(`^for _, (\w+) := range (\w+) \{ if (\w+)\.Name != last \{ dir\.(\w+) = append\(dir\.(\w+), (\w+)\) last = (\w+)\.Name \} \}$`)
		const fillShape = `for _, d := range dir.Directories { if d.Digest == nil { d.Digest = b.walk(filepath.Join(name, d.Name), ch) } }`
		for i, st := range walk.Body.List {
			s := render(st)
			switch {
			case i == 0 && s == `dir := b.dirs[name]`:
			case s == fillShape:
				steps = append(steps, "WFill")
			case reAlias.MatchString(s):
				m := reAlias.FindStringSubmatch(s)
				alias[m[1]] = m[2]
			case reSort.MatchString(s):
				m := reSort.FindStringSubmatch(s)
				if m[1] != m[2] || m[1] != m[3] || alias[m[1]] == "" {
					failShape("walk: sort.Slice compares another slice than it sorts: %s", s)
				}
				steps = append(steps, "WSort "+coqString(alias[m[1]]))
			case reLast.MatchString(s):
				steps = append(steps, "WLast "+coqString(reLast.FindStringSubmatch(s)[1]))
			case reReset.MatchString(s):
				m := reReset.FindStringSubmatch(s)
				if alias[m[2]] != m[1] {
					failShape("walk: %s resets a field from another field's slice", s)
				}
				reset[m[1]] = m[2]
			case reDedup.MatchString(s):
				m := reDedup.FindStringSubmatch(s)
				v, src, field := m[1], m[2], m[4]
				if m[3] != v || m[6] != v || m[7] != v || m[5] != field || alias[src] != field || reset[field] != src {
					failShape("walk: duplicate-removal loop of unexpected form: %s", s)
				}
				steps = append(steps, "WDedup "+coqString(field))
			case s == `entry, _ := uploadinfo.EntryFromProto(dir)`:
				steps = append(steps, "WDigest")
			case s == `if ch != nil { ch <- entry }`:
			case s == `return entry.Digest.ToProto()`:
			default:
				failShape("walk: unrecognised statement %d: %s", i, s)
			}
		}

		// hasChild: which slice is scanned, compared how
		hc := findFunc(f, "", "hasChild")
		hcs := render(hc.Body)
		reHC := regexp.MustCompile(`^\{ for _, d := range dir\.(\w+) \{ if d\.Name == child \{ return true \} \} return false \}$`)
		if !reHC.MatchString(hcs) {
			failShape("hasChild: unexpected body: %s", hcs)
		}
		hcField := reHC.FindStringSubmatch(hcs)[1]
		// dir(): the guard in front of the append
		dirf := render(findFunc(f, "dirBuilder", "dir").Body)
		guard := `if child != "" && !hasChild(d, child) { d.Directories = append(d.Directories, &pb.DirectoryNode{Name: child}) }`
		if !strings.Contains(dirf, guard) {
			failShape("dirBuilder.dir: the hasChild-guarded append was not found: %s", dirf)
		}

		// buildEnv: sorted by what
		fset2, f2 := parseFile("src/remote/action.go")
		var b2 bytes.Buffer
		if err := printer.Fprint(&b2, fset2, findFunc(f2, "Client", "buildEnv").Body); err != nil {
			failShape("cannot print buildEnv: %v", err)
		}
		env := strings.Join(strings.Fields(b2.String()), " ")
		reEnv := regexp.MustCompile(`slices\.SortFunc\(vars, func\(a, b \*pb\.Command_EnvironmentVariable\) int \{ return strings\.Compare\(a\.(\w+), b\.(\w+)\) \}\) return vars \}$`)
		m := reEnv.FindStringSubmatch(env)
		if m == nil || m[1] != m[2] {
			failShape("buildEnv: does not end with slices.SortFunc(vars, by one field) and return vars")
		}
		if !strings.Contains(env, `for name, v := range env {`) {
			failShape("buildEnv: the loop over the environment map was not found")
		}
		// uploadInputDir: the three append sites that the verif hook (VerifDirBuilder.AddOutputs) mirrors
		up := findFunc(f2, "Client", "uploadInputDir")
		var b3 bytes.Buffer
		if err := printer.Fprint(&b3, fset2, up.Body); err != nil {
			failShape("cannot print uploadInputDir: %v", err)
		}
		upText := strings.Join(strings.Fields(b3.String()), " ")
		for _, want := range []string{
			`for _, f := range o.Files { d := b.Dir(filepath.Join(pkgName, filepath.Dir(f.Name))) d.Files = append(d.Files, &pb.FileNode{ Name: filepath.Base(f.Name), Digest: f.Digest, IsExecutable: f.IsExecutable, }) }`,
			`for _, d := range o.Directories { dir := b.Dir(filepath.Join(pkgName, filepath.Dir(d.Name))) dir.Directories = append(dir.Directories, &pb.DirectoryNode{ Name: filepath.Base(d.Name), Digest: d.Digest, })`,
			`for _, s := range o.Symlinks { d := b.Dir(filepath.Join(pkgName, filepath.Dir(s.Name))) d.Symlinks = append(d.Symlinks, &pb.SymlinkNode{ Name: filepath.Base(s.Name), Target: s.Target, }) }`,
			`b := newDirBuilder(c)`,
		} {
			if !strings.Contains(upText, want) {
				failShape("uploadInputDir: append site not of the form the verif hook mirrors: %s", want)
			}
		}
		_ = token.NoPos
		return genHeader +
			"Inductive wstep := WFill | WSort (field : string) | WLast (init : string) | WDedup (field : string) | WDigest.\n" +
			"Definition walk_prog : list wstep := [" + strings.Join(steps, "; ") + "].\n" +
			"Definition has_child_field : string := " + coqString(hcField) + ".\n" +
			"Definition env_sort_key : string := " + coqString(m[1]) + ".\n"
	}
}
