package main

import (
	"go/ast"
	"go/printer"
	"go/token"
	"go/types"
	"strconv"
	"strings"
)

// C19Tables (property C19): the regular tables of the asp lexer and parser, regenerated from
// src/parse/asp/lexer.go, grammar_parse.go and grammar.go:
//
//   - the token type constants (the `EOF = -(iota + 1)` block), in order;
//   - the case labels of the `switch next` of lex.nextToken, clause by clause, in order (byte values;
//     the default clause is the empty list), and of the `switch c` of lex.consumeIdent;
//   - ident_chars: the labels of the clause of consumeIdent's switch that appends to the identifier;
//   - the keys of the `keywords` map (grammar_parse.go) and of the `operators` map (grammar.go);
//   - (c19Round2) the guard chain and the line accesses of errorStack.errorMessage, the statement skeletons of
//     Parser.ParseFile / Parser.ParseReader (limiter protocol) and the initialiser of errorStack.files;
//   - the statement skeleton of parseFileInput (grammar_parse.go) in source order and the way its caller
//     Parser.parseAndHandleErrors (parser.go) uses the returned *FileInput on both return paths, plus the
//     list of Parser methods that reach the parser through parseAndHandleErrors (see c19Entry).
//
// Anything that is not a character literal / string literal where one is expected fails closed.
func init() {
	targets["C19Tables"] = func() string {
		_, fl := parseFile("src/parse/asp/lexer.go")
		_, fp := parseFile("src/parse/asp/grammar_parse.go")
		_, fg := parseFile("src/parse/asp/grammar.go")
		var b strings.Builder
		b.WriteString(genHeader)

		// --- token types ---------------------------------------------------------------------------
		var names []string
		for _, d := range fl.Decls {
			gd, ok := d.(*ast.GenDecl)
			if !ok || gd.Tok != token.CONST || len(gd.Specs) == 0 {
				continue
			}
			first := gd.Specs[0].(*ast.ValueSpec)
			if len(first.Names) != 1 || first.Names[0].Name != "EOF" {
				continue
			}
			if len(first.Values) != 1 || types.ExprString(first.Values[0]) != "-(iota + 1)" {
				failShape("token type block does not start with EOF = -(iota + 1)")
			}
			for i, s := range gd.Specs {
				vs := s.(*ast.ValueSpec)
				if len(vs.Names) != 1 || (i > 0 && (len(vs.Values) != 0 || vs.Type != nil)) {
					failShape("token type block: entry %d is not a bare name", i)
				}
				names = append(names, vs.Names[0].Name)
			}
		}
		if names == nil {
			failShape("token type const block not found in lexer.go")
		}
		b.WriteString("Definition token_types : list string := " + coqStringList(names) + ".\n")

		// --- switch clauses ------------------------------------------------------------------------
		clauses := func(fn, tag string) [][]int {
			fd := findFunc(fl, "lex", fn)
			var sw *ast.SwitchStmt
			ast.Inspect(fd.Body, func(n ast.Node) bool {
				if s, ok := n.(*ast.SwitchStmt); ok && s.Tag != nil && types.ExprString(s.Tag) == tag {
					if sw != nil {
						failShape("lex.%s: more than one `switch %s`", fn, tag)
					}
					sw = s
				}
				return true
			})
			if sw == nil {
				failShape("lex.%s: no `switch %s`", fn, tag)
			}
			out := [][]int{}
			for _, c := range sw.Body.List {
				cc := c.(*ast.CaseClause)
				labels := []int{}
				for _, e := range cc.List {
					switch x := e.(type) {
					case *ast.BasicLit:
						if x.Kind == token.CHAR {
							r := []rune(unquote(x))
							if len(r) != 1 || r[0] > 255 {
								failShape("lex.%s: case label %s is not a single byte", fn, x.Value)
							}
							labels = append(labels, int(r[0]))
						} else if x.Kind == token.INT {
							n, err := strconv.Atoi(x.Value)
							if err != nil || n < 0 || n > 255 {
								failShape("lex.%s: case label %s is not a byte", fn, x.Value)
							}
							labels = append(labels, n)
						} else {
							failShape("lex.%s: case label %s is not a character", fn, x.Value)
						}
					default:
						failShape("lex.%s: case label %s is not a literal", fn, types.ExprString(e))
					}
				}
				out = append(out, labels)
			}
			return out
		}
		nlist := func(xs []int) string {
			s := make([]string, len(xs))
			for i, x := range xs {
				s[i] = strconv.Itoa(x)
			}
			return "[" + strings.Join(s, "; ") + "]"
		}
		nlists := func(xss [][]int) string {
			s := make([]string, len(xss))
			for i, xs := range xss {
				s[i] = nlist(xs)
			}
			return "[" + strings.Join(s, ";\n   ") + "]"
		}
		nt := clauses("nextToken", "next")
		b.WriteString("Definition next_token_cases : list (list N) :=\n  (" + nlists(nt) + ")%N.\n")
		ci := clauses("consumeIdent", "c")
		b.WriteString("Definition consume_ident_cases : list (list N) :=\n  (" + nlists(ci) + ")%N.\n")
		var identChars []int
		for _, c := range ci {
			if len(c) > 10 {
				if identChars != nil {
					failShape("lex.consumeIdent: more than one long case clause")
				}
				identChars = c
			}
		}
		if identChars == nil {
			failShape("lex.consumeIdent: the clause listing the identifier characters was not found")
		}
		b.WriteString("Definition ident_chars : list N := " + nlist(identChars) + "%N.\n")

		// --- map keys ------------------------------------------------------------------------------
		mapKeys := func(f *ast.File, name string) []string {
			for _, d := range f.Decls {
				gd, ok := d.(*ast.GenDecl)
				if !ok || gd.Tok != token.VAR {
					continue
				}
				for _, sp := range gd.Specs {
					vs := sp.(*ast.ValueSpec)
					if len(vs.Names) != 1 || vs.Names[0].Name != name || len(vs.Values) != 1 {
						continue
					}
					cl, ok := vs.Values[0].(*ast.CompositeLit)
					if !ok {
						failShape("var %s is not a composite literal", name)
					}
					keys := []string{}
					for _, e := range cl.Elts {
						kv, ok := e.(*ast.KeyValueExpr)
						if !ok {
							failShape("var %s: element is not key: value", name)
						}
						lit, ok := kv.Key.(*ast.BasicLit)
						if !ok || lit.Kind != token.STRING {
							failShape("var %s: key is not a string literal", name)
						}
						keys = append(keys, unquote(lit))
					}
					return keys
				}
			}
			failShape("var %s not found", name)
			return nil
		}
		b.WriteString("Definition keywords : list string := " + coqStringList(mapKeys(fp, "keywords")) + ".\n")
		b.WriteString("Definition operators : list string := " + coqStringList(mapKeys(fg, "operators")) + ".\n")
		c19Entry(&b, fp)
		c19Round2(&b)
		return b.String()
	}
}

// c19Entry translates the wrapper around the recursive-descent parser:
//
//	parse_file_input_steps : the top-level statements of parseFileInput, in source order, each one of
//	    "alloc_input"   input = &FileInput{}
//	    "defer_recover" defer func() { if r := recover(); r != nil { ...; err = r.(error) } }()
//	    "new_lexer"     p := &parser{l: newLexer(r)}          (newLexer lexes the first token: it can panic)
//	    "loop"          for tok := p.l.Peek(); tok.Type != EOF; tok = p.l.Peek() { input.Statements = append(input.Statements, p.parseStatement()) }
//	    "return_input"  return input, nil
//	handle_ok_derefs_input / handle_err_derefs_input : whether parseAndHandleErrors returns input.Statements
//	    (a dereference of the *FileInput) or nil on its `err == nil` / error path;
//	entry_points : the methods of Parser (other than parseAndHandleErrors) whose body calls p.parseAndHandleErrors;
//	parse_file_input_callers : every function of the package (non-test, non-verif files of parser.go and
//	    grammar_parse.go) that calls parseFileInput.
//
// Every statement that is not exactly one of these shapes fails closed.
func c19Entry(b *strings.Builder, fp *ast.File) {
	_, fparser := parseFile("src/parse/asp/parser.go")
	// the exact source text of an expression (types.ExprString abbreviates composite literals and function bodies)
	str := func(n ast.Expr) string {
		if n == nil {
			return ""
		}
		var sb strings.Builder
		if err := printer.Fprint(&sb, token.NewFileSet(), n); err != nil {
			failShape("cannot print an expression: %v", err)
		}
		return sb.String()
	}
	// --- parseFileInput -------------------------------------------------------------------------
	fd := findFunc(fp, "", "parseFileInput")
	res := fd.Type.Results
	if res == nil || len(res.List) != 2 || len(res.List[0].Names) != 1 || res.List[0].Names[0].Name != "input" ||
		str(res.List[0].Type) != "*FileInput" || len(res.List[1].Names) != 1 || res.List[1].Names[0].Name != "err" || str(res.List[1].Type) != "error" {
		failShape("parseFileInput: results are not (input *FileInput, err error)")
	}
	isRecoverDefer := func(d *ast.DeferStmt) bool {
		fl, ok := d.Call.Fun.(*ast.FuncLit)
		if !ok || len(d.Call.Args) != 0 || len(fl.Body.List) != 1 {
			return false
		}
		ifs, ok := fl.Body.List[0].(*ast.IfStmt)
		if !ok || ifs.Else != nil || ifs.Init == nil || str(ifs.Cond) != "r != nil" {
			return false
		}
		as, ok := ifs.Init.(*ast.AssignStmt)
		if !ok || as.Tok != token.DEFINE || len(as.Lhs) != 1 || str(as.Lhs[0]) != "r" || len(as.Rhs) != 1 || str(as.Rhs[0]) != "recover()" {
			return false
		}
		// the body may log, and must end with err = r.(error); nothing else may be assigned
		n := len(ifs.Body.List)
		if n == 0 {
			return false
		}
		for i, s := range ifs.Body.List {
			if i == n-1 {
				a, ok := s.(*ast.AssignStmt)
				if !ok || a.Tok != token.ASSIGN || len(a.Lhs) != 1 || str(a.Lhs[0]) != "err" || len(a.Rhs) != 1 || str(a.Rhs[0]) != "r.(error)" {
					return false
				}
				continue
			}
			es, ok := s.(*ast.ExprStmt)
			if !ok || !strings.HasPrefix(str(es.X), "log.") {
				return false
			}
		}
		return true
	}
	isLoop := func(f *ast.ForStmt) bool {
		init, ok := f.Init.(*ast.AssignStmt)
		if !ok || init.Tok != token.DEFINE || len(init.Lhs) != 1 || str(init.Lhs[0]) != "tok" || len(init.Rhs) != 1 || str(init.Rhs[0]) != "p.l.Peek()" {
			return false
		}
		post, ok := f.Post.(*ast.AssignStmt)
		if !ok || post.Tok != token.ASSIGN || len(post.Lhs) != 1 || str(post.Lhs[0]) != "tok" || len(post.Rhs) != 1 || str(post.Rhs[0]) != "p.l.Peek()" {
			return false
		}
		if str(f.Cond) != "tok.Type != EOF" || len(f.Body.List) != 1 {
			return false
		}
		a, ok := f.Body.List[0].(*ast.AssignStmt)
		return ok && a.Tok == token.ASSIGN && len(a.Lhs) == 1 && str(a.Lhs[0]) == "input.Statements" && len(a.Rhs) == 1 &&
			str(a.Rhs[0]) == "append(input.Statements, p.parseStatement())"
	}
	var steps []string
	for i, st := range fd.Body.List {
		switch x := st.(type) {
		case *ast.AssignStmt:
			switch {
			case x.Tok == token.ASSIGN && len(x.Lhs) == 1 && str(x.Lhs[0]) == "input" && len(x.Rhs) == 1 && str(x.Rhs[0]) == "&FileInput{}":
				steps = append(steps, "alloc_input")
			case x.Tok == token.DEFINE && len(x.Lhs) == 1 && str(x.Lhs[0]) == "p" && len(x.Rhs) == 1 && str(x.Rhs[0]) == "&parser{l: newLexer(r)}":
				steps = append(steps, "new_lexer")
			default:
				failShape("parseFileInput: statement %d is an assignment of an unknown shape", i)
			}
		case *ast.DeferStmt:
			if !isRecoverDefer(x) {
				failShape("parseFileInput: statement %d is a defer of an unknown shape", i)
			}
			steps = append(steps, "defer_recover")
		case *ast.ForStmt:
			if !isLoop(x) {
				failShape("parseFileInput: statement %d is a loop of an unknown shape", i)
			}
			steps = append(steps, "loop")
		case *ast.ReturnStmt:
			if len(x.Results) != 2 || str(x.Results[0]) != "input" || str(x.Results[1]) != "nil" {
				failShape("parseFileInput: statement %d is not `return input, nil`", i)
			}
			steps = append(steps, "return_input")
		default:
			failShape("parseFileInput: statement %d has an unknown shape", i)
		}
	}
	count := map[string]int{}
	for _, s := range steps {
		count[s]++
	}
	for _, s := range []string{"defer_recover", "new_lexer", "loop", "return_input"} {
		if count[s] != 1 {
			failShape("parseFileInput: %d statements of kind %s (expected exactly one)", count[s], s)
		}
	}
	if steps[len(steps)-1] != "return_input" {
		failShape("parseFileInput does not end with `return input, nil`")
	}
	idx := func(name string) int {
		for i, s := range steps {
			if s == name {
				return i
			}
		}
		return -1
	}
	// Go would not compile `p` used before its definition; and the model does not resolve the evaluation order of
	// `input.Statements = append(input.Statements, p.parseStatement())` on a nil input
	if idx("new_lexer") > idx("loop") {
		failShape("parseFileInput: the loop precedes the construction of the parser")
	}
	if a := idx("alloc_input"); a >= 0 && a > idx("loop") {
		failShape("parseFileInput: the FileInput is allocated after the statement loop")
	}
	b.WriteString("Definition parse_file_input_steps : list string := " + coqStringList(steps) + ".\n")

	// --- Parser.parseAndHandleErrors --------------------------------------------------------------
	hd := findFunc(fparser, "Parser", "parseAndHandleErrors")
	if len(hd.Body.List) != 3 {
		failShape("parseAndHandleErrors: %d statements (expected 3)", len(hd.Body.List))
	}
	as, ok := hd.Body.List[0].(*ast.AssignStmt)
	if !ok || as.Tok != token.DEFINE || len(as.Lhs) != 2 || str(as.Lhs[0]) != "input" || str(as.Lhs[1]) != "err" || len(as.Rhs) != 1 || str(as.Rhs[0]) != "parseFileInput(r)" {
		failShape("parseAndHandleErrors: first statement is not `input, err := parseFileInput(r)`")
	}
	deref := func(e ast.Expr, where string) string {
		switch str(e) {
		case "input.Statements":
			return "true"
		case "nil":
			return "false"
		}
		failShape("parseAndHandleErrors: the %s path returns %s (expected input.Statements or nil)", where, str(e))
		return ""
	}
	ifs, ok := hd.Body.List[1].(*ast.IfStmt)
	if !ok || ifs.Init != nil || ifs.Else != nil || str(ifs.Cond) != "err == nil" || len(ifs.Body.List) != 1 {
		failShape("parseAndHandleErrors: second statement is not `if err == nil { return ... }`")
	}
	r1, ok := ifs.Body.List[0].(*ast.ReturnStmt)
	if !ok || len(r1.Results) != 2 || str(r1.Results[1]) != "nil" {
		failShape("parseAndHandleErrors: the err == nil path is not `return <statements>, nil`")
	}
	r2, ok := hd.Body.List[2].(*ast.ReturnStmt)
	if !ok || len(r2.Results) != 2 || str(r2.Results[1]) != "p.annotate(err, r)" {
		failShape("parseAndHandleErrors: the error path is not `return <statements>, p.annotate(err, r)`")
	}
	b.WriteString("Definition handle_ok_derefs_input : bool := " + deref(r1.Results[0], "err == nil") + ".\n")
	b.WriteString("Definition handle_err_derefs_input : bool := " + deref(r2.Results[0], "error") + ".\n")

	// --- who reaches the parser how -------------------------------------------------------------
	calls := func(fd *ast.FuncDecl, callee string) bool {
		found := false
		if fd.Body == nil {
			return false
		}
		ast.Inspect(fd.Body, func(n ast.Node) bool {
			if c, ok := n.(*ast.CallExpr); ok && str(c.Fun) == callee {
				found = true
			}
			return true
		})
		return found
	}
	name := func(fd *ast.FuncDecl) string {
		if fd.Recv != nil && len(fd.Recv.List) == 1 {
			t := fd.Recv.List[0].Type
			if s, ok := t.(*ast.StarExpr); ok {
				t = s.X
			}
			return str(t) + "." + fd.Name.Name
		}
		return fd.Name.Name
	}
	var entries, direct []string
	for _, f := range []*ast.File{fparser, fp} {
		for _, d := range f.Decls {
			fd, ok := d.(*ast.FuncDecl)
			if !ok {
				continue
			}
			if calls(fd, "p.parseAndHandleErrors") {
				entries = append(entries, name(fd))
			}
			if calls(fd, "parseFileInput") {
				direct = append(direct, name(fd))
			}
		}
	}
	b.WriteString("Definition entry_points : list string := " + coqStringList(entries) + ".\n")
	b.WriteString("Definition parse_file_input_callers : list string := " + coqStringList(direct) + ".\n")
}

// c19Round2 translates the three places outside the recursive-descent parser that "parsing fails with a positioned
// error, never a crash or a hang" also rests on:
//
//	error_message_guards : the if / else-if chain of errorStack.errorMessage (errors.go) that follows
//	    `charsBefore := frame.Column - 1`, one (condition, action, n) per branch in source order;
//	    condition: "lt_zero" (charsBefore < 0) or "<op>_len" with op in lt le eq ge gt (charsBefore <op> len(line));
//	    action: "set_zero" (charsBefore = 0), "pad" (line += n spaces), "short" (return stack.ShortError())
//	error_message_plain_accesses / error_message_coloured_accesses : every index / slice expression on `line` in
//	    the arguments of the plain / the coloured fmt.Sprintf: "slice_to" line[:charsBefore], "index"
//	    line[charsBefore], "slice_from_next" line[charsBefore+1:]
//	parse_file_steps / parse_reader_steps : the top-level statements of Parser.ParseFile / Parser.ParseReader:
//	    "acquire" p.limiter.Acquire(), "defer_release" defer p.limiter.Release(), "release" p.limiter.Release(),
//	    "parse" (err := parsing), "return_if_err" if err != nil { return ... }, "interpret" (err = interpretAll),
//	    "annotate_if_err" if err != nil { re-open; p.annotate }, "return"
//	error_files_init : "fresh_map" when errorStack.file initialises stack.files with a new map, "shared:<expr>" when
//	    with anything else (a package-level map is shared by every goroutine that reports an error);
//	error_files_assignments : the number of assignments to a `.files` field in errors.go.
//
// Every other shape fails closed.
func c19Round2(b *strings.Builder) {
	_, fe := parseFile("src/parse/asp/errors.go")
	_, fparser := parseFile("src/parse/asp/parser.go")
	str := func(n ast.Node) string {
		if n == nil {
			return ""
		}
		var sb strings.Builder
		if err := printer.Fprint(&sb, token.NewFileSet(), n); err != nil {
			failShape("cannot print a node: %v", err)
		}
		return sb.String()
	}
	triple := func(a, c string, n int) string {
		return "(" + strconv.Quote(a) + ", " + strconv.Quote(c) + ", " + strconv.Itoa(n) + "%N)"
	}

	// --- errorStack.errorMessage ---------------------------------------------------------------------
	em := findFunc(fe, "errorStack", "errorMessage")
	if len(em.Body.List) != 3 || str(em.Body.List[0]) != "frame := stack.Stack[0]" || str(em.Body.List[2]) != "return stack.err.Error()" {
		failShape("errorMessage: not `frame := stack.Stack[0]; if ... { ... }; return stack.err.Error()`")
	}
	outer, ok := em.Body.List[1].(*ast.IfStmt)
	if !ok || outer.Else != nil || str(outer.Init) != "before, line, after := stack.readLine(stack.Readers[0], frame.Line-1)" ||
		str(outer.Cond) != `line != "" || before != "" || after != ""` {
		failShape("errorMessage: the readLine guard has an unknown shape")
	}
	body := outer.Body.List
	if len(body) != 5 || str(body[0]) != "charsBefore := frame.Column - 1" || str(body[2]) != `spaces := strings.Repeat(" ", charsBefore)` {
		failShape("errorMessage: body is not `charsBefore := ...; if-chain; spaces := ...; if !coloured { return }; return`")
	}
	var guards []string
	for node, _ := body[1].(*ast.IfStmt); ; {
		if node == nil {
			failShape("errorMessage: statement after charsBefore is not an if chain")
		}
		if node.Init != nil {
			failShape("errorMessage: guard with an init statement")
		}
		be, ok := node.Cond.(*ast.BinaryExpr)
		if !ok || str(be.X) != "charsBefore" {
			failShape("errorMessage: guard condition %s is not a comparison of charsBefore", str(node.Cond))
		}
		ops := map[token.Token]string{token.LSS: "lt", token.LEQ: "le", token.EQL: "eq", token.GEQ: "ge", token.GTR: "gt"}
		op, ok := ops[be.Op]
		if !ok {
			failShape("errorMessage: guard operator %s", be.Op)
		}
		var cond string
		switch str(be.Y) {
		case "0":
			if op != "lt" {
				failShape("errorMessage: guard %s (only charsBefore < 0 is known against 0)", str(node.Cond))
			}
			cond = "lt_zero"
		case "len(line)":
			cond = op + "_len"
		default:
			failShape("errorMessage: guard compares charsBefore with %s", str(be.Y))
		}
		if len(node.Body.List) != 1 {
			failShape("errorMessage: guard %s has %d statements", str(node.Cond), len(node.Body.List))
		}
		switch act := str(node.Body.List[0]); {
		case act == "charsBefore = 0":
			guards = append(guards, triple(cond, "set_zero", 0))
		case act == "return stack.ShortError()":
			guards = append(guards, triple(cond, "short", 0))
		case strings.HasPrefix(act, `line += "`) && strings.HasSuffix(act, `"`) && strings.Trim(act[len(`line += "`):len(act)-1], " ") == "":
			guards = append(guards, triple(cond, "pad", len(act)-len(`line += "`)-1))
		default:
			failShape("errorMessage: guard %s has the unknown action %s", str(node.Cond), act)
		}
		if node.Else == nil {
			break
		}
		next, ok := node.Else.(*ast.IfStmt)
		if !ok {
			failShape("errorMessage: the guard chain ends with a plain else")
		}
		node = next
	}
	b.WriteString("Definition error_message_guards : list (string * string * N) := [" + strings.Join(guards, "; ") + "].\n")
	accesses := func(ret ast.Stmt, what string) []string {
		rs, ok := ret.(*ast.ReturnStmt)
		if !ok || len(rs.Results) != 1 {
			failShape("errorMessage: the %s return has an unknown shape", what)
		}
		call, ok := rs.Results[0].(*ast.CallExpr)
		if !ok || str(call.Fun) != "fmt.Sprintf" {
			failShape("errorMessage: the %s return is not fmt.Sprintf(...)", what)
		}
		out := []string{}
		for _, a := range call.Args {
			ast.Inspect(a, func(n ast.Node) bool {
				switch n.(type) {
				case *ast.IndexExpr, *ast.SliceExpr:
					switch str(n) {
					case "line[:charsBefore]":
						out = append(out, "slice_to")
					case "line[charsBefore]":
						out = append(out, "index")
					case "line[charsBefore+1:]":
						out = append(out, "slice_from_next")
					default:
						failShape("errorMessage: unknown index/slice expression %s in the %s message", str(n), what)
					}
					return false
				case *ast.CallExpr:
					failShape("errorMessage: call %s inside the %s message", str(n), what)
				}
				return true
			})
		}
		return out
	}
	plain, ok := body[3].(*ast.IfStmt)
	if !ok || plain.Init != nil || plain.Else != nil || str(plain.Cond) != "!cli.ShowColouredOutput" || len(plain.Body.List) != 1 {
		failShape("errorMessage: `if !cli.ShowColouredOutput { return ... }` not found")
	}
	b.WriteString("Definition error_message_plain_accesses : list string := " + coqStringList(accesses(plain.Body.List[0], "plain")) + ".\n")
	b.WriteString("Definition error_message_coloured_accesses : list string := " + coqStringList(accesses(body[4], "coloured")) + ".\n")

	// --- Parser.ParseFile / Parser.ParseReader: the limiter protocol ---------------------------------------
	limiterSteps := func(name string) []string {
		fd := findFunc(fparser, "Parser", name)
		var steps []string
		for i, st := range fd.Body.List {
			t := str(st)
			switch x := st.(type) {
			case *ast.ExprStmt:
				switch t {
				case "p.limiter.Acquire()":
					steps = append(steps, "acquire")
				case "p.limiter.Release()":
					steps = append(steps, "release")
				default:
					failShape("Parser.%s: statement %d (%s) has an unknown shape", name, i, t)
				}
			case *ast.DeferStmt:
				if t != "defer p.limiter.Release()" {
					failShape("Parser.%s: statement %d is a defer of an unknown shape", name, i)
				}
				steps = append(steps, "defer_release")
			case *ast.AssignStmt:
				switch {
				case t == "statements, err := p.parse(fs, filename)" || t == "stmts, err := p.parseAndHandleErrors(r)":
					steps = append(steps, "parse")
				case strings.HasPrefix(t, "_, err = p.interpreter.interpretAll("):
					steps = append(steps, "interpret")
				default:
					failShape("Parser.%s: statement %d (%s) is an assignment of an unknown shape", name, i, t)
				}
			case *ast.IfStmt:
				if x.Init != nil || x.Else != nil || str(x.Cond) != "err != nil" {
					failShape("Parser.%s: statement %d is an if of an unknown shape", name, i)
				}
				if len(x.Body.List) == 1 {
					if _, ok := x.Body.List[0].(*ast.ReturnStmt); ok {
						steps = append(steps, "return_if_err")
						continue
					}
				}
				for _, s := range x.Body.List {
					if ts := str(s); ts != "f, _ := p.open(fs, filename)" && ts != "p.annotate(err, f)" {
						failShape("Parser.%s: statement %d: unknown statement %s on the error path", name, i, ts)
					}
				}
				steps = append(steps, "annotate_if_err")
			case *ast.ReturnStmt:
				steps = append(steps, "return")
			default:
				failShape("Parser.%s: statement %d has an unknown shape", name, i)
			}
		}
		if len(steps) == 0 || steps[len(steps)-1] != "return" {
			failShape("Parser.%s does not end with a return", name)
		}
		return steps
	}
	b.WriteString("Definition parse_file_steps : list string := " + coqStringList(limiterSteps("ParseFile")) + ".\n")
	b.WriteString("Definition parse_reader_steps : list string := " + coqStringList(limiterSteps("ParseReader")) + ".\n")

	// --- errorStack.file: who owns the files map -----------------------------------------------------------
	ff := findFunc(fe, "errorStack", "file")
	if len(ff.Body.List) == 0 {
		failShape("errorStack.file: empty body")
	}
	init, ok := ff.Body.List[0].(*ast.IfStmt)
	if !ok || init.Init != nil || init.Else != nil || str(init.Cond) != "stack.files == nil" || len(init.Body.List) != 1 {
		failShape("errorStack.file does not start with `if stack.files == nil { stack.files = ... }`")
	}
	as, ok := init.Body.List[0].(*ast.AssignStmt)
	if !ok || as.Tok != token.ASSIGN || len(as.Lhs) != 1 || str(as.Lhs[0]) != "stack.files" || len(as.Rhs) != 1 {
		failShape("errorStack.file: the initialiser is not an assignment to stack.files")
	}
	filesInit := ""
	switch rhs := str(as.Rhs[0]); rhs {
	case "map[string]*File{}", "make(map[string]*File)":
		filesInit = "fresh_map"
	default:
		filesInit = "shared:" + rhs
	}
	nAssign := 0
	ast.Inspect(fe, func(n ast.Node) bool {
		switch x := n.(type) {
		case *ast.AssignStmt:
			for _, l := range x.Lhs {
				if sel, ok := l.(*ast.SelectorExpr); ok && sel.Sel.Name == "files" {
					nAssign++
				}
			}
		case *ast.KeyValueExpr:
			if id, ok := x.Key.(*ast.Ident); ok && id.Name == "files" {
				nAssign++
			}
		}
		return true
	})
	b.WriteString("Definition error_files_init : string := " + strconv.Quote(filesInit) + ".\n")
	b.WriteString("Definition error_files_assignments : N := " + strconv.Itoa(nAssign) + "%N.\n")
}
