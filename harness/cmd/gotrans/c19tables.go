package main

import (
	"go/ast"
	"go/token"
	"go/types"
	"strconv"
	"strings"
)

// C19Tables (property C19): the regular tables of the asp lexer and parser, regenerated from
// src/parse/asp/lexer.go, grammar_parse.go and grammar.go:
//
//   - the token type constants (the `EOF = -(iota + 1)` block), in order;
//   - the case labels of the `switch next` of lex.nextToken, clause by clause, in order (byte values;
//     the default clause is the empty list), and of the `switch c` of lex.consumeIdent;
//   - ident_chars: the labels of the clause of consumeIdent's switch that appends to the identifier;
//   - the keys of the `keywords` map (grammar_parse.go) and of the `operators` map (grammar.go).
//
// Anything that is not a character literal / string literal where one is expected fails closed.
func init() {
	targets["C19Tables"] = func() string {
		_, fl := parseFile("src/parse/asp/lexer.go")
		_, fp := parseFile("src/parse/asp/grammar_parse.go")
		_, fg := parseFile("src/parse/asp/grammar.go")
		var b strings.Builder
		b.WriteString(genHeader)

		// --- token types ---------------------------------------------------------------------------
		var names []string
		for _, d := range fl.Decls {
			gd, ok := d.(*ast.GenDecl)
			if !ok || gd.Tok != token.CONST || len(gd.Specs) == 0 {
				continue
			}
			first := gd.Specs[0].(*ast.ValueSpec)
			if len(first.Names) != 1 || first.Names[0].Name != "EOF" {
				continue
			}
			if len(first.Values) != 1 || types.ExprString(first.Values[0]) != "-(iota + 1)" {
				failShape("token type block does not start with EOF = -(iota + 1)")
			}
			for i, s := range gd.Specs {
				vs := s.(*ast.ValueSpec)
				if len(vs.Names) != 1 || (i > 0 && (len(vs.Values) != 0 || vs.Type != nil)) {
					failShape("token type block: entry %d is not a bare name", i)
				}
				names = append(names, vs.Names[0].Name)
			}
		}
		if names == nil {
			failShape("token type const block not found in lexer.go")
		}
		b.WriteString("Definition token_types : list string := " + coqStringList(names) + ".\n")

		// --- switch clauses ------------------------------------------------------------------------
		clauses := func(fn, tag string) [][]int {
			fd := findFunc(fl, "lex", fn)
			var sw *ast.SwitchStmt
			ast.Inspect(fd.Body, func(n ast.Node) bool {
				if s, ok := n.(*ast.SwitchStmt); ok && s.Tag != nil && types.ExprString(s.Tag) == tag {
					if sw != nil {
						failShape("lex.%s: more than one `switch %s`", fn, tag)
					}
					sw = s
				}
				return true
			})
			if sw == nil {
				failShape("lex.%s: no `switch %s`", fn, tag)
			}
			out := [][]int{}
			for _, c := range sw.Body.List {
				cc := c.(*ast.CaseClause)
				labels := []int{}
				for _, e := range cc.List {
					switch x := e.(type) {
					case *ast.BasicLit:
						if x.Kind == token.CHAR {
							r := []rune(unquote(x))
							if len(r) != 1 || r[0] > 255 {
								failShape("lex.%s: case label %s is not a single byte", fn, x.Value)
							}
							labels = append(labels, int(r[0]))
						} else if x.Kind == token.INT {
							n, err := strconv.Atoi(x.Value)
							if err != nil || n < 0 || n > 255 {
								failShape("lex.%s: case label %s is not a byte", fn, x.Value)
							}
							labels = append(labels, n)
						} else {
							failShape("lex.%s: case label %s is not a character", fn, x.Value)
						}
					default:
						failShape("lex.%s: case label %s is not a literal", fn, types.ExprString(e))
					}
				}
				out = append(out, labels)
			}
			return out
		}
		nlist := func(xs []int) string {
			s := make([]string, len(xs))
			for i, x := range xs {
				s[i] = strconv.Itoa(x)
			}
			return "[" + strings.Join(s, "; ") + "]"
		}
		nlists := func(xss [][]int) string {
			s := make([]string, len(xss))
			for i, xs := range xss {
				s[i] = nlist(xs)
			}
			return "[" + strings.Join(s, ";\n   ") + "]"
		}
		nt := clauses("nextToken", "next")
		b.WriteString("Definition next_token_cases : list (list N) :=\n  (" + nlists(nt) + ")%N.\n")
		ci := clauses("consumeIdent", "c")
		b.WriteString("Definition consume_ident_cases : list (list N) :=\n  (" + nlists(ci) + ")%N.\n")
		var identChars []int
		for _, c := range ci {
			if len(c) > 10 {
				if identChars != nil {
					failShape("lex.consumeIdent: more than one long case clause")
				}
				identChars = c
			}
		}
		if identChars == nil {
			failShape("lex.consumeIdent: the clause listing the identifier characters was not found")
		}
		b.WriteString("Definition ident_chars : list N := " + nlist(identChars) + "%N.\n")

		// --- map keys ------------------------------------------------------------------------------
		mapKeys := func(f *ast.File, name string) []string {
			for _, d := range f.Decls {
				gd, ok := d.(*ast.GenDecl)
				if !ok || gd.Tok != token.VAR {
					continue
				}
				for _, sp := range gd.Specs {
					vs := sp.(*ast.ValueSpec)
					if len(vs.Names) != 1 || vs.Names[0].Name != name || len(vs.Values) != 1 {
						continue
					}
					cl, ok := vs.Values[0].(*ast.CompositeLit)
					if !ok {
						failShape("var %s is not a composite literal", name)
					}
					keys := []string{}
					for _, e := range cl.Elts {
						kv, ok := e.(*ast.KeyValueExpr)
						if !ok {
							failShape("var %s: element is not key: value", name)
						}
						lit, ok := kv.Key.(*ast.BasicLit)
						if !ok || lit.Kind != token.STRING {
							failShape("var %s: key is not a string literal", name)
						}
						keys = append(keys, unquote(lit))
					}
					return keys
				}
			}
			failShape("var %s not found", name)
			return nil
		}
		b.WriteString("Definition keywords : list string := " + coqStringList(mapKeys(fp, "keywords")) + ".\n")
		b.WriteString("Definition operators : list string := " + coqStringList(mapKeys(fg, "operators")) + ".\n")
		return b.String()
	}
}
