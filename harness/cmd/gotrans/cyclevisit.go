package main

import (
	"fmt"
	"go/ast"
	"go/token"
	"strings"
)

// CycleVisit (property C06): the control skeleton of cycleDetector.Check in
// src/core/cycle_detector.go - the body of the `visit` closure and of the loop over AllTargets() -
// as terms of a small closed statement language.  Model/C06_Skel.v interprets them and
// Proof/C06_Skel.v proves the interpretation equal to the hand model.  Every statement or
// expression outside the shapes listed here fails closed.
const cycleVisitTypes = `(* the two map[*BuildTarget]struct{} sets *)
Inductive setname := SPartial | SComplete.
(* the flags of a depInfo that an accessor of target.dependencies may test *)
Inductive depflag := FSource | FInternal | FRuntime | FData.
(* the accessor the dependency loop of visit ranges over *)
Inductive depsrc :=
| DepsAll                       (* target.Dependencies() *)
| DepsBuild.                    (* target.BuildDependencies() *)
Inductive cond :=
| CStopped                      (* c.stopped *)
| CStateGe (s : gstate)         (* target.State() >= s *)
| CIn (s : setname)             (* _, present := s[target]; present *)
| CDone                         (* done *)
| CTargetIsLast                 (* target == cycle[len(cycle)-1] *)
| CTargetIsFirst                (* target == cycle[0] *)
| CNot (a : cond) | COr (a b : cond) | CAnd (a b : cond).
(* first result of a return inside visit *)
Inductive cyc :=
| KNil                          (* nil *)
| KSelf                         (* []*BuildTarget{target} *)
| KCycle                        (* cycle *)
| KPrepend                      (* append([]*BuildTarget{target}, cycle...) *)
| KAppend.                      (* append(cycle, target) *)
(* inside if cycle, done := visit(dep); cycle != nil { ... } *)
Inductive istmt :=
| IIf (c : cond) (k : cyc) (done : bool)     (* if c { return k, done } *)
| IRet (k : cyc) (done : bool).              (* return k, done *)
Inductive stmt :=
| SIf (c : cond) (k : cyc) (done : bool)     (* if c { return k, done }   (also each arm of an if/else-if chain) *)
| SIfAddRet (c : cond) (adds : list setname) (k : cyc) (done : bool)   (* if c { s[target] = struct{}{} for s in adds; return k, done } *)
| SAdd (s : setname)                         (* s[target] = struct{}{} *)
| SDel (s : setname)                         (* delete(s, target) *)
| SRange (src : depsrc) (inner : list istmt) (* for _, dep := range target.<src>() { if cycle, done := visit(dep); cycle != nil { inner } } *)
| SRet (k : cyc) (done : bool).              (* return k, done *)
(* what Check puts into errCycle.Cycle *)
Inductive report :=
| RCycle                        (* cycle, as visit returned it *)
| RThrough.                     (* f(cycle) for some other function f: not the slice visit returned *)
(* inside for _, target := range c.graph.AllTargets() { ... } *)
Inductive lstmt :=
| LIfRetNil (c : cond)                       (* if c { return nil } *)
| LIfVisit (c : cond) (r : report).          (* if c { if cycle, _ := visit(target); cycle != nil { return &errCycle{Cycle: r} } } *)
(* the fields of type cycleDetector: everything one detector can carry from one Check to the next *)
Inductive dfield :=
| DGraph                        (* graph *BuildGraph *)
| DStopped.                     (* stopped bool *)
`

// cvDetectorFields lists the fields of `type cycleDetector struct`. Any field other than
// `graph *BuildGraph` and `stopped bool` fails closed: it would be state kept between runs of Check
// that the model does not have.
func cvDetectorFields(fset *token.FileSet, f *ast.File) string {
	for _, d := range f.Decls {
		gd, ok := d.(*ast.GenDecl)
		if !ok || gd.Tok != token.TYPE {
			continue
		}
		for _, sp := range gd.Specs {
			ts := sp.(*ast.TypeSpec)
			if ts.Name.Name != "cycleDetector" {
				continue
			}
			st, ok := ts.Type.(*ast.StructType)
			if !ok {
				failShape("%s: cycleDetector is not a struct", cvPos(fset, ts))
			}
			items := []string{}
			for _, fl := range st.Fields.List {
				if len(fl.Names) == 0 {
					failShape("%s: embedded field in cycleDetector", cvPos(fset, fl))
				}
				for _, n := range fl.Names {
					switch n.Name {
					case "graph":
						se, ok := fl.Type.(*ast.StarExpr)
						if !ok || !cvIsIdent(se.X, "BuildGraph") {
							failShape("%s: cycleDetector.graph is not a *BuildGraph", cvPos(fset, fl))
						}
						items = append(items, "DGraph")
					case "stopped":
						if !cvIsIdent(fl.Type, "bool") {
							failShape("%s: cycleDetector.stopped is not a bool", cvPos(fset, fl))
						}
						items = append(items, "DStopped")
					default:
						failShape("%s: cycleDetector has a field %s that the model does not know (state kept between runs of Check?)", cvPos(fset, fl), n.Name)
					}
				}
			}
			return "[" + strings.Join(items, "; ") + "]"
		}
	}
	failShape("type cycleDetector not found")
	return ""
}

// cvStopBody: the body of Stop must be exactly `c.stopped = true`.
func cvStopBody(fset *token.FileSet, f *ast.File) {
	fd := findFunc(f, "cycleDetector", "Stop")
	if len(fd.Recv.List[0].Names) != 1 {
		failShape("Stop: receiver is not named")
	}
	recv := fd.Recv.List[0].Names[0].Name
	body := cvStmts(fd.Body)
	ok := len(body) == 1
	if ok {
		as, isAs := body[0].(*ast.AssignStmt)
		ok = isAs && as.Tok == token.ASSIGN && len(as.Lhs) == 1 && len(as.Rhs) == 1 && cvIsIdent(as.Rhs[0], "true")
		if ok {
			sel, isSel := as.Lhs[0].(*ast.SelectorExpr)
			ok = isSel && cvIsIdent(sel.X, recv) && sel.Sel.Name == "stopped"
		}
	}
	if !ok {
		failShape("%s: body of Stop is not exactly `%s.stopped = true`", cvPos(fset, fd), recv)
	}
}

type cvNames struct {
	recv     string // receiver of Check
	target   string // parameter of visit / loop variable
	dep      string
	cycle    string
	done     string
	present  string            // bound by the init statement of the enclosing if, "" when none
	presentS string            // the set it was looked up in
	sets     map[string]string // Go variable -> SPartial / SComplete
	states   map[string]bool   // the BuildTargetState constants
}

func cvIsIdent(e ast.Expr, name string) bool {
	id, ok := e.(*ast.Ident)
	return ok && id.Name == name
}

func cvIsLogCall(s ast.Stmt) bool {
	es, ok := s.(*ast.ExprStmt)
	if !ok {
		return false
	}
	call, ok := es.X.(*ast.CallExpr)
	if !ok {
		return false
	}
	sel, ok := call.Fun.(*ast.SelectorExpr)
	return ok && cvIsIdent(sel.X, "log")
}

// stmts drops logging calls, which have no effect on the result.
func cvStmts(b *ast.BlockStmt) []ast.Stmt {
	out := []ast.Stmt{}
	for _, s := range b.List {
		if !cvIsLogCall(s) {
			out = append(out, s)
		}
	}
	return out
}

func cvPos(fset *token.FileSet, n ast.Node) string { return fset.Position(n.Pos()).String() }

// cvCond translates a boolean expression.
func cvCond(fset *token.FileSet, nm *cvNames, e ast.Expr) string {
	switch x := e.(type) {
	case *ast.ParenExpr:
		return cvCond(fset, nm, x.X)
	case *ast.SelectorExpr:
		if cvIsIdent(x.X, nm.recv) && x.Sel.Name == "stopped" {
			return "CStopped"
		}
	case *ast.Ident:
		if nm.present != "" && x.Name == nm.present {
			return "(CIn " + nm.presentS + ")"
		}
		if nm.done != "" && x.Name == nm.done {
			return "CDone"
		}
	case *ast.UnaryExpr:
		if x.Op == token.NOT {
			return "(CNot " + cvCond(fset, nm, x.X) + ")"
		}
	case *ast.BinaryExpr:
		switch x.Op {
		case token.GEQ: // target.State() >= X
			if call, ok := x.X.(*ast.CallExpr); ok && len(call.Args) == 0 {
				if sel, ok := call.Fun.(*ast.SelectorExpr); ok && cvIsIdent(sel.X, nm.target) && sel.Sel.Name == "State" {
					if id, ok := x.Y.(*ast.Ident); ok && nm.states[id.Name] {
						return "(CStateGe G_" + id.Name + ")"
					}
				}
			}
		case token.LOR:
			return "(COr " + cvCond(fset, nm, x.X) + " " + cvCond(fset, nm, x.Y) + ")"
		case token.LAND:
			return "(CAnd " + cvCond(fset, nm, x.X) + " " + cvCond(fset, nm, x.Y) + ")"
		case token.EQL:
			l, r := x.X, x.Y
			if cvIsIdent(r, nm.target) {
				l, r = r, l
			}
			if cvIsIdent(l, nm.target) && nm.cycle != "" {
				if ix, ok := r.(*ast.IndexExpr); ok && cvIsIdent(ix.X, nm.cycle) {
					if bl, ok := ix.Index.(*ast.BasicLit); ok && bl.Value == "0" {
						return "CTargetIsFirst"
					}
					if be, ok := ix.Index.(*ast.BinaryExpr); ok && be.Op == token.SUB {
						if call, ok := be.X.(*ast.CallExpr); ok && cvIsIdent(call.Fun, "len") && len(call.Args) == 1 && cvIsIdent(call.Args[0], nm.cycle) {
							if bl, ok := be.Y.(*ast.BasicLit); ok && bl.Value == "1" {
								return "CTargetIsLast"
							}
						}
					}
				}
			}
		}
	}
	failShape("%s: condition not recognised", cvPos(fset, e))
	return ""
}

func cvIsTargetSliceLit(nm *cvNames, e ast.Expr) bool {
	cl, ok := e.(*ast.CompositeLit)
	if !ok || len(cl.Elts) != 1 || !cvIsIdent(cl.Elts[0], nm.target) {
		return false
	}
	at, ok := cl.Type.(*ast.ArrayType)
	if !ok || at.Len != nil {
		return false
	}
	st, ok := at.Elt.(*ast.StarExpr)
	return ok && cvIsIdent(st.X, "BuildTarget")
}

// cvReturn translates `return <cycle expr>, <bool literal>`.
func cvReturn(fset *token.FileSet, nm *cvNames, r *ast.ReturnStmt) (string, string) {
	if len(r.Results) != 2 {
		failShape("%s: return inside visit does not have two results", cvPos(fset, r))
	}
	done := ""
	if id, ok := r.Results[1].(*ast.Ident); ok && (id.Name == "true" || id.Name == "false") {
		done = id.Name
	} else {
		failShape("%s: second result is not a boolean literal", cvPos(fset, r))
	}
	e := r.Results[0]
	switch {
	case cvIsIdent(e, "nil"):
		return "KNil", done
	case nm.cycle != "" && cvIsIdent(e, nm.cycle):
		return "KCycle", done
	case cvIsTargetSliceLit(nm, e):
		return "KSelf", done
	}
	if call, ok := e.(*ast.CallExpr); ok && cvIsIdent(call.Fun, "append") && len(call.Args) == 2 && nm.cycle != "" {
		if call.Ellipsis != token.NoPos && cvIsTargetSliceLit(nm, call.Args[0]) && cvIsIdent(call.Args[1], nm.cycle) {
			return "KPrepend", done
		}
		if call.Ellipsis == token.NoPos && cvIsIdent(call.Args[0], nm.cycle) && cvIsIdent(call.Args[1], nm.target) {
			return "KAppend", done
		}
	}
	failShape("%s: returned cycle expression not recognised", cvPos(fset, r))
	return "", ""
}

// cvPresentInit recognises `_, present := set[target]` and records the binding.
func cvPresentInit(fset *token.FileSet, nm *cvNames, init ast.Stmt) {
	nm.present, nm.presentS = "", ""
	if init == nil {
		return
	}
	as, ok := init.(*ast.AssignStmt)
	if ok && as.Tok == token.DEFINE && len(as.Lhs) == 2 && len(as.Rhs) == 1 && cvIsIdent(as.Lhs[0], "_") {
		if p, ok := as.Lhs[1].(*ast.Ident); ok {
			if ix, ok := as.Rhs[0].(*ast.IndexExpr); ok && cvIsIdent(ix.Index, nm.target) {
				if m, ok := ix.X.(*ast.Ident); ok && nm.sets[m.Name] != "" {
					nm.present, nm.presentS = p.Name, nm.sets[m.Name]
					return
				}
			}
		}
	}
	failShape("%s: init statement of if is not `_, present := set[target]`", cvPos(fset, init))
}

// cvSetAdd recognises `set[target] = struct{}{}` and returns the set.
func cvSetAdd(nm *cvNames, x *ast.AssignStmt) (string, bool) {
	ok := x.Tok == token.ASSIGN && len(x.Lhs) == 1 && len(x.Rhs) == 1
	var set string
	if ok {
		ix, isIx := x.Lhs[0].(*ast.IndexExpr)
		ok = isIx && cvIsIdent(ix.Index, nm.target)
		if ok {
			m, isId := ix.X.(*ast.Ident)
			ok = isId && nm.sets[m.Name] != ""
			if ok {
				set = nm.sets[m.Name]
			}
		}
	}
	if ok {
		cl, isCl := x.Rhs[0].(*ast.CompositeLit)
		ok = isCl && len(cl.Elts) == 0
		if ok {
			stt, isSt := cl.Type.(*ast.StructType)
			ok = isSt && (stt.Fields == nil || len(stt.Fields.List) == 0)
		}
	}
	return set, ok
}

// cvIfReturn: `if [init;] cond { [set[target] = struct{}{};]* return k, d }` -> (cond, adds, k, d).
// The body must be that return, preceded by nothing but additions to the sets (allowed only where
// allowAdds is set: the arms of the if chain at the top of visit).
func cvIfReturn(fset *token.FileSet, nm *cvNames, s *ast.IfStmt, allowAdds bool) (string, []string, string, string) {
	cvPresentInit(fset, nm, s.Init)
	c := cvCond(fset, nm, s.Cond)
	nm.present, nm.presentS = "", ""
	body := cvStmts(s.Body)
	if len(body) == 0 {
		failShape("%s: if body is not a single return", cvPos(fset, s))
	}
	adds := []string{}
	for _, b := range body[:len(body)-1] {
		as, isAs := b.(*ast.AssignStmt)
		if !isAs || !allowAdds {
			failShape("%s: if body is not a single return", cvPos(fset, s))
		}
		set, ok := cvSetAdd(nm, as)
		if !ok {
			failShape("%s: statement before the return is not `set[target] = struct{}{}`", cvPos(fset, b))
		}
		adds = append(adds, set)
	}
	r, ok := body[len(body)-1].(*ast.ReturnStmt)
	if !ok {
		failShape("%s: if body does not end in a return", cvPos(fset, s))
	}
	k, d := cvReturn(fset, nm, r)
	return c, adds, k, d
}

func cvInner(fset *token.FileSet, nm *cvNames, b *ast.BlockStmt) string {
	items := []string{}
	body := cvStmts(b)
	for i, s := range body {
		switch x := s.(type) {
		case *ast.IfStmt:
			if x.Else != nil {
				failShape("%s: else inside the cycle != nil block", cvPos(fset, x))
			}
			c, _, k, d := cvIfReturn(fset, nm, x, false)
			items = append(items, fmt.Sprintf("IIf %s %s %s", c, k, d))
		case *ast.ReturnStmt:
			if i != len(body)-1 {
				failShape("%s: statements after return", cvPos(fset, x))
			}
			k, d := cvReturn(fset, nm, x)
			items = append(items, fmt.Sprintf("IRet %s %s", k, d))
		default:
			failShape("%s: statement not recognised inside the cycle != nil block", cvPos(fset, s))
		}
	}
	if len(body) == 0 {
		failShape("%s: empty cycle != nil block", cvPos(fset, b))
	}
	if _, ok := body[len(body)-1].(*ast.ReturnStmt); !ok {
		failShape("%s: the cycle != nil block does not end in a return", cvPos(fset, b))
	}
	return "[" + strings.Join(items, "; ") + "]"
}

// cvVisitCallIf recognises `if cycle, second := visit(arg); cycle != nil { ... }` and binds the names.
func cvVisitCallIf(fset *token.FileSet, nm *cvNames, s ast.Stmt, arg string, visit string) *ast.IfStmt {
	ifs, ok := s.(*ast.IfStmt)
	if !ok || ifs.Init == nil || ifs.Else != nil {
		failShape("%s: expected `if cycle, done := %s(%s); cycle != nil {`", cvPos(fset, s), visit, arg)
	}
	as, ok := ifs.Init.(*ast.AssignStmt)
	if !ok || as.Tok != token.DEFINE || len(as.Lhs) != 2 || len(as.Rhs) != 1 {
		failShape("%s: expected `cycle, done := %s(%s)`", cvPos(fset, s), visit, arg)
	}
	call, ok := as.Rhs[0].(*ast.CallExpr)
	if !ok || !cvIsIdent(call.Fun, visit) || len(call.Args) != 1 || !cvIsIdent(call.Args[0], arg) {
		failShape("%s: expected a call %s(%s)", cvPos(fset, s), visit, arg)
	}
	cy, ok1 := as.Lhs[0].(*ast.Ident)
	dn, ok2 := as.Lhs[1].(*ast.Ident)
	if !ok1 || !ok2 || cy.Name == "_" {
		failShape("%s: results of %s are not bound to two names", cvPos(fset, s), visit)
	}
	be, ok := ifs.Cond.(*ast.BinaryExpr)
	if !ok || be.Op != token.NEQ || !cvIsIdent(be.X, cy.Name) || !cvIsIdent(be.Y, "nil") {
		failShape("%s: condition is not `%s != nil`", cvPos(fset, s), cy.Name)
	}
	nm.cycle, nm.done = cy.Name, dn.Name
	if dn.Name == "_" {
		nm.done = ""
	}
	return ifs
}

func cvVisitBody(fset *token.FileSet, nm *cvNames, visit string, b *ast.BlockStmt) string {
	items := []string{}
	body := cvStmts(b)
	for i, s := range body {
		switch x := s.(type) {
		case *ast.IfStmt: // an if / else-if chain whose arms all return
			for cur := x; cur != nil; {
				c, adds, k, d := cvIfReturn(fset, nm, cur, true)
				if len(adds) == 0 {
					items = append(items, fmt.Sprintf("SIf %s %s %s", c, k, d))
				} else {
					items = append(items, fmt.Sprintf("SIfAddRet %s [%s] %s %s", c, strings.Join(adds, "; "), k, d))
				}
				switch e := cur.Else.(type) {
				case nil:
					cur = nil
				case *ast.IfStmt:
					cur = e
				default:
					failShape("%s: final else block in visit", cvPos(fset, cur))
				}
			}
		case *ast.AssignStmt: // set[target] = struct{}{}
			set, ok := cvSetAdd(nm, x)
			if !ok {
				failShape("%s: assignment is not `set[target] = struct{}{}`", cvPos(fset, x))
			}
			items = append(items, "SAdd "+set)
		case *ast.ExprStmt: // delete(set, target)
			call, ok := x.X.(*ast.CallExpr)
			if !ok || !cvIsIdent(call.Fun, "delete") || len(call.Args) != 2 || !cvIsIdent(call.Args[1], nm.target) {
				failShape("%s: expression statement is not delete(set, target)", cvPos(fset, x))
			}
			m, ok := call.Args[0].(*ast.Ident)
			if !ok || nm.sets[m.Name] == "" {
				failShape("%s: delete from an unknown set", cvPos(fset, x))
			}
			items = append(items, "SDel "+nm.sets[m.Name])
		case *ast.RangeStmt: // for _, dep := range target.Dependencies() { if cycle, done := visit(dep); cycle != nil { ... } }
			if x.Tok != token.DEFINE || !cvIsIdent(x.Key, "_") || x.Value == nil {
				failShape("%s: range does not bind `_, dep :=`", cvPos(fset, x))
			}
			dep, ok := x.Value.(*ast.Ident)
			if !ok {
				failShape("%s: range value is not a name", cvPos(fset, x))
			}
			call, ok := x.X.(*ast.CallExpr)
			src := ""
			if ok {
				sel, isSel := call.Fun.(*ast.SelectorExpr)
				ok = isSel && cvIsIdent(sel.X, nm.target) && len(call.Args) == 0
				if ok {
					switch sel.Sel.Name {
					case "Dependencies":
						src = "DepsAll"
					case "BuildDependencies":
						src = "DepsBuild"
					default:
						ok = false
					}
				}
			}
			if !ok {
				failShape("%s: range is not over target.Dependencies() or target.BuildDependencies()", cvPos(fset, x))
			}
			nm.dep = dep.Name
			rb := cvStmts(x.Body)
			if len(rb) != 1 {
				failShape("%s: body of the dependency loop is not a single if", cvPos(fset, x))
			}
			ifs := cvVisitCallIf(fset, nm, rb[0], nm.dep, visit)
			if nm.done == "" {
				failShape("%s: the done result of the recursive visit is discarded", cvPos(fset, ifs))
			}
			items = append(items, "SRange "+src+" "+cvInner(fset, nm, ifs.Body))
			nm.cycle, nm.done = "", ""
		case *ast.ReturnStmt:
			if i != len(body)-1 {
				failShape("%s: statements after return", cvPos(fset, x))
			}
			k, d := cvReturn(fset, nm, x)
			items = append(items, fmt.Sprintf("SRet %s %s", k, d))
		default:
			failShape("%s: statement not recognised in visit", cvPos(fset, s))
		}
	}
	return "[" + strings.Join(items, ";\n   ") + "]"
}

// cvIsReturnNilBlock: `{ return nil }` (logging ignored)
func cvIsReturnNilBlock(b *ast.BlockStmt) bool {
	body := cvStmts(b)
	if len(body) != 1 {
		return false
	}
	r, ok := body[0].(*ast.ReturnStmt)
	return ok && len(r.Results) == 1 && cvIsIdent(r.Results[0], "nil")
}

func cvIsEmptyMapOfTargets(e ast.Expr) bool {
	cl, ok := e.(*ast.CompositeLit)
	if !ok || len(cl.Elts) != 0 {
		return false
	}
	mt, ok := cl.Type.(*ast.MapType)
	if !ok {
		return false
	}
	st, ok := mt.Key.(*ast.StarExpr)
	if !ok || !cvIsIdent(st.X, "BuildTarget") {
		return false
	}
	vt, ok := mt.Value.(*ast.StructType)
	return ok && (vt.Fields == nil || len(vt.Fields.List) == 0)
}

// cvAccessorExcl translates an accessor of target.dependencies (Dependencies, BuildDependencies):
//
//	lock; ret := make(...); for _, deps := range target.dependencies { [if !deps.f1 && !deps.f2 ... {] for _, dep := range deps.deps { ret = append(ret, dep) } [}] }; sort.Sort(ret); return ret
//
// into the list of depInfo flags that exclude an entry. Anything else fails closed.
func cvAccessorExcl(fset *token.FileSet, f *ast.File, name string) string {
	fd := findFunc(f, "BuildTarget", name)
	if len(fd.Recv.List[0].Names) != 1 {
		failShape("%s: receiver is not named", name)
	}
	recv := fd.Recv.List[0].Names[0].Name
	isMutexCall := func(e ast.Expr) bool {
		call, ok := e.(*ast.CallExpr)
		if !ok || len(call.Args) != 0 {
			return false
		}
		sel, ok := call.Fun.(*ast.SelectorExpr)
		if !ok || (sel.Sel.Name != "RLock" && sel.Sel.Name != "RUnlock") {
			return false
		}
		m, ok := sel.X.(*ast.SelectorExpr)
		return ok && cvIsIdent(m.X, recv) && m.Sel.Name == "mutex"
	}
	var loop *ast.RangeStmt
	ret := ""
	sorted, returned := false, false
	for _, st := range fd.Body.List {
		switch x := st.(type) {
		case *ast.ExprStmt:
			if isMutexCall(x.X) {
				continue
			}
			if call, ok := x.X.(*ast.CallExpr); ok && len(call.Args) == 1 && ret != "" && cvIsIdent(call.Args[0], ret) && loop != nil && !sorted {
				if sel, ok := call.Fun.(*ast.SelectorExpr); ok && cvIsIdent(sel.X, "sort") && sel.Sel.Name == "Sort" {
					sorted = true
					continue
				}
			}
		case *ast.DeferStmt:
			if isMutexCall(x.Call) {
				continue
			}
		case *ast.AssignStmt: // ret := make(BuildTargets, 0, ...)
			if x.Tok == token.DEFINE && len(x.Lhs) == 1 && len(x.Rhs) == 1 && ret == "" && loop == nil {
				if call, ok := x.Rhs[0].(*ast.CallExpr); ok && cvIsIdent(call.Fun, "make") && len(call.Args) == 3 && cvIsIdent(call.Args[0], "BuildTargets") {
					if bl, ok := call.Args[1].(*ast.BasicLit); ok && bl.Value == "0" {
						ret = x.Lhs[0].(*ast.Ident).Name
						continue
					}
				}
			}
		case *ast.RangeStmt:
			if loop == nil && ret != "" {
				loop = x
				continue
			}
		case *ast.ReturnStmt:
			if len(x.Results) == 1 && ret != "" && cvIsIdent(x.Results[0], ret) && sorted {
				returned = true
				continue
			}
		}
		failShape("%s: statement of BuildTarget.%s not recognised", cvPos(fset, st), name)
	}
	if loop == nil || !sorted || !returned {
		failShape("BuildTarget.%s: not `ret := make; for range target.dependencies {...}; sort.Sort(ret); return ret`", name)
	}
	sel, ok := loop.X.(*ast.SelectorExpr)
	if !ok || !cvIsIdent(sel.X, recv) || sel.Sel.Name != "dependencies" || loop.Tok != token.DEFINE || !cvIsIdent(loop.Key, "_") || loop.Value == nil {
		failShape("%s: BuildTarget.%s does not range `_, deps := range %s.dependencies`", cvPos(fset, loop), name, recv)
	}
	info := loop.Value.(*ast.Ident).Name
	if len(loop.Body.List) != 1 {
		failShape("%s: body of the loop of BuildTarget.%s is not a single statement", cvPos(fset, loop), name)
	}
	excl := []string{}
	inner := loop.Body.List[0]
	if ifs, ok := inner.(*ast.IfStmt); ok {
		if ifs.Init != nil || ifs.Else != nil || len(ifs.Body.List) != 1 {
			failShape("%s: filter of BuildTarget.%s is not `if cond { for ... }`", cvPos(fset, ifs), name)
		}
		var conj func(e ast.Expr)
		conj = func(e ast.Expr) {
			switch c := e.(type) {
			case *ast.ParenExpr:
				conj(c.X)
				return
			case *ast.BinaryExpr:
				if c.Op == token.LAND {
					conj(c.X)
					conj(c.Y)
					return
				}
			case *ast.UnaryExpr:
				if fs, ok := c.X.(*ast.SelectorExpr); ok && c.Op == token.NOT && cvIsIdent(fs.X, info) {
					switch fs.Sel.Name {
					case "source":
						excl = append(excl, "FSource")
						return
					case "internal":
						excl = append(excl, "FInternal")
						return
					case "runtime":
						excl = append(excl, "FRuntime")
						return
					case "data":
						excl = append(excl, "FData")
						return
					}
				}
			}
			failShape("%s: filter of BuildTarget.%s is not a conjunction of !%s.<source|internal|runtime|data>", cvPos(fset, e), name, info)
		}
		conj(ifs.Cond)
		inner = ifs.Body.List[0]
	}
	rs, ok := inner.(*ast.RangeStmt)
	if ok {
		ds, isSel := rs.X.(*ast.SelectorExpr)
		ok = isSel && cvIsIdent(ds.X, info) && ds.Sel.Name == "deps" && rs.Tok == token.DEFINE && cvIsIdent(rs.Key, "_") && rs.Value != nil && len(rs.Body.List) == 1
		if ok {
			as, isAs := rs.Body.List[0].(*ast.AssignStmt)
			ok = isAs && as.Tok == token.ASSIGN && len(as.Lhs) == 1 && len(as.Rhs) == 1 && cvIsIdent(as.Lhs[0], ret)
			if ok {
				call, isCall := as.Rhs[0].(*ast.CallExpr)
				ok = isCall && cvIsIdent(call.Fun, "append") && len(call.Args) == 2 && call.Ellipsis == token.NoPos &&
					cvIsIdent(call.Args[0], ret) && cvIsIdent(call.Args[1], rs.Value.(*ast.Ident).Name)
			}
		}
	}
	if !ok {
		failShape("%s: BuildTarget.%s does not collect with `for _, dep := range %s.deps { %s = append(%s, dep) }`", cvPos(fset, inner), name, info, ret, ret)
	}
	return "[" + strings.Join(excl, "; ") + "]"
}

func init() {
	targets["CycleVisit"] = func() string {
		fsetBT, bt := parseFile("src/core/build_target.go")
		stateNames := iotaConsts(bt, "BuildTargetState")
		depsExcl := cvAccessorExcl(fsetBT, bt, "Dependencies")
		buildDepsExcl := cvAccessorExcl(fsetBT, bt, "BuildDependencies")
		fset, f := parseFile("src/core/cycle_detector.go")
		fd := findFunc(f, "cycleDetector", "Check")
		detectorFields := cvDetectorFields(fset, f)
		cvStopBody(fset, f)
		if len(fd.Recv.List[0].Names) != 1 {
			failShape("Check: receiver is not named")
		}
		nm := &cvNames{recv: fd.Recv.List[0].Names[0].Name, sets: map[string]string{}, states: map[string]bool{}}
		for _, n := range stateNames {
			nm.states[n] = true
		}
		body := cvStmts(fd.Body)
		prologue := []string{}
		var visitBody, loopBody string
		visitName := ""
		declared := false
		i := 0
		// prologue: if cond { return nil }
		for ; i < len(body); i++ {
			ifs, ok := body[i].(*ast.IfStmt)
			if !ok {
				break
			}
			if ifs.Init != nil || ifs.Else != nil || !cvIsReturnNilBlock(ifs.Body) {
				failShape("%s: prologue if is not `if cond { return nil }`", cvPos(fset, ifs))
			}
			prologue = append(prologue, cvCond(fset, nm, ifs.Cond))
		}
		// the two sets, the declaration of visit, its definition
		for ; i < len(body); i++ {
			switch x := body[i].(type) {
			case *ast.AssignStmt:
				if x.Tok == token.DEFINE && len(x.Lhs) == 1 && len(x.Rhs) == 1 && cvIsEmptyMapOfTargets(x.Rhs[0]) {
					name := x.Lhs[0].(*ast.Ident).Name
					switch name {
					case "partial":
						nm.sets[name] = "SPartial"
					case "complete":
						nm.sets[name] = "SComplete"
					default:
						failShape("%s: unknown set %s", cvPos(fset, x), name)
					}
					continue
				}
				if x.Tok == token.ASSIGN && len(x.Lhs) == 1 && len(x.Rhs) == 1 && declared && cvIsIdent(x.Lhs[0], visitName) && visitBody == "" {
					fl, ok := x.Rhs[0].(*ast.FuncLit)
					if !ok || fl.Type.Params == nil || len(fl.Type.Params.List) != 1 || len(fl.Type.Params.List[0].Names) != 1 ||
						fl.Type.Results == nil || len(fl.Type.Results.List) != 2 {
						failShape("%s: visit is not func(target) (cycle, done)", cvPos(fset, x))
					}
					if len(nm.sets) != 2 {
						failShape("%s: the partial and complete sets are not both initialised empty before visit", cvPos(fset, x))
					}
					nm.target = fl.Type.Params.List[0].Names[0].Name
					visitBody = cvVisitBody(fset, nm, visitName, fl.Body)
					continue
				}
				failShape("%s: assignment not recognised in Check", cvPos(fset, x))
			case *ast.DeclStmt:
				gd, ok := x.Decl.(*ast.GenDecl)
				if !ok || gd.Tok != token.VAR || len(gd.Specs) != 1 || declared {
					failShape("%s: declaration not recognised in Check", cvPos(fset, x))
				}
				vs := gd.Specs[0].(*ast.ValueSpec)
				if _, isFn := vs.Type.(*ast.FuncType); !isFn || len(vs.Names) != 1 || len(vs.Values) != 0 {
					failShape("%s: expected `var visit func(...)`", cvPos(fset, x))
				}
				visitName, declared = vs.Names[0].Name, true
				continue
			}
			break
		}
		if visitBody == "" {
			failShape("Check: definition of visit not found")
		}
		// the loop over AllTargets()
		if i >= len(body) {
			failShape("Check: loop over AllTargets() not found")
		}
		rs, ok := body[i].(*ast.RangeStmt)
		if !ok || rs.Tok != token.DEFINE || !cvIsIdent(rs.Key, "_") || rs.Value == nil {
			failShape("%s: expected `for _, target := range %s.graph.AllTargets()`", cvPos(fset, body[i]), nm.recv)
		}
		{
			call, ok := rs.X.(*ast.CallExpr)
			if ok {
				sel, isSel := call.Fun.(*ast.SelectorExpr)
				ok = isSel && sel.Sel.Name == "AllTargets" && len(call.Args) == 0
				if ok {
					g, isG := sel.X.(*ast.SelectorExpr)
					ok = isG && cvIsIdent(g.X, nm.recv) && g.Sel.Name == "graph"
				}
			}
			if !ok {
				failShape("%s: the loop is not over %s.graph.AllTargets()", cvPos(fset, rs), nm.recv)
			}
		}
		nm.target = rs.Value.(*ast.Ident).Name
		items := []string{}
		for _, s := range cvStmts(rs.Body) {
			ifs, ok := s.(*ast.IfStmt)
			if !ok || ifs.Else != nil {
				failShape("%s: statement of the AllTargets loop is not an if without else", cvPos(fset, s))
			}
			cvPresentInit(fset, nm, ifs.Init)
			c := cvCond(fset, nm, ifs.Cond)
			nm.present, nm.presentS = "", ""
			if cvIsReturnNilBlock(ifs.Body) {
				items = append(items, "LIfRetNil "+c)
				continue
			}
			inner := cvStmts(ifs.Body)
			if len(inner) != 1 {
				failShape("%s: guarded block of the AllTargets loop is not a single if", cvPos(fset, ifs))
			}
			vi := cvVisitCallIf(fset, nm, inner[0], nm.target, visitName)
			vb := cvStmts(vi.Body)
			okRet := len(vb) == 1
			report := ""
			if okRet {
				r, isR := vb[0].(*ast.ReturnStmt)
				okRet = isR && len(r.Results) == 1
				if okRet {
					ue, isU := r.Results[0].(*ast.UnaryExpr)
					okRet = isU && ue.Op == token.AND
					if okRet {
						cl, isCl := ue.X.(*ast.CompositeLit)
						okRet = isCl && cvIsIdent(cl.Type, "errCycle") && len(cl.Elts) == 1
						if okRet {
							kv, isKV := cl.Elts[0].(*ast.KeyValueExpr)
							okRet = isKV && cvIsIdent(kv.Key, "Cycle")
							if okRet {
								if cvIsIdent(kv.Value, nm.cycle) {
									report = "RCycle"
								} else if fc, isCall := kv.Value.(*ast.CallExpr); isCall && len(fc.Args) == 1 && cvIsIdent(fc.Args[0], nm.cycle) && fc.Ellipsis == token.NoPos {
									if _, isName := fc.Fun.(*ast.Ident); isName {
										report = "RThrough" // some function of the slice visit returned
									}
								}
								okRet = report != ""
							}
						}
					}
				}
			}
			if !okRet {
				failShape("%s: expected `return &errCycle{Cycle: %s}` or `Cycle: f(%s)`", cvPos(fset, vi), nm.cycle, nm.cycle)
			}
			nm.cycle, nm.done = "", ""
			items = append(items, "LIfVisit "+c+" "+report)
		}
		loopBody = "[" + strings.Join(items, "; ") + "]"
		i++
		if i != len(body)-1 {
			failShape("Check: expected exactly `return nil` after the AllTargets loop")
		}
		if r, ok := body[i].(*ast.ReturnStmt); !ok || len(r.Results) != 1 || !cvIsIdent(r.Results[0], "nil") {
			failShape("%s: Check does not end in `return nil`", cvPos(fset, body[i]))
		}
		gnames := make([]string, len(stateNames))
		ranks := make([]string, len(stateNames))
		for i, n := range stateNames {
			gnames[i] = "G_" + n
			ranks[i] = fmt.Sprintf("  | G_%s => %d", n, i)
		}
		stateDefs := "From Coq Require Import List Bool NArith. Import ListNotations.\n" +
			"(* src/core/build_target.go: the BuildTargetState iota block, in declaration order (its numeric order) *)\n" +
			"Inductive gstate := " + strings.Join(gnames, " | ") + ".\n" +
			"Definition gstate_rank (s : gstate) : N :=\n  match s with\n" + strings.Join(ranks, "\n") + "\n  end%N.\n" +
			"Definition gstates : list gstate := [" + strings.Join(gnames, "; ") + "].\n"
		return stateDefs + cycleVisitTypes +
			"(* BuildTarget.Dependencies / BuildTarget.BuildDependencies: the depInfo flags that keep an entry out of the result *)\n" +
			"Definition dependencies_excl : list depflag := " + depsExcl + ".\n" +
			"Definition build_dependencies_excl : list depflag := " + buildDepsExcl + ".\n" +
			"(* if cond { return nil } before anything else *)\n" +
			"Definition check_prologue : list cond := [" + strings.Join(prologue, "; ") + "].\n" +
			"(* body of the visit closure *)\n" +
			"Definition visit_body : list stmt :=\n  " + visitBody + ".\n" +
			"(* body of the loop over AllTargets(); after the loop: return nil *)\n" +
			"Definition check_body : list lstmt := " + loopBody + ".\n" +
			"(* type cycleDetector struct { ... }; Check assigns to none of them (no such statement in the language above) *)\n" +
			"Definition detector_fields : list dfield := " + detectorFields + ".\n" +
			"(* func (c *cycleDetector) Stop() { c.stopped = true } - anything else fails closed *)\n" +
			"Definition stop_sets_stopped : bool := true.\n"
	}
}
