package main

import (
	"bytes"
	"fmt"
	"go/ast"
	"go/printer"
	"go/token"
	"regexp"
	"strings"
)

// C35Hashes (property C35): what the declared-hash check depends on and is regular enough to read off
// the source:
//   - core.BuildTarget.UnprefixedHashes (src/core/build_target.go): works on a COPY of target.Hashes
//     (the defect fixed in 72ca340 stripped in place), cuts at the last occurrence of one separator
//     byte and trims the rest;
//   - checkRuleHashesOfType (src/build/build_step.go): a declared value is compared with a checker's
//     digest only if its length is hasher.Size()*K;
//   - outputHash: file names enter the combined hash only when no hashes are declared;
//   - buildFilegroup's caller: the hash check of a filegroup is guarded by `changed`;
//   - the hashers map of NewBuildState (src/core/state.go) and the defaults of build.hashfunction and
//     build.hashcheckers (src/core/config.go).
func init() {
	targets["C35Hashes"] = func() string {
		fset, f := parseFile("src/core/build_target.go")
		uh := findFunc(f, "BuildTarget", "UnprefixedHashes")
		body := c35Norm(fset, uh.Body)
		re := regexp.MustCompile(`^\{ hashes := make\(\[\]string, len\(target\.Hashes\)\) copy\(hashes, target\.Hashes\) for i, h := range hashes \{ if index := strings\.LastIndexByte\(h, ('(?:[^'\\]|\\.)')\); index != -1 \{ hashes\[i\] = strings\.TrimSpace\(h\[index\+1:\]\) \} \} return hashes \}$`)
		m := re.FindStringSubmatch(body)
		if m == nil {
			failShape("UnprefixedHashes is not `copy of target.Hashes; for each: cut after LastIndexByte(h, c) and TrimSpace`: %s", body)
		}
		sep := unquote(&ast.BasicLit{Kind: token.CHAR, Value: m[1]})
		if len(sep) != 1 {
			failShape("UnprefixedHashes: separator %s is not a single byte", m[1])
		}

		fset2, g := parseFile("src/build/build_step.go")
		ct := c35Norm(fset2, findFunc(g, "", "checkRuleHashesOfType").Body)
		reLen := regexp.MustCompile(`for _, h := range hashes \{ if len\(h\) == hasher\.Size\(\)\*(\d+) \{ if hashString == h \{ return nil, true \} \} \}`)
		lm := reLen.FindStringSubmatch(ct)
		if lm == nil {
			failShape("checkRuleHashesOfType: inner loop is not `if len(h) == hasher.Size()*K { if hashString == h { return nil, true } }`")
		}
		if !strings.Contains(ct, "bhash, _ := outputHash(target, outputs, hasher, combiner) hashString := hex.EncodeToString(bhash)") {
			failShape("checkRuleHashesOfType: digest is not hex.EncodeToString(outputHash(target, outputs, hasher, combiner))")
		}
		cr := c35Norm(fset2, findFunc(g, "", "checkRuleHashes").Body)
		for _, want := range []string{
			"if len(target.Hashes) == 0 { return nil }",
			"hashes := target.UnprefixedHashes()",
			"hashStr := hex.EncodeToString(hash) for _, h := range hashes { if h == hashStr { return nil } }",
			"combine := len(outputs) != 1",
			"checkRuleHashesOfType(target, hashes, outputs, state.OutputHashCheckers(), combine)",
		} {
			if !strings.Contains(cr, want) {
				failShape("checkRuleHashes: expected `%s`", want)
			}
		}
		oh := c35Norm(fset2, findFunc(g, "", "outputHash").Body)
		namesOnlyWithoutHashes := strings.Contains(oh, "if len(target.Hashes) == 0 { h.Write([]byte(filename)) }")
		if !namesOnlyWithoutHashes {
			failShape("outputHash: file names are not written under `if len(target.Hashes) == 0`")
		}
		th := c35Norm(fset2, findFunc(g, "targetHasher", "outputHash").Body)
		if !strings.Contains(th, "if len(outs) == 1 && fs.FileExists(outs[0]) { return outputHash(target, outs, h.State.PathHasher, nil) } return outputHash(target, outs, h.State.PathHasher, h.State.PathHasher.NewHash)") {
			failShape("targetHasher.outputHash: not `single existing file -> direct, else combined`")
		}
		bt := c35Norm(fset2, findFunc(g, "", "buildTarget").Body)
		fgGuarded := strings.Contains(bt, "changed, err := buildFilegroup(state, target) if err != nil { return err } if changed { if _, err := calculateAndCheckRuleHash(state, target); err != nil { return err }")
		bw := c35Norm(fset2, findFunc(g, "", "Build").Body)
		removesOnFailure := strings.Contains(bw, "if err := RemoveOutputs(target); err != nil")
		if !removesOnFailure {
			failShape("Build: a failed build does not call RemoveOutputs(target)")
		}
		ra := c35Norm(fset2, findFunc(g, "", "retrieveArtifacts").Body)
		if !strings.Contains(ra, "newOutputHash, err := calculateAndCheckRuleHash(state, target) if err != nil {") || !strings.Contains(ra, "RemoveOutputs(target) return false") {
			failShape("retrieveArtifacts: not `calculateAndCheckRuleHash; on error RemoveOutputs(target); return false`")
		}
		oh2 := c35Norm(fset2, findFunc(g, "targetHasher", "OutputHash").Body)
		memoised := strings.Contains(oh2, "if present { return hash, nil }")

		// --- hashers and defaults
		_, st := parseFile("src/core/state.go")
		sizes := map[string]int{"sha1.New": 20, "sha256.New": 32, "newCRC32": 4, "newCRC64": 8, "newBlake3": 32, "newXXHash": 8}
		var hashers []string
		ast.Inspect(st, func(n ast.Node) bool {
			kv, ok := n.(*ast.KeyValueExpr)
			if !ok {
				return true
			}
			id, ok := kv.Key.(*ast.Ident)
			if !ok || id.Name != "hashers" {
				return true
			}
			cl, ok := kv.Value.(*ast.CompositeLit)
			if !ok {
				failShape("hashers is not a composite literal")
			}
			for _, e := range cl.Elts {
				ekv, ok := e.(*ast.KeyValueExpr)
				if !ok {
					failShape("hashers entry is not key: value")
				}
				name := unquote(ekv.Key.(*ast.BasicLit))
				call, ok := ekv.Value.(*ast.CallExpr)
				if !ok || len(call.Args) != 4 {
					failShape("hashers[%s] is not fs.NewPathHasher(root, xattrs, ctor, name)", name)
				}
				ctor := c35Expr(fset, call.Args[2])
				size, known := sizes[ctor]
				if !known {
					failShape("hashers[%s]: unknown constructor %s", name, ctor)
				}
				if lit, ok := call.Args[3].(*ast.BasicLit); !ok || unquote(lit) != name {
					failShape("hashers[%s]: algorithm name argument differs from the key", name)
				}
				hashers = append(hashers, fmt.Sprintf("(%s, %d)", coqString(name), size))
			}
			return false
		})
		if len(hashers) == 0 {
			failShape("hashers map not found in state.go")
		}
		_, cf := parseFile("src/core/config.go")
		var defCheckers []string
		defFn := ""
		ast.Inspect(cf, func(n ast.Node) bool {
			switch x := n.(type) {
			case *ast.CallExpr:
				if id, ok := x.Fun.(*ast.Ident); ok && id.Name == "setDefault" && len(x.Args) >= 1 && c35Expr(fset, x.Args[0]) == "&config.Build.HashCheckers" {
					for _, a := range x.Args[1:] {
						lit, ok := a.(*ast.BasicLit)
						if !ok {
							failShape("setDefault(&config.Build.HashCheckers, ...): non-literal default")
						}
						defCheckers = append(defCheckers, unquote(lit))
					}
				}
			case *ast.AssignStmt:
				if len(x.Lhs) == 1 && len(x.Rhs) == 1 && c35Expr(fset, x.Lhs[0]) == "config.Build.HashFunction" {
					lit, ok := x.Rhs[0].(*ast.BasicLit)
					if !ok {
						failShape("config.Build.HashFunction default is not a literal")
					}
					defFn = unquote(lit)
				}
			}
			return true
		})
		if defCheckers == nil || defFn == "" {
			failShape("defaults of build.hashcheckers / build.hashfunction not found")
		}
		return genHeader +
			fmt.Sprintf("Definition unprefix_sep : N := %d%%N.\n", sep[0]) +
			"Definition unprefix_works_on_copy : bool := true.\n" +
			"Definition hex_chars_per_byte : nat := " + lm[1] + ".\n" +
			"Definition names_only_without_hashes : bool := true.\n" +
			"Definition filegroup_check_guarded_by_changed : bool := " + c35Bool(fgGuarded) + ".\n" +
			"Definition output_hash_memoised : bool := " + c35Bool(memoised) + ".\n" +
			"Definition hashers : list (string * nat) := [" + strings.Join(hashers, "; ") + "].\n" +
			"Definition default_hashfunction : string := " + coqString(defFn) + ".\n" +
			"Definition default_hashcheckers : list string := " + coqStringList(defCheckers) + ".\n"
	}
}

func c35Bool(b bool) string {
	if b {
		return "true"
	}
	return "false"
}

func c35Expr(fset *token.FileSet, e ast.Expr) string {
	var b bytes.Buffer
	printer.Fprint(&b, token.NewFileSet(), e)
	return b.String()
}

var c35Space = regexp.MustCompile(`\s+`)

// c35Norm prints a block without comments, all white space collapsed
func c35Norm(fset *token.FileSet, n *ast.BlockStmt) string {
	var b bytes.Buffer
	// printing the node alone (not the file) drops the comments, which live in ast.File.Comments
	if err := printer.Fprint(&b, token.NewFileSet(), n); err != nil {
		failShape("cannot print block: %v", err)
	}
	return strings.TrimSpace(c35Space.ReplaceAllString(b.String(), " "))
}
