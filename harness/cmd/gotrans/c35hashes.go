package main

import (
	"bytes"
	"fmt"
	"go/ast"
	"go/printer"
	"go/token"
	"regexp"
	"strings"
)

// C35Hashes (property C35): what the declared-hash check depends on and is regular enough to read off
// the source:
//   - core.BuildTarget.UnprefixedHashes (src/core/build_target.go): works on a COPY of target.Hashes
//     (the defect fixed in 72ca340 stripped in place), cuts at the last occurrence of one separator
//     byte and trims the rest;
//   - checkRuleHashesOfType (src/build/build_step.go): a declared value is compared with a checker's
//     digest only if its length is hasher.Size()*K;
//   - outputHash: file names enter the combined hash only when no hashes are declared;
//   - buildFilegroup's caller: the hash check of a filegroup is guarded by `changed`;
//   - the hashers map of NewBuildState (src/core/state.go) and the defaults of build.hashfunction and
//     build.hashcheckers (src/core/config.go).
func init() {
	targets["C35Hashes"] = func() string {
		fset, f := parseFile("src/core/build_target.go")
		uh := findFunc(f, "BuildTarget", "UnprefixedHashes")
		body := c35Norm(fset, uh.Body)
		re := regexp.MustCompile(`^\{ hashes := make\(\[\]string, len\(target\.Hashes\)\) copy\(hashes, target\.Hashes\) for i, h := range hashes \{ if index := strings\.LastIndexByte\(h, ('(?:[^'\\]|\\.)')\); index != -1 \{ hashes\[i\] = strings\.TrimSpace\(h\[index\+1:\]\) \} \} return hashes \}$`)
		m := re.FindStringSubmatch(body)
		if m == nil {
			failShape("UnprefixedHashes is not `copy of target.Hashes; for each: cut after LastIndexByte(h, c) and TrimSpace`: %s", body)
		}
		sep := unquote(&ast.BasicLit{Kind: token.CHAR, Value: m[1]})
		if len(sep) != 1 {
			failShape("UnprefixedHashes: separator %s is not a single byte", m[1])
		}

		fset2, g := parseFile("src/build/build_step.go")
		ct := c35Norm(fset2, findFunc(g, "", "checkRuleHashesOfType").Body)
		reLen := regexp.MustCompile(`for _, h := range hashes \{ if len\(h\) == hasher\.Size\(\)\*(\d+) \{ if hashString == h \{ return nil, true \} \} \}`)
		lm := reLen.FindStringSubmatch(ct)
		if lm == nil {
			failShape("checkRuleHashesOfType: inner loop is not `if len(h) == hasher.Size()*K { if hashString == h { return nil, true } }`")
		}
		if !strings.Contains(ct, "bhash, _ := outputHash(target, outputs, hasher, combiner) hashString := hex.EncodeToString(bhash)") {
			failShape("checkRuleHashesOfType: digest is not hex.EncodeToString(outputHash(target, outputs, hasher, combiner))")
		}
		cr := c35Norm(fset2, findFunc(g, "", "checkRuleHashes").Body)
		for _, want := range []string{
			"if len(target.Hashes) == 0 { return nil }",
			"hashes := target.UnprefixedHashes()",
			"hashStr := hex.EncodeToString(hash) for _, h := range hashes { if h == hashStr { return nil } }",
			"combine := len(outputs) != 1",
			"checkRuleHashesOfType(target, hashes, outputs, state.OutputHashCheckers(), combine)",
		} {
			if !strings.Contains(cr, want) {
				failShape("checkRuleHashes: expected `%s`", want)
			}
		}
		oh := c35Norm(fset2, findFunc(g, "", "outputHash").Body)
		namesOnlyWithoutHashes := strings.Contains(oh, "if len(target.Hashes) == 0 { h.Write([]byte(filename)) }")
		if !namesOnlyWithoutHashes {
			failShape("outputHash: file names are not written under `if len(target.Hashes) == 0`")
		}
		th := c35Norm(fset2, findFunc(g, "targetHasher", "outputHash").Body)
		if !strings.Contains(th, "if len(outs) == 1 && fs.FileExists(outs[0]) { return outputHash(target, outs, h.State.PathHasher, nil) } return outputHash(target, outs, h.State.PathHasher, h.State.PathHasher.NewHash)") {
			failShape("targetHasher.outputHash: not `single existing file -> direct, else combined`")
		}
		bt := c35Norm(fset2, findFunc(g, "", "buildTarget").Body)
		fgGuarded := strings.Contains(bt, "changed, err := buildFilegroup(state, target) if err != nil { return err } if changed { if _, err := calculateAndCheckRuleHash(state, target); err != nil { return err }")
		bw := c35Norm(fset2, findFunc(g, "", "Build").Body)
		removesOnFailure := strings.Contains(bw, "if err := RemoveOutputs(target); err != nil")
		if !removesOnFailure {
			failShape("Build: a failed build does not call RemoveOutputs(target)")
		}
		ra := c35Norm(fset2, findFunc(g, "", "retrieveArtifacts").Body)
		if !strings.Contains(ra, "newOutputHash, err := calculateAndCheckRuleHash(state, target) if err != nil {") || !strings.Contains(ra, "RemoveOutputs(target) return false") {
			failShape("retrieveArtifacts: not `calculateAndCheckRuleHash; on error RemoveOutputs(target); return false`")
		}
		oh2 := c35Norm(fset2, findFunc(g, "targetHasher", "OutputHash").Body)
		memoised := strings.Contains(oh2, "if present { return hash, nil }")

		// --- hashers and defaults
		_, st := parseFile("src/core/state.go")
		sizes := map[string]int{"sha1.New": 20, "sha256.New": 32, "newCRC32": 4, "newCRC64": 8, "newBlake3": 32, "newXXHash": 8}
		var hashers []string
		ast.Inspect(st, func(n ast.Node) bool {
			kv, ok := n.(*ast.KeyValueExpr)
			if !ok {
				return true
			}
			id, ok := kv.Key.(*ast.Ident)
			if !ok || id.Name != "hashers" {
				return true
			}
			cl, ok := kv.Value.(*ast.CompositeLit)
			if !ok {
				failShape("hashers is not a composite literal")
			}
			for _, e := range cl.Elts {
				ekv, ok := e.(*ast.KeyValueExpr)
				if !ok {
					failShape("hashers entry is not key: value")
				}
				name := unquote(ekv.Key.(*ast.BasicLit))
				call, ok := ekv.Value.(*ast.CallExpr)
				if !ok || len(call.Args) != 4 {
					failShape("hashers[%s] is not fs.NewPathHasher(root, xattrs, ctor, name)", name)
				}
				ctor := c35Expr(fset, call.Args[2])
				size, known := sizes[ctor]
				if !known {
					failShape("hashers[%s]: unknown constructor %s", name, ctor)
				}
				if lit, ok := call.Args[3].(*ast.BasicLit); !ok || unquote(lit) != name {
					failShape("hashers[%s]: algorithm name argument differs from the key", name)
				}
				hashers = append(hashers, fmt.Sprintf("(%s, %d)", coqString(name), size))
			}
			return false
		})
		if len(hashers) == 0 {
			failShape("hashers map not found in state.go")
		}
		_, cf := parseFile("src/core/config.go")
		var defCheckers []string
		defFn := ""
		ast.Inspect(cf, func(n ast.Node) bool {
			switch x := n.(type) {
			case *ast.CallExpr:
				if id, ok := x.Fun.(*ast.Ident); ok && id.Name == "setDefault" && len(x.Args) >= 1 && c35Expr(fset, x.Args[0]) == "&config.Build.HashCheckers" {
					for _, a := range x.Args[1:] {
						lit, ok := a.(*ast.BasicLit)
						if !ok {
							failShape("setDefault(&config.Build.HashCheckers, ...): non-literal default")
						}
						defCheckers = append(defCheckers, unquote(lit))
					}
				}
			case *ast.AssignStmt:
				if len(x.Lhs) == 1 && len(x.Rhs) == 1 && c35Expr(fset, x.Lhs[0]) == "config.Build.HashFunction" {
					lit, ok := x.Rhs[0].(*ast.BasicLit)
					if !ok {
						failShape("config.Build.HashFunction default is not a literal")
					}
					defFn = unquote(lit)
				}
			}
			return true
		})
		if defCheckers == nil || defFn == "" {
			failShape("defaults of build.hashcheckers / build.hashfunction not found")
		}
		fgDefs := c35Filegroup()
		return genHeader +
			fmt.Sprintf("Definition unprefix_sep : N := %d%%N.\n", sep[0]) +
			"Definition unprefix_works_on_copy : bool := true.\n" +
			"Definition hex_chars_per_byte : nat := " + lm[1] + ".\n" +
			"Definition names_only_without_hashes : bool := true.\n" +
			"Definition filegroup_check_guarded_by_changed : bool := " + c35Bool(fgGuarded) + ".\n" +
			"Definition output_hash_memoised : bool := " + c35Bool(memoised) + ".\n" +
			"Definition hashers : list (string * nat) := [" + strings.Join(hashers, "; ") + "].\n" +
			"Definition default_hashfunction : string := " + coqString(defFn) + ".\n" +
			"Definition default_hashcheckers : list string := " + coqStringList(defCheckers) + ".\n" +
			fgDefs
	}
}

// c35Filegroup TRANSLATES (src/build/filegroup.go, src/core/build_target.go):
//   - the order of core.BuildTargetState (iota block) -> build_states;
//   - the comparison of buildFilegroup's second loop, `state.Graph.TargetOrDie(l).State() OP core.CONST` ->
//     fg_src_state_triggers : nat -> bool over the index in build_states; and that the loop looks at targets of the
//     same package only;
//   - filegroupBuilder: the value type of the memo `built`, what a memo hit returns as a function of the recorded
//     value (fg_memo_hit), and the values the two stores record (fg_memo_store_same / _built; None = not a verdict).
func c35Filegroup() string {
	_, bt := parseFile("src/core/build_target.go")
	states := iotaConsts(bt, "BuildTargetState")
	fset, f := parseFile("src/build/filegroup.go")
	bf := findFunc(f, "", "buildFilegroup")
	// the second range loop: `for _, bi := range target.AllSources()`
	var loop *ast.RangeStmt
	for _, st := range bf.Body.List {
		if rs, ok := st.(*ast.RangeStmt); ok && c35Expr(fset, rs.X) == "target.AllSources()" {
			if loop != nil {
				failShape("buildFilegroup: more than one loop over target.AllSources()")
			}
			loop = rs
		}
	}
	if loop == nil {
		failShape("buildFilegroup: no `for _, bi := range target.AllSources()` loop")
	}
	var cmps []*ast.BinaryExpr
	samePkg := 0
	ast.Inspect(loop.Body, func(n ast.Node) bool {
		switch x := n.(type) {
		case *ast.BinaryExpr:
			if c35Expr(fset, x.X) == "state.Graph.TargetOrDie(l).State()" {
				cmps = append(cmps, x)
			}
		case *ast.CallExpr:
			if c35Expr(fset, x.Fun) == "target.Label.InSamePackageAs" {
				samePkg++
			}
		}
		return true
	})
	if len(cmps) != 1 {
		failShape("buildFilegroup: expected exactly one comparison of state.Graph.TargetOrDie(l).State(), found %d", len(cmps))
	}
	if samePkg != 1 {
		failShape("buildFilegroup: the source-state loop is not guarded by exactly one target.Label.InSamePackageAs(l)")
	}
	body := c35Norm(fset, loop.Body)
	if !strings.HasPrefix(body, "{ if changed { break }") {
		failShape("buildFilegroup: the source-state loop does not start with `if changed { break }`: %s", body)
	}
	sel, ok := cmps[0].Y.(*ast.SelectorExpr)
	if !ok || c35Expr(fset, sel.X) != "core" {
		failShape("buildFilegroup: the state is not compared with a core.<State> constant")
	}
	idx := -1
	for i, n := range states {
		if n == sel.Sel.Name {
			idx = i
		}
	}
	if idx < 0 {
		failShape("buildFilegroup: core.%s is not a BuildTargetState", sel.Sel.Name)
	}
	var trig string
	switch cmps[0].Op {
	case token.LSS:
		trig = fmt.Sprintf("Nat.ltb r %d", idx)
	case token.LEQ:
		trig = fmt.Sprintf("Nat.leb r %d", idx)
	case token.EQL:
		trig = fmt.Sprintf("Nat.eqb r %d", idx)
	case token.NEQ:
		trig = fmt.Sprintf("negb (Nat.eqb r %d)", idx)
	case token.GTR:
		trig = fmt.Sprintf("Nat.ltb %d r", idx)
	case token.GEQ:
		trig = fmt.Sprintf("Nat.leb %d r", idx)
	default:
		failShape("buildFilegroup: unknown comparison %s", cmps[0].Op)
	}
	// the comparison must be what sets `changed` (either `if cmp { changed = true }` or `changed = cmp`)
	cmpText := c35Expr(fset, cmps[0])
	if !strings.Contains(body, "if ok && "+cmpText+" { changed = true }") && !strings.Contains(body, "if "+cmpText+" { changed = true }") &&
		!strings.Contains(body, "changed = "+cmpText) {
		failShape("buildFilegroup: the state comparison does not set `changed`: %s", body)
	}

	// --- the memo
	valType := ""
	for _, d := range f.Decls {
		gd, ok := d.(*ast.GenDecl)
		if !ok || gd.Tok != token.TYPE {
			continue
		}
		for _, sp := range gd.Specs {
			ts := sp.(*ast.TypeSpec)
			st, ok := ts.Type.(*ast.StructType)
			if !ok || ts.Name.Name != "filegroupBuilder" {
				continue
			}
			for _, fld := range st.Fields.List {
				for _, n := range fld.Names {
					if n.Name == "built" {
						mt, ok := fld.Type.(*ast.MapType)
						if !ok || c35Expr(fset, mt.Key) != "string" {
							failShape("filegroupBuilder.built is not a map[string]...")
						}
						valType = c35Expr(fset, mt.Value)
					}
				}
			}
		}
	}
	if valType == "" {
		failShape("filegroupBuilder.built not found")
	}
	bd := findFunc(f, "filegroupBuilder", "Build")
	hit := ""
	var stores []string // in source order: (top-level?, value)
	var storeTop []bool
	for _, st := range bd.Body.List {
		ifs, ok := st.(*ast.IfStmt)
		if ok && ifs.Init != nil {
			if as, ok := ifs.Init.(*ast.AssignStmt); ok && len(as.Lhs) == 2 && len(as.Rhs) == 1 && c35Expr(fset, as.Rhs[0]) == "builder.built[to]" {
				// `if V, present := builder.built[to]; present { return E, nil }`
				if c35Expr(fset, as.Lhs[1]) != c35Expr(fset, ifs.Cond) || len(ifs.Body.List) != 1 || ifs.Else != nil {
					failShape("filegroupBuilder.Build: memo lookup is not `if v, present := builder.built[to]; present { return ... }`")
				}
				ret, ok := ifs.Body.List[0].(*ast.ReturnStmt)
				if !ok || len(ret.Results) != 2 || c35Expr(fset, ret.Results[1]) != "nil" {
					failShape("filegroupBuilder.Build: memo hit does not `return <verdict>, nil`")
				}
				switch e := c35Expr(fset, ret.Results[0]); {
				case e == c35Expr(fset, as.Lhs[0]) && e != "_":
					hit = "recorded"
				case e == "true" || e == "false":
					hit = e
				case e == "!"+c35Expr(fset, as.Lhs[0]):
					hit = "negb recorded"
				default:
					failShape("filegroupBuilder.Build: memo hit returns %s", e)
				}
			}
		}
	}
	if hit == "" {
		failShape("filegroupBuilder.Build: no memo lookup `if v, present := builder.built[to]; present {...}` at the top level")
	}
	var walk func(list []ast.Stmt, top bool)
	walk = func(list []ast.Stmt, top bool) {
		for _, st := range list {
			switch x := st.(type) {
			case *ast.AssignStmt:
				if len(x.Lhs) == 1 && c35Expr(fset, x.Lhs[0]) == "builder.built[to]" {
					if len(x.Rhs) != 1 || x.Tok != token.ASSIGN {
						failShape("filegroupBuilder.Build: odd store into builder.built[to]")
					}
					switch v := c35Expr(fset, x.Rhs[0]); v {
					case "true", "false":
						stores = append(stores, "Some "+v)
					default:
						stores = append(stores, "None")
					}
					storeTop = append(storeTop, top)
				}
			case *ast.IfStmt:
				walk(x.Body.List, false)
				for e := x.Else; e != nil; {
					switch y := e.(type) {
					case *ast.IfStmt:
						walk(y.Body.List, false)
						e = y.Else
					case *ast.BlockStmt:
						walk(y.List, false)
						e = nil
					default:
						e = nil
					}
				}
			case *ast.BlockStmt:
				walk(x.List, false)
			}
		}
	}
	walk(bd.Body.List, true)
	// first the store of the `same` branch (nested), then the store after the file has been put in place (top level)
	if len(stores) != 2 || storeTop[0] || !storeTop[1] {
		failShape("filegroupBuilder.Build: expected one store into builder.built[to] in the `same` branch and one at the end, found %v (top-level %v)", stores, storeTop)
	}
	nb := c35Norm(fset, bd.Body)
	if !strings.Contains(nb, "else if same { builder.built[to] = ") {
		failShape("filegroupBuilder.Build: the first store is not in the `else if same` branch")
	}
	return "Definition build_states : list string := " + coqStringList(states) + ".\n" +
		"Definition fg_src_state_triggers (r : nat) : bool := " + trig + ".\n" +
		"Definition fg_src_same_package_only : bool := true.\n" +
		"Definition fg_memo_value_type : string := " + coqString(valType) + ".\n" +
		"Definition fg_memo_hit (recorded : bool) : bool := " + hit + ".\n" +
		"Definition fg_memo_store_same : option bool := " + stores[0] + ".\n" +
		"Definition fg_memo_store_built : option bool := " + stores[1] + ".\n"
}

func c35Bool(b bool) string {
	if b {
		return "true"
	}
	return "false"
}

func c35Expr(fset *token.FileSet, e ast.Expr) string {
	var b bytes.Buffer
	printer.Fprint(&b, token.NewFileSet(), e)
	return b.String()
}

var c35Space = regexp.MustCompile(`\s+`)

// c35Norm prints a block without comments, all white space collapsed
func c35Norm(fset *token.FileSet, n *ast.BlockStmt) string {
	var b bytes.Buffer
	// printing the node alone (not the file) drops the comments, which live in ast.File.Comments
	if err := printer.Fprint(&b, token.NewFileSet(), n); err != nil {
		failShape("cannot print block: %v", err)
	}
	return strings.TrimSpace(c35Space.ReplaceAllString(b.String(), " "))
}
