package main

// RuleHashProg: translate the body of build.ruleHash (src/build/incrementality.go), its helpers hashMap / hashBool /
// hashOptionalBool and the BuildTarget accessors it iterates (src/core/build_target.go) into a list of emit items over the
// attribute record of Model/C08.v.  Output: Gen/RuleHashProg.v (for the proofs and the Coq side of the correspondence) and
// Gen/RuleHashProg.json (the same program, interpreted by the Go harness over real targets).
//
// Closed set of shapes; anything else -> failShape (exit 3).  What is deliberately tolerated, because the theorems are
// meant to notice it: a missing sort call in a key-collection idiom or in DeclaredDependencies (-> sorted = false /
// ELabels instead of ESortedLabels), a direct `range` over a map (-> sorted = false), dropped or reordered statements.

import (
	"bytes"
	"encoding/json"
	"fmt"
	"go/ast"
	"go/printer"
	"go/token"
	"os"
	"path/filepath"
	"strings"
)

type rhEmit struct {
	Op     string   `json:"op"`
	F      string   `json:"f,omitempty"`
	G      string   `json:"g,omitempty"`
	Sorted bool     `json:"sorted,omitempty"`
	Sep    []int    `json:"sep,omitempty"`
	TV     []int    `json:"tv,omitempty"`
	FV     []int    `json:"fv,omitempty"`
	Test   bool     `json:"test,omitempty"`
	Conds  []string `json:"conds,omitempty"`
}

func init() { targets["RuleHashProg"] = ruleHashProg }

func nodeStr(fset *token.FileSet, n ast.Node) string {
	var b bytes.Buffer
	if err := printer.Fprint(&b, fset, n); err != nil {
		failShape("cannot print node: %v", err)
	}
	return b.String()
}

func bodyStrings(fset *token.FileSet, fd *ast.FuncDecl) []string {
	out := []string{}
	for _, st := range fd.Body.List {
		out = append(out, nodeStr(fset, st))
	}
	return out
}

// matchBody compares a function body with the expected statements; the statement at index opt may be absent.
// Returns whether it was present.
func matchBody(what string, got, want []string, opt int) bool {
	norm := func(x string) string { return strings.Join(strings.Fields(x), " ") }
	eq := func(a, b []string) bool {
		if len(a) != len(b) {
			return false
		}
		for i := range a {
			if norm(a[i]) != norm(b[i]) {
				return false
			}
		}
		return true
	}
	if eq(got, want) {
		return true
	}
	if opt >= 0 {
		without := append(append([]string{}, want[:opt]...), want[opt+1:]...)
		if eq(got, without) {
			return false
		}
	}
	failShape("%s: body not recognised:\n%s", what, strings.Join(got, "\n"))
	return false
}

// ---- field tables: Go selector on the target -> model field and its kind

type fieldInfo struct{ name, kind string }

var targetFields = map[string]fieldInfo{
	"Label": {"FLabel", "label"}, "Visibility": {"FVisibility", "labels"}, "Hashes": {"FHashes", "list"},
	"Licences": {"FLicences", "list"}, "OptionalOutputs": {"FOptionalOuts", "list"}, "Labels": {"FLabels", "list"},
	"Secrets": {"FSecrets", "list"}, "Requires": {"FRequires", "list"}, "OutputDirectories": {"FOutputDirs", "list"},
	"IsBinary": {"FBinary", "bool"}, "IsSubrepo": {"FSubrepo", "bool"}, "Sandbox": {"FSandbox", "bool"},
	"NeedsTransitiveDependencies": {"FNeedsTransitive", "bool"}, "OutputIsComplete": {"FOutputIsComplete", "bool"},
	"Stamp": {"FStamp", "bool"}, "IsFilegroup": {"FFilegroup", "bool"}, "IsTextFile": {"FTextFile", "bool"},
	"IsRemoteFile": {"FRemoteFile", "bool"}, "Local": {"FLocal", "bool"}, "SrcListFiles": {"FSrcListFiles", "bool"},
	"ExitOnError": {"FExitOnError", "bool"}, "Provides": {"FProvides", "lgroups"}, "EntryPoints": {"FEntryPoints", "smap"},
	"Env": {"FEnv", "smap"}, "FileContent": {"FFileContent", "str"}, "PassEnv": {"FPassEnv", "optlist"},
	"PreBuildFunction": {"FPreBuild", "func"}, "PostBuildFunction": {"FPostBuild", "func"},
	"Test.Outputs": {"FTestOutputs", "list"}, "Test.Sandbox": {"FTestSandbox", "bool"},
	"Test.ArgsPlaceholder": {"FTestArgsPlaceholder", "str"},
	"Tools":                {"FTools", "list"}, "Sources": {"FSrcs", "inputs"}, "Data": {"FData", "inputs"},
	"NamedSecrets": {"FNamedSecrets", "groups"},
}

// ---- the translator proper

type local struct {
	kind   string // "keys" (collected keys of a map), "map" (alias of a map-valued attribute), "group" (m[key])
	field  fieldInfo
	filled bool
	sorted bool
	keyVar string
}

type rhTrans struct {
	fset    *token.FileSet
	file    *ast.File // incrementality.go
	core    *ast.File // build_target.go
	cfset   *token.FileSet
	target  string // name of the *BuildTarget parameter
	state   string
	runtime string
	hashVar string
	locals  map[string]*local
	conds   []string
	out     []rhEmit
	tv, fv  []int
	depth   int
	// `continue` guards found at the head of the loop over target.AllSources() (Coq bexp ivar terms)
	srcsSkip []string
}

func (tr *rhTrans) emit(e rhEmit) {
	e.Conds = append([]string{}, tr.conds...)
	tr.out = append(tr.out, e)
}

func (tr *rhTrans) str(n ast.Node) string { return nodeStr(tr.fset, n) }

// selector path below the target variable: target.A.B -> "A.B", ok
func (tr *rhTrans) targetPath(e ast.Expr) (string, bool) {
	parts := []string{}
	for {
		switch x := e.(type) {
		case *ast.SelectorExpr:
			parts = append([]string{x.Sel.Name}, parts...)
			e = x.X
		case *ast.Ident:
			if x.Name == tr.target && len(parts) > 0 {
				return strings.Join(parts, "."), true
			}
			return "", false
		default:
			return "", false
		}
	}
}

func (tr *rhTrans) fieldOf(e ast.Expr) fieldInfo {
	if id, ok := e.(*ast.Ident); ok {
		if l := tr.locals[id.Name]; l != nil && l.kind == "map" {
			return l.field
		}
	}
	p, ok := tr.targetPath(e)
	if !ok {
		failShape("expression %s is not an attribute of the target", tr.str(e))
	}
	fi, ok := targetFields[p]
	if !ok {
		failShape("attribute target.%s is not known to the model (new hashed field?)", p)
	}
	return fi
}

// method call on the target: target.M(args) -> "M", args
func (tr *rhTrans) targetCall(e ast.Expr) (string, []ast.Expr, bool) {
	c, ok := e.(*ast.CallExpr)
	if !ok {
		return "", nil, false
	}
	sel, ok := c.Fun.(*ast.SelectorExpr)
	if !ok {
		return "", nil, false
	}
	if id, ok := sel.X.(*ast.Ident); !ok || id.Name != tr.target {
		return "", nil, false
	}
	return sel.Sel.Name, c.Args, true
}

// h.Write([]byte(E)) -> E ; h.Write(E) with E not a conversion -> raw
func (tr *rhTrans) writeArg(st ast.Stmt) (ast.Expr, bool, bool) {
	es, ok := st.(*ast.ExprStmt)
	if !ok {
		return nil, false, false
	}
	c, ok := es.X.(*ast.CallExpr)
	if !ok || len(c.Args) != 1 {
		return nil, false, false
	}
	sel, ok := c.Fun.(*ast.SelectorExpr)
	if !ok || sel.Sel.Name != "Write" {
		return nil, false, false
	}
	if id, ok := sel.X.(*ast.Ident); !ok || id.Name != tr.hashVar {
		return nil, false, false
	}
	if conv, ok := c.Args[0].(*ast.CallExpr); ok && len(conv.Args) == 1 {
		if at, ok := conv.Fun.(*ast.ArrayType); ok && at.Len == nil {
			if id, ok := at.Elt.(*ast.Ident); ok && id.Name == "byte" {
				return conv.Args[0], true, true
			}
		}
	}
	return c.Args[0], false, true
}

func byteLit(tr *rhTrans, e ast.Expr) []int {
	cl, ok := e.(*ast.CompositeLit)
	if !ok {
		failShape("expected a []byte literal, got %s", tr.str(e))
	}
	at, ok := cl.Type.(*ast.ArrayType)
	if !ok || at.Len != nil {
		failShape("expected a []byte literal, got %s", tr.str(e))
	}
	if id, ok := at.Elt.(*ast.Ident); !ok || id.Name != "byte" {
		failShape("expected a []byte literal, got %s", tr.str(e))
	}
	out := []int{}
	for _, el := range cl.Elts {
		bl, ok := el.(*ast.BasicLit)
		if !ok {
			failShape("byte literal element %s", tr.str(el))
		}
		switch bl.Kind {
		case token.INT:
			var v int
			if _, err := fmt.Sscanf(bl.Value, "%d", &v); err != nil || v < 0 || v > 255 {
				failShape("byte literal element %s", bl.Value)
			}
			out = append(out, v)
		case token.CHAR:
			x := unquote(bl)
			if len(x) != 1 {
				failShape("byte literal element %s", bl.Value)
			}
			out = append(out, int(x[0]))
		default:
			failShape("byte literal element %s", bl.Value)
		}
	}
	return out
}

func strBytes(x string) []int {
	out := make([]int, len(x))
	for i := 0; i < len(x); i++ {
		out[i] = int(x[i])
	}
	return out
}

func isIdent(e ast.Expr, name string) bool {
	id, ok := e.(*ast.Ident)
	return ok && id.Name == name
}

// v.String() -> v
func stringCallOn(e ast.Expr) (string, bool) {
	c, ok := e.(*ast.CallExpr)
	if !ok || len(c.Args) != 0 {
		return "", false
	}
	sel, ok := c.Fun.(*ast.SelectorExpr)
	if !ok || sel.Sel.Name != "String" {
		return "", false
	}
	id, ok := sel.X.(*ast.Ident)
	if !ok {
		return "", false
	}
	return id.Name, true
}

// ---- accessors of core.BuildTarget (fingerprinted; a missing sort is tolerated and reported as sorted=false)

func (tr *rhTrans) coreBody(recv, name string) []string {
	return bodyStrings(tr.cfset, findFunc(tr.core, recv, name))
}

func (tr *rhTrans) allBuildInputsSorted() bool {
	return matchBody("BuildTarget.allBuildInputs", tr.coreBody("BuildTarget", "allBuildInputs"), []string{
		"ret := unnamed",
		"keys := make([]string, 0, len(named))",
		"for k := range named {\n\tkeys = append(keys, k)\n}",
		"sort.Strings(keys)",
		"for _, k := range keys {\n\tret = append(ret, named[k]...)\n}",
		"return ret"}, 3)
}

func (tr *rhTrans) iterableOfCall(name string, args []ast.Expr) (kind string, e rhEmit) {
	switch name {
	case "DeclaredDependencies":
		sorted := matchBody("BuildTarget.DeclaredDependencies", tr.coreBody("BuildTarget", name), []string{
			"target.mutex.RLock()", "defer target.mutex.RUnlock()",
			"ret := make(BuildLabels, len(target.dependencies))",
			"for i, dep := range target.dependencies {\n\tret[i] = *dep.declared\n}",
			"sort.Sort(ret)", "return ret"}, 4)
		if sorted {
			return "labels", rhEmit{Op: "SortedLabels", F: "FDeps"}
		}
		return "labels", rhEmit{Op: "Labels", F: "FDeps"}
	case "AllSources":
		matchBody("BuildTarget.AllSources", tr.coreBody("BuildTarget", name), []string{
			"if target.NamedSources == nil {\n\treturn target.Sources\n}",
			"return target.allBuildInputs(target.Sources, target.NamedSources)"}, -1)
		return "inputs", rhEmit{Op: "Inputs", F: "FSrcs", G: "FNamedSrcs", Sorted: tr.allBuildInputsSorted()}
	case "AllData":
		matchBody("BuildTarget.AllData", tr.coreBody("BuildTarget", name), []string{
			"if target.NamedData == nil {\n\treturn target.Data\n}",
			"return target.allBuildInputs(target.Data, target.NamedData)"}, -1)
		return "inputs", rhEmit{Op: "Inputs", F: "FData", G: "FNamedData", Sorted: tr.allBuildInputsSorted()}
	case "DeclaredOutputs":
		matchBody("BuildTarget.DeclaredOutputs", tr.coreBody("BuildTarget", name), []string{"return target.outputs"}, -1)
		return "list", rhEmit{Op: "List", F: "FOuts"}
	case "DeclaredOutputNames":
		sorted := matchBody("BuildTarget.DeclaredOutputNames", tr.coreBody("BuildTarget", name), []string{
			"ret := make([]string, 0, len(target.namedOutputs))",
			"for name := range target.namedOutputs {\n\tret = append(ret, name)\n}",
			"sort.Strings(ret)", "return ret"}, 2)
		return "keys", rhEmit{F: "FNamedOuts", Sorted: sorted}
	}
	failShape("ruleHash ranges over target.%s(), which the translator does not know", name)
	return "", rhEmit{}
}

func (tr *rhTrans) checkCommandAccessors() {
	matchBody("BuildTarget.GetCommand", tr.coreBody("BuildTarget", "GetCommand"),
		[]string{"return target.getCommand(state, target.Commands, target.Command)"}, -1)
	matchBody("BuildTarget.GetTestCommand", tr.coreBody("BuildTarget", "GetTestCommand"),
		[]string{"return target.getCommand(state, target.Test.Commands, target.Test.Command)"}, -1)
	// getCommand is hand-modelled (Model/C08.v get_command): the source must be exactly what was modelled
	matchBody("BuildTarget.getCommand", tr.coreBody("BuildTarget", "getCommand"), []string{
		"if commands == nil {\n\treturn singleCommand\n} else if command, present := commands[state.Config.Build.Config]; present {\n\treturn command\n} else if command, present := commands[state.Config.Build.FallbackConfig]; present {\n\treturn command\n}",
		"highestCommand := \"\"", "highestConfig := \"\"",
		"for config, command := range commands {\n\tif config > highestConfig {\n\t\thighestConfig = config\n\t\thighestCommand = command\n\t}\n}",
		"log.Warning(\"%s doesn't have a command for %s (or %s), falling back to %s\",\n\ttarget.Label, state.Config.Build.Config, state.Config.Build.FallbackConfig, highestConfig)",
		"return highestCommand"}, -1)
}

func (tr *rhTrans) checkLabelFunctions() {
	lfset, lf := parseFile("src/core/build_label.go")
	body := func(name string) []string { return bodyStrings(lfset, findFunc(lf, "BuildLabel", name)) }
	matchBody("BuildLabel.String", body("String"), []string{
		"zero := BuildLabel{}",
		"if label == zero {\n\treturn \"\"\n} else if label.IsOriginalTarget() {\n\treturn \"command-line targets\"\n}",
		"s := \"//\" + label.PackageName",
		"if label.Subrepo != \"\" {\n\ts = \"///\" + label.Subrepo + s\n}",
		"if label.IsAllSubpackages() {\n\tif label.PackageName == \"\" {\n\t\treturn s + \"...\"\n\t}\n\treturn s + \"/...\"\n}",
		"return s + \":\" + label.Name"}, -1)
	matchBody("BuildLabel.IsOriginalTarget", body("IsOriginalTarget"), []string{"return label == OriginalTarget"}, -1)
	matchBody("BuildLabel.IsAllSubpackages", body("IsAllSubpackages"), []string{"return label.Name == \"...\""}, -1)
	matchBody("BuildLabel.Less", body("Less"), []string{
		"if label.Subrepo != other.Subrepo {\n\treturn label.Subrepo < other.Subrepo\n} else if label.PackageName != other.PackageName {\n\treturn label.PackageName < other.PackageName\n}",
		"return label.Name < other.Name"}, -1)
	matchBody("BuildLabels.Less", bodyStrings(lfset, findFunc(lf, "BuildLabels", "Less")), []string{"return slice[i].Less(slice[j])"}, -1)
	found := false
	for _, d := range lf.Decls {
		gd, ok := d.(*ast.GenDecl)
		if !ok || gd.Tok != token.VAR {
			continue
		}
		for _, sp := range gd.Specs {
			vs := sp.(*ast.ValueSpec)
			if len(vs.Names) == 1 && vs.Names[0].Name == "OriginalTarget" && len(vs.Values) == 1 {
				if strings.Join(strings.Fields(nodeStr(lfset, vs.Values[0])), " ") != `BuildLabel{PackageName: "", Name: "_ORIGINAL"}` {
					failShape("OriginalTarget is not the modelled value")
				}
				found = true
			}
		}
	}
	if !found {
		failShape("var OriginalTarget not found")
	}
}

// ---- helpers of incrementality.go

func (tr *rhTrans) byteVar(name string) []int {
	for _, d := range tr.file.Decls {
		gd, ok := d.(*ast.GenDecl)
		if !ok || gd.Tok != token.VAR {
			continue
		}
		for _, sp := range gd.Specs {
			vs := sp.(*ast.ValueSpec)
			if len(vs.Names) == 1 && vs.Names[0].Name == name && len(vs.Values) == 1 {
				return byteLit(tr, vs.Values[0])
			}
		}
	}
	failShape("byte variable %s not found", name)
	return nil
}

func (tr *rhTrans) analyseHashBool() {
	fd := findFunc(tr.file, "", "hashBool")
	if len(fd.Type.Params.List) != 2 || len(fd.Body.List) != 1 {
		failShape("hashBool: unexpected signature or body")
	}
	w, b := fd.Type.Params.List[0].Names[0].Name, fd.Type.Params.List[1].Names[0].Name
	is, ok := fd.Body.List[0].(*ast.IfStmt)
	if !ok || is.Init != nil || !isIdent(is.Cond, b) || is.Else == nil {
		failShape("hashBool: body is not `if b {...} else {...}`")
	}
	arm := func(bl *ast.BlockStmt) []int {
		if len(bl.List) != 1 {
			failShape("hashBool: arm has %d statements", len(bl.List))
		}
		es, ok := bl.List[0].(*ast.ExprStmt)
		if !ok {
			failShape("hashBool: arm is not a call")
		}
		c, ok := es.X.(*ast.CallExpr)
		if !ok || len(c.Args) != 1 {
			failShape("hashBool: arm is not writer.Write(x)")
		}
		sel, ok := c.Fun.(*ast.SelectorExpr)
		if !ok || sel.Sel.Name != "Write" || !isIdent(sel.X, w) {
			failShape("hashBool: arm is not writer.Write(x)")
		}
		id, ok := c.Args[0].(*ast.Ident)
		if !ok {
			failShape("hashBool: argument of Write is not a variable")
		}
		return tr.byteVar(id.Name)
	}
	eb, ok := is.Else.(*ast.BlockStmt)
	if !ok {
		failShape("hashBool: else arm is not a block")
	}
	tr.tv, tr.fv = arm(is.Body), arm(eb)
	// hashOptionalBool
	matchBody("hashOptionalBool", bodyStrings(tr.fset, findFunc(tr.file, "", "hashOptionalBool")),
		[]string{"if b {\n\thashBool(writer, b)\n}"}, -1)
}

// ---- statements

func (tr *rhTrans) boolArg(e ast.Expr) string {
	if be, ok := e.(*ast.BinaryExpr); ok && be.Op == token.NEQ && isIdent(be.Y, "nil") {
		fi := tr.fieldOf(be.X)
		if fi.kind != "func" {
			failShape("`%s`: nil test on a non-function attribute", tr.str(e))
		}
		return fi.name
	}
	fi := tr.fieldOf(e)
	if fi.kind != "bool" {
		failShape("hashBool argument %s is not a boolean attribute", tr.str(e))
	}
	return fi.name
}

func (tr *rhTrans) stmts(list []ast.Stmt) {
	for _, st := range list {
		tr.stmt(st)
	}
}

func (tr *rhTrans) stmt(st ast.Stmt) {
	// h.Write(...)
	if arg, conv, ok := tr.writeArg(st); ok {
		if !conv {
			tr.emit(rhEmit{Op: "Const", Sep: byteLit(tr, arg)})
			return
		}
		// target.Label.String()
		if c, ok := arg.(*ast.CallExpr); ok {
			if sel, ok := c.Fun.(*ast.SelectorExpr); ok && sel.Sel.Name == "String" && len(c.Args) == 0 {
				if _, ok := tr.targetPath(sel.X); ok {
					fi := tr.fieldOf(sel.X)
					if fi.kind != "label" {
						failShape("%s: String() of a non-label attribute", tr.str(arg))
					}
					tr.emit(rhEmit{Op: "LabelStr", F: fi.name})
					return
				}
			}
			if name, args, ok := tr.targetCall(arg); ok && len(args) == 1 && isIdent(args[0], tr.state) {
				switch name {
				case "GetCommand":
					tr.checkCommandAccessors()
					tr.emit(rhEmit{Op: "Command"})
					return
				case "GetTestCommand":
					tr.checkCommandAccessors()
					tr.emit(rhEmit{Op: "Command", Test: true})
					return
				}
			}
			failShape("h.Write of call %s not recognised", tr.str(arg))
		}
		fi := tr.fieldOf(arg)
		if fi.kind != "str" {
			failShape("h.Write([]byte(%s)): not a string attribute", tr.str(arg))
		}
		tr.emit(rhEmit{Op: "Str", F: fi.name})
		return
	}
	switch x := st.(type) {
	case *ast.AssignStmt:
		tr.assign(x)
	case *ast.RangeStmt:
		tr.rangeStmt(x)
	case *ast.ExprStmt:
		tr.call(x)
	case *ast.IfStmt:
		tr.ifStmt(x)
	default:
		failShape("statement not recognised: %s", tr.str(st))
	}
}

func (tr *rhTrans) assign(as *ast.AssignStmt) {
	if as.Tok != token.DEFINE || len(as.Lhs) != 1 || len(as.Rhs) != 1 {
		failShape("assignment not recognised: %s", tr.str(as))
	}
	name := as.Lhs[0].(*ast.Ident).Name
	rhs := as.Rhs[0]
	// keys := make([]string, 0, len(M))
	if c, ok := rhs.(*ast.CallExpr); ok && isIdent(c.Fun, "make") && len(c.Args) == 3 {
		if tr.str(c.Args[0]) != "[]string" || tr.str(c.Args[1]) != "0" {
			failShape("make not recognised: %s", tr.str(as))
		}
		tr.locals[name] = &local{kind: "keys"}
		return
	}
	// outs := target.DeclaredNamedOutputs()
	if m, args, ok := tr.targetCall(rhs); ok && len(args) == 0 && m == "DeclaredNamedOutputs" {
		matchBody("BuildTarget.DeclaredNamedOutputs", tr.coreBody("BuildTarget", m), []string{"return target.namedOutputs"}, -1)
		tr.locals[name] = &local{kind: "map", field: fieldInfo{"FNamedOuts", "groups"}}
		return
	}
	failShape("assignment not recognised: %s", tr.str(as))
}

func (tr *rhTrans) call(es *ast.ExprStmt) {
	c, ok := es.X.(*ast.CallExpr)
	if !ok {
		failShape("statement not recognised: %s", tr.str(es))
	}
	// sort.Strings(keys)
	if tr.str(c.Fun) == "sort.Strings" && len(c.Args) == 1 {
		id, ok := c.Args[0].(*ast.Ident)
		if !ok || tr.locals[id.Name] == nil || tr.locals[id.Name].kind != "keys" || !tr.locals[id.Name].filled {
			failShape("sort.Strings of something that is not a collected key slice: %s", tr.str(es))
		}
		tr.locals[id.Name].sorted = true
		return
	}
	fn, ok := c.Fun.(*ast.Ident)
	if !ok || len(c.Args) != 2 || !isIdent(c.Args[0], tr.hashVar) {
		failShape("call not recognised: %s", tr.str(es))
	}
	switch fn.Name {
	case "hashBool":
		tr.emit(rhEmit{Op: "Bool", F: tr.boolArg(c.Args[1]), TV: tr.tv, FV: tr.fv})
	case "hashOptionalBool":
		tr.emit(rhEmit{Op: "OptBool", F: tr.boolArg(c.Args[1]), TV: tr.tv})
	case "hashMap":
		fi := tr.fieldOf(c.Args[1])
		if fi.kind != "smap" {
			failShape("hashMap of %s, which is not a map[string]string attribute", tr.str(c.Args[1]))
		}
		if tr.depth > 0 {
			failShape("nested helper call")
		}
		fd := findFunc(tr.file, "", "hashMap")
		if len(fd.Type.Params.List) != 2 {
			failShape("hashMap: signature")
		}
		sub := &rhTrans{fset: tr.fset, file: tr.file, core: tr.core, cfset: tr.cfset, target: "\x00none", state: "\x00none",
			runtime: "\x00none", hashVar: fd.Type.Params.List[0].Names[0].Name, locals: map[string]*local{}, conds: tr.conds,
			tv: tr.tv, fv: tr.fv, depth: 1}
		sub.locals[fd.Type.Params.List[1].Names[0].Name] = &local{kind: "map", field: fi}
		sub.stmts(fd.Body.List)
		tr.out = append(tr.out, sub.out...)
	default:
		failShape("call not recognised: %s", tr.str(es))
	}
}

func (tr *rhTrans) ifStmt(is *ast.IfStmt) {
	if is.Init != nil || is.Else != nil {
		failShape("if with init or else: %s", tr.str(is.Cond))
	}
	push := func(c string) {
		saved := tr.conds
		tr.conds = append(append([]string{}, tr.conds...), c)
		tr.stmts(is.Body.List)
		tr.conds = saved
	}
	if isIdent(is.Cond, tr.runtime) {
		push("CRuntime")
		return
	}
	if m, args, ok := tr.targetCall(is.Cond); ok && m == "IsTest" && len(args) == 0 {
		matchBody("BuildTarget.IsTest", tr.coreBody("BuildTarget", "IsTest"), []string{"return target.Test != nil"}, -1)
		push("CIsTest")
		return
	}
	// if target.PassEnv != nil { for _, env := range *target.PassEnv { W(env); W({sep}); W(os.Getenv(env)) } }
	if be, ok := is.Cond.(*ast.BinaryExpr); ok && be.Op == token.NEQ && isIdent(be.Y, "nil") {
		fi := tr.fieldOf(be.X)
		if fi.kind == "optlist" && len(is.Body.List) == 1 {
			if rs, ok := is.Body.List[0].(*ast.RangeStmt); ok && isIdent(rs.Key, "_") && rs.Value != nil {
				v := rs.Value.(*ast.Ident).Name
				if star, ok := rs.X.(*ast.StarExpr); ok && tr.fieldOf(star.X).name == fi.name && len(rs.Body.List) == 3 {
					a0, c0, ok0 := tr.writeArg(rs.Body.List[0])
					a1, c1, ok1 := tr.writeArg(rs.Body.List[1])
					a2, c2, ok2 := tr.writeArg(rs.Body.List[2])
					if ok0 && ok1 && ok2 && c0 && !c1 && c2 && isIdent(a0, v) && tr.str(a2) == "os.Getenv("+v+")" {
						tr.emit(rhEmit{Op: "PassEnv", Sep: byteLit(tr, a1)})
						return
					}
				}
			}
		}
	}
	failShape("if statement not recognised: if %s {...}", tr.str(is.Cond))
}

// key + "sep" + m[key]  (or + val) -> sep
func (tr *rhTrans) kvConcat(e ast.Expr, key, val string, m fieldInfo) ([]int, bool) {
	outer, ok := e.(*ast.BinaryExpr)
	if !ok || outer.Op != token.ADD {
		return nil, false
	}
	isVal := func(x ast.Expr) bool {
		if val != "" && isIdent(x, val) {
			return true
		}
		ix, ok := x.(*ast.IndexExpr)
		return ok && isIdent(ix.Index, key) && tr.fieldOf(ix.X).name == m.name
	}
	if !isVal(outer.Y) {
		return nil, false
	}
	if isIdent(outer.X, key) {
		return []int{}, true // key + value, no separator at all
	}
	inner, ok := outer.X.(*ast.BinaryExpr)
	if !ok || inner.Op != token.ADD || !isIdent(inner.X, key) {
		return nil, false
	}
	bl, ok := inner.Y.(*ast.BasicLit)
	if !ok {
		return nil, false
	}
	return strBytes(unquote(bl)), true
}

// body of a loop over the keys of map attribute m (key variable k, optional value variable v)
func (tr *rhTrans) keyedBody(body []ast.Stmt, k, v string, m fieldInfo, sorted bool) {
	switch m.kind {
	case "smap":
		if len(body) == 1 {
			if arg, conv, ok := tr.writeArg(body[0]); ok && conv {
				if sep, ok := tr.kvConcat(arg, k, v, m); ok {
					tr.emit(rhEmit{Op: "Map", F: m.name, Sorted: sorted, Sep: sep})
					return
				}
			}
		}
	case "groups", "lgroups":
		// [vs := M[k];] W(k); for _, x := range (vs | M[k]) { W(x | x.String()) }
		group := ""
		if len(body) == 3 {
			as, ok := body[0].(*ast.AssignStmt)
			if !ok || as.Tok != token.DEFINE || len(as.Lhs) != 1 || len(as.Rhs) != 1 {
				break
			}
			ix, ok := as.Rhs[0].(*ast.IndexExpr)
			if !ok || !isIdent(ix.Index, k) || tr.fieldOf(ix.X).name != m.name {
				break
			}
			group = as.Lhs[0].(*ast.Ident).Name
			body = body[1:]
		}
		if len(body) != 2 {
			break
		}
		arg, conv, ok := tr.writeArg(body[0])
		if !ok || !conv || !isIdent(arg, k) {
			break
		}
		rs, ok := body[1].(*ast.RangeStmt)
		if !ok || !isIdent(rs.Key, "_") || rs.Value == nil || len(rs.Body.List) != 1 {
			break
		}
		if group != "" {
			if !isIdent(rs.X, group) {
				break
			}
		} else {
			ix, ok := rs.X.(*ast.IndexExpr)
			if !ok || !isIdent(ix.Index, k) || tr.fieldOf(ix.X).name != m.name {
				break
			}
		}
		x := rs.Value.(*ast.Ident).Name
		arg2, conv2, ok := tr.writeArg(rs.Body.List[0])
		if !ok || !conv2 {
			break
		}
		if m.kind == "groups" && isIdent(arg2, x) {
			tr.emit(rhEmit{Op: "NamedGroups", F: m.name, Sorted: sorted})
			return
		}
		if sv, ok := stringCallOn(arg2); ok && sv == x && m.kind == "lgroups" {
			tr.emit(rhEmit{Op: "LabelGroups", F: m.name, Sorted: sorted})
			return
		}
	}
	failShape("loop over the keys of %s: body not recognised", m.name)
}

func (tr *rhTrans) rangeStmt(rs *ast.RangeStmt) {
	if rs.Tok != token.DEFINE {
		failShape("range without := : %s", tr.str(rs.X))
	}
	// 1. key collection:  for k := range M { keys = append(keys, k) }
	if rs.Value == nil && rs.Key != nil && len(rs.Body.List) == 1 {
		if as, ok := rs.Body.List[0].(*ast.AssignStmt); ok && as.Tok == token.ASSIGN && len(as.Lhs) == 1 && len(as.Rhs) == 1 {
			k := rs.Key.(*ast.Ident).Name
			if id, ok := as.Lhs[0].(*ast.Ident); ok && tr.locals[id.Name] != nil && tr.locals[id.Name].kind == "keys" {
				if tr.str(as.Rhs[0]) == "append("+id.Name+", "+k+")" {
					l := tr.locals[id.Name]
					if l.filled {
						failShape("key slice %s filled twice", id.Name)
					}
					l.field, l.filled = tr.fieldOf(rs.X), true
					return
				}
			}
		}
	}
	// 2. range over a collected key slice
	if id, ok := rs.X.(*ast.Ident); ok && tr.locals[id.Name] != nil && tr.locals[id.Name].kind == "keys" {
		l := tr.locals[id.Name]
		if !l.filled || !isIdent(rs.Key, "_") || rs.Value == nil {
			failShape("range over key slice %s not recognised", id.Name)
		}
		tr.keyedBody(rs.Body.List, rs.Value.(*ast.Ident).Name, "", l.field, l.sorted)
		return
	}
	// 3. range over an accessor
	if name, args, ok := tr.targetCall(rs.X); ok {
		kind, e := tr.iterableOfCall(name, args)
		if !isIdent(rs.Key, "_") || rs.Value == nil {
			failShape("range over target.%s(): loop variables", name)
		}
		v := rs.Value.(*ast.Ident).Name
		if kind == "keys" {
			tr.keyedBody(rs.Body.List, v, "", fieldInfo{e.F, "groups"}, e.Sorted)
			return
		}
		body := rs.Body.List
		if name == "AllSources" {
			// leading `if _, ok := v.Label(); <cond over ok> { continue }` guards are translated (srcs_skip), not refused
			for len(body) > 1 {
				g, ok := tr.skipGuard(body[0], v)
				if !ok {
					break
				}
				tr.srcsSkip = append(tr.srcsSkip, g)
				body = body[1:]
			}
		}
		tr.elementBody(body, v, kind, e)
		return
	}
	// 4. range over an attribute (slice) or directly over a map attribute
	fi := tr.fieldOf(rs.X)
	switch fi.kind {
	case "list":
		if !isIdent(rs.Key, "_") || rs.Value == nil {
			failShape("range over %s: loop variables", fi.name)
		}
		tr.elementBody(rs.Body.List, rs.Value.(*ast.Ident).Name, "list", rhEmit{Op: "List", F: fi.name})
	case "labels":
		if !isIdent(rs.Key, "_") || rs.Value == nil {
			failShape("range over %s: loop variables", fi.name)
		}
		tr.elementBody(rs.Body.List, rs.Value.(*ast.Ident).Name, "labels", rhEmit{Op: "Labels", F: fi.name})
	case "smap", "groups", "lgroups":
		k, v := "", ""
		if rs.Key != nil {
			k = rs.Key.(*ast.Ident).Name
		}
		if rs.Value != nil {
			v = rs.Value.(*ast.Ident).Name
		}
		if k == "" || k == "_" {
			failShape("range over map %s without a key variable", fi.name)
		}
		tr.keyedBody(rs.Body.List, k, v, fi, false)
	default:
		failShape("range over %s (kind %s) not recognised", fi.name, fi.kind)
	}
}

func (tr *rhTrans) elementBody(body []ast.Stmt, v, kind string, e rhEmit) {
	if len(body) != 1 {
		failShape("loop for %s: body has %d statements", e.F, len(body))
	}
	arg, conv, ok := tr.writeArg(body[0])
	if !ok || !conv {
		failShape("loop for %s: body is not h.Write([]byte(..))", e.F)
	}
	switch kind {
	case "list":
		if !isIdent(arg, v) {
			failShape("loop for %s: writes %s", e.F, tr.str(arg))
		}
	case "labels", "inputs":
		if sv, ok := stringCallOn(arg); !ok || sv != v {
			failShape("loop for %s: writes %s", e.F, tr.str(arg))
		}
	}
	tr.emit(e)
}

// ---- output

func coqBytes(b []int) string {
	printable := true
	for _, x := range b {
		if x < 0x20 || x > 0x7e || x == '"' {
			printable = false
		}
	}
	if printable && len(b) > 0 {
		bs := make([]byte, len(b))
		for i, x := range b {
			bs[i] = byte(x)
		}
		return `(s "` + string(bs) + `")`
	}
	parts := make([]string, len(b))
	for i, x := range b {
		parts[i] = fmt.Sprint(x)
	}
	return "[" + strings.Join(parts, ";") + "]%N"
}

func coqBool(b bool) string {
	if b {
		return "true"
	}
	return "false"
}

func (e rhEmit) coq() string {
	var body string
	switch e.Op {
	case "Str", "LabelStr", "List", "Labels", "SortedLabels":
		body = "E" + e.Op + " " + e.F
	case "Command":
		body = "ECommand " + coqBool(e.Test)
	case "Inputs":
		body = "EInputs " + coqBool(e.Sorted) + " " + e.F + " " + e.G
	case "NamedGroups", "LabelGroups":
		body = "E" + e.Op + " " + coqBool(e.Sorted) + " " + e.F
	case "Map":
		body = "EMap " + coqBool(e.Sorted) + " " + coqBytes(e.Sep) + " " + e.F
	case "Bool":
		body = "EBool " + e.F + " " + coqBytes(e.TV) + " " + coqBytes(e.FV)
	case "OptBool":
		body = "EOptBool " + e.F + " " + coqBytes(e.TV)
	case "PassEnv":
		body = "EPassEnv " + coqBytes(e.Sep)
	case "Const":
		body = "EConst " + coqBytes(e.Sep)
	default:
		failShape("internal: emit %s", e.Op)
	}
	return "([" + strings.Join(e.Conds, "; ") + "], " + body + ")"
}

func ruleHashProg() string {
	fset, f := parseFile("src/build/incrementality.go")
	cfset, cf := parseFile("src/core/build_target.go")
	fd := findFunc(f, "", "ruleHash")
	names := []string{}
	for _, p := range fd.Type.Params.List {
		for _, n := range p.Names {
			names = append(names, n.Name)
		}
	}
	if len(names) != 3 {
		failShape("ruleHash: expected (state, target, runtime), got %v", names)
	}
	tr := &rhTrans{fset: fset, file: f, core: cf, cfset: cfset, state: names[0], target: names[1], runtime: names[2],
		locals: map[string]*local{}}
	tr.analyseHashBool()
	tr.checkLabelFunctions()
	body := fd.Body.List
	if len(body) < 2 {
		failShape("ruleHash: body too short")
	}
	// h := sha1.New()
	as, ok := body[0].(*ast.AssignStmt)
	if !ok || as.Tok != token.DEFINE || len(as.Lhs) != 1 || len(as.Rhs) != 1 || tr.str(as.Rhs[0]) != "sha1.New()" {
		failShape("ruleHash: first statement is not `h := sha1.New()`")
	}
	tr.hashVar = as.Lhs[0].(*ast.Ident).Name
	// return h.Sum(nil)
	ret, ok := body[len(body)-1].(*ast.ReturnStmt)
	if !ok || len(ret.Results) != 1 || tr.str(ret.Results[0]) != tr.hashVar+".Sum(nil)" {
		failShape("ruleHash: last statement is not `return h.Sum(nil)`")
	}
	tr.stmts(body[1 : len(body)-1])
	// RuleHash (the exported wrapper): translated, not pinned - the bypass condition and BuildCouldModifyTarget become
	// boolean expressions that Proof/C08_Cache.v analyses by computation (gen_wrapper_ok)
	wrapper := tr.ruleHashWrapper()
	reader := tr.storedReader()

	js, err := json.MarshalIndent(tr.out, "", " ")
	if err != nil {
		panic(err)
	}
	if err := os.WriteFile(filepath.Join(outDir, "RuleHashProg.json"), append(js, '\n'), 0o644); err != nil {
		panic(err)
	}
	var b strings.Builder
	b.WriteString("(* ruleHash of src/build/incrementality.go as an emit program over Model/C08.v's attribute record *)\n")
	b.WriteString("From PlzV Require Import Base.Harness Model.C08.\n")
	b.WriteString("Definition prog : program := [\n")
	for i, e := range tr.out {
		if i > 0 {
			b.WriteString(";\n")
		}
		b.WriteString("  " + e.coq())
	}
	b.WriteString("\n].\n")
	b.WriteString("(* build.RuleHash, the memoising wrapper of ruleHash, and BuildTarget.BuildCouldModifyTarget *)\n")
	b.WriteString("Definition rule_hash_wrapper : wrapper :=\n  " + wrapper + ".\n")
	b.WriteString("(* `continue` guards at the head of ruleHash's loop over target.AllSources(): a source is skipped when this holds *)\n")
	skip := "(BConst false)"
	for i, g := range tr.srcsSkip {
		if i == 0 {
			skip = g
		} else {
			skip = "(BOr " + skip + " " + g + ")"
		}
	}
	b.WriteString("Definition srcs_skip : bexp ivar :=\n  " + skip + ".\n")
	b.WriteString("(* body of the loop over target.FullOutputs() in build.readRuleHashFromXattrs *)\n")
	b.WriteString("Definition stored_reader_body : rstmt :=\n  " + reader + ".\n")
	return b.String()
}

// ---- the RuleHash wrapper

// boolean expression over a closed set of atoms; `atom` returns the Coq constructor of an atom or "" if it is not one
func (tr *rhTrans) bexp(fset *token.FileSet, e ast.Expr, what string, atom func(ast.Expr) string) string {
	if a := atom(e); a != "" {
		return "(BVar " + a + ")"
	}
	switch x := e.(type) {
	case *ast.ParenExpr:
		return tr.bexp(fset, x.X, what, atom)
	case *ast.Ident:
		if x.Name == "true" || x.Name == "false" {
			return "(BConst " + x.Name + ")"
		}
	case *ast.UnaryExpr:
		if x.Op == token.NOT {
			return "(BNot " + tr.bexp(fset, x.X, what, atom) + ")"
		}
	case *ast.BinaryExpr:
		switch x.Op {
		case token.LOR:
			return "(BOr " + tr.bexp(fset, x.X, what, atom) + " " + tr.bexp(fset, x.Y, what, atom) + ")"
		case token.LAND:
			return "(BAnd " + tr.bexp(fset, x.X, what, atom) + " " + tr.bexp(fset, x.Y, what, atom) + ")"
		}
	}
	failShape("%s: condition %s is not a boolean combination of the known atoms", what, nodeStr(fset, e))
	return ""
}

func (tr *rhTrans) ruleHashWrapper() string {
	norm := func(x string) string { return strings.Join(strings.Fields(x), " ") }
	fd := findFunc(tr.file, "", "RuleHash")
	names := []string{}
	for _, p := range fd.Type.Params.List {
		for _, n := range p.Names {
			names = append(names, n.Name)
		}
	}
	if len(names) != 4 {
		failShape("RuleHash: expected (state, target, runtime, postBuild), got %v", names)
	}
	state, target, runtime, postBuild := names[0], names[1], names[2], names[3]
	body := fd.Body.List
	if len(body) != 4 {
		failShape("RuleHash: body has %d statements, expected 4:\n%s", len(body), strings.Join(bodyStrings(tr.fset, fd), "\n"))
	}
	// ruleHash(state, target, X) -> rtarg
	rtArg := func(e ast.Expr) string {
		c, ok := e.(*ast.CallExpr)
		if !ok || !isIdent(c.Fun, "ruleHash") || len(c.Args) != 3 || !isIdent(c.Args[0], state) || !isIdent(c.Args[1], target) {
			failShape("RuleHash: %s is not ruleHash(%s, %s, _)", tr.str(e), state, target)
		}
		switch {
		case isIdent(c.Args[2], runtime):
			return "RtParam"
		case isIdent(c.Args[2], "true"):
			return "(RtConst true)"
		case isIdent(c.Args[2], "false"):
			return "(RtConst false)"
		}
		failShape("RuleHash: third argument of %s not recognised", tr.str(e))
		return ""
	}
	// 1. if COND { return ruleHash(state, target, X) }
	is, ok := body[0].(*ast.IfStmt)
	if !ok || is.Init != nil || is.Else != nil || len(is.Body.List) != 1 {
		failShape("RuleHash: first statement is not `if cond { return ruleHash(..) }`")
	}
	ret, ok := is.Body.List[0].(*ast.ReturnStmt)
	if !ok || len(ret.Results) != 1 {
		failShape("RuleHash: first statement is not `if cond { return ruleHash(..) }`")
	}
	bypassRt := rtArg(ret.Results[0])
	bypass := tr.bexp(tr.fset, is.Cond, "RuleHash", func(e ast.Expr) string {
		switch {
		case isIdent(e, runtime):
			return "WRuntime"
		case isIdent(e, postBuild):
			return "WPostBuild"
		}
		if c, ok := e.(*ast.CallExpr); ok && len(c.Args) == 0 && norm(tr.str(c.Fun)) == target+".BuildCouldModifyTarget" {
			return "WCouldModify"
		}
		return ""
	})
	// 2. if len(target.RuleHash) != 0 { return target.RuleHash }      4. return target.RuleHash
	memo := target + ".RuleHash"
	if norm(tr.str(body[1])) != norm("if len("+memo+") != 0 { return "+memo+" }") {
		failShape("RuleHash: second statement is not the memo lookup: %s", tr.str(body[1]))
	}
	if norm(tr.str(body[3])) != "return "+memo {
		failShape("RuleHash: last statement is not `return %s`", memo)
	}
	// 3. target.RuleHash = ruleHash(state, target, X)
	as, ok := body[2].(*ast.AssignStmt)
	if !ok || as.Tok != token.ASSIGN || len(as.Lhs) != 1 || len(as.Rhs) != 1 || norm(tr.str(as.Lhs[0])) != memo {
		failShape("RuleHash: third statement is not `%s = ruleHash(..)`", memo)
	}
	fillRt := rtArg(as.Rhs[0])
	// the memo field must not be written anywhere else in package build's incrementality.go (the model's only writer is statement 3)
	writes := 0
	ast.Inspect(tr.file, func(n ast.Node) bool {
		if a, ok := n.(*ast.AssignStmt); ok {
			for _, l := range a.Lhs {
				if sel, ok := l.(*ast.SelectorExpr); ok && sel.Sel.Name == "RuleHash" {
					writes++
				}
			}
		}
		return true
	})
	if writes != 1 {
		failShape("incrementality.go assigns a .RuleHash field %d times, the model knows one writer", writes)
	}
	// BuildTarget.BuildCouldModifyTarget: return <boolean combination of the two known atoms>
	cfd := findFunc(tr.core, "BuildTarget", "BuildCouldModifyTarget")
	if len(cfd.Body.List) != 1 {
		failShape("BuildCouldModifyTarget: body has %d statements", len(cfd.Body.List))
	}
	cret, ok := cfd.Body.List[0].(*ast.ReturnStmt)
	if !ok || len(cret.Results) != 1 {
		failShape("BuildCouldModifyTarget: body is not a single return")
	}
	recv := cfd.Recv.List[0].Names[0].Name
	could := tr.bexp(tr.cfset, cret.Results[0], "BuildCouldModifyTarget", func(e ast.Expr) string {
		switch norm(nodeStr(tr.cfset, e)) {
		case recv + ".PostBuildFunction != nil":
			return "MPostBuildFn"
		case "len(" + recv + ".OutputDirectories) > 0", "len(" + recv + ".OutputDirectories) != 0":
			return "MOutputDirs"
		}
		return ""
	})
	return "Wrapper " + bypass + " " + bypassRt + " " + fillRt + " " + could
}

// ---- guards of the AllSources loop

// if _, ok := v.Label(); COND(ok) { continue }  ->  bexp ivar
func (tr *rhTrans) skipGuard(st ast.Stmt, v string) (string, bool) {
	is, ok := st.(*ast.IfStmt)
	if !ok || is.Init == nil || is.Else != nil || len(is.Body.List) != 1 {
		return "", false
	}
	br, ok := is.Body.List[0].(*ast.BranchStmt)
	if !ok || br.Tok != token.CONTINUE || br.Label != nil {
		return "", false
	}
	as, ok := is.Init.(*ast.AssignStmt)
	if !ok || as.Tok != token.DEFINE || len(as.Lhs) != 2 || len(as.Rhs) != 1 || !isIdent(as.Lhs[0], "_") {
		return "", false
	}
	okVar, isID := as.Lhs[1].(*ast.Ident)
	if !isID || strings.Join(strings.Fields(tr.str(as.Rhs[0])), "") != v+".Label()" {
		failShape("guard in the loop over AllSources(): %s is not `_, ok := %s.Label()`", tr.str(as), v)
	}
	return tr.bexp(tr.fset, is.Cond, "guard in the loop over AllSources()", func(e ast.Expr) string {
		if isIdent(e, okVar.Name) {
			return "IVIsLabel"
		}
		return ""
	}), true
}

// ---- readRuleHashFromXattrs: the loop over the outputs is translated; the rest of the function and the statements of
// needsBuilding / writeRuleHash / targetHash / Outputs / FullOutputs that the store model (Model/C08_Store.v) is read off are pinned

func normStmt(x string) string { return strings.Join(strings.Fields(x), " ") }

// requireStmts: every wanted statement occurs in the body, in this order (other statements may lie between them)
func requireStmts(what string, got, want []string) {
	i := 0
	for _, g := range got {
		if i < len(want) && normStmt(g) == normStmt(want[i]) {
			i++
		}
	}
	if i < len(want) {
		failShape("%s: statement not found (in order): %s", what, want[i])
	}
}

type readerTrans struct {
	tr     *rhTrans
	h, b   string
	output string
}

func (rt *readerTrans) rvar(e ast.Expr) string {
	id, ok := e.(*ast.Ident)
	if ok && id.Name == rt.h {
		return "RVh"
	}
	if ok && rt.b != "" && id.Name == rt.b {
		return "RVb"
	}
	failShape("readRuleHashFromXattrs: %s is neither the accumulated record nor the record just read", rt.tr.str(e))
	return ""
}

func (rt *readerTrans) rexp(e ast.Expr) string {
	if normStmt(rt.tr.str(e)) == "fs.ReadAttr("+rt.output+", xattrName, state.XattrsSupported)" {
		return "RRead"
	}
	return "(RVar " + rt.rvar(e) + ")"
}

func (rt *readerTrans) cond(e ast.Expr) string {
	switch x := e.(type) {
	case *ast.ParenExpr:
		return rt.cond(x.X)
	case *ast.UnaryExpr:
		if x.Op == token.NOT {
			return "(BNot " + rt.cond(x.X) + ")"
		}
	case *ast.BinaryExpr:
		switch x.Op {
		case token.LOR:
			return "(BOr " + rt.cond(x.X) + " " + rt.cond(x.Y) + ")"
		case token.LAND:
			return "(BAnd " + rt.cond(x.X) + " " + rt.cond(x.Y) + ")"
		case token.EQL:
			if isIdent(x.Y, "nil") {
				return "(BVar (RNil " + rt.rvar(x.X) + "))"
			}
		case token.NEQ:
			if isIdent(x.Y, "nil") {
				return "(BNot (BVar (RNil " + rt.rvar(x.X) + ")))"
			}
		}
	case *ast.CallExpr:
		if normStmt(rt.tr.str(x.Fun)) == "bytes.Equal" && len(x.Args) == 2 {
			if rt.rvar(x.Args[0]) != rt.rvar(x.Args[1]) {
				return "(BVar REqual)"
			}
		}
	}
	failShape("readRuleHashFromXattrs: condition %s not recognised", rt.tr.str(e))
	return ""
}

func (rt *readerTrans) assign(as *ast.AssignStmt) string {
	if len(as.Lhs) != 1 || len(as.Rhs) != 1 {
		failShape("readRuleHashFromXattrs: assignment %s not recognised", rt.tr.str(as))
	}
	id, ok := as.Lhs[0].(*ast.Ident)
	if !ok {
		failShape("readRuleHashFromXattrs: assignment %s not recognised", rt.tr.str(as))
	}
	rhs := rt.rexp(as.Rhs[0]) // before a := declaration takes effect
	switch as.Tok {
	case token.DEFINE:
		if (rt.b != "" && rt.b != id.Name) || id.Name == rt.h {
			failShape("readRuleHashFromXattrs: a second variable %s is declared in the loop", id.Name)
		}
		rt.b = id.Name
	case token.ASSIGN:
	default:
		failShape("readRuleHashFromXattrs: assignment %s not recognised", rt.tr.str(as))
	}
	return "(RAssign " + rt.rvar(id) + " " + rhs + ")"
}

// statements are translated first to last (the declaration of b must be seen before its uses)
func (rt *readerTrans) stmt(st ast.Stmt) string {
	switch x := st.(type) {
	case *ast.AssignStmt:
		return rt.assign(x)
	case *ast.ReturnStmt:
		if len(x.Results) == 1 && normStmt(rt.tr.str(x.Results[0])) == "ruleHashes{}" {
			return "RReturnEmpty"
		}
	case *ast.BlockStmt:
		return rt.seq(x.List)
	case *ast.IfStmt:
		init := ""
		if x.Init != nil {
			as, ok := x.Init.(*ast.AssignStmt)
			if !ok {
				failShape("readRuleHashFromXattrs: if-initialiser %s not recognised", rt.tr.str(x.Init))
			}
			init = rt.assign(as)
		}
		c := rt.cond(x.Cond)
		th := rt.seq(x.Body.List)
		el := "RSkip"
		if x.Else != nil {
			el = rt.stmt(x.Else)
		}
		out := "(RIf " + c + " " + th + " " + el + ")"
		if init != "" {
			out = "(RSeq " + init + " " + out + ")"
		}
		return out
	}
	failShape("readRuleHashFromXattrs: statement in the loop over the outputs not recognised: %s", rt.tr.str(st))
	return ""
}

func (rt *readerTrans) seq(list []ast.Stmt) string {
	parts := make([]string, len(list))
	for i, st := range list {
		parts[i] = rt.stmt(st)
	}
	if len(parts) == 0 {
		return "RSkip"
	}
	out := parts[len(parts)-1]
	for i := len(parts) - 2; i >= 0; i-- {
		out = "(RSeq " + parts[i] + " " + out + ")"
	}
	return out
}

func (tr *rhTrans) storedReader() string {
	fd := findFunc(tr.file, "", "readRuleHashFromXattrs")
	body := fd.Body.List
	if len(body) < 3 {
		failShape("readRuleHashFromXattrs: body too short")
	}
	// var h []byte
	ds, ok := body[0].(*ast.DeclStmt)
	if !ok {
		failShape("readRuleHashFromXattrs: first statement is not `var h []byte`")
	}
	gd, ok := ds.Decl.(*ast.GenDecl)
	if !ok || gd.Tok != token.VAR || len(gd.Specs) != 1 {
		failShape("readRuleHashFromXattrs: first statement is not `var h []byte`")
	}
	vs := gd.Specs[0].(*ast.ValueSpec)
	if len(vs.Names) != 1 || len(vs.Values) != 0 || vs.Type == nil || tr.str(vs.Type) != "[]byte" {
		failShape("readRuleHashFromXattrs: first statement is not `var h []byte`")
	}
	rt := &readerTrans{tr: tr, h: vs.Names[0].Name}
	// for _, output := range target.FullOutputs() { ... }
	rs, ok := body[1].(*ast.RangeStmt)
	if !ok || rs.Tok != token.DEFINE || !isIdent(rs.Key, "_") || rs.Value == nil || normStmt(tr.str(rs.X)) != "target.FullOutputs()" {
		failShape("readRuleHashFromXattrs: second statement is not `for _, output := range target.FullOutputs()`")
	}
	rt.output = rs.Value.(*ast.Ident).Name
	reader := rt.seq(rs.Body.List)
	// the rest of the function: pinned (the fallback for targets without outputs and the slicing of the record)
	rest := []string{}
	for _, st := range body[2:] {
		rest = append(rest, tr.str(st))
	}
	h := rt.h
	matchBody("readRuleHashFromXattrs (after the loop)", rest, []string{
		"if " + h + " == nil { if target.BuildCouldModifyTarget() && !postBuild { " + h + " = fs.ReadAttr(targetBuildMetadataFileName(target), xattrName, state.XattrsSupported) if " + h + " == nil { return ruleHashes{} } } else { " + h + " = fs.ReadAttrFile(filepath.Join(target.OutDir(), target.Label.Name)) if " + h + " == nil { return ruleHashes{} } } }",
		"if postBuild { return ruleHashes{ rule: " + h + "[hashLength : 2*hashLength], config: " + h + "[2*hashLength : 3*hashLength], source: " + h + "[3*hashLength : 4*hashLength], secret: " + h + "[4*hashLength : fullHashLength], postBuildHash: true, } }",
		"return ruleHashes{ rule: " + h + "[0:hashLength], config: " + h + "[2*hashLength : 3*hashLength], source: " + h + "[3*hashLength : 4*hashLength], secret: " + h + "[4*hashLength : fullHashLength], }"}, -1)
	// needsBuilding: the stored rule hash is compared with the current one, a difference means rebuild
	requireStmts("needsBuilding", bodyStrings(tr.fset, findFunc(tr.file, "", "needsBuilding")), []string{
		"oldHashes := readRuleHashFromXattrs(state, target, postBuild)",
		"newRuleHash := RuleHash(state, target, false, postBuild)",
		"if !bytes.Equal(oldHashes.rule, newRuleHash) { log.Debug(\"Need to rebuild %s, rule has changed (was %s, need %s)\", target.Label, b64(oldHashes.rule), b64(newRuleHash)) return true }"})
	// writeRuleHash stamps every output with one record that starts with the two rule hashes
	requireStmts("writeRuleHash", bodyStrings(tr.fset, findFunc(tr.file, "", "writeRuleHash")), []string{
		"hash, err := targetHash(state, target)",
		"outputs := target.FullOutputs()",
		"for _, output := range outputs { if err := fs.RecordAttr(output, hash, xattrName, state.XattrsSupported); err != nil { return err } }"})
	requireStmts("targetHash", bodyStrings(tr.fset, findFunc(tr.file, "", "targetHash")), []string{
		"hash := append(RuleHash(state, target, false, false), RuleHash(state, target, false, true)...)"})
	// the outputs the loop ranges over (hand-modelled: Model/C08_Store.v outputs_of)
	matchBody("BuildTarget.FullOutputs", tr.coreBody("BuildTarget", "FullOutputs"), []string{
		"outs := target.Outputs()", "outDir := target.OutDir()",
		"for i, out := range outs { outs[i] = filepath.Join(outDir, out) }", "return outs"}, -1)
	matchBody("BuildTarget.Outputs", tr.coreBody("BuildTarget", "Outputs"), []string{
		"var ret []string",
		"if target.IsFilegroup { ret = target.filegroupOutputs(target.AllSources()) } else { ret = make([]string, len(target.outputs)) copy(ret, target.outputs) }",
		"if target.namedOutputs != nil { for _, outputs := range target.namedOutputs { ret = append(ret, outputs...) } }",
		"sort.Strings(ret)", "return ret"}, -1)
	return reader
}
