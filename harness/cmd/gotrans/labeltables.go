package main

import (
	"go/ast"
	"go/token"
	"go/types"
	"strings"
)

// LabelTables (property C20): build-label syntax tables and the three package-selection conditions.
//
//   - the forbidden-character sets of validatePackageName / validateTargetName, the reserved suffixes,
//     the OriginalTarget sentinel and its printed form, the pseudo-target names: literals, regenerated;
//   - the boolean expressions that decide selection - the `...` branch of BuildLabel.Matches, the outer
//     test of BuildLabel.Includes and the experimental-directory test of validateSandbox - are TRANSLATED
//     expression by expression into Gallina (==, !=, ||, &&, !, +, strings.HasPrefix, string literals and a
//     closed set of operands), so the proofs in Proof/C20.v are about the conditions the source has today;
//   - every other function the hand-written model (Model/C20.v) follows is pinned to the statement shape it
//     was written from (bodyText/matchShape of labelfilter.go).  Anything else fails closed.
func init() {
	targets["LabelTables"] = func() string {
		fsL, fl := parseFile("src/core/build_label.go")
		_, fbt := parseFile("src/core/build_target.go")
		fsS, fst := parseFile("src/core/state.go")
		fsA, fa := parseFile("src/parse/asp/targets.go")

		// --- validators ----------------------------------------------------------------------------
		m := matchShape("validatePackageName", bodyText(fsL, findFunc(fl, "", "validatePackageName")), `{
			return name == "" || (name[0] != '/' && name[len(name)-1] != '/' && !strings.ContainsAny(name, §S) && !strings.Contains(name, "//")) }`)
		pkgBad := m[0]
		m = matchShape("validateTargetName", bodyText(fsL, findFunc(fl, "", "validateTargetName")), `{
			return name != "" && !strings.ContainsAny(name, §S) && (name[0] != '.' || name == §S) && !strings.HasSuffix(name, buildDirSuffix) && !strings.HasSuffix(name, testDirSuffix) }`)
		nameBad, allSub := m[0], m[1]
		for _, set := range []string{pkgBad, nameBad} {
			for i := 0; i < len(set); i++ {
				if set[i] >= 0x80 {
					failShape("forbidden-character set %q is not ASCII: strings.ContainsAny would work on runes, the model on bytes", set)
				}
			}
		}
		buildSuffix := c20StringConst(fbt, "buildDirSuffix")
		testSuffix := c20StringConst(fbt, "testDirSuffix")

		// --- the sentinel and String() ----------------------------------------------------------------
		origName := ""
		for _, d := range fl.Decls {
			gd, ok := d.(*ast.GenDecl)
			if !ok || gd.Tok != token.VAR {
				continue
			}
			for _, sp := range gd.Specs {
				vs := sp.(*ast.ValueSpec)
				if len(vs.Names) == 1 && vs.Names[0].Name == "OriginalTarget" && len(vs.Values) == 1 {
					cl, ok := vs.Values[0].(*ast.CompositeLit)
					if !ok || types.ExprString(cl.Type) != "BuildLabel" || len(cl.Elts) != 2 {
						failShape("var OriginalTarget is not BuildLabel{PackageName: \"\", Name: lit}")
					}
					kv0, ok0 := cl.Elts[0].(*ast.KeyValueExpr)
					kv1, ok1 := cl.Elts[1].(*ast.KeyValueExpr)
					if !ok0 || !ok1 || types.ExprString(kv0.Key) != "PackageName" || types.ExprString(kv0.Value) != `""` || types.ExprString(kv1.Key) != "Name" {
						failShape("var OriginalTarget is not BuildLabel{PackageName: \"\", Name: lit}")
					}
					bl, ok := kv1.Value.(*ast.BasicLit)
					if !ok || bl.Kind != token.STRING {
						failShape("var OriginalTarget: Name is not a string literal")
					}
					origName = unquote(bl)
				}
			}
		}
		if origName == "" {
			failShape("var OriginalTarget not found")
		}
		// String(): the statements are pinned one by one; the ORDER of the subrepo prefix and the `...` returns is translated
		// (Gen.print_subrepo_prefix_first), so the model prints what the source prints (seeded r2-m3)
		strFn := findFunc(fl, "BuildLabel", "String")
		if len(strFn.Body.List) != 6 {
			failShape("BuildLabel.String: expected 6 statements, found %d", len(strFn.Body.List))
		}
		if got := c20NodeText(fsL, strFn.Body.List[0]); got != "zero := BuildLabel{}" {
			failShape("BuildLabel.String: first statement is %s", got)
		}
		m = matchShape("BuildLabel.String (special labels)", c20NodeText(fsL, strFn.Body.List[1]),
			`if label == zero { return "" } else if label.IsOriginalTarget() { return §S }`)
		origString := m[0]
		if got := c20NodeText(fsL, strFn.Body.List[2]); got != `s := "//" + label.PackageName` {
			failShape("BuildLabel.String: third statement is %s", got)
		}
		const strSub = `if label.Subrepo != "" { s = "///" + label.Subrepo + s }`
		const strDots = `if label.IsAllSubpackages() { if label.PackageName == "" { return s + "..." } return s + "/..." }`
		printSubFirst := ""
		switch a, b := c20NodeText(fsL, strFn.Body.List[3]), c20NodeText(fsL, strFn.Body.List[4]); {
		case a == strSub && b == strDots:
			printSubFirst = "true"
		case a == strDots && b == strSub:
			printSubFirst = "false"
		default:
			failShape("BuildLabel.String: statements 4 and 5 are not the subrepo prefix and the `...` returns (in either order):\n  %s\n  %s", a, b)
		}
		if got := c20NodeText(fsL, strFn.Body.List[5]); got != `return s + ":" + label.Name` {
			failShape("BuildLabel.String: last statement is %s", got)
		}
		matchShape("BuildLabel.IsOriginalTarget", bodyText(fsL, findFunc(fl, "BuildLabel", "IsOriginalTarget")), `{ return label == OriginalTarget }`)
		m = matchShape("BuildLabel.IsAllSubpackages", bodyText(fsL, findFunc(fl, "BuildLabel", "IsAllSubpackages")), `{ return label.Name == §S }`)
		same("the all-subpackages name", allSub, m[0], "...")
		m = matchShape("BuildLabel.IsAllTargets", bodyText(fsL, findFunc(fl, "BuildLabel", "IsAllTargets")), `{ return label.Name == §S }`)
		allTargets := m[0]

		// --- the parser, pinned -----------------------------------------------------------------------
		matchShape("TryParseBuildLabel", bodyText(fsL, findFunc(fl, "", "TryParseBuildLabel")), `{
			if pkg, name, subrepo := ParseBuildLabelParts(target, currentPath, subrepo); name != "" {
				return BuildLabel{PackageName: pkg, Name: name, Subrepo: subrepo}, nil }
			return BuildLabel{}, fmt.Errorf("Invalid build label: %s", target) }`)
		matchShape("ParseBuildLabelParts", bodyText(fsL, findFunc(fl, "", "ParseBuildLabelParts")), `{
			if len(target) < 2 { return "", "", "" } else if target[0] == ':' {
				if !validateTargetName(target[1:]) { return "", "", "" }
				return currentPath, target[1:], "" } else if target[0] == '@' {
				return parseBuildLabelSubrepo(target[1:], currentPath) } else if strings.HasPrefix(target, "///") {
				return parseBuildLabelSubrepo(target[3:], currentPath) } else if target[0] != '/' || target[1] != '/' {
				return "", "", "" } else if idx := strings.IndexRune(target, ':'); idx != -1 {
				pkg := target[2:idx]
				name := target[idx+1:]
				if !validatePackageName(pkg) || !validateTargetName(name) || name == "..." { return "", "", "" }
				return pkg, name, subrepo } else if !validatePackageName(target[2:]) { return "", "", "" }
			if strings.HasSuffix(target, "/...") {
				return strings.TrimRight(target[2:len(target)-3], "/"), "...", "" } else if idx := strings.LastIndexByte(target, '/'); idx != -1 {
				return target[2:], target[idx+1:], subrepo }
			return target[2:], target[2:], subrepo }`)
		matchShape("parseBuildLabelSubrepo", bodyText(fsL, findFunc(fl, "", "parseBuildLabelSubrepo")), `{
			idx := strings.Index(target, "//")
			if idx == -1 {
				if idx = strings.IndexByte(target, ':'); idx == -1 {
					if idx := strings.LastIndexByte(target, '/'); idx != -1 { return "", target[idx+1:], target }
					return "", target, target } }
			if strings.ContainsRune(target[:idx], ':') { return "", "", "" }
			pkg, name, _ := ParseBuildLabelParts(target[idx:], currentPath, "")
			return pkg, name, target[:idx] }`)
		matchShape("BuildLabel.Parent", bodyText(fsL, findFunc(fl, "BuildLabel", "Parent")), `{
			index := strings.IndexRune(label.Name, '#')
			if index == -1 || !strings.HasPrefix(label.Name, "_") { return label }
			label.Name = strings.TrimLeft(label.Name[:index], "_")
			return label }`)

		// --- Matches: translate the `...` condition, pin the rest ----------------------------------------
		mt := findFunc(fl, "BuildLabel", "Matches")
		if len(mt.Type.Params.List) != 1 || len(mt.Type.Params.List[0].Names) != 1 || mt.Type.Params.List[0].Names[0].Name != "other" ||
			mt.Recv.List[0].Names[0].Name != "label" {
			failShape("Matches: receiver/parameter are not (label BuildLabel) Matches(other BuildLabel)")
		}
		if len(mt.Body.List) != 3 {
			failShape("Matches: expected 3 statements, found %d", len(mt.Body.List))
		}
		matchesCond := c20TranslateCond("Matches", c20IfReturning(mt.Body.List[0], "Matches", `label.Name == "..."`),
			map[string]string{"label.PackageName": "lp", "other.PackageName": "op"})
		if got := types.ExprString(c20IfReturning(mt.Body.List[1], "Matches", `label.Name == "all"`)); got != "label.PackageName == other.PackageName" {
			failShape("Matches: the :all branch returns %s", got)
		}
		if r, ok := mt.Body.List[2].(*ast.ReturnStmt); !ok || len(r.Results) != 1 || types.ExprString(r.Results[0]) != "label == other.Parent()" {
			failShape("Matches: last statement is not `return label == other.Parent()`")
		}

		// --- Includes: translate the outer condition, pin the body -----------------------------------------
		inc := findFunc(fl, "BuildLabel", "Includes")
		if len(inc.Body.List) != 2 || inc.Type.Params.List[0].Names[0].Name != "that" || inc.Recv.List[0].Names[0].Name != "label" {
			failShape("Includes: expected (label BuildLabel) Includes(that BuildLabel) with 2 statements")
		}
		outer, ok := inc.Body.List[0].(*ast.IfStmt)
		if !ok || outer.Init != nil || outer.Else != nil {
			failShape("Includes: first statement is not a plain if")
		}
		includesCond := c20TranslateCond("Includes", outer.Cond,
			map[string]string{"label.PackageName": "lp", "that.PackageName": "tp", "label.IsAllSubpackages()": "lall"})
		matchShape("Includes (inner)", c20NodeText(fsL, outer.Body), `{
			if label.IsAllSubpackages() { return true } else if label.PackageName == that.PackageName {
				if label.Name == that.Name || label.IsAllTargets() { return true } } }`)
		if r, ok := inc.Body.List[1].(*ast.ReturnStmt); !ok || len(r.Results) != 1 || types.ExprString(r.Results[0]) != "false" {
			failShape("Includes: last statement is not `return false`")
		}

		// --- isExperimental, CanSee, experimentalLabels ----------------------------------------------------
		// isExperimental: the subrepo guard is translated (present or not: Gen.is_experimental_subrepo_guard), the loop pinned
		// (seeded r2-m2)
		ie := findFunc(fl, "BuildLabel", "isExperimental")
		expGuard := "false"
		ieRest := ie.Body.List
		if len(ieRest) == 3 {
			if got := c20NodeText(fsL, ieRest[0]); got != `if label.Subrepo != "" { return false }` {
				failShape("isExperimental: first of 3 statements is %s", got)
			}
			expGuard, ieRest = "true", ieRest[1:]
		}
		if len(ieRest) != 2 {
			failShape("isExperimental: expected [subrepo guard,] loop, return; found %d statements", len(ie.Body.List))
		}
		if got := c20NodeText(fsL, ieRest[0]) + " " + c20NodeText(fsL, ieRest[1]); got != `for _, exp := range state.experimentalLabels { if exp.Includes(label) { return true } } return false` {
			failShape("isExperimental: loop and return are %s", got)
		}
		matchShape("BuildLabel.CanSee", bodyText(fsL, findFunc(fl, "BuildLabel", "CanSee")), `{
			if label.PackageName == dep.Label.PackageName { return true } else if dep.Label.isExperimental(state) && !label.isExperimental(state) {
				log.Error("Target %s cannot depend on experimental target %s", label, dep.Label)
				return false }
			parent := label.Parent()
			for _, vis := range dep.Visibility { if vis.Includes(parent) { return true } }
			if dep.Label.PackageName == parent.PackageName { return true }
			if label.isExperimental(state) {
				log.Info("Visibility restrictions suppressed for %s since %s is in the experimental tree", dep.Label, label)
				return true }
			return false }`)
		nExp := 0
		ast.Inspect(fst, func(n ast.Node) bool {
			if as, ok := n.(*ast.AssignStmt); ok && len(as.Lhs) == 1 && types.ExprString(as.Lhs[0]) == "state.experimentalLabels" {
				nExp++
				if got := c20NodeText(fsS, as); got != `state.experimentalLabels = append(state.experimentalLabels, BuildLabel{PackageName: exp, Name: "..."})` {
					failShape("state.go: unexpected assignment %s", got)
				}
			}
			return true
		})
		if nExp != 1 {
			failShape("state.go assigns experimentalLabels %d times, expected once (in NewBuildState)", nExp)
		}
		matchShape("BuildState.ShouldInclude", bodyText(fsS, findFunc(fst, "BuildState", "ShouldInclude")), `{
			for _, e := range state.ExcludeTargets { if e.Includes(target.Label) { return false } }
			return target.ShouldInclude(state.Include, state.Exclude) }`)

		// --- SetIncludeAndExclude: translate how state.Exclude is initialised, pin the loop -----------------------
		// (follow-up, seeded r2-m1)  The model (Model/C20.v sie_with) gives the caller's exclude slice a backing array
		// and state.Exclude either a fresh array or a view of the caller's; which one is decided by the
		// right-hand side of `state.Exclude = ...`, translated here into Gen.sie_exclude_init.
		sie := findFunc(fst, "BuildState", "SetIncludeAndExclude")
		if sie.Recv.List[0].Names[0].Name != "state" || len(sie.Type.Params.List) != 1 || len(sie.Type.Params.List[0].Names) != 2 ||
			sie.Type.Params.List[0].Names[0].Name != "include" || sie.Type.Params.List[0].Names[1].Name != "exclude" ||
			types.ExprString(sie.Type.Params.List[0].Type) != "[]string" {
			failShape("SetIncludeAndExclude: expected (state *BuildState) SetIncludeAndExclude(include, exclude []string)")
		}
		if len(sie.Body.List) != 3 {
			failShape("SetIncludeAndExclude: expected 3 statements, found %d", len(sie.Body.List))
		}
		if got := c20NodeText(fsS, sie.Body.List[0]); got != "state.Include = include" {
			failShape("SetIncludeAndExclude: first statement is %s", got)
		}
		sieInit := c20TranslateSliceInit("SetIncludeAndExclude", sie.Body.List[1], "state.Exclude", "exclude")
		matchShape("SetIncludeAndExclude (loop)", c20NodeText(fsS, sie.Body.List[2]), `
for _, e := range exclude {
if LooksLikeABuildLabel(e) {
if label, err := parseMaybeRelativeBuildLabel(e, ""); err != nil { log.Fatalf("%s", err) } else {
state.ExcludeTargets = append(state.ExcludeTargets, label) } } else {
state.Exclude = append(state.Exclude, e) } }`)
		lll := findFunc(fl, "", "LooksLikeABuildLabel")
		if len(lll.Type.Params.List) != 1 || len(lll.Type.Params.List[0].Names) != 1 || lll.Type.Params.List[0].Names[0].Name != "str" || len(lll.Body.List) != 1 {
			failShape("LooksLikeABuildLabel: expected LooksLikeABuildLabel(str string) with a single return")
		}
		lllRet, ok := lll.Body.List[0].(*ast.ReturnStmt)
		if !ok || len(lllRet.Results) != 1 {
			failShape("LooksLikeABuildLabel: body is not a single-value return")
		}
		looksCond := c20TranslateCond("LooksLikeABuildLabel", lllRet.Results[0], map[string]string{"str": "x"})
		matchShape("parseMaybeRelativeBuildLabel", bodyText(fsL, findFunc(fl, "", "parseMaybeRelativeBuildLabel")), `{
startsWithColon := strings.HasPrefix(target, ":")
if !startsWithColon {
if !strings.HasPrefix(target, "//") && strings.HasPrefix(target, "/") { target = "/" + target }
if label, err := TryParseBuildLabel(target, "", ""); err == nil || strings.HasPrefix(target, "//") { return label, err } }
if subdir == "" {
MustFindRepoRoot()
subdir = InitialPackagePath }
if startsWithColon { return TryParseBuildLabel(target, subdir, "") }
return TryParseBuildLabel("//"+filepath.Join(subdir, target), "", "") }`)
		// the callers the session model (Model/C20.v op) is written from: src/please.go keeps ONE option slice for the whole
		// process, appends plain excludes to it before every build, and hands it to a fresh state each time
		fsP, fp := parseFile("src/please.go")
		nAppend, nSet := 0, 0
		ast.Inspect(fp, func(n ast.Node) bool {
			switch x := n.(type) {
			case *ast.AssignStmt:
				if len(x.Lhs) == 1 && types.ExprString(x.Lhs[0]) == "opts.BuildFlags.Exclude" {
					nAppend++
					if got := c20NodeText(fsP, x); got != `opts.BuildFlags.Exclude = append(opts.BuildFlags.Exclude, "manual", "manual:"+core.OsArch)` {
						failShape("please.go: unexpected assignment %s", got)
					}
				}
			case *ast.CallExpr:
				if sel, ok := x.Fun.(*ast.SelectorExpr); ok && sel.Sel.Name == "SetIncludeAndExclude" {
					nSet++
					if got := types.ExprString(x); got != "state.SetIncludeAndExclude(opts.BuildFlags.Include, opts.BuildFlags.Exclude)" {
						failShape("please.go: unexpected call %s", got)
					}
				}
			}
			return true
		})
		if nAppend != 2 || nSet != 1 {
			failShape("please.go: expected 2 appends to opts.BuildFlags.Exclude (query changes, runBuild) and 1 SetIncludeAndExclude call, found %d and %d", nAppend, nSet)
		}

		// --- validateSandbox: pin the frame, translate the experimental-dir condition ---------------------
		vs := findFunc(fa, "", "validateSandbox")
		if len(vs.Body.List) != 6 {
			failShape("validateSandbox: expected 6 statements, found %d", len(vs.Body.List))
		}
		matchShape("validateSandbox (head)", c20NodeText(fsA, vs.Body.List[0])+" "+c20NodeText(fsA, vs.Body.List[1])+" "+c20NodeText(fsA, vs.Body.List[2])+" "+c20NodeText(fsA, vs.Body.List[3]), `
			if target.IsFilegroup || len(state.Config.Sandbox.ExcludeableTargets) == 0 { return nil }
			if !target.IsRemoteFile { if target.Sandbox && (target.Test == nil || target.Test.Sandbox) { return nil } }
			if target.Label.PackageName == "_please" { return nil }
			for _, whitelist := range state.Config.Sandbox.ExcludeableTargets { if whitelist.Matches(target.Label) { return nil } }`)
		rs, ok := vs.Body.List[4].(*ast.RangeStmt)
		if !ok || types.ExprString(rs.X) != "state.Config.Parse.ExperimentalDir" || rs.Key == nil || types.ExprString(rs.Key) != "_" ||
			rs.Value == nil || types.ExprString(rs.Value) != "dir" || len(rs.Body.List) != 1 {
			failShape("validateSandbox: fifth statement is not `for _, dir := range state.Config.Parse.ExperimentalDir { if ... }`")
		}
		expCond := c20TranslateCond("validateSandbox", c20IfReturning(rs.Body.List[0], "validateSandbox", ""),
			map[string]string{"target.Label.PackageName": "pkg", "dir": "dir"})
		if r, ok := vs.Body.List[5].(*ast.ReturnStmt); !ok || len(r.Results) != 1 || !strings.HasPrefix(types.ExprString(r.Results[0]), "fmt.Errorf(") {
			failShape("validateSandbox: last statement does not return an error")
		}

		return "From Coq Require Import List String NArith Bool.\nFrom PlzV Require Import Base.Harness.\nImport ListNotations.\n" +
			"(* property C20: label syntax tables and the selection conditions translated from\n" +
			"   src/core/build_label.go (Matches, Includes) and src/parse/asp/targets.go (validateSandbox);\n" +
			"   see harness/cmd/gotrans/labeltables.go *)\n" +
			"Definition pkg_forbidden : string := " + coqString(pkgBad) + ".\n" +
			"Definition name_forbidden : string := " + coqString(nameBad) + ".\n" +
			"Definition build_dir_suffix : string := " + coqString(buildSuffix) + ".\n" +
			"Definition test_dir_suffix : string := " + coqString(testSuffix) + ".\n" +
			"Definition all_subpackages_name : string := " + coqString(allSub) + ".\n" +
			"Definition all_targets_name : string := " + coqString(allTargets) + ".\n" +
			"Definition original_target_name : string := " + coqString(origName) + ".\n" +
			"Definition original_target_string : string := " + coqString(origString) + ".\n" +
			"(* strings.HasPrefix(x, pre) *)\n" +
			"Fixpoint has_prefix (pre x : str) : bool :=\n  match pre, x with\n  | [], _ => true\n  | a :: pre', b :: x' => N.eqb a b && has_prefix pre' x'\n  | _ :: _, [] => false\n  end.\n" +
			"(* Matches, `if label.Name == \"...\" { return <this> }`; lp = label.PackageName, op = other.PackageName *)\n" +
			"Definition matches_allsub_cond (lp op : str) : bool :=\n  " + matchesCond + ".\n" +
			"(* Includes, the outer `if <this> {`; tp = that.PackageName, lall = label.IsAllSubpackages() *)\n" +
			"Definition includes_guard_cond (lp tp : str) (lall : bool) : bool :=\n  " + includesCond + ".\n" +
			"(* validateSandbox, `for _, dir := range ExperimentalDir { if <this> { return nil } }`; pkg = target.Label.PackageName *)\n" +
			"Definition sandbox_expdir_cond (pkg dir : str) : bool :=\n  " + expCond + ".\n" +
			"(* strings.ContainsRune(x, c) for an ASCII c; strings.Contains(x, sub) *)\n" +
			"Definition contains_byte (c : N) (x : str) : bool := existsb (N.eqb c) x.\n" +
			"Fixpoint contains_sub (sub x : str) : bool :=\n  has_prefix sub x || match x with [] => false | _ :: r => contains_sub sub r end.\n" +
			"(* LooksLikeABuildLabel(str): `return <this>`; x = str *)\n" +
			"Definition looks_like_label_cond (x : str) : bool :=\n  " + looksCond + ".\n" +
			"(* isExperimental: does it start with `if label.Subrepo != \"\" { return false }`? *)\n" +
			"Definition is_experimental_subrepo_guard : bool := " + expGuard + ".\n" +
			"(* String(): does `if label.Subrepo != \"\" { s = \"///\" + label.Subrepo + s }` stand before the `...` returns? *)\n" +
			"Definition print_subrepo_prefix_first : bool := " + printSubFirst + ".\n" +
			"(* SetIncludeAndExclude, `state.Exclude = <this>`: nil, or the empty prefix exclude[:0] of the caller's slice\n" +
			"   (appends then write into the caller's backing array) *)\n" +
			"Inductive slice_init := InitNil | InitArgEmptyPrefix.\n" +
			"Definition sie_exclude_init : slice_init := " + sieInit + ".\n"
	}
}

func c20StringConst(f *ast.File, name string) string {
	for _, d := range f.Decls {
		gd, ok := d.(*ast.GenDecl)
		if !ok || gd.Tok != token.CONST {
			continue
		}
		for _, sp := range gd.Specs {
			vs := sp.(*ast.ValueSpec)
			for i, n := range vs.Names {
				if n.Name == name && i < len(vs.Values) {
					bl, ok := vs.Values[i].(*ast.BasicLit)
					if !ok || bl.Kind != token.STRING {
						failShape("const %s is not a string literal", name)
					}
					return unquote(bl)
				}
			}
		}
	}
	failShape("const %s not found", name)
	return ""
}

func c20NodeText(fset *token.FileSet, n ast.Node) string {
	t := bodyText(fset, &ast.FuncDecl{Name: ast.NewIdent("node"), Body: &ast.BlockStmt{List: []ast.Stmt{c20AsStmt(n)}}})
	return strings.TrimSpace(strings.TrimSuffix(strings.TrimPrefix(t, "{"), "}"))
}

func c20AsStmt(n ast.Node) ast.Stmt {
	if s, ok := n.(ast.Stmt); ok {
		return s
	}
	failShape("internal: node is not a statement")
	return nil
}

// c20IfReturning checks that st is `if <cond> { return <expr> }` (no init, no else) whose condition prints as
// cond (when cond is non-empty: then the RETURNED expression is the result; when cond is empty the body must
// be `return nil` and the CONDITION is the result).
func c20IfReturning(st ast.Stmt, what, cond string) ast.Expr {
	is, ok := st.(*ast.IfStmt)
	if !ok || is.Init != nil || is.Else != nil || len(is.Body.List) != 1 {
		failShape("%s: expected a plain `if c { return e }`", what)
	}
	r, ok := is.Body.List[0].(*ast.ReturnStmt)
	if !ok || len(r.Results) != 1 {
		failShape("%s: the if body is not a single-value return", what)
	}
	if cond == "" {
		if types.ExprString(r.Results[0]) != "nil" {
			failShape("%s: the if body is not `return nil`", what)
		}
		return is.Cond
	}
	if got := types.ExprString(is.Cond); got != cond {
		failShape("%s: condition is %s, expected %s", what, got, cond)
	}
	return r.Results[0]
}

// c20TranslateCond turns a Go boolean expression over strings into a Gallina term of type bool.
// Operands are looked up (by their printed form) in vars; anything unknown fails closed.
func c20TranslateCond(what string, e ast.Expr, vars map[string]string) string {
	var str func(e ast.Expr) string
	str = func(e ast.Expr) string {
		if v, ok := vars[types.ExprString(e)]; ok {
			return v
		}
		switch x := e.(type) {
		case *ast.ParenExpr:
			return str(x.X)
		case *ast.BasicLit:
			if x.Kind == token.STRING {
				v := unquote(x)
				for i := 0; i < len(v); i++ {
					if v[i] < 0x20 || v[i] > 0x7e {
						failShape("%s: string literal %s is not printable ASCII", what, x.Value)
					}
				}
				return "(s " + coqString(v) + ")"
			}
		case *ast.BinaryExpr:
			if x.Op == token.ADD {
				return "(" + str(x.X) + " ++ " + str(x.Y) + ")"
			}
		}
		failShape("%s: cannot translate string expression %s", what, types.ExprString(e))
		return ""
	}
	var b func(e ast.Expr) string
	b = func(e ast.Expr) string {
		if v, ok := vars[types.ExprString(e)]; ok {
			return v
		}
		switch x := e.(type) {
		case *ast.ParenExpr:
			return b(x.X)
		case *ast.UnaryExpr:
			if x.Op == token.NOT {
				return "(negb " + b(x.X) + ")"
			}
		case *ast.BinaryExpr:
			switch x.Op {
			case token.LOR:
				return "(orb " + b(x.X) + " " + b(x.Y) + ")"
			case token.LAND:
				return "(andb " + b(x.X) + " " + b(x.Y) + ")"
			case token.EQL:
				return "(str_eqb " + str(x.X) + " " + str(x.Y) + ")"
			case token.NEQ:
				return "(negb (str_eqb " + str(x.X) + " " + str(x.Y) + "))"
			}
		case *ast.CallExpr:
			if types.ExprString(x.Fun) == "strings.HasPrefix" && len(x.Args) == 2 {
				return "(has_prefix " + str(x.Args[1]) + " " + str(x.Args[0]) + ")"
			}
			if types.ExprString(x.Fun) == "strings.Contains" && len(x.Args) == 2 {
				return "(contains_sub " + str(x.Args[1]) + " " + str(x.Args[0]) + ")"
			}
			if types.ExprString(x.Fun) == "strings.ContainsRune" && len(x.Args) == 2 {
				if bl, ok := x.Args[1].(*ast.BasicLit); ok && bl.Kind == token.CHAR {
					if v := unquote(bl); len(v) == 1 && v[0] >= 0x20 && v[0] <= 0x7e {
						return "(contains_byte " + itoa(int(v[0])) + " " + str(x.Args[0]) + ")"
					}
				}
				failShape("%s: strings.ContainsRune with a second argument that is not a printable ASCII character literal", what)
			}
		}
		failShape("%s: cannot translate boolean expression %s", what, types.ExprString(e))
		return ""
	}
	return b(e)
}

// c20TranslateSliceInit translates `<lhs> = <rhs>` where rhs decides which backing array the slice starts on:
// `nil` (a fresh array on the first append) or `<arg>[:0]` / `<arg>[0:0]` (the empty prefix of the caller's slice:
// appends write into the caller's array).  Everything else fails closed.
func c20TranslateSliceInit(what string, st ast.Stmt, lhs, arg string) string {
	as, ok := st.(*ast.AssignStmt)
	if !ok || as.Tok != token.ASSIGN || len(as.Lhs) != 1 || len(as.Rhs) != 1 || types.ExprString(as.Lhs[0]) != lhs {
		failShape("%s: expected the plain assignment `%s = ...`", what, lhs)
	}
	switch x := as.Rhs[0].(type) {
	case *ast.Ident:
		if x.Name == "nil" {
			return "InitNil"
		}
	case *ast.SliceExpr:
		zero := func(e ast.Expr) bool {
			bl, ok := e.(*ast.BasicLit)
			return ok && bl.Kind == token.INT && bl.Value == "0"
		}
		if id, ok := x.X.(*ast.Ident); ok && id.Name == arg && !x.Slice3 && (x.Low == nil || zero(x.Low)) && x.High != nil && zero(x.High) {
			return "InitArgEmptyPrefix"
		}
	}
	failShape("%s: `%s = %s` is neither nil nor the empty prefix %s[:0]; the slice model of Model/C20.v does not cover it", what, lhs, types.ExprString(as.Rhs[0]), arg)
	return ""
}
