package main

import (
	"bytes"
	"go/ast"
	"go/printer"
	"go/token"
	"strings"
)

// LockProtocol (C31): the order in which buildTarget (src/build/build_step.go) takes the per-target
// lock, asks needsBuilding, runs the command, replaces the outputs and writes the record; the flock
// mode and blocking behaviour of core.AcquireExclusiveFileLock (src/core/lock.go); which repo lock
// runPlease takes (src/please.go); what file the target lock is (core.BuildTarget.BuildLockFile).
// Model/C31.v's events (Begin = lock + needsBuilding, Move = moveOutputs, End = record + unlock) are
// checked against this order by Proof/C31.v (lock_protocol_ok).
func init() {
	targets["LockProtocol"] = func() string {
		fset, f := parseFile("src/build/build_step.go")
		fd := findFunc(f, "", "buildTarget")
		var local *ast.BlockStmt
		after := []ast.Stmt{}
		for i, st := range fd.Body.List {
			ifs, ok := st.(*ast.IfStmt)
			if !ok || ifs.Init != nil {
				continue
			}
			if id, ok := ifs.Cond.(*ast.Ident); ok && id.Name == "runRemotely" {
				blk, ok := ifs.Else.(*ast.BlockStmt)
				if !ok {
					failShape("buildTarget: `if runRemotely` has no plain else block")
				}
				local = blk
				after = fd.Body.List[i+1:]
				break
			}
		}
		if local == nil {
			failShape("buildTarget: `if runRemotely { ... } else { ... }` not found")
		}
		watch := map[string]bool{"AcquireExclusiveFileLock": true, "ReleaseFileLock": true, "needsBuilding": true,
			"prepareDirectories": true, "retrieveArtifacts": true, "prepareSources": true, "build": true,
			"StoreTargetMetadata": true, "moveOutputs": true, "calculateAndCheckRuleHash": true, "storeInCache": true}
		callName := func(c *ast.CallExpr) string {
			switch fn := c.Fun.(type) {
			case *ast.Ident:
				return fn.Name
			case *ast.SelectorExpr:
				return fn.Sel.Name
			}
			return ""
		}
		render := func(n ast.Node) string {
			var b bytes.Buffer
			if err := printer.Fprint(&b, fset, n); err != nil {
				failShape("cannot print expression: %v", err)
			}
			return strings.ReplaceAll(strings.Join(strings.Fields(b.String()), " "), ". ", ".")
		}
		var calls []string
		lockArg := ""
		skip := map[*ast.CallExpr]bool{}
		visit := func(root ast.Node) {
			ast.Inspect(root, func(n ast.Node) bool {
				switch x := n.(type) {
				case *ast.FuncLit:
					return false
				case *ast.DeferStmt:
					if nm := callName(x.Call); watch[nm] {
						calls = append(calls, "defer "+nm)
					}
					skip[x.Call] = true
				case *ast.CallExpr:
					if skip[x] {
						return true
					}
					if nm := callName(x); watch[nm] {
						calls = append(calls, nm)
						if nm == "AcquireExclusiveFileLock" {
							if len(x.Args) != 1 {
								failShape("AcquireExclusiveFileLock: expected one argument")
							}
							lockArg = render(x.Args[0])
						}
					}
				}
				return true
			})
		}
		visit(local)
		for _, st := range after {
			visit(st)
		}

		// The same branch once more, but per KIND of target: the watched calls that a filegroup / any other target
		// executes on its way through buildTarget, in source order.  `if target.IsFilegroup {...}` /
		// `if !target.IsFilegroup [&& ...] {...}` (and their else branches) select the kind, a top-level
		// `if target.IsFilegroup { ...; return }` ends the filegroup's path, `if runRemotely ...` bodies are not
		// on the local path, a deferred call (also inside a deferred func literal) is "defer <name>".
		// Model/C31_Protocol.v runs these lists as the per-process program of its lock-protocol transition
		// system; Proof/C31_Protocol.v proves mutual exclusion of the critical section from `guarded` of them.
		const (
			gBoth = iota
			gFg
			gNonFg
			gNone
		)
		pathWatch := map[string]bool{"buildFilegroup": true}
		for k := range watch {
			pathWatch[k] = true
		}
		var fgPath, nfPath []string
		fgDone, nfDone := false, false
		emit := func(name string, g int) {
			if (g == gBoth || g == gFg) && !fgDone {
				fgPath = append(fgPath, name)
			}
			if (g == gBoth || g == gNonFg) && !nfDone {
				nfPath = append(nfPath, name)
			}
		}
		combine := func(a, b int) int {
			switch {
			case a == gNone || b == gNone:
				return gNone
			case a == gBoth:
				return b
			case b == gBoth || a == b:
				return a
			}
			return gNone
		}
		condGuard := func(e ast.Expr) (g int, exact, remote bool) {
			exact = true
			for {
				if pe, ok := e.(*ast.ParenExpr); ok {
					e = pe.X
				} else if be, ok := e.(*ast.BinaryExpr); ok && be.Op == token.LAND {
					e, exact = be.X, false
				} else {
					break
				}
			}
			switch render(e) {
			case "target.IsFilegroup":
				return gFg, exact, false
			case "!target.IsFilegroup":
				return gNonFg, exact, false
			case "runRemotely":
				return gBoth, exact, true
			}
			return gBoth, false, false
		}
		scan := func(n ast.Node, g int) {
			ast.Inspect(n, func(n ast.Node) bool {
				switch x := n.(type) {
				case *ast.FuncLit:
					return false
				case *ast.CallExpr:
					if nm := callName(x); pathWatch[nm] {
						emit(nm, g)
					}
				}
				return true
			})
		}
		endsInReturn := func(b *ast.BlockStmt) bool {
			if len(b.List) == 0 {
				return false
			}
			_, ok := b.List[len(b.List)-1].(*ast.ReturnStmt)
			return ok
		}
		var walkStmt func(st ast.Stmt, g, depth int)
		walkStmt = func(st ast.Stmt, g, depth int) {
			switch x := st.(type) {
			case *ast.BlockStmt:
				for _, y := range x.List {
					walkStmt(y, g, depth+1)
				}
			case *ast.IfStmt:
				if x.Init != nil {
					walkStmt(x.Init, g, depth+1)
				}
				cg, exact, remote := condGuard(x.Cond)
				if !remote {
					bg := combine(g, cg)
					scan(x.Cond, bg)
					for _, y := range x.Body.List {
						walkStmt(y, bg, depth+1)
					}
				}
				if x.Else != nil {
					eg := g
					if exact && cg == gFg {
						eg = combine(g, gNonFg)
					} else if exact && cg == gNonFg {
						eg = combine(g, gFg)
					}
					if eb, ok := x.Else.(*ast.BlockStmt); ok {
						for _, y := range eb.List {
							walkStmt(y, eg, depth+1)
						}
					} else {
						walkStmt(x.Else, eg, depth)
					}
				}
				if depth == 0 && exact && !remote && endsInReturn(x.Body) {
					if cg == gFg {
						fgDone = true
					} else if cg == gNonFg {
						nfDone = true
					}
				}
			case *ast.DeferStmt:
				if fl, ok := x.Call.Fun.(*ast.FuncLit); ok {
					ast.Inspect(fl.Body, func(n ast.Node) bool {
						if c, ok := n.(*ast.CallExpr); ok {
							if nm := callName(c); pathWatch[nm] {
								emit("defer "+nm, g)
							}
						}
						return true
					})
				} else if nm := callName(x.Call); pathWatch[nm] {
					emit("defer "+nm, g)
				}
			default:
				scan(st, g)
			}
		}
		for _, st := range local.List {
			walkStmt(st, gBoth, 0)
		}
		for _, st := range after {
			walkStmt(st, gBoth, 0)
		}
		if len(fgPath) == 0 || len(nfPath) == 0 {
			failShape("buildTarget: no watched call on the path of a filegroup / of another target")
		}

		// src/core/lock.go
		_, lf := parseFile("src/core/lock.go")
		mode := ""
		ast.Inspect(findFunc(lf, "", "AcquireExclusiveFileLock").Body, func(n ast.Node) bool {
			if c, ok := n.(*ast.CallExpr); ok && callName(c) == "acquireOpenFileLock" && len(c.Args) == 2 {
				mode = render(c.Args[1])
			}
			return true
		})
		if mode == "" {
			failShape("AcquireExclusiveFileLock does not call acquireOpenFileLock(path, mode)")
		}
		var flocks []string
		ast.Inspect(findFunc(lf, "", "acquireFileLock").Body, func(n ast.Node) bool {
			if c, ok := n.(*ast.CallExpr); ok && callName(c) == "Flock" && len(c.Args) == 2 {
				flocks = append(flocks, render(c.Args[1]))
			}
			return true
		})
		var opens []string
		ast.Inspect(findFunc(lf, "", "acquireOpenFileLock").Body, func(n ast.Node) bool {
			if c, ok := n.(*ast.CallExpr); ok {
				if nm := callName(c); nm == "openLockFile" || nm == "acquireFileLock" {
					opens = append(opens, nm)
				}
			}
			return true
		})
		var sharedMode, exclMode string
		for _, p := range [][2]string{{"AcquireSharedRepoLock", "s"}, {"AcquireExclusiveRepoLock", "x"}} {
			ast.Inspect(findFunc(lf, "", p[0]).Body, func(n ast.Node) bool {
				if c, ok := n.(*ast.CallExpr); ok && callName(c) == "acquireRepoLock" && len(c.Args) == 1 {
					if p[1] == "s" {
						sharedMode = render(c.Args[0])
					} else {
						exclMode = render(c.Args[0])
					}
				}
				return true
			})
		}

		// src/please.go: the repo lock of an ordinary invocation
		_, pf := parseFile("src/please.go")
		var repoLocks []string
		ast.Inspect(findFunc(pf, "", "runPlease").Body, func(n ast.Node) bool {
			if c, ok := n.(*ast.CallExpr); ok {
				if nm := callName(c); strings.HasPrefix(nm, "Acquire") && strings.HasSuffix(nm, "RepoLock") {
					repoLocks = append(repoLocks, nm)
				}
			}
			return true
		})

		// src/core/build_target.go: the lock file of a target
		_, bf := parseFile("src/core/build_target.go")
		blf := findFunc(bf, "BuildTarget", "BuildLockFile")
		if len(blf.Body.List) != 1 {
			failShape("BuildLockFile is not a single return")
		}
		ret, ok := blf.Body.List[0].(*ast.ReturnStmt)
		if !ok || len(ret.Results) != 1 {
			failShape("BuildLockFile is not a single return")
		}
		suffix := ""
		for _, d := range bf.Decls {
			gd, ok := d.(*ast.GenDecl)
			if !ok || gd.Tok != token.CONST {
				continue
			}
			for _, sp := range gd.Specs {
				vs := sp.(*ast.ValueSpec)
				for i, nm := range vs.Names {
					if nm.Name == "lockFileSuffix" && i < len(vs.Values) {
						if bl, ok := vs.Values[i].(*ast.BasicLit); ok {
							suffix = unquote(bl)
						}
					}
				}
			}
		}

		// src/build/filegroup.go: what guards the replacement of one filegroup output, and in which order
		// it is checked, removed and re-created (Model/C31.v SharedDir: PCheck, PSnap..PRmdir, PLink)
		_, ff := parseFile("src/build/filegroup.go")
		fgWatch := map[string]bool{"Lock": true, "Unlock": true, "isSameFileContent": true, "RemoveAll": true, "EnsureDir": true,
			"RecursiveCopyOrLinkFile": true, "AcquireExclusiveFileLock": true, "AcquireSharedFileLock": true, "Flock": true,
			"Rename": true, "renameFile": true}
		var fgCalls []string
		fgSkip := map[*ast.CallExpr]bool{}
		ast.Inspect(findFunc(ff, "filegroupBuilder", "Build").Body, func(n ast.Node) bool {
			switch x := n.(type) {
			case *ast.FuncLit:
				return false
			case *ast.DeferStmt:
				if nm := callName(x.Call); fgWatch[nm] {
					fgCalls = append(fgCalls, "defer "+nm)
				}
				fgSkip[x.Call] = true
			case *ast.CallExpr:
				if !fgSkip[x] {
					if nm := callName(x); fgWatch[nm] {
						fgCalls = append(fgCalls, nm)
					}
				}
			}
			return true
		})
		if len(fgCalls) == 0 {
			failShape("filegroupBuilder.Build: none of the watched calls found")
		}

		return genHeader +
			"(* watched calls of filegroupBuilder.Build, in source order *)\n" +
			"Definition filegroup_build_calls : list string := " + coqStringList(fgCalls) + ".\n" +
			"(* the watched calls on the path of a filegroup / of any other target through buildTarget's local branch, in source order *)\n" +
			"Definition build_path_fg : list string := " + coqStringList(fgPath) + ".\n" +
			"Definition build_path_nonfg : list string := " + coqStringList(nfPath) + ".\n" +
			"(* calls of buildTarget's local branch and what follows it, every occurrence, in source order *)\n" +
			"Definition build_calls : list string := " + coqStringList(calls) + ".\n" +
			"Definition target_lock_arg : string := " + coqString(lockArg) + ".\n" +
			"Definition target_lock_file : string := " + coqString(render(ret.Results[0])) + ".\n" +
			"Definition lock_file_suffix : string := " + coqString(suffix) + ".\n" +
			"Definition target_lock_mode : string := " + coqString(mode) + ".\n" +
			"Definition open_then_lock : list string := " + coqStringList(opens) + ".\n" +
			"(* second arguments of the syscall.Flock calls of acquireFileLock, in order *)\n" +
			"Definition flock_modes : list string := " + coqStringList(flocks) + ".\n" +
			"Definition shared_repo_lock_mode : string := " + coqString(sharedMode) + ".\n" +
			"Definition exclusive_repo_lock_mode : string := " + coqString(exclMode) + ".\n" +
			"(* repo locks taken by runPlease *)\n" +
			"Definition run_please_repo_locks : list string := " + coqStringList(repoLocks) + ".\n"
	}
}
