package main

import (
	"bytes"
	"fmt"
	"go/ast"
	"go/printer"
	"go/token"
	"strings"
)

// C10Env (property C10): the skeleton of how a build command's environment is assembled and what of the caller's
// environment the code reads on that path.
//
//   - env_keys: for GeneralBuildEnvironment, TargetEnvironment, BuildEnvironment and withUserProvidedEnv of
//     src/core/build_env.go, the keys assigned to the environment map, in statement order. A literal key is itself;
//     "LIT" + strings.ToUpper(x) is "LIT<N>"; a key that is a range variable is "<range:EXPR>" / "<sorted-keys:EXPR>";
//     env.Add(X) is "<add:X>"; a call of another of the four functions is "<call:F>".
//     Every statement must be one of: assignment, expression statement, if, range, return, var declaration.
//   - caller_reads: every call of os.Getenv / os.LookupEnv / os.Environ / os.ExpandEnv / fs.ExpandHomePath in those
//     functions, in getBuildEnv / setBuildPath / Hash of src/core/config.go, in ruleHash of
//     src/build/incrementality.go and in ExecWithTimeout / ExecCommand of src/process, as (function, call text).
//   - cmd_env: the statements of ExecWithTimeout / ExecCommand that assign cmd.Env.
//   - hash_env: the statements of the pass_env block of ruleHash and of the environment loop of Configuration.Hash.

type c10Trans struct {
	fset *token.FileSet
}

func (t *c10Trans) text(n ast.Node) string {
	var b bytes.Buffer
	if err := printer.Fprint(&b, t.fset, n); err != nil {
		failShape("cannot print node: %v", err)
	}
	return strings.Join(strings.Fields(b.String()), " ")
}

var c10EnvFuncs = map[string]bool{"GeneralBuildEnvironment": true, "TargetEnvironment": true, "BuildEnvironment": true, "withUserProvidedEnv": true}

// keyOf renders the index expression of env[...]
func (t *c10Trans) keyOf(fn string, e ast.Expr, ranges map[string]string) string {
	switch x := e.(type) {
	case *ast.BasicLit:
		return unquote(x)
	case *ast.Ident:
		if r, ok := ranges[x.Name]; ok {
			return r
		}
	case *ast.BinaryExpr:
		if lit, ok := x.X.(*ast.BasicLit); ok && x.Op == token.ADD {
			if call, ok := x.Y.(*ast.CallExpr); ok && t.text(call.Fun) == "strings.ToUpper" && len(call.Args) == 1 {
				return unquote(lit) + "<N>"
			}
		}
	}
	failShape("%s: environment key of unknown shape: %s", fn, t.text(e))
	return ""
}

func (t *c10Trans) walk(fn string, stmts []ast.Stmt, ranges map[string]string, keys *[]string) {
	for _, st := range stmts {
		switch x := st.(type) {
		case *ast.AssignStmt:
			for i, lhs := range x.Lhs {
				if ix, ok := lhs.(*ast.IndexExpr); ok && t.text(ix.X) == "env" {
					*keys = append(*keys, t.keyOf(fn, ix.Index, ranges))
					continue
				}
				if id, ok := lhs.(*ast.Ident); ok && id.Name == "env" && i < len(x.Rhs) {
					switch r := x.Rhs[i].(type) {
					case *ast.CompositeLit:
						if t.text(r.Type) != "BuildEnv" {
							failShape("%s: env initialised from a %s literal", fn, t.text(r.Type))
						}
						for _, el := range r.Elts {
							kv, ok := el.(*ast.KeyValueExpr)
							if !ok {
								failShape("%s: BuildEnv literal element without key", fn)
							}
							*keys = append(*keys, t.keyOf(fn, kv.Key, ranges))
						}
					case *ast.CallExpr:
						name := t.text(r.Fun)
						if !c10EnvFuncs[name] {
							failShape("%s: env initialised by a call of %s", fn, name)
						}
						*keys = append(*keys, "<call:"+name+">")
					default:
						failShape("%s: env assigned from %s", fn, t.text(x.Rhs[i]))
					}
					continue
				}
				if strings.Contains(t.text(lhs), "env[") || t.text(lhs) == "env" {
					failShape("%s: assignment to the environment of unknown shape: %s", fn, t.text(st))
				}
			}
		case *ast.ExprStmt:
			call, ok := x.X.(*ast.CallExpr)
			if !ok {
				failShape("%s: expression statement of unknown shape: %s", fn, t.text(st))
			}
			if t.text(call.Fun) == "env.Add" && len(call.Args) == 1 {
				*keys = append(*keys, "<add:"+t.text(call.Args[0])+">")
			} else if strings.HasPrefix(t.text(call.Fun), "env.") {
				failShape("%s: method call on the environment of unknown shape: %s", fn, t.text(st))
			}
		case *ast.IfStmt:
			if x.Init != nil {
				t.walk(fn, []ast.Stmt{x.Init}, ranges, keys)
			}
			t.walk(fn, x.Body.List, ranges, keys)
			if x.Else != nil {
				switch e := x.Else.(type) {
				case *ast.BlockStmt:
					t.walk(fn, e.List, ranges, keys)
				default:
					t.walk(fn, []ast.Stmt{e}, ranges, keys)
				}
			}
		case *ast.RangeStmt:
			inner := map[string]string{}
			for k, v := range ranges {
				inner[k] = v
			}
			src := t.text(x.X)
			if id, ok := x.Key.(*ast.Ident); ok && id.Name != "_" {
				inner[id.Name] = "<range-key:" + src + ">"
			}
			if x.Value != nil {
				if id, ok := x.Value.(*ast.Ident); ok && id.Name != "_" {
					inner[id.Name] = "<range:" + src + ">"
				}
			}
			t.walk(fn, x.Body.List, inner, keys)
		case *ast.ReturnStmt:
			for _, r := range x.Results {
				if call, ok := r.(*ast.CallExpr); ok {
					name := t.text(call.Fun)
					if c10EnvFuncs[name] {
						*keys = append(*keys, "<call:"+name+">")
					} else {
						failShape("%s: returns the result of %s", fn, name)
					}
				} else if t.text(r) != "env" {
					failShape("%s: returns %s", fn, t.text(r))
				}
			}
		case *ast.DeclStmt, *ast.BlockStmt, *ast.IncDecStmt:
			if strings.Contains(t.text(st), "env[") {
				failShape("%s: statement of unknown shape touches the environment: %s", fn, t.text(st))
			}
		default:
			failShape("%s: statement of unknown shape: %s", fn, t.text(st))
		}
	}
}

var c10ReadCalls = map[string]bool{"os.Getenv": true, "os.LookupEnv": true, "os.Environ": true, "os.ExpandEnv": true, "fs.ExpandHomePath": true}

func (t *c10Trans) reads(fd *ast.FuncDecl) []string {
	out := []string{}
	ast.Inspect(fd.Body, func(n ast.Node) bool {
		if call, ok := n.(*ast.CallExpr); ok && c10ReadCalls[t.text(call.Fun)] {
			out = append(out, t.text(call))
		}
		return true
	})
	return out
}

func (t *c10Trans) stmtsMentioning(fd *ast.FuncDecl, needle string) []string {
	out := []string{}
	ast.Inspect(fd.Body, func(n ast.Node) bool {
		switch x := n.(type) {
		case *ast.AssignStmt:
			if strings.Contains(t.text(x.Lhs[0]), needle) {
				out = append(out, t.text(x))
			}
		}
		return true
	})
	return out
}

// envProg translates every statement that writes cmd.Env (or replaces cmd) in a function body into
// (guard, base, items): guard = the enclosing if-conditions joined by " && " (an else branch contributes "!(cond)"),
// base = what the new value starts from ("cmd.Env" for append(cmd.Env, ...), otherwise the expression text, e.g.
// "os.Environ()"; "<fresh>" for cmd = exec.Command(...), whose Env is nil), items = the appended expressions.
// Any other statement that mentions cmd.Env, or a write under a loop/switch/closure, fails closed.
type c10EnvStmt struct {
	guard, base string
	items       []string
}

func (t *c10Trans) envProg(fn string, stmts []ast.Stmt, guard []string, out *[]c10EnvStmt) {
	g := strings.Join(guard, " && ")
	for _, st := range stmts {
		switch x := st.(type) {
		case *ast.AssignStmt:
			for i, lhs := range x.Lhs {
				l := t.text(lhs)
				switch {
				case l == "cmd.Env":
					if len(x.Lhs) != 1 || len(x.Rhs) != 1 || (x.Tok != token.ASSIGN) {
						failShape("%s: cmd.Env written by a statement of unknown shape: %s", fn, t.text(st))
					}
					if call, ok := x.Rhs[0].(*ast.CallExpr); ok && t.text(call.Fun) == "append" && len(call.Args) >= 1 {
						s := c10EnvStmt{guard: g, base: t.text(call.Args[0])}
						for j, a := range call.Args[1:] {
							it := t.text(a)
							if call.Ellipsis.IsValid() && j == len(call.Args)-2 {
								it += "..."
							}
							s.items = append(s.items, it)
						}
						*out = append(*out, s)
					} else {
						*out = append(*out, c10EnvStmt{guard: g, base: t.text(x.Rhs[0])})
					}
				case l == "cmd":
					if i < len(x.Rhs) || len(x.Rhs) == 1 {
						r := x.Rhs[0]
						if len(x.Rhs) == len(x.Lhs) {
							r = x.Rhs[i]
						}
						if call, ok := r.(*ast.CallExpr); ok && t.text(call.Fun) == "exec.Command" {
							*out = append(*out, c10EnvStmt{guard: g, base: "<fresh>"})
						} else if call, ok := r.(*ast.CallExpr); ok && t.text(call.Fun) == "e.ExecCommand" {
							*out = append(*out, c10EnvStmt{guard: g, base: "<call:ExecCommand>"})
						} else {
							failShape("%s: cmd assigned from %s", fn, t.text(r))
						}
					}
				case strings.Contains(l, "cmd.Env"):
					failShape("%s: write through cmd.Env of unknown shape: %s", fn, t.text(st))
				}
			}
			for _, r := range x.Rhs {
				if _, ok := r.(*ast.FuncLit); ok && strings.Contains(t.text(r), "cmd.Env") {
					failShape("%s: closure touches cmd.Env: %s", fn, t.text(st))
				}
			}
		case *ast.IfStmt:
			if x.Init != nil {
				t.envProg(fn, []ast.Stmt{x.Init}, guard, out)
			}
			cond := t.text(x.Cond)
			t.envProg(fn, x.Body.List, append(append([]string{}, guard...), cond), out)
			if x.Else != nil {
				neg := append(append([]string{}, guard...), "!("+cond+")")
				switch e := x.Else.(type) {
				case *ast.BlockStmt:
					t.envProg(fn, e.List, neg, out)
				default:
					t.envProg(fn, []ast.Stmt{e}, neg, out)
				}
			}
		case *ast.BlockStmt:
			t.envProg(fn, x.List, guard, out)
		default:
			// loops, switches, selects, go/defer statements, expression statements: must not touch the command's environment
			if txt := t.text(st); strings.Contains(txt, "cmd.Env") || strings.Contains(txt, ".Env =") || strings.Contains(txt, "cmd = ") {
				failShape("%s: statement of unknown shape touches the command's environment: %s", fn, txt)
			}
		}
	}
}

func coqEnvProg(fn string, ss []c10EnvStmt) []string {
	out := []string{}
	for _, s := range ss {
		out = append(out, fmt.Sprintf("(%s, %s, %s, %s)", coqString(fn), coqString(s.guard), coqString(s.base), coqStringList(s.items)))
	}
	return out
}

func coqPairList(ps [][2]string) string {
	items := make([]string, len(ps))
	for i, p := range ps {
		items[i] = "(" + coqString(p[0]) + ", " + coqString(p[1]) + ")"
	}
	return "[" + strings.Join(items, ";\n  ") + "]"
}

// ---- round-2 follow-up: translated (not pinned) statements -------------------------------------------------------
//
//   - pass_read_modes: for the two pass loops of TargetEnvironment and the pass_env loop of ruleHash, HOW the caller's
//     variable is read: "getenv" (os.Getenv: unset and empty are the same) or "lookupenv" (os.LookupEnv under an
//     `if ..., ok := ...; ok` guard: unset is told apart from empty). Any other body is "other:<text>" - the Coq side has
//     no interpretation for it, so the proofs fail closed (the translator itself keeps going, the harness still runs).
//   - needs_building_checks: the sequence of reasons for which needsBuilding returns true, in statement order:
//     "metadata" / "config" / "rule" / "source" / "secret" / "outputs" / "force"; an unknown condition is "other:<text>".
//   - build_failure_calls: the calls Build() makes when buildTarget fails (after the errStop branch), in order.
//   - remote_file_expands: for the built-in remote_file action, (site, mapping) for every expansion of a user string:
//     os.Expand(x, F) has mapping F, os.ExpandEnv(x) has mapping "os.Getenv"; plus where `env` comes from.
//   - remote_file_reads: every direct read of the caller's environment in fetchOneRemoteFile / setHeaders.

// readMode classifies the body of a `for _, e := range *target.PassXxx` loop that ASSIGNS env[e].
func (t *c10Trans) envLoopMode(body *ast.BlockStmt, v string) string {
	if len(body.List) != 1 {
		return "other:" + t.text(body)
	}
	switch st := body.List[0].(type) {
	case *ast.AssignStmt:
		if t.text(st) == fmt.Sprintf("env[%s] = os.Getenv(%s)", v, v) {
			return "getenv"
		}
	case *ast.IfStmt:
		init, ok := st.Init.(*ast.AssignStmt)
		if ok && st.Else == nil && len(init.Lhs) == 2 && len(init.Rhs) == 1 && t.text(init.Rhs[0]) == fmt.Sprintf("os.LookupEnv(%s)", v) &&
			t.text(st.Cond) == t.text(init.Lhs[1]) && len(st.Body.List) == 1 &&
			t.text(st.Body.List[0]) == fmt.Sprintf("env[%s] = %s", v, t.text(init.Lhs[0])) {
			return "lookupenv"
		}
	}
	return "other:" + t.text(body)
}

// hashLoopMode classifies the body of ruleHash's `for _, env := range *target.PassEnv` loop.
func (t *c10Trans) hashLoopMode(body *ast.BlockStmt, v string) string {
	texts := []string{}
	for _, st := range body.List {
		texts = append(texts, t.text(st))
	}
	all := strings.Join(texts, " ; ")
	if all == fmt.Sprintf("h.Write([]byte(%s)) ; h.Write([]byte{'='}) ; h.Write([]byte(os.Getenv(%s)))", v, v) {
		return "getenv"
	}
	if len(body.List) == 1 {
		if st, ok := body.List[0].(*ast.IfStmt); ok {
			if init, ok := st.Init.(*ast.AssignStmt); ok && len(init.Rhs) == 1 && t.text(init.Rhs[0]) == fmt.Sprintf("os.LookupEnv(%s)", v) {
				return "lookupenv"
			}
		}
	}
	return "other:" + all
}

func (t *c10Trans) passLoops(fd *ast.FuncDecl, hash bool) [][2]string {
	out := [][2]string{}
	ast.Inspect(fd.Body, func(n ast.Node) bool {
		rs, ok := n.(*ast.RangeStmt)
		if !ok {
			return true
		}
		src := t.text(rs.X)
		if src != "*target.PassUnsafeEnv" && src != "*target.PassEnv" {
			return true
		}
		id, ok := rs.Value.(*ast.Ident)
		if !ok {
			out = append(out, [2]string{src, "other:" + t.text(rs)})
			return true
		}
		if hash {
			out = append(out, [2]string{src, t.hashLoopMode(rs.Body, id.Name)})
		} else {
			out = append(out, [2]string{src, t.envLoopMode(rs.Body, id.Name)})
		}
		return true
	})
	return out
}

// needsBuildingChecks: the top-level statements of needsBuilding, each either a plain assignment (of old/new hashes) or
// a reason to return true.
func (t *c10Trans) needsBuildingChecks(fd *ast.FuncDecl) []string {
	out := []string{}
	returnsTrue := func(b *ast.BlockStmt) bool {
		if len(b.List) == 0 {
			return false
		}
		r, ok := b.List[len(b.List)-1].(*ast.ReturnStmt)
		return ok && len(r.Results) == 1 && t.text(r.Results[0]) == "true"
	}
	conds := map[string]string{
		"!fs.FileExists(targetBuildMetadataFileName(target))":         "metadata",
		"!bytes.Equal(oldHashes.config, state.Hashes.Config)":         "config",
		"!bytes.Equal(oldHashes.rule, newRuleHash)":                   "rule",
		"err != nil || !bytes.Equal(oldHashes.source, newSourceHash)": "source",
		"err != nil || !bytes.Equal(oldHashes.secret, newSecretHash)": "secret",
	}
	for _, st := range fd.Body.List {
		switch x := st.(type) {
		case *ast.AssignStmt:
			// oldHashes := ..., newRuleHash := ..., newSourceHash, err := ...
		case *ast.IfStmt:
			if x.Init != nil || x.Else != nil || !returnsTrue(x.Body) {
				out = append(out, "other:"+t.text(x.Cond))
				continue
			}
			if name, ok := conds[t.text(x.Cond)]; ok {
				out = append(out, name)
			} else {
				out = append(out, "other:"+t.text(x.Cond))
			}
		case *ast.RangeStmt:
			// for _, output := range target.Outputs() { realOutput := filepath.Join(target.OutDir(), output); if !core.PathExists(realOutput) { ...; return true } }
			ok := t.text(x.X) == "target.Outputs()" && len(x.Body.List) == 2
			if ok {
				as, ok1 := x.Body.List[0].(*ast.AssignStmt)
				is, ok2 := x.Body.List[1].(*ast.IfStmt)
				ok = ok1 && ok2 && t.text(as) == "realOutput := filepath.Join(target.OutDir(), output)" &&
					t.text(is.Cond) == "!core.PathExists(realOutput)" && is.Else == nil && returnsTrue(is.Body)
			}
			if ok {
				out = append(out, "outputs")
			} else {
				out = append(out, "other:"+t.text(x))
			}
		case *ast.ReturnStmt:
			if len(x.Results) == 1 && t.text(x.Results[0]) == "state.ShouldRebuild(target)" {
				out = append(out, "force")
			} else {
				out = append(out, "other:"+t.text(x))
			}
		default:
			out = append(out, "other:"+t.text(st))
		}
	}
	return out
}

// buildFailureCalls: in Build(), the body of `if err := buildTarget(...); err != nil { ... }` after the errStop branch.
func (t *c10Trans) buildFailureCalls(fd *ast.FuncDecl) []string {
	for _, st := range fd.Body.List {
		is, ok := st.(*ast.IfStmt)
		if !ok || is.Init == nil || !strings.Contains(t.text(is.Init), "buildTarget(") {
			continue
		}
		out := []string{}
		for _, s := range is.Body.List {
			switch x := s.(type) {
			case *ast.ExprStmt:
				if call, ok := x.X.(*ast.CallExpr); ok {
					out = append(out, t.text(call.Fun))
					continue
				}
				out = append(out, "other:"+t.text(s))
			case *ast.IfStmt:
				if strings.Contains(t.text(x.Cond), "errStop") {
					continue // the stop branch returns before anything is removed
				}
				if init, ok := x.Init.(*ast.AssignStmt); ok && len(init.Rhs) == 1 {
					if call, ok := init.Rhs[0].(*ast.CallExpr); ok {
						out = append(out, t.text(call.Fun))
						continue
					}
				}
				out = append(out, "other:"+t.text(x.Cond))
			case *ast.ReturnStmt:
				out = append(out, "return")
			default:
				out = append(out, "other:"+t.text(s))
			}
		}
		return out
	}
	failShape("Build: `if err := buildTarget(...); err != nil` not found")
	return nil
}

// expandMapping: the mapping of an expansion call, "" when the expression is not an expansion.
func (t *c10Trans) expandMapping(e ast.Expr) string {
	call, ok := e.(*ast.CallExpr)
	if !ok {
		return ""
	}
	switch t.text(call.Fun) {
	case "os.Expand":
		if len(call.Args) == 2 {
			return t.text(call.Args[1])
		}
		return "other:" + t.text(call)
	case "os.ExpandEnv":
		return "os.Getenv"
	}
	return ""
}

func (t *c10Trans) remoteFileExpands(fetch, hdrs *ast.FuncDecl) [][2]string {
	out := [][2]string{}
	ast.Inspect(fetch.Body, func(n ast.Node) bool {
		as, ok := n.(*ast.AssignStmt)
		if !ok || len(as.Lhs) != 1 || len(as.Rhs) != 1 {
			return true
		}
		if t.text(as.Lhs[0]) == "env" {
			if call, ok := as.Rhs[0].(*ast.CallExpr); ok {
				out = append(out, [2]string{"env", t.text(call.Fun)})
			} else {
				out = append(out, [2]string{"env", "other:" + t.text(as.Rhs[0])})
			}
		}
		if m := t.expandMapping(as.Rhs[0]); m != "" {
			out = append(out, [2]string{t.text(as.Lhs[0]), m})
		}
		return true
	})
	// setHeaders: the `case "header":` clause; every statement that assigns v
	found := false
	ast.Inspect(hdrs.Body, func(n ast.Node) bool {
		cc, ok := n.(*ast.CaseClause)
		if !ok || len(cc.List) != 1 || t.text(cc.List[0]) != `"header"` {
			return true
		}
		found = true
		for _, st := range cc.Body {
			switch x := st.(type) {
			case *ast.AssignStmt:
				if len(x.Rhs) == 1 {
					if m := t.expandMapping(x.Rhs[0]); m != "" {
						out = append(out, [2]string{"header:" + t.text(x.Lhs[0]), m})
					} else if call, ok := x.Rhs[0].(*ast.CallExpr); ok && t.text(call.Fun) == "header" {
						// k, v := header(value)
					} else {
						out = append(out, [2]string{"header", "other:" + t.text(x)})
					}
				}
			case *ast.ExprStmt:
				if call, ok := x.X.(*ast.CallExpr); ok && t.text(call.Fun) == "req.Header.Set" && len(call.Args) == 2 {
					arg := t.text(call.Args[1])
					if m := t.expandMapping(call.Args[1]); m != "" {
						out = append(out, [2]string{"header:set", m})
					} else {
						out = append(out, [2]string{"header:set", arg})
					}
				} else {
					out = append(out, [2]string{"header", "other:" + t.text(x)})
				}
			default:
				out = append(out, [2]string{"header", "other:" + t.text(st)})
			}
		}
		return true
	})
	if !found {
		failShape("setHeaders: no `case \"header\":` clause")
	}
	return out
}

func init() {
	targets["C10Env"] = func() string {
		var b strings.Builder
		b.WriteString("(* skeleton of src/core/build_env.go and the caller-environment reads on the build-environment path (property C10) *)\n")
		b.WriteString(genHeader)

		fset, f := parseFile("src/core/build_env.go")
		t := &c10Trans{fset: fset}
		keys := [][2]string{}
		reads := [][2]string{}
		for _, name := range []string{"GeneralBuildEnvironment", "TargetEnvironment", "BuildEnvironment", "withUserProvidedEnv"} {
			fd := findFunc(f, "", name)
			ks := []string{}
			t.walk(name, fd.Body.List, map[string]string{}, &ks)
			for _, k := range ks {
				keys = append(keys, [2]string{name, k})
			}
			for _, r := range t.reads(fd) {
				reads = append(reads, [2]string{name, r})
			}
		}
		// helpers reachable from BuildEnvironment must not read the caller's environment at all
		for _, name := range []string{"toolsEnv", "toolPath", "toolPaths", "resolveOut"} {
			for _, r := range t.reads(findFunc(f, "", name)) {
				reads = append(reads, [2]string{name, r})
			}
		}

		fset2, f2 := parseFile("src/core/config.go")
		t2 := &c10Trans{fset: fset2}
		for _, fn := range [][2]string{{"", "setBuildPath"}, {"Configuration", "getBuildEnv"}, {"Configuration", "GetBuildEnv"}, {"Configuration", "Hash"}} {
			for _, r := range t2.reads(findFunc(f2, fn[0], fn[1])) {
				reads = append(reads, [2]string{fn[1], r})
			}
		}
		hashEnv := [][2]string{}
		ast.Inspect(findFunc(f2, "Configuration", "Hash").Body, func(n ast.Node) bool {
			if rs, ok := n.(*ast.RangeStmt); ok && strings.Contains(t2.text(rs.X), "env") {
				hashEnv = append(hashEnv, [2]string{"Hash", t2.text(rs)})
			}
			if as, ok := n.(*ast.AssignStmt); ok && strings.Contains(t2.text(as.Rhs[0]), "getBuildEnv") {
				hashEnv = append(hashEnv, [2]string{"Hash", t2.text(as)})
			}
			return true
		})

		fset3, f3 := parseFile("src/build/incrementality.go")
		t3 := &c10Trans{fset: fset3}
		rh := findFunc(f3, "", "ruleHash")
		for _, r := range t3.reads(rh) {
			reads = append(reads, [2]string{"ruleHash", r})
		}
		ast.Inspect(rh.Body, func(n ast.Node) bool {
			if is, ok := n.(*ast.IfStmt); ok && strings.Contains(t3.text(is.Cond), "PassEnv") {
				hashEnv = append(hashEnv, [2]string{"ruleHash", t3.text(is)})
			}
			return true
		})
		// nothing else in ruleHash may look at pass_unsafe_env
		if strings.Contains(t3.text(rh.Body), "PassUnsafeEnv") {
			hashEnv = append(hashEnv, [2]string{"ruleHash", "mentions PassUnsafeEnv"})
		}

		cmdEnv := [][2]string{}
		fset4, f4 := parseFile("src/process/process.go")
		t4 := &c10Trans{fset: fset4}
		ew := findFunc(f4, "Executor", "ExecWithTimeout")
		for _, r := range t4.reads(ew) {
			reads = append(reads, [2]string{"ExecWithTimeout", r})
		}
		for _, s := range t4.stmtsMentioning(ew, "cmd.Env") {
			cmdEnv = append(cmdEnv, [2]string{"ExecWithTimeout", s})
		}
		fset5, f5 := parseFile("src/process/exec_linux.go")
		t5 := &c10Trans{fset: fset5}
		ec := findFunc(f5, "Executor", "ExecCommand")
		for _, r := range t5.reads(ec) {
			reads = append(reads, [2]string{"ExecCommand", r})
		}
		for _, s := range t5.stmtsMentioning(ec, "cmd.Env") {
			cmdEnv = append(cmdEnv, [2]string{"ExecCommand", s})
		}

		// the command-environment program: ExecWithTimeout obtains cmd from ExecCommand and then appends
		var pEC, pEW []c10EnvStmt
		t5.envProg("ExecCommand", ec.Body.List, nil, &pEC)
		t4.envProg("ExecWithTimeout", ew.Body.List, nil, &pEW)
		if len(pEW) == 0 || pEW[0].base != "<call:ExecCommand>" || pEW[0].guard != "" {
			failShape("ExecWithTimeout: cmd does not come from e.ExecCommand first: %v", pEW)
		}
		if len(pEC) == 0 || pEC[0].base != "<fresh>" || pEC[0].guard != "" {
			failShape("ExecCommand: cmd is not created by exec.Command first: %v", pEC)
		}
		prog := append(coqEnvProg("ExecCommand", pEC), coqEnvProg("ExecWithTimeout", pEW[1:])...)

		fmt.Fprintf(&b, "Definition env_keys : list (string * string) :=\n  %s.\n", coqPairList(keys))
		fmt.Fprintf(&b, "Definition caller_reads : list (string * string) :=\n  %s.\n", coqPairList(reads))
		fmt.Fprintf(&b, "Definition hash_env : list (string * string) :=\n  %s.\n", coqPairList(hashEnv))
		fmt.Fprintf(&b, "Definition cmd_env : list (string * string) :=\n  %s.\n", coqPairList(cmdEnv))
		fmt.Fprintf(&b, "(* (function, guard, base, appended items) of every statement that sets the command's environment, in execution order *)\n")
		fmt.Fprintf(&b, "Definition exec_env_prog : list (string * string * string * list string) :=\n  [%s].\n", strings.Join(prog, ";\n  "))

		// round-2 follow-up
		modes := []string{}
		for _, p := range t.passLoops(findFunc(f, "", "TargetEnvironment"), false) {
			modes = append(modes, fmt.Sprintf("(%s, %s, %s)", coqString("TargetEnvironment"), coqString(p[0]), coqString(p[1])))
		}
		for _, p := range t3.passLoops(rh, true) {
			modes = append(modes, fmt.Sprintf("(%s, %s, %s)", coqString("ruleHash"), coqString(p[0]), coqString(p[1])))
		}
		fmt.Fprintf(&b, "(* (function, list ranged over, how the caller's variable is read) *)\n")
		fmt.Fprintf(&b, "Definition pass_read_modes : list (string * string * string) :=\n  [%s].\n", strings.Join(modes, ";\n  "))
		fmt.Fprintf(&b, "Definition needs_building_checks : list string :=\n  %s.\n", coqStringList(t3.needsBuildingChecks(findFunc(f3, "", "needsBuilding"))))
		fset6, f6 := parseFile("src/build/build_step.go")
		t6 := &c10Trans{fset: fset6}
		fmt.Fprintf(&b, "Definition build_failure_calls : list string :=\n  %s.\n", coqStringList(t6.buildFailureCalls(findFunc(f6, "", "Build"))))
		fetch, hdrs := findFunc(f6, "", "fetchOneRemoteFile"), findFunc(f6, "", "setHeaders")
		fmt.Fprintf(&b, "Definition remote_file_expands : list (string * string) :=\n  %s.\n", coqPairList(t6.remoteFileExpands(fetch, hdrs)))
		rfReads := [][2]string{}
		for _, r := range t6.reads(fetch) {
			rfReads = append(rfReads, [2]string{"fetchOneRemoteFile", r})
		}
		for _, r := range t6.reads(hdrs) {
			rfReads = append(rfReads, [2]string{"setHeaders", r})
		}
		fmt.Fprintf(&b, "Definition remote_file_reads : list (string * string) :=\n  %s.\n", coqPairList(rfReads))
		return b.String()
	}
}
