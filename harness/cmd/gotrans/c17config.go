package main

import (
	"go/ast"
	"regexp"
	"strings"
)

// C17Config (property C17, follow-up 2): the two statements through which the CONFIG of one package could come to
// share a Go map with the CONFIG every other package gets from the same subinclude are TRANSLATED, statement by
// statement, into little programs that Model/C17_Config.v interprets (so a change of either changes the generated
// definition, the model's behaviour on the harness cases, and the computation the isolation theorem starts from):
//
//   - pyConfig.Merge (src/parse/asp/objects.go): `if c.overlay == nil { <nil branch> }` followed by the entry-by-entry
//     copy loop. The nil branch becomes c17_merge_nil_branch: C17MMake (c.overlay = make(pyDict, ..)), C17MAdopt
//     (c.overlay = other.overlay: the receiver now aliases the cached, exported map), C17MReturn.
//   - the dict branch of pkg() (src/parse/asp/builtins.go, the package() builtin): the statements inside
//     `if pluginConfig, ok := configVal.(pyDict); ok { ... }` become c17_pkg_dict_steps: C17PCopy
//     (newPluginConfig := pluginConfig.Copy()), C17PLoop chk wr (the loop over the overrides: membership is tested in
//     `chk`, the override is IndexAssign-ed into `wr`), C17PSetV x (v = x), where a side is C17POld (pluginConfig, the
//     dict found in the config - for a value that came from a subinclude the map every package shares) or C17PNew
//     (newPluginConfig, the copy).
//
// The surrounding code (pyConfig.IndexAssign / Copy / Get / Freeze, pyDict.Copy, pyDict.IndexAssign, the frame of pkg(),
// the CONFIG case of scope.SetAll, the CONFIG handling at the end of interpreter.Subinclude) is pinned to the shape the
// model was written from. Anything else fails closed.
func init() {
	targets["C17Config"] = func() string {
		fset, f := parseFile("src/parse/asp/objects.go")

		// ---- pyConfig.Merge
		mg := findFunc(f, "pyConfig", "Merge")
		if len(mg.Body.List) != 2 {
			failShape("pyConfig.Merge: expected 2 statements, found %d", len(mg.Body.List))
		}
		nilIf, ok := mg.Body.List[0].(*ast.IfStmt)
		if !ok || nilIf.Init != nil || nilIf.Else != nil || c17Inner(c17StmtText(fset, &ast.ExprStmt{X: nilIf.Cond})) != "c.overlay == nil" {
			failShape("pyConfig.Merge: the first statement is not `if c.overlay == nil { ... }`")
		}
		nilBranch := []string{}
		for _, st := range nilIf.Body.List {
			switch t := c17Inner(c17StmtText(fset, st)); t {
			case "c.overlay = make(pyDict, len(other.overlay))", "c.overlay = make(pyDict)", "c.overlay = pyDict{}":
				nilBranch = append(nilBranch, "C17MMake")
			case "c.overlay = other.overlay":
				nilBranch = append(nilBranch, "C17MAdopt")
			case "return":
				nilBranch = append(nilBranch, "C17MReturn")
			default:
				failShape("pyConfig.Merge: unrecognised statement in the nil branch: %s", t)
			}
		}
		matchShape("pyConfig.Merge (copy loop)", c17StmtText(fset, mg.Body.List[1]), `{ for k, v := range other.overlay { c.overlay[k] = v } }`)

		// ---- pinned surroundings in objects.go
		matchShape("pyConfig.IndexAssign", bodyText(fset, findFunc(f, "pyConfig", "IndexAssign")),
			`{ key := string(index.(pyString)) if c.overlay == nil { c.overlay = pyDict{key: value} } else { c.overlay[key] = value } }`)
		matchShape("pyConfig.Copy", bodyText(fset, findFunc(f, "pyConfig", "Copy")), `{ return &pyConfig{base: c.base} }`)
		matchShape("pyConfig.Freeze", bodyText(fset, findFunc(f, "pyConfig", "Freeze")), `{ return &pyFrozenConfig{pyConfig: *c} }`)
		matchShape("pyConfig.Get", bodyText(fset, findFunc(f, "pyConfig", "Get")),
			`{ if c.overlay != nil { if obj, present := c.overlay[key]; present { return obj } } if obj, present := c.base.dict[key]; present { return obj } return fallback }`)
		matchShape("pyDict.IndexAssign", bodyText(fset, findFunc(f, "pyDict", "IndexAssign")),
			`{ key, ok := index.(pyString) if !ok { panic("Dict keys must be strings, not " + index.Type()) } d[string(key)] = value }`)
		matchShape("pyDict.Copy", bodyText(fset, findFunc(f, "pyDict", "Copy")),
			`{ m := make(pyDict, len(d)) for k, v := range d { m[k] = v } return m }`)

		// ---- pkg()
		fsB, fb := parseFile("src/parse/asp/builtins.go")
		pk := findFunc(fb, "", "pkg")
		if len(pk.Body.List) != 3 {
			failShape("pkg: expected `s.Assert(..); for k, v := range s.locals { .. }; return None`, found %d statements", len(pk.Body.List))
		}
		matchShape("pkg (return)", c17StmtText(fsB, pk.Body.List[2]), `{ return None }`)
		loop, ok := pk.Body.List[1].(*ast.RangeStmt)
		if !ok || len(loop.Body.List) != 5 {
			failShape("pkg: the loop over s.locals does not have the 5 statements the C17 model was written from")
		}
		lb := loop.Body.List
		matchShape("pkg (loop head)", c17StmtText(fsB, lb[0], lb[1], lb[2]),
			`{ k = strings.ToUpper(k) configVal := s.config.Get(k, nil) s.Assert(configVal != nil, "error calling package(): %s is not a known config value", k) }`)
		matchShape("pkg (store)", c17StmtText(fsB, lb[4]), `{ s.config.IndexAssign(pyString(k), v) }`)
		outer, ok := lb[3].(*ast.IfStmt)
		if !ok || outer.Else != nil || c17Inner(c17StmtText(fsB, outer.Init)) != "overrides, ok := v.(pyDict)" || len(outer.Body.List) != 1 {
			failShape("pkg: the dict branch is not `if overrides, ok := v.(pyDict); ok { if .. }`")
		}
		inner, ok := outer.Body.List[0].(*ast.IfStmt)
		if !ok || c17Inner(c17StmtText(fsB, inner.Init)) != "pluginConfig, ok := configVal.(pyDict)" {
			failShape("pkg: the dict branch does not start with `if pluginConfig, ok := configVal.(pyDict); ok {`")
		}
		els, ok := inner.Else.(*ast.BlockStmt)
		if !ok {
			failShape("pkg: the dict branch has no else block")
		}
		matchShape("pkg (not a dict)", c17StmtText(fsB, els.List...), `{ s.Error("error calling package(): can't assign a dict to %s as it's not a dict", k) }`)
		side := func(x string) string {
			switch x {
			case "pluginConfig":
				return "C17POld"
			case "newPluginConfig":
				return "C17PNew"
			}
			failShape("pkg: %s is neither pluginConfig nor newPluginConfig", x)
			return ""
		}
		loopRe := regexp.MustCompile(`^for pluginKey, override := range overrides \{ pluginKey = strings\.ToUpper\(pluginKey\) if _, ok := (\w+)\[pluginKey\]; !ok \{ s\.Error\("error calling package\(\): %s\.%s is not a known config value", k, pluginKey\) \} (\w+)\.IndexAssign\(pyString\(pluginKey\), override\) \}$`)
		setRe := regexp.MustCompile(`^v = (\w+)$`)
		steps := []string{}
		copied := false
		for _, st := range inner.Body.List {
			t := c17Inner(c17StmtText(fsB, st))
			if t == "newPluginConfig := pluginConfig.Copy()" {
				if copied {
					failShape("pkg: newPluginConfig is made twice")
				}
				copied = true
				steps = append(steps, "C17PCopy")
			} else if m := loopRe.FindStringSubmatch(t); m != nil {
				if (m[1] == "newPluginConfig" || m[2] == "newPluginConfig") && !copied {
					failShape("pkg: newPluginConfig is used before it is made")
				}
				steps = append(steps, "C17PLoop "+side(m[1])+" "+side(m[2]))
			} else if m := setRe.FindStringSubmatch(t); m != nil {
				if m[1] == "newPluginConfig" && !copied {
					failShape("pkg: newPluginConfig is used before it is made")
				}
				steps = append(steps, "C17PSetV "+side(m[1]))
			} else {
				failShape("pkg: unrecognised statement in the dict branch: %s", t)
			}
		}

		// ---- interpreter.go: the CONFIG case of scope.SetAll and the end of Subinclude
		fsI, fi := parseFile("src/parse/asp/interpreter.go")
		matchShape("scope.SetAll", bodyText(fsI, findFunc(fi, "scope", "SetAll")),
			`{ for k, v := range d { if k == "CONFIG" { c, ok := v.(*pyFrozenConfig) s.Assert(ok, "incoming CONFIG isn't a config object") s.config.Merge(c) } else if !publicOnly || k[0] != '_' { s.locals[k] = v } } }`)
		sub := bodyText(fsI, findFunc(fi, "interpreter", "Subinclude"))
		for _, piece := range []string{
			`s.config = i.scope.config.Copy() s.Set("CONFIG", s.config)`,
			`s.interpretStatements(stmts) locals := s.Freeze() if s.config.overlay == nil { delete(locals, "CONFIG") } return locals, nil`,
		} {
			if !strings.Contains(sub, piece) {
				failShape("interpreter.Subinclude no longer contains `%s`", piece)
			}
		}

		return "From Coq Require Import List. Import ListNotations.\n" +
			"(* pyConfig.Merge (src/parse/asp/objects.go): `if c.overlay == nil { nil branch }` then the entry-by-entry copy *)\n" +
			"Inductive c17_mstep :=\n" +
			"| C17MMake      (* c.overlay = make(pyDict, len(other.overlay)) *)\n" +
			"| C17MAdopt     (* c.overlay = other.overlay *)\n" +
			"| C17MReturn.   (* return *)\n" +
			"Definition c17_merge_nil_branch : list c17_mstep := [" + strings.Join(nilBranch, "; ") + "].\n" +
			"(* pkg() (src/parse/asp/builtins.go), inside `if pluginConfig, ok := configVal.(pyDict); ok { ... }` *)\n" +
			"Inductive c17_pside := C17POld (* pluginConfig *) | C17PNew (* newPluginConfig *).\n" +
			"Inductive c17_pstep :=\n" +
			"| C17PCopy                          (* newPluginConfig := pluginConfig.Copy() *)\n" +
			"| C17PLoop (chk wr : c17_pside)     (* for pluginKey, override := range overrides { if _, ok := chk[KEY]; !ok { s.Error }; wr.IndexAssign(KEY, override) } *)\n" +
			"| C17PSetV (x : c17_pside).         (* v = x *)\n" +
			"Definition c17_pkg_dict_steps : list c17_pstep := [" + strings.Join(steps, "; ") + "].\n"
	}
}

// c17Inner strips the `{ ` ` }` that c17StmtText puts around a statement list.
func c17Inner(t string) string {
	t = strings.TrimSpace(t)
	t = strings.TrimPrefix(t, "{")
	t = strings.TrimSuffix(t, "}")
	return strings.TrimSpace(t)
}
