package main

import (
	"fmt"
	"go/ast"
	"go/token"
	"go/types"
	"regexp"
	"strings"
)

// CmdReplTables (property C37): from src/core/command_replacements.go
//   - the character set `quote` reacts to,
//   - the separator of splitEntryPoint,
//   - the ordered list of replacement passes of replaceSequencesInternal: keyword of the regular expression
//     (which must have the shape \$\(KW ([^\)]+)\)), the slice offset in[N:len(in)-1] and the five literal flags
//     (runnable, multiple, dir, outPrefix, hash) handed to replaceSequence,
//   - the final strings.ReplaceAll(cmd, from, to),
//   - the dependency lookups of replaceSequenceLabel, in order (dep_lookup): the exact label handed to
//     target.DependenciesFor, then any retry block `if len(deps) == 0 && label.Subrepo != "" { label.Subrepo = "";
//     deps = target.DependenciesFor(label) }` (none in the code as it stands; the model follows whatever is listed and
//     the theorem "only the exact label, subrepo included, expands" needs the list to be [LookupExact]),
//   - the writes of the output loop of checkAndReplaceSequence (out_loop_writes): every path goes through quote()
//     on its own, followed by the separator; the result is TrimRight(builder, separator).
// Anything that does not have exactly the recognised shape fails closed.
func init() {
	targets["CmdReplTables"] = func() string {
		_, f := parseFile("src/core/command_replacements.go")

		// package-level `var xReplacement = deferredregex.DeferredRegex{Re: `...`}`
		regexes := map[string]string{}
		for _, d := range f.Decls {
			gd, ok := d.(*ast.GenDecl)
			if !ok || gd.Tok != token.VAR {
				continue
			}
			for _, s := range gd.Specs {
				vs := s.(*ast.ValueSpec)
				if len(vs.Names) != 1 || len(vs.Values) != 1 {
					continue
				}
				cl, ok := vs.Values[0].(*ast.CompositeLit)
				if !ok {
					continue
				}
				se, ok := cl.Type.(*ast.SelectorExpr)
				if !ok || se.Sel.Name != "DeferredRegex" || len(cl.Elts) != 1 {
					continue
				}
				kv, ok := cl.Elts[0].(*ast.KeyValueExpr)
				if !ok {
					failShape("regex %s: not a keyed literal", vs.Names[0].Name)
				}
				if k, ok := kv.Key.(*ast.Ident); !ok || k.Name != "Re" {
					failShape("regex %s: key is not Re", vs.Names[0].Name)
				}
				bl, ok := kv.Value.(*ast.BasicLit)
				if !ok {
					failShape("regex %s: value is not a literal", vs.Names[0].Name)
				}
				regexes[vs.Names[0].Name] = unquote(bl)
			}
		}
		shape := regexp.MustCompile(`^\\\$\\\(([a-z_]+) \(\[\^\\\)\]\+\)\\\)$`)

		// replaceSequencesInternal: defer; cmd = X.ReplaceAllStringFunc(...) ...; if bazel {...}; return ReplaceAll(cmd, a, b), nil
		fd := findFunc(f, "", "replaceSequencesInternal")
		stmts := fd.Body.List
		if len(stmts) < 4 {
			failShape("replaceSequencesInternal: too few statements")
		}
		if _, ok := stmts[0].(*ast.DeferStmt); !ok {
			failShape("replaceSequencesInternal: first statement is not the recover defer")
		}
		type pass struct {
			kw    string
			off   int
			flags [5]bool
		}
		var passes []pass
		i := 1
		for ; i < len(stmts); i++ {
			as, ok := stmts[i].(*ast.AssignStmt)
			if !ok {
				break
			}
			if len(as.Lhs) != 1 || len(as.Rhs) != 1 || as.Tok != token.ASSIGN {
				failShape("replaceSequencesInternal: statement %d is not `cmd = ...`", i)
			}
			if id, ok := as.Lhs[0].(*ast.Ident); !ok || id.Name != "cmd" {
				failShape("replaceSequencesInternal: statement %d does not assign cmd", i)
			}
			call, ok := as.Rhs[0].(*ast.CallExpr)
			if !ok || len(call.Args) != 2 {
				failShape("replaceSequencesInternal: statement %d is not a two-argument call", i)
			}
			sel, ok := call.Fun.(*ast.SelectorExpr)
			if !ok || sel.Sel.Name != "ReplaceAllStringFunc" {
				failShape("replaceSequencesInternal: statement %d is not ReplaceAllStringFunc", i)
			}
			rv, ok := sel.X.(*ast.Ident)
			if !ok {
				failShape("replaceSequencesInternal: statement %d: receiver is not a variable", i)
			}
			re, ok := regexes[rv.Name]
			if !ok {
				failShape("replaceSequencesInternal: unknown regex variable %s", rv.Name)
			}
			m := shape.FindStringSubmatch(re)
			if m == nil {
				failShape("regex %s = %q does not have the shape \\$\\(KW ([^\\)]+)\\)", rv.Name, re)
			}
			want := "cmd"
			if i == 1 {
				want = "command"
			}
			if id, ok := call.Args[0].(*ast.Ident); !ok || id.Name != want {
				failShape("replaceSequencesInternal: pass %d does not scan %s", i, want)
			}
			fl, ok := call.Args[1].(*ast.FuncLit)
			if !ok || len(fl.Body.List) != 1 {
				failShape("replaceSequencesInternal: pass %d: callback is not a one-statement function literal", i)
			}
			if len(fl.Type.Params.List) != 1 || len(fl.Type.Params.List[0].Names) != 1 || fl.Type.Params.List[0].Names[0].Name != "in" {
				failShape("replaceSequencesInternal: pass %d: callback parameter is not `in`", i)
			}
			ret, ok := fl.Body.List[0].(*ast.ReturnStmt)
			if !ok || len(ret.Results) != 1 {
				failShape("replaceSequencesInternal: pass %d: callback is not a single return", i)
			}
			rc, ok := ret.Results[0].(*ast.CallExpr)
			if !ok || len(rc.Args) != 9 {
				failShape("replaceSequencesInternal: pass %d: callback does not call replaceSequence with 9 arguments", i)
			}
			if id, ok := rc.Fun.(*ast.Ident); !ok || id.Name != "replaceSequence" {
				failShape("replaceSequencesInternal: pass %d: callback does not call replaceSequence", i)
			}
			for k, name := range []string{"state", "target"} {
				if id, ok := rc.Args[k].(*ast.Ident); !ok || id.Name != name {
					failShape("replaceSequencesInternal: pass %d: argument %d is not %s", i, k, name)
				}
			}
			if id, ok := rc.Args[8].(*ast.Ident); !ok || id.Name != "test" {
				failShape("replaceSequencesInternal: pass %d: last argument is not test", i)
			}
			// in[N:len(in)-1]
			sl, ok := rc.Args[2].(*ast.SliceExpr)
			if !ok || sl.Slice3 {
				failShape("replaceSequencesInternal: pass %d: argument is not a slice of in", i)
			}
			if id, ok := sl.X.(*ast.Ident); !ok || id.Name != "in" {
				failShape("replaceSequencesInternal: pass %d: slice is not of in", i)
			}
			lo, ok := sl.Low.(*ast.BasicLit)
			if !ok || lo.Kind != token.INT {
				failShape("replaceSequencesInternal: pass %d: slice offset is not an integer literal", i)
			}
			hi, ok := sl.High.(*ast.BinaryExpr)
			if !ok || hi.Op != token.SUB {
				failShape("replaceSequencesInternal: pass %d: slice end is not len(in)-1", i)
			}
			if one, ok := hi.Y.(*ast.BasicLit); !ok || one.Value != "1" {
				failShape("replaceSequencesInternal: pass %d: slice end is not len(in)-1", i)
			}
			if lc, ok := hi.X.(*ast.CallExpr); !ok || len(lc.Args) != 1 {
				failShape("replaceSequencesInternal: pass %d: slice end is not len(in)-1", i)
			} else if id, ok := lc.Fun.(*ast.Ident); !ok || id.Name != "len" {
				failShape("replaceSequencesInternal: pass %d: slice end is not len(in)-1", i)
			} else if id, ok := lc.Args[0].(*ast.Ident); !ok || id.Name != "in" {
				failShape("replaceSequencesInternal: pass %d: slice end is not len(in)-1", i)
			}
			var off int
			fmt.Sscanf(lo.Value, "%d", &off)
			p := pass{kw: m[1], off: off}
			for k := 0; k < 5; k++ {
				id, ok := rc.Args[3+k].(*ast.Ident)
				if !ok || (id.Name != "true" && id.Name != "false") {
					failShape("replaceSequencesInternal: pass %d: flag %d is not a literal bool", i, k)
				}
				p.flags[k] = id.Name == "true"
			}
			passes = append(passes, p)
		}
		if len(passes) == 0 {
			failShape("replaceSequencesInternal: no replacement pass found")
		}
		// every regex of the recognised shape must be used by exactly one pass (worker has another shape)
		used := map[string]bool{}
		for _, p := range passes {
			if used[p.kw] {
				failShape("keyword %s is replaced by two passes", p.kw)
			}
			used[p.kw] = true
		}
		for name, re := range regexes {
			if m := shape.FindStringSubmatch(re); m != nil && !used[m[1]] {
				failShape("regex %s (%s) is not used by replaceSequencesInternal", name, m[1])
			}
		}
		if i+2 != len(stmts) {
			failShape("replaceSequencesInternal: expected `if Bazel.Compatibility {...}; return ...` after the passes")
		}
		ifs, ok := stmts[i].(*ast.IfStmt)
		if !ok || ifs.Else != nil || ifs.Init != nil {
			failShape("replaceSequencesInternal: statement after the passes is not the Bazel compatibility block")
		}
		if se, ok := ifs.Cond.(*ast.SelectorExpr); !ok || se.Sel.Name != "Compatibility" {
			failShape("replaceSequencesInternal: condition after the passes is not state.Config.Bazel.Compatibility")
		}
		ret, ok := stmts[i+1].(*ast.ReturnStmt)
		if !ok || len(ret.Results) != 2 {
			failShape("replaceSequencesInternal: last statement is not `return X, nil`")
		}
		from, to := replaceAllLits(ret.Results[0], "cmd", "replaceSequencesInternal return")

		// quote
		q := findFunc(f, "", "quote")
		if len(q.Body.List) != 2 {
			failShape("quote: body is not `if ContainsAny {return} return s`")
		}
		qif, ok := q.Body.List[0].(*ast.IfStmt)
		if !ok || qif.Else != nil || len(qif.Body.List) != 1 {
			failShape("quote: first statement is not a plain if")
		}
		qc, ok := qif.Cond.(*ast.CallExpr)
		if !ok || len(qc.Args) != 2 {
			failShape("quote: condition is not a call")
		}
		if se, ok := qc.Fun.(*ast.SelectorExpr); !ok || se.Sel.Name != "ContainsAny" {
			failShape("quote: condition is not strings.ContainsAny")
		}
		if id, ok := qc.Args[0].(*ast.Ident); !ok || id.Name != "s" {
			failShape("quote: ContainsAny is not applied to s")
		}
		qset, ok := qc.Args[1].(*ast.BasicLit)
		if !ok {
			failShape("quote: character set is not a literal")
		}
		qret, ok := qif.Body.List[0].(*ast.ReturnStmt)
		if !ok || len(qret.Results) != 1 {
			failShape("quote: if body is not a return")
		}
		// "\"" + s + "\""
		outer, ok := qret.Results[0].(*ast.BinaryExpr)
		if !ok || outer.Op != token.ADD {
			failShape("quote: return is not a concatenation")
		}
		inner, ok := outer.X.(*ast.BinaryExpr)
		if !ok || inner.Op != token.ADD {
			failShape("quote: return is not `lit + s + lit`")
		}
		l1, ok1 := inner.X.(*ast.BasicLit)
		mid, ok2 := inner.Y.(*ast.Ident)
		l2, ok3 := outer.Y.(*ast.BasicLit)
		if !ok1 || !ok2 || !ok3 || mid.Name != "s" || unquote(l1) != `"` || unquote(l2) != `"` {
			failShape("quote: return is not `\"\\\"\" + s + \"\\\"\"`")
		}
		if r2, ok := q.Body.List[1].(*ast.ReturnStmt); !ok || len(r2.Results) != 1 {
			failShape("quote: last statement is not `return s`")
		} else if id, ok := r2.Results[0].(*ast.Ident); !ok || id.Name != "s" {
			failShape("quote: last statement is not `return s`")
		}

		// splitEntryPoint: strings.Contains(label, SEP) / strings.Split(label, SEP)
		sp := findFunc(f, "", "splitEntryPoint")
		seps := []string{}
		ast.Inspect(sp.Body, func(n ast.Node) bool {
			if c, ok := n.(*ast.CallExpr); ok {
				if se, ok := c.Fun.(*ast.SelectorExpr); ok && (se.Sel.Name == "Contains" || se.Sel.Name == "Split") && len(c.Args) == 2 {
					if bl, ok := c.Args[1].(*ast.BasicLit); ok {
						seps = append(seps, unquote(bl))
					} else {
						failShape("splitEntryPoint: separator is not a literal")
					}
				}
			}
			return true
		})
		if len(seps) != 2 || seps[0] != seps[1] || len(seps[0]) != 1 {
			failShape("splitEntryPoint: expected Contains and Split on one single-character separator, found %q", seps)
		}

		lookups := c37LabelLookups(f)
		writes, outSep := c37OutputLoop(f)

		var b strings.Builder
		b.WriteString(genHeader)
		b.WriteString("(* property C37: tables of src/core/command_replacements.go; see harness/cmd/gotrans/c37cmdrepl.go *)\n")
		b.WriteString("Definition quote_chars : string := " + coqString(unquote(qset)) + ".\n")
		b.WriteString("Definition entry_point_sep : string := " + coqString(seps[0]) + ".\n")
		b.WriteString("Definition unescape_from : string := " + coqString(from) + ".\n")
		b.WriteString("Definition unescape_to : string := " + coqString(to) + ".\n")
		b.WriteString("(* keyword, offset N of in[N:len(in)-1], (runnable, multiple, dir, outPrefix, hash); in pass order *)\n")
		b.WriteString("Definition passes : list (string * nat * (bool * bool * bool * bool * bool)) := [\n")
		for k, p := range passes {
			sep := ";"
			if k == len(passes)-1 {
				sep = ""
			}
			fmt.Fprintf(&b, "  (%s, %d%%nat, (%v, %v, %v, %v, %v))%s\n", coqString(p.kw), p.off, p.flags[0], p.flags[1], p.flags[2], p.flags[3], p.flags[4], sep)
		}
		b.WriteString("].\n")
		b.WriteString("(* replaceSequenceLabel: the keys handed to target.DependenciesFor, in order, before `doesn't depend on target` *)\n")
		b.WriteString("Inductive lookup_step := LookupExact | LookupStripSubrepo.\n")
		b.WriteString("Definition dep_lookup : list lookup_step := [" + strings.Join(lookups, "; ") + "].\n")
		b.WriteString("(* checkAndReplaceSequence, the loop over dep.Outputs(): what is written to the builder per selected output *)\n")
		b.WriteString("Definition out_loop_writes : list string := " + coqStringList(writes) + ".\n")
		b.WriteString("Definition out_loop_sep : string := " + coqString(outSep) + ".\n")
		return b.String()
	}
}

// replaceAllLits recognises strings.ReplaceAll(<ident>, "lit", "lit").
func replaceAllLits(e ast.Expr, ident, where string) (string, string) {
	c, ok := e.(*ast.CallExpr)
	if !ok || len(c.Args) != 3 {
		failShape("%s: not a three-argument call", where)
	}
	if se, ok := c.Fun.(*ast.SelectorExpr); !ok || se.Sel.Name != "ReplaceAll" {
		failShape("%s: not strings.ReplaceAll", where)
	}
	if id, ok := c.Args[0].(*ast.Ident); !ok || id.Name != ident {
		failShape("%s: ReplaceAll is not applied to %s", where, ident)
	}
	a, ok1 := c.Args[1].(*ast.BasicLit)
	b, ok2 := c.Args[2].(*ast.BasicLit)
	if !ok1 || !ok2 {
		failShape("%s: ReplaceAll arguments are not literals", where)
	}
	return unquote(a), unquote(b)
}

// c37LabelLookups recognises replaceSequenceLabel:
//
//	if label == target.Label { return checkAndReplaceSequence(state, target, target, ..., false) }
//	deps := target.DependenciesFor(label)
//	[ if len(deps) == 0 && label.Subrepo != "" { label.Subrepo = ""; deps = target.DependenciesFor(label) } ]*
//	if len(deps) == 0 { panic(...) }
//	return checkAndReplaceSequence(state, target, deps[0], ..., target.IsTool(label))
func c37LabelLookups(f *ast.File) []string {
	fd := findFunc(f, "", "replaceSequenceLabel")
	st := fd.Body.List
	if len(st) < 4 {
		failShape("replaceSequenceLabel: too few statements")
	}
	self, ok := st[0].(*ast.IfStmt)
	if !ok || self.Init != nil || self.Else != nil || types.ExprString(self.Cond) != "label == target.Label" || len(self.Body.List) != 1 {
		failShape("replaceSequenceLabel: first statement is not `if label == target.Label { return ... }`")
	}
	if r, ok := self.Body.List[0].(*ast.ReturnStmt); !ok || len(r.Results) != 1 ||
		!strings.HasPrefix(types.ExprString(r.Results[0]), "checkAndReplaceSequence(state, target, target, ") ||
		!strings.HasSuffix(types.ExprString(r.Results[0]), ", allOutputs, false)") {
		failShape("replaceSequenceLabel: the self case does not return checkAndReplaceSequence(state, target, target, ..., false)")
	}
	as, ok := st[1].(*ast.AssignStmt)
	if !ok || as.Tok != token.DEFINE || len(as.Lhs) != 1 || len(as.Rhs) != 1 || types.ExprString(as.Lhs[0]) != "deps" ||
		types.ExprString(as.Rhs[0]) != "target.DependenciesFor(label)" {
		failShape("replaceSequenceLabel: second statement is not `deps := target.DependenciesFor(label)`")
	}
	lookups := []string{"LookupExact"}
	i := 2
	for ; i < len(st)-2; i++ {
		retry, ok := st[i].(*ast.IfStmt)
		if !ok || retry.Init != nil || retry.Else != nil || len(retry.Body.List) != 2 {
			failShape("replaceSequenceLabel: statement %d is not a recognised retry block", i)
		}
		if c := types.ExprString(retry.Cond); c != `len(deps) == 0 && label.Subrepo != ""` {
			failShape("replaceSequenceLabel: retry condition %q is not `len(deps) == 0 && label.Subrepo != \"\"`", c)
		}
		a1, ok1 := retry.Body.List[0].(*ast.AssignStmt)
		a2, ok2 := retry.Body.List[1].(*ast.AssignStmt)
		if !ok1 || !ok2 || a1.Tok != token.ASSIGN || a2.Tok != token.ASSIGN || len(a1.Lhs) != 1 || len(a2.Lhs) != 1 ||
			types.ExprString(a1.Lhs[0]) != "label.Subrepo" || types.ExprString(a1.Rhs[0]) != `""` ||
			types.ExprString(a2.Lhs[0]) != "deps" || types.ExprString(a2.Rhs[0]) != "target.DependenciesFor(label)" {
			failShape("replaceSequenceLabel: retry block %d is not `label.Subrepo = \"\"; deps = target.DependenciesFor(label)`", i)
		}
		lookups = append(lookups, "LookupStripSubrepo")
	}
	miss, ok := st[i].(*ast.IfStmt)
	if !ok || miss.Init != nil || miss.Else != nil || types.ExprString(miss.Cond) != "len(deps) == 0" || len(miss.Body.List) != 1 {
		failShape("replaceSequenceLabel: no `if len(deps) == 0 { panic(...) }` before the final return")
	}
	if es, ok := miss.Body.List[0].(*ast.ExprStmt); !ok || !strings.HasPrefix(types.ExprString(es.X), "panic(") {
		failShape("replaceSequenceLabel: a label that is not a dependency does not panic")
	}
	ret, ok := st[i+1].(*ast.ReturnStmt)
	if !ok || len(ret.Results) != 1 ||
		!strings.HasPrefix(types.ExprString(ret.Results[0]), "checkAndReplaceSequence(state, target, deps[0], ") ||
		!strings.HasSuffix(types.ExprString(ret.Results[0]), ", allOutputs, target.IsTool(label))") {
		failShape("replaceSequenceLabel: last statement is not `return checkAndReplaceSequence(state, target, deps[0], ..., target.IsTool(label))`")
	}
	return lookups
}

// c37OutputLoop recognises, in checkAndReplaceSequence, that the only things written to outputBuilder are quote(<one
// path>) and one literal separator, that strings.Join is not used, and that the loop's result is
// strings.TrimRight(outputBuilder.String(), <the separator>). Returns the writes in source order and the separator.
func c37OutputLoop(f *ast.File) ([]string, string) {
	fd := findFunc(f, "", "checkAndReplaceSequence")
	writes, seps, trims := []string{}, []string{}, []string{}
	ast.Inspect(fd.Body, func(n ast.Node) bool {
		c, ok := n.(*ast.CallExpr)
		if !ok {
			return true
		}
		switch fn := types.ExprString(c.Fun); {
		case fn == "strings.Join":
			failShape("checkAndReplaceSequence: strings.Join is used (paths must be quoted one by one)")
		case fn == "outputBuilder.WriteString":
			if len(c.Args) != 1 {
				failShape("checkAndReplaceSequence: WriteString with %d arguments", len(c.Args))
			}
			switch a := c.Args[0].(type) {
			case *ast.BasicLit:
				writes = append(writes, "sep")
				seps = append(seps, unquote(a))
			case *ast.CallExpr:
				if types.ExprString(a.Fun) != "quote" || len(a.Args) != 1 {
					failShape("checkAndReplaceSequence: the builder is given %s, not quote(path)", types.ExprString(a))
				}
				arg := types.ExprString(a.Args[0])
				if arg != "abs" && !strings.HasPrefix(arg, "fileDestination(") {
					failShape("checkAndReplaceSequence: quote is applied to %s, not to one path", arg)
				}
				writes = append(writes, "quote")
			default:
				failShape("checkAndReplaceSequence: the builder is given %s", types.ExprString(c.Args[0]))
			}
		case fn == "strings.TrimRight":
			if len(c.Args) != 2 || types.ExprString(c.Args[0]) != "outputBuilder.String()" {
				failShape("checkAndReplaceSequence: TrimRight is not applied to outputBuilder.String()")
			}
			bl, ok := c.Args[1].(*ast.BasicLit)
			if !ok {
				failShape("checkAndReplaceSequence: TrimRight cutset is not a literal")
			}
			trims = append(trims, unquote(bl))
		case strings.HasPrefix(fn, "outputBuilder.") && fn != "outputBuilder.String":
			failShape("checkAndReplaceSequence: unrecognised use of the builder: %s", fn)
		}
		return true
	})
	if strings.Join(writes, ",") != "quote,quote,sep" || len(seps) != 1 || len(trims) != 1 || seps[0] != trims[0] || len(seps[0]) != 1 {
		failShape("checkAndReplaceSequence: output loop writes %q with separators %q trimmed by %q; expected quote(abs) | quote(fileDestination), then one separator, trimmed at the end", writes, seps, trims)
	}
	// the loop's value must be returned: some return statement is the TrimRight call
	found := false
	ast.Inspect(fd.Body, func(n ast.Node) bool {
		if r, ok := n.(*ast.ReturnStmt); ok && len(r.Results) == 1 && strings.HasPrefix(types.ExprString(r.Results[0]), "strings.TrimRight(outputBuilder.String(), ") {
			found = true
		}
		return true
	})
	if !found {
		failShape("checkAndReplaceSequence: the builder is not what the output loop returns")
	}
	return writes, seps[0]
}
