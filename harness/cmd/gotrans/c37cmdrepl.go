package main

import (
	"bytes"
	"fmt"
	"go/ast"
	"go/printer"
	"go/token"
	"go/types"
	"regexp"
	"strings"
)

// CmdReplTables (property C37): from src/core/command_replacements.go
//   - the character set `quote` reacts to,
//   - the separator of splitEntryPoint,
//   - the ordered list of replacement passes of replaceSequencesInternal: keyword of the regular expression
//     (which must have the shape \$\(KW ([^\)]+)\)), the slice offset in[N:len(in)-1] and the five literal flags
//     (runnable, multiple, dir, outPrefix, hash) handed to replaceSequence,
//   - the final strings.ReplaceAll(cmd, from, to),
//   - the dependency lookups of replaceSequenceLabel, in order (dep_lookup): the exact label handed to
//     target.DependenciesFor, then any retry block `if len(deps) == 0 && label.Subrepo != "" { label.Subrepo = "";
//     deps = target.DependenciesFor(label) }` (none in the code as it stands; the model follows whatever is listed and
//     the theorem "only the exact label, subrepo included, expands" needs the list to be [LookupExact]),
//   - the guards of BuildTarget.provideFor (src/core/build_target.go), in order (provide_guards): the `if <cond> { return
//     nil, false }` statements between the nil/empty test and the loop over other.Requires, each translated to
//     GuardData (target.isDataFor(other)) or GuardTool (other.IsTool(target.Label)); the model's dependency resolution
//     runs whatever is listed, and "a tool label resolves to the tool itself" needs GuardTool to be in the list,
//   - workerAndArgs as a straight-line program (worker_steps) over an error variable: WExpand slot part (`x, err :=
//     replaceSequencesInternal(state, target, <part>, false)`), WCheck (`if err != nil { return "", "", "", err }`),
//     WWorker (the replaceWorkerSequence call, with its literal flags) and WReturn args local with_err; the model
//     interprets the program and "an accepted worker command has both halves expanded" needs every WExpand to be
//     checked before err is assigned again or dropped; the worker regular expression and the prefix test of
//     ReplaceTestSequences are emitted as strings and pinned by the proofs,
//   - the writes of the output loop of checkAndReplaceSequence (out_loop_writes): every path goes through quote()
//     on its own, followed by the separator; the result is TrimRight(builder, separator).
// Anything that does not have exactly the recognised shape fails closed.
func init() {
	targets["CmdReplTables"] = func() string {
		_, f := parseFile("src/core/command_replacements.go")

		// package-level `var xReplacement = deferredregex.DeferredRegex{Re: `...`}`
		regexes := map[string]string{}
		for _, d := range f.Decls {
			gd, ok := d.(*ast.GenDecl)
			if !ok || gd.Tok != token.VAR {
				continue
			}
			for _, s := range gd.Specs {
				vs := s.(*ast.ValueSpec)
				if len(vs.Names) != 1 || len(vs.Values) != 1 {
					continue
				}
				cl, ok := vs.Values[0].(*ast.CompositeLit)
				if !ok {
					continue
				}
				se, ok := cl.Type.(*ast.SelectorExpr)
				if !ok || se.Sel.Name != "DeferredRegex" || len(cl.Elts) != 1 {
					continue
				}
				kv, ok := cl.Elts[0].(*ast.KeyValueExpr)
				if !ok {
					failShape("regex %s: not a keyed literal", vs.Names[0].Name)
				}
				if k, ok := kv.Key.(*ast.Ident); !ok || k.Name != "Re" {
					failShape("regex %s: key is not Re", vs.Names[0].Name)
				}
				bl, ok := kv.Value.(*ast.BasicLit)
				if !ok {
					failShape("regex %s: value is not a literal", vs.Names[0].Name)
				}
				regexes[vs.Names[0].Name] = unquote(bl)
			}
		}
		shape := regexp.MustCompile(`^\\\$\\\(([a-z_]+) \(\[\^\\\)\]\+\)\\\)$`)

		// replaceSequencesInternal: defer; cmd = X.ReplaceAllStringFunc(...) ...; if bazel {...}; return ReplaceAll(cmd, a, b), nil
		fd := findFunc(f, "", "replaceSequencesInternal")
		stmts := fd.Body.List
		if len(stmts) < 4 {
			failShape("replaceSequencesInternal: too few statements")
		}
		if _, ok := stmts[0].(*ast.DeferStmt); !ok {
			failShape("replaceSequencesInternal: first statement is not the recover defer")
		}
		type pass struct {
			kw    string
			off   int
			flags [5]bool
		}
		var passes []pass
		i := 1
		for ; i < len(stmts); i++ {
			as, ok := stmts[i].(*ast.AssignStmt)
			if !ok {
				break
			}
			if len(as.Lhs) != 1 || len(as.Rhs) != 1 || as.Tok != token.ASSIGN {
				failShape("replaceSequencesInternal: statement %d is not `cmd = ...`", i)
			}
			if id, ok := as.Lhs[0].(*ast.Ident); !ok || id.Name != "cmd" {
				failShape("replaceSequencesInternal: statement %d does not assign cmd", i)
			}
			call, ok := as.Rhs[0].(*ast.CallExpr)
			if !ok || len(call.Args) != 2 {
				failShape("replaceSequencesInternal: statement %d is not a two-argument call", i)
			}
			sel, ok := call.Fun.(*ast.SelectorExpr)
			if !ok || sel.Sel.Name != "ReplaceAllStringFunc" {
				failShape("replaceSequencesInternal: statement %d is not ReplaceAllStringFunc", i)
			}
			rv, ok := sel.X.(*ast.Ident)
			if !ok {
				failShape("replaceSequencesInternal: statement %d: receiver is not a variable", i)
			}
			re, ok := regexes[rv.Name]
			if !ok {
				failShape("replaceSequencesInternal: unknown regex variable %s", rv.Name)
			}
			m := shape.FindStringSubmatch(re)
			if m == nil {
				failShape("regex %s = %q does not have the shape \\$\\(KW ([^\\)]+)\\)", rv.Name, re)
			}
			want := "cmd"
			if i == 1 {
				want = "command"
			}
			if id, ok := call.Args[0].(*ast.Ident); !ok || id.Name != want {
				failShape("replaceSequencesInternal: pass %d does not scan %s", i, want)
			}
			fl, ok := call.Args[1].(*ast.FuncLit)
			if !ok || len(fl.Body.List) != 1 {
				failShape("replaceSequencesInternal: pass %d: callback is not a one-statement function literal", i)
			}
			if len(fl.Type.Params.List) != 1 || len(fl.Type.Params.List[0].Names) != 1 || fl.Type.Params.List[0].Names[0].Name != "in" {
				failShape("replaceSequencesInternal: pass %d: callback parameter is not `in`", i)
			}
			ret, ok := fl.Body.List[0].(*ast.ReturnStmt)
			if !ok || len(ret.Results) != 1 {
				failShape("replaceSequencesInternal: pass %d: callback is not a single return", i)
			}
			rc, ok := ret.Results[0].(*ast.CallExpr)
			if !ok || len(rc.Args) != 9 {
				failShape("replaceSequencesInternal: pass %d: callback does not call replaceSequence with 9 arguments", i)
			}
			if id, ok := rc.Fun.(*ast.Ident); !ok || id.Name != "replaceSequence" {
				failShape("replaceSequencesInternal: pass %d: callback does not call replaceSequence", i)
			}
			for k, name := range []string{"state", "target"} {
				if id, ok := rc.Args[k].(*ast.Ident); !ok || id.Name != name {
					failShape("replaceSequencesInternal: pass %d: argument %d is not %s", i, k, name)
				}
			}
			if id, ok := rc.Args[8].(*ast.Ident); !ok || id.Name != "test" {
				failShape("replaceSequencesInternal: pass %d: last argument is not test", i)
			}
			// in[N:len(in)-1]
			sl, ok := rc.Args[2].(*ast.SliceExpr)
			if !ok || sl.Slice3 {
				failShape("replaceSequencesInternal: pass %d: argument is not a slice of in", i)
			}
			if id, ok := sl.X.(*ast.Ident); !ok || id.Name != "in" {
				failShape("replaceSequencesInternal: pass %d: slice is not of in", i)
			}
			lo, ok := sl.Low.(*ast.BasicLit)
			if !ok || lo.Kind != token.INT {
				failShape("replaceSequencesInternal: pass %d: slice offset is not an integer literal", i)
			}
			hi, ok := sl.High.(*ast.BinaryExpr)
			if !ok || hi.Op != token.SUB {
				failShape("replaceSequencesInternal: pass %d: slice end is not len(in)-1", i)
			}
			if one, ok := hi.Y.(*ast.BasicLit); !ok || one.Value != "1" {
				failShape("replaceSequencesInternal: pass %d: slice end is not len(in)-1", i)
			}
			if lc, ok := hi.X.(*ast.CallExpr); !ok || len(lc.Args) != 1 {
				failShape("replaceSequencesInternal: pass %d: slice end is not len(in)-1", i)
			} else if id, ok := lc.Fun.(*ast.Ident); !ok || id.Name != "len" {
				failShape("replaceSequencesInternal: pass %d: slice end is not len(in)-1", i)
			} else if id, ok := lc.Args[0].(*ast.Ident); !ok || id.Name != "in" {
				failShape("replaceSequencesInternal: pass %d: slice end is not len(in)-1", i)
			}
			var off int
			fmt.Sscanf(lo.Value, "%d", &off)
			p := pass{kw: m[1], off: off}
			for k := 0; k < 5; k++ {
				id, ok := rc.Args[3+k].(*ast.Ident)
				if !ok || (id.Name != "true" && id.Name != "false") {
					failShape("replaceSequencesInternal: pass %d: flag %d is not a literal bool", i, k)
				}
				p.flags[k] = id.Name == "true"
			}
			passes = append(passes, p)
		}
		if len(passes) == 0 {
			failShape("replaceSequencesInternal: no replacement pass found")
		}
		// every regex of the recognised shape must be used by exactly one pass (worker has another shape)
		used := map[string]bool{}
		for _, p := range passes {
			if used[p.kw] {
				failShape("keyword %s is replaced by two passes", p.kw)
			}
			used[p.kw] = true
		}
		for name, re := range regexes {
			if m := shape.FindStringSubmatch(re); m != nil && !used[m[1]] {
				failShape("regex %s (%s) is not used by replaceSequencesInternal", name, m[1])
			}
		}
		if i+2 != len(stmts) {
			failShape("replaceSequencesInternal: expected `if Bazel.Compatibility {...}; return ...` after the passes")
		}
		ifs, ok := stmts[i].(*ast.IfStmt)
		if !ok || ifs.Else != nil || ifs.Init != nil {
			failShape("replaceSequencesInternal: statement after the passes is not the Bazel compatibility block")
		}
		if se, ok := ifs.Cond.(*ast.SelectorExpr); !ok || se.Sel.Name != "Compatibility" {
			failShape("replaceSequencesInternal: condition after the passes is not state.Config.Bazel.Compatibility")
		}
		ret, ok := stmts[i+1].(*ast.ReturnStmt)
		if !ok || len(ret.Results) != 2 {
			failShape("replaceSequencesInternal: last statement is not `return X, nil`")
		}
		from, to := replaceAllLits(ret.Results[0], "cmd", "replaceSequencesInternal return")

		// quote
		q := findFunc(f, "", "quote")
		if len(q.Body.List) != 2 {
			failShape("quote: body is not `if ContainsAny {return} return s`")
		}
		qif, ok := q.Body.List[0].(*ast.IfStmt)
		if !ok || qif.Else != nil || len(qif.Body.List) != 1 {
			failShape("quote: first statement is not a plain if")
		}
		qc, ok := qif.Cond.(*ast.CallExpr)
		if !ok || len(qc.Args) != 2 {
			failShape("quote: condition is not a call")
		}
		if se, ok := qc.Fun.(*ast.SelectorExpr); !ok || se.Sel.Name != "ContainsAny" {
			failShape("quote: condition is not strings.ContainsAny")
		}
		if id, ok := qc.Args[0].(*ast.Ident); !ok || id.Name != "s" {
			failShape("quote: ContainsAny is not applied to s")
		}
		qset, ok := qc.Args[1].(*ast.BasicLit)
		if !ok {
			failShape("quote: character set is not a literal")
		}
		qret, ok := qif.Body.List[0].(*ast.ReturnStmt)
		if !ok || len(qret.Results) != 1 {
			failShape("quote: if body is not a return")
		}
		// "\"" + s + "\""
		outer, ok := qret.Results[0].(*ast.BinaryExpr)
		if !ok || outer.Op != token.ADD {
			failShape("quote: return is not a concatenation")
		}
		inner, ok := outer.X.(*ast.BinaryExpr)
		if !ok || inner.Op != token.ADD {
			failShape("quote: return is not `lit + s + lit`")
		}
		l1, ok1 := inner.X.(*ast.BasicLit)
		mid, ok2 := inner.Y.(*ast.Ident)
		l2, ok3 := outer.Y.(*ast.BasicLit)
		if !ok1 || !ok2 || !ok3 || mid.Name != "s" || unquote(l1) != `"` || unquote(l2) != `"` {
			failShape("quote: return is not `\"\\\"\" + s + \"\\\"\"`")
		}
		if r2, ok := q.Body.List[1].(*ast.ReturnStmt); !ok || len(r2.Results) != 1 {
			failShape("quote: last statement is not `return s`")
		} else if id, ok := r2.Results[0].(*ast.Ident); !ok || id.Name != "s" {
			failShape("quote: last statement is not `return s`")
		}

		// splitEntryPoint: strings.Contains(label, SEP) / strings.Split(label, SEP)
		sp := findFunc(f, "", "splitEntryPoint")
		seps := []string{}
		ast.Inspect(sp.Body, func(n ast.Node) bool {
			if c, ok := n.(*ast.CallExpr); ok {
				if se, ok := c.Fun.(*ast.SelectorExpr); ok && (se.Sel.Name == "Contains" || se.Sel.Name == "Split") && len(c.Args) == 2 {
					if bl, ok := c.Args[1].(*ast.BasicLit); ok {
						seps = append(seps, unquote(bl))
					} else {
						failShape("splitEntryPoint: separator is not a literal")
					}
				}
			}
			return true
		})
		if len(seps) != 2 || seps[0] != seps[1] || len(seps[0]) != 1 {
			failShape("splitEntryPoint: expected Contains and Split on one single-character separator, found %q", seps)
		}

		lookups := c37LabelLookups(f)
		writes, outSep := c37OutputLoop(f)

		var b strings.Builder
		b.WriteString(genHeader)
		b.WriteString("(* property C37: tables of src/core/command_replacements.go; see harness/cmd/gotrans/c37cmdrepl.go *)\n")
		b.WriteString("Definition quote_chars : string := " + coqString(unquote(qset)) + ".\n")
		b.WriteString("Definition entry_point_sep : string := " + coqString(seps[0]) + ".\n")
		b.WriteString("Definition unescape_from : string := " + coqString(from) + ".\n")
		b.WriteString("Definition unescape_to : string := " + coqString(to) + ".\n")
		b.WriteString("(* keyword, offset N of in[N:len(in)-1], (runnable, multiple, dir, outPrefix, hash); in pass order *)\n")
		b.WriteString("Definition passes : list (string * nat * (bool * bool * bool * bool * bool)) := [\n")
		for k, p := range passes {
			sep := ";"
			if k == len(passes)-1 {
				sep = ""
			}
			fmt.Fprintf(&b, "  (%s, %d%%nat, (%v, %v, %v, %v, %v))%s\n", coqString(p.kw), p.off, p.flags[0], p.flags[1], p.flags[2], p.flags[3], p.flags[4], sep)
		}
		b.WriteString("].\n")
		b.WriteString("(* replaceSequenceLabel: the keys handed to target.DependenciesFor, in order, before `doesn't depend on target` *)\n")
		b.WriteString("Inductive lookup_step := LookupExact | LookupStripSubrepo.\n")
		b.WriteString("Definition dep_lookup : list lookup_step := [" + strings.Join(lookups, "; ") + "].\n")
		b.WriteString("(* checkAndReplaceSequence, the loop over dep.Outputs(): what is written to the builder per selected output *)\n")
		b.WriteString("Definition out_loop_writes : list string := " + coqStringList(writes) + ".\n")
		b.WriteString("Definition out_loop_sep : string := " + coqString(outSep) + ".\n")
		b.WriteString(c37ProvideGuards())
		b.WriteString(c37WorkerSteps(f, regexes))
		return b.String()
	}
}

// replaceAllLits recognises strings.ReplaceAll(<ident>, "lit", "lit").
func replaceAllLits(e ast.Expr, ident, where string) (string, string) {
	c, ok := e.(*ast.CallExpr)
	if !ok || len(c.Args) != 3 {
		failShape("%s: not a three-argument call", where)
	}
	if se, ok := c.Fun.(*ast.SelectorExpr); !ok || se.Sel.Name != "ReplaceAll" {
		failShape("%s: not strings.ReplaceAll", where)
	}
	if id, ok := c.Args[0].(*ast.Ident); !ok || id.Name != ident {
		failShape("%s: ReplaceAll is not applied to %s", where, ident)
	}
	a, ok1 := c.Args[1].(*ast.BasicLit)
	b, ok2 := c.Args[2].(*ast.BasicLit)
	if !ok1 || !ok2 {
		failShape("%s: ReplaceAll arguments are not literals", where)
	}
	return unquote(a), unquote(b)
}

// c37LabelLookups recognises replaceSequenceLabel:
//
//	if label == target.Label { return checkAndReplaceSequence(state, target, target, ..., false) }
//	deps := target.DependenciesFor(label)
//	[ if len(deps) == 0 && label.Subrepo != "" { label.Subrepo = ""; deps = target.DependenciesFor(label) } ]*
//	if len(deps) == 0 { panic(...) }
//	return checkAndReplaceSequence(state, target, deps[0], ..., target.IsTool(label))
func c37LabelLookups(f *ast.File) []string {
	fd := findFunc(f, "", "replaceSequenceLabel")
	st := fd.Body.List
	if len(st) < 4 {
		failShape("replaceSequenceLabel: too few statements")
	}
	self, ok := st[0].(*ast.IfStmt)
	if !ok || self.Init != nil || self.Else != nil || types.ExprString(self.Cond) != "label == target.Label" || len(self.Body.List) != 1 {
		failShape("replaceSequenceLabel: first statement is not `if label == target.Label { return ... }`")
	}
	if r, ok := self.Body.List[0].(*ast.ReturnStmt); !ok || len(r.Results) != 1 ||
		!strings.HasPrefix(types.ExprString(r.Results[0]), "checkAndReplaceSequence(state, target, target, ") ||
		!strings.HasSuffix(types.ExprString(r.Results[0]), ", allOutputs, false)") {
		failShape("replaceSequenceLabel: the self case does not return checkAndReplaceSequence(state, target, target, ..., false)")
	}
	as, ok := st[1].(*ast.AssignStmt)
	if !ok || as.Tok != token.DEFINE || len(as.Lhs) != 1 || len(as.Rhs) != 1 || types.ExprString(as.Lhs[0]) != "deps" ||
		types.ExprString(as.Rhs[0]) != "target.DependenciesFor(label)" {
		failShape("replaceSequenceLabel: second statement is not `deps := target.DependenciesFor(label)`")
	}
	lookups := []string{"LookupExact"}
	i := 2
	for ; i < len(st)-2; i++ {
		retry, ok := st[i].(*ast.IfStmt)
		if !ok || retry.Init != nil || retry.Else != nil || len(retry.Body.List) != 2 {
			failShape("replaceSequenceLabel: statement %d is not a recognised retry block", i)
		}
		if c := types.ExprString(retry.Cond); c != `len(deps) == 0 && label.Subrepo != ""` {
			failShape("replaceSequenceLabel: retry condition %q is not `len(deps) == 0 && label.Subrepo != \"\"`", c)
		}
		a1, ok1 := retry.Body.List[0].(*ast.AssignStmt)
		a2, ok2 := retry.Body.List[1].(*ast.AssignStmt)
		if !ok1 || !ok2 || a1.Tok != token.ASSIGN || a2.Tok != token.ASSIGN || len(a1.Lhs) != 1 || len(a2.Lhs) != 1 ||
			types.ExprString(a1.Lhs[0]) != "label.Subrepo" || types.ExprString(a1.Rhs[0]) != `""` ||
			types.ExprString(a2.Lhs[0]) != "deps" || types.ExprString(a2.Rhs[0]) != "target.DependenciesFor(label)" {
			failShape("replaceSequenceLabel: retry block %d is not `label.Subrepo = \"\"; deps = target.DependenciesFor(label)`", i)
		}
		lookups = append(lookups, "LookupStripSubrepo")
	}
	miss, ok := st[i].(*ast.IfStmt)
	if !ok || miss.Init != nil || miss.Else != nil || types.ExprString(miss.Cond) != "len(deps) == 0" || len(miss.Body.List) != 1 {
		failShape("replaceSequenceLabel: no `if len(deps) == 0 { panic(...) }` before the final return")
	}
	if es, ok := miss.Body.List[0].(*ast.ExprStmt); !ok || !strings.HasPrefix(types.ExprString(es.X), "panic(") {
		failShape("replaceSequenceLabel: a label that is not a dependency does not panic")
	}
	ret, ok := st[i+1].(*ast.ReturnStmt)
	if !ok || len(ret.Results) != 1 ||
		!strings.HasPrefix(types.ExprString(ret.Results[0]), "checkAndReplaceSequence(state, target, deps[0], ") ||
		!strings.HasSuffix(types.ExprString(ret.Results[0]), ", allOutputs, target.IsTool(label))") {
		failShape("replaceSequenceLabel: last statement is not `return checkAndReplaceSequence(state, target, deps[0], ..., target.IsTool(label))`")
	}
	return lookups
}

// c37OutputLoop recognises, in checkAndReplaceSequence, that the only things written to outputBuilder are quote(<one
// path>) and one literal separator, that strings.Join is not used, and that the loop's result is
// strings.TrimRight(outputBuilder.String(), <the separator>). Returns the writes in source order and the separator.
func c37OutputLoop(f *ast.File) ([]string, string) {
	fd := findFunc(f, "", "checkAndReplaceSequence")
	writes, seps, trims := []string{}, []string{}, []string{}
	ast.Inspect(fd.Body, func(n ast.Node) bool {
		c, ok := n.(*ast.CallExpr)
		if !ok {
			return true
		}
		switch fn := types.ExprString(c.Fun); {
		case fn == "strings.Join":
			failShape("checkAndReplaceSequence: strings.Join is used (paths must be quoted one by one)")
		case fn == "outputBuilder.WriteString":
			if len(c.Args) != 1 {
				failShape("checkAndReplaceSequence: WriteString with %d arguments", len(c.Args))
			}
			switch a := c.Args[0].(type) {
			case *ast.BasicLit:
				writes = append(writes, "sep")
				seps = append(seps, unquote(a))
			case *ast.CallExpr:
				if types.ExprString(a.Fun) != "quote" || len(a.Args) != 1 {
					failShape("checkAndReplaceSequence: the builder is given %s, not quote(path)", types.ExprString(a))
				}
				arg := types.ExprString(a.Args[0])
				if arg != "abs" && !strings.HasPrefix(arg, "fileDestination(") {
					failShape("checkAndReplaceSequence: quote is applied to %s, not to one path", arg)
				}
				writes = append(writes, "quote")
			default:
				failShape("checkAndReplaceSequence: the builder is given %s", types.ExprString(c.Args[0]))
			}
		case fn == "strings.TrimRight":
			if len(c.Args) != 2 || types.ExprString(c.Args[0]) != "outputBuilder.String()" {
				failShape("checkAndReplaceSequence: TrimRight is not applied to outputBuilder.String()")
			}
			bl, ok := c.Args[1].(*ast.BasicLit)
			if !ok {
				failShape("checkAndReplaceSequence: TrimRight cutset is not a literal")
			}
			trims = append(trims, unquote(bl))
		case strings.HasPrefix(fn, "outputBuilder.") && fn != "outputBuilder.String":
			failShape("checkAndReplaceSequence: unrecognised use of the builder: %s", fn)
		}
		return true
	})
	if strings.Join(writes, ",") != "quote,quote,sep" || len(seps) != 1 || len(trims) != 1 || seps[0] != trims[0] || len(seps[0]) != 1 {
		failShape("checkAndReplaceSequence: output loop writes %q with separators %q trimmed by %q; expected quote(abs) | quote(fileDestination), then one separator, trimmed at the end", writes, seps, trims)
	}
	// the loop's value must be returned: some return statement is the TrimRight call
	found := false
	ast.Inspect(fd.Body, func(n ast.Node) bool {
		if r, ok := n.(*ast.ReturnStmt); ok && len(r.Results) == 1 && strings.HasPrefix(types.ExprString(r.Results[0]), "strings.TrimRight(outputBuilder.String(), ") {
			found = true
		}
		return true
	})
	if !found {
		failShape("checkAndReplaceSequence: the builder is not what the output loop returns")
	}
	return writes, seps[0]
}

// c37NormSrc prints a node and removes all white space.
func c37NormSrc(n ast.Node) string {
	var buf bytes.Buffer
	if err := printer.Fprint(&buf, token.NewFileSet(), n); err != nil {
		failShape("cannot print a node: %v", err)
	}
	return strings.Join(strings.Fields(buf.String()), "")
}

// c37ProvideGuards translates the guards of BuildTarget.provideFor:
//
//	target.mutex.RLock(); defer target.mutex.RUnlock()
//	if target.Provides == nil || len(other.Requires) == 0 { return nil, false }
//	[ if target.isDataFor(other) { return nil, false } | if other.IsTool(target.Label) { return nil, false } ]*
//	var ret []BuildLabel; found := false
//	for _, require := range other.Requires { if label, present := target.Provides[require]; present { ...append...; found = true } }
//	return ret, found
func c37ProvideGuards() string {
	_, f := parseFile("src/core/build_target.go")
	fd := findFunc(f, "BuildTarget", "provideFor")
	st := fd.Body.List
	if len(st) < 7 {
		failShape("provideFor: too few statements")
	}
	if c37NormSrc(st[0]) != "target.mutex.RLock()" || c37NormSrc(st[1]) != "defertarget.mutex.RUnlock()" {
		failShape("provideFor: does not start with the read lock")
	}
	isBail := func(s ast.Stmt) (string, bool) {
		is, ok := s.(*ast.IfStmt)
		if !ok || is.Init != nil || is.Else != nil || len(is.Body.List) != 1 || c37NormSrc(is.Body.List[0]) != "returnnil,false" {
			return "", false
		}
		return types.ExprString(is.Cond), true
	}
	if c, ok := isBail(st[2]); !ok || c != "target.Provides == nil || len(other.Requires) == 0" {
		failShape("provideFor: the first test is not `if target.Provides == nil || len(other.Requires) == 0 { return nil, false }`")
	}
	guards := []string{}
	i := 3
	for ; i < len(st); i++ {
		c, ok := isBail(st[i])
		if !ok {
			break
		}
		switch c {
		case "target.isDataFor(other)":
			guards = append(guards, "GuardData")
		case "other.IsTool(target.Label)":
			guards = append(guards, "GuardTool")
		default:
			failShape("provideFor: unrecognised guard %q", c)
		}
	}
	if i+4 != len(st) {
		failShape("provideFor: expected `var ret; found := false; for ...; return ret, found` after the guards")
	}
	if c37NormSrc(st[i]) != "varret[]BuildLabel" || c37NormSrc(st[i+1]) != "found:=false" || c37NormSrc(st[i+3]) != "returnret,found" {
		failShape("provideFor: unrecognised statements around the loop over other.Requires")
	}
	wantLoop := "for_,require:=rangeother.Requires{iflabel,present:=target.Provides[require];present{ifret==nil{ret=make([]BuildLabel,0,len(other.Requires))}ret=append(ret,label...)found=true}}"
	if got := c37NormSrc(st[i+2]); got != wantLoop {
		failShape("provideFor: the loop over other.Requires is %q", got)
	}
	// isDataFor: some entry of other.AllData() has our label
	df := findFunc(f, "BuildTarget", "isDataFor")
	if got := c37NormSrc(df.Body); got != "{for_,data:=rangeother.AllData(){iflabel,ok:=data.Label();ok&&label==target.Label{returntrue}}returnfalse}" {
		failShape("isDataFor: unrecognised body %q", got)
	}
	// resolveOneDependency: not provided -> the target itself; provided -> the provided targets, in order
	rd := findFunc(f, "BuildTarget", "resolveOneDependency")
	rds := c37NormSrc(rd.Body)
	for _, piece := range []string{
		"providesLabels,ok:=depTarget.provideFor(target)if!ok{",
		"dep.deps=[]*BuildTarget{depTarget}returnnil}",
		"for_,l:=rangeprovidesLabels{providesTarget:=graph.WaitForTarget(l)",
		"deps=append(deps,providesTarget)}",
		"dep.deps=depsreturnnil}",
	} {
		if !strings.Contains(rds, piece) {
			failShape("resolveOneDependency: %q not found", piece)
		}
	}
	var b strings.Builder
	b.WriteString("(* BuildTarget.provideFor: the tests that stop a provided target being substituted, in source order *)\n")
	b.WriteString("Inductive provide_guard := GuardData | GuardTool.\n")
	b.WriteString("Definition provide_guards : list provide_guard := [" + strings.Join(guards, "; ") + "].\n")
	return b.String()
}

// c37WorkerSteps translates workerAndArgs into a straight-line program over the error variable.
func c37WorkerSteps(f *ast.File, regexes map[string]string) string {
	re, ok := regexes["workerReplacement"]
	if !ok {
		failShape("workerReplacement not found")
	}
	fd := findFunc(f, "", "workerAndArgs")
	st := fd.Body.List
	if len(st) < 4 {
		failShape("workerAndArgs: too few statements")
	}
	if c37NormSrc(st[0]) != "match:=workerReplacement.FindStringSubmatch(command)" {
		failShape("workerAndArgs: first statement is not the regex match")
	}
	if got := c37NormSrc(st[1]); !strings.HasPrefix(got, `ifmatch==nil{cmd,err:=ReplaceSequences(state,target,command)return"","",cmd,err}elseifmatch[1]!=""{panic(`) {
		failShape("workerAndArgs: second statement is not the no-match / preceding-command test: %q", got)
	}
	slots := map[string]int{}
	workerVar := ""
	var flags []string
	steps := []string{}
	workerCall := func(e ast.Expr) bool {
		c, ok := e.(*ast.CallExpr)
		if !ok || types.ExprString(c.Fun) != "replaceWorkerSequence" {
			return false
		}
		if len(c.Args) != 9 || types.ExprString(c.Args[0]) != "state" || types.ExprString(c.Args[1]) != "target" ||
			types.ExprString(c.Args[2]) != "fs.ExpandHomePath(match[2])" {
			failShape("workerAndArgs: replaceWorkerSequence is not called on (state, target, fs.ExpandHomePath(match[2]), six flags)")
		}
		flags = nil
		for k := 3; k < 9; k++ {
			id, ok := c.Args[k].(*ast.Ident)
			if !ok || (id.Name != "true" && id.Name != "false") {
				failShape("workerAndArgs: flag %d of replaceWorkerSequence is not a literal bool", k-3)
			}
			flags = append(flags, id.Name)
		}
		return true
	}
	slotOf := func(e ast.Expr) int {
		id, ok := e.(*ast.Ident)
		if !ok {
			failShape("workerAndArgs: %s is returned where an expanded command is expected", types.ExprString(e))
		}
		n, ok := slots[id.Name]
		if !ok {
			failShape("workerAndArgs: %s is returned but never assigned by replaceSequencesInternal", id.Name)
		}
		return n
	}
	returned := false
	for i := 2; i < len(st); i++ {
		if returned {
			failShape("workerAndArgs: statements after the return")
		}
		switch x := st[i].(type) {
		case *ast.AssignStmt:
			if len(x.Rhs) != 1 {
				failShape("workerAndArgs: statement %d: unrecognised assignment", i)
			}
			if len(x.Lhs) == 1 && x.Tok == token.DEFINE && workerCall(x.Rhs[0]) {
				if workerVar != "" {
					failShape("workerAndArgs: the worker is expanded twice")
				}
				workerVar = types.ExprString(x.Lhs[0])
				steps = append(steps, "WWorker")
				continue
			}
			c, ok := x.Rhs[0].(*ast.CallExpr)
			if !ok || len(x.Lhs) != 2 || types.ExprString(x.Lhs[1]) != "err" || types.ExprString(c.Fun) != "replaceSequencesInternal" || len(c.Args) != 4 ||
				types.ExprString(c.Args[0]) != "state" || types.ExprString(c.Args[1]) != "target" || types.ExprString(c.Args[3]) != "false" {
				failShape("workerAndArgs: statement %d is not `x, err := replaceSequencesInternal(state, target, <part>, false)`", i)
			}
			part := ""
			switch types.ExprString(c.Args[2]) {
			case "strings.TrimSpace(match[3])":
				part = "PArgsTrim"
			case "match[3]":
				part = "PArgs"
			case "match[4]":
				part = "PLocal"
			default:
				failShape("workerAndArgs: statement %d expands %s", i, types.ExprString(c.Args[2]))
			}
			name := types.ExprString(x.Lhs[0])
			if _, ok := x.Lhs[0].(*ast.Ident); !ok || name == "_" || name == workerVar {
				failShape("workerAndArgs: statement %d assigns %s", i, name)
			}
			if _, ok := slots[name]; !ok {
				slots[name] = len(slots)
			}
			steps = append(steps, fmt.Sprintf("WExpand %d%%nat %s", slots[name], part))
		case *ast.IfStmt:
			if x.Init != nil || x.Else != nil || types.ExprString(x.Cond) != "err != nil" || len(x.Body.List) != 1 ||
				c37NormSrc(x.Body.List[0]) != `return"","","",err` {
				failShape("workerAndArgs: statement %d is not `if err != nil { return \"\", \"\", \"\", err }`", i)
			}
			steps = append(steps, "WCheck")
		case *ast.ReturnStmt:
			if len(x.Results) != 4 {
				failShape("workerAndArgs: the return does not have four results")
			}
			if workerCall(x.Results[0]) {
				if workerVar != "" {
					failShape("workerAndArgs: the worker is expanded twice")
				}
				steps = append(steps, "WWorker")
			} else if workerVar == "" || types.ExprString(x.Results[0]) != workerVar {
				failShape("workerAndArgs: the first result is not the expanded worker")
			}
			a, l := slotOf(x.Results[1]), slotOf(x.Results[2])
			we := ""
			switch types.ExprString(x.Results[3]) {
			case "err":
				we = "true"
			case "nil":
				we = "false"
			default:
				failShape("workerAndArgs: the last result is neither err nor nil")
			}
			steps = append(steps, fmt.Sprintf("WReturn %d%%nat %d%%nat %s", a, l, we))
			returned = true
		default:
			failShape("workerAndArgs: statement %d has an unrecognised form", i)
		}
	}
	if !returned || flags == nil {
		failShape("workerAndArgs: no final return of the expanded worker")
	}
	// replaceWorkerSequence: if !LooksLikeABuildLabel(in) { return in }; return replaceSequence(state, target, in, <the flags in order>)
	rw := findFunc(f, "", "replaceWorkerSequence")
	if got := c37NormSrc(rw.Body); got != "{if!LooksLikeABuildLabel(in){returnin}returnreplaceSequence(state,target,in,runnable,multiple,dir,outPrefix,hash,test)}" {
		failShape("replaceWorkerSequence: unrecognised body %q", got)
	}
	// ReplaceTestSequences: "" -> $(exe :name) with test=true; HasPrefix(command, P) -> the local part of workerAndArgs; else test=true
	rt := findFunc(f, "", "ReplaceTestSequences")
	rts := c37NormSrc(rt.Body)
	m := regexp.MustCompile("^\\{ifcommand==\"\"\\{returnreplaceSequencesInternal\\(state,target,fmt\\.Sprintf\\(\"\\$\\(exe:%s\\)\",target\\.Label\\.Name\\),true\\)\\}elseifstrings\\.HasPrefix\\(command,(\"[^\"]*\")\\)\\{_,_,cmd,err:=workerAndArgs\\(state,target,command\\)returncmd,err\\}returnreplaceSequencesInternal\\(state,target,command,true\\)\\}$").FindStringSubmatch(rts)
	if m == nil {
		failShape("ReplaceTestSequences: unrecognised body %q", rts)
	}
	prefix := unquote(&ast.BasicLit{Kind: token.STRING, Value: m[1]})
	var b strings.Builder
	b.WriteString("(* workerAndArgs as a straight-line program over its error variable; see harness/cmd/gotrans/c37cmdrepl.go *)\n")
	b.WriteString("Inductive wpart := PArgsTrim | PArgs | PLocal.\n")
	b.WriteString("Inductive wstep := WExpand (slot : nat) (p : wpart) | WCheck | WWorker | WReturn (args local : nat) (with_err : bool).\n")
	b.WriteString("Definition worker_steps : list wstep := [" + strings.Join(steps, "; ") + "].\n")
	b.WriteString("(* replaceWorkerSequence(..., runnable, multiple, dir, outPrefix, hash, test) *)\n")
	b.WriteString("Definition worker_flags : bool * bool * bool * bool * bool := (" + strings.Join(flags[:5], ", ") + ").\n")
	b.WriteString("Definition worker_test : bool := " + flags[5] + ".\n")
	b.WriteString("Definition worker_regex : string := " + coqString(re) + ".\n")
	b.WriteString("Definition test_worker_prefix : string := " + coqString(prefix) + ".\n")
	return b.String()
}
