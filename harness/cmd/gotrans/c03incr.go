package main

import (
	"bytes"
	"go/ast"
	"go/printer"
	"go/token"
	"strings"
)

// C03Incr (property C03, follow-up of the seeded changes C03/r2-m1..m3): three pieces of the incremental engine that
// Model/C03Ext.v runs as programs / parameters, regenerated from the source:
//
//	build_target_program   the order in which the local branch of buildTarget (src/build/build_step.go) takes the
//	                       per-target lock, asks needsBuilding, runs the command and (deferred) releases the lock:
//	                       the per-process program of the two-process model (Model/C03Ext.v, Section Conc)
//	named_outs_iteration   what the named-outputs loop of ruleHash (src/build/incrementality.go) ranges over: the
//	                       sorted names (DeclaredOutputNames, src/core/build_target.go) or the map itself
//	fg_same_branch / ...   what filegroupBuilder.Build (src/build/filegroup.go) does when `to` already is the same
//	                       file, and after it linked a new one; the steps of isSameFileContent; the memo / xattr
//	                       rules of fs.PathHasher (src/fs/hash.go) the link model depends on
//
// Every recognised statement is compared literally; any other shape fails closed.
func init() {
	targets["C03Incr"] = func() string {
		var b strings.Builder
		b.WriteString("From Coq Require Import List.\nImport ListNotations.\n")
		shower := func(fset *token.FileSet) func(n ast.Node) string {
			return func(n ast.Node) string {
				var buf bytes.Buffer
				printer.Fprint(&buf, fset, n)
				return strings.Join(strings.Fields(buf.String()), " ")
			}
		}

		// ---------------------------------------------------------------- buildTarget: lock / check / build / unlock
		bset, bf := parseFile("src/build/build_step.go")
		bshow := shower(bset)
		bt := findFunc(bf, "", "buildTarget")
		var local *ast.BlockStmt
		for _, st := range bt.Body.List {
			ifs, ok := st.(*ast.IfStmt)
			if !ok || ifs.Init != nil {
				continue
			}
			if id, ok := ifs.Cond.(*ast.Ident); ok && id.Name == "runRemotely" {
				blk, ok := ifs.Else.(*ast.BlockStmt)
				if !ok {
					failShape("buildTarget: `if runRemotely` has no plain else block")
				}
				local = blk
				break
			}
		}
		if local == nil {
			failShape("buildTarget: `if runRemotely { ... } else { ... }` not found")
		}
		var prog []string
		deferred := false
		seen := map[string]bool{}
		for i, st := range local.List {
			text := bshow(st)
			switch {
			case text == `file := core.AcquireExclusiveFileLock(target.BuildLockFile())`:
				if seen["PLock"] {
					failShape("buildTarget: the target lock is taken twice")
				}
				seen["PLock"] = true
				prog = append(prog, "PLock")
				// the release must be deferred right away: it then happens on every way out of the function
				if i+1 >= len(local.List) || bshow(local.List[i+1]) != `defer core.ReleaseFileLock(file)` {
					failShape("buildTarget: the target lock is not followed by `defer core.ReleaseFileLock(file)`")
				}
				deferred = true
			case strings.Contains(text, "AcquireExclusiveFileLock") || strings.Contains(text, "AcquireSharedFileLock"):
				failShape("buildTarget: unrecognised lock statement {%s}", text)
			case strings.HasPrefix(text, `if !target.IsFilegroup && !needsBuilding(state, target, false) {`):
				if seen["PCheck"] {
					failShape("buildTarget: needsBuilding is asked twice at the top level")
				}
				ifs := st.(*ast.IfStmt)
				if !strings.Contains(bshow(ifs.Body), "return nil") {
					failShape("buildTarget: the up-to-date branch does not return")
				}
				seen["PCheck"] = true
				prog = append(prog, "PCheck")
			case text == `metadata, err = build(state, target, cacheKey)`:
				if seen["PBuild"] {
					failShape("buildTarget: build is called twice at the top level")
				}
				seen["PBuild"] = true
				prog = append(prog, "PBuild")
			case strings.Contains(text, "needsBuilding(state, target, false)"):
				// a second evaluation (e.g. a re-check after the lock was obtained) is a shape the model does not know
				failShape("buildTarget: unrecognised use of needsBuilding {%s}", text[:min(len(text), 120)])
			}
		}
		if !seen["PLock"] || !seen["PCheck"] || !seen["PBuild"] || !deferred {
			failShape("buildTarget: lock / needsBuilding / build not all found at the top level of the local branch (%v)", prog)
		}
		prog = append(prog, "PUnlock") // the deferred release
		b.WriteString("Inductive pstep := PLock | PCheck | PBuild | PUnlock.\n")
		b.WriteString("Definition build_target_program : list pstep := [" + strings.Join(prog, "; ") + "].\n")

		// ---------------------------------------------------------------- ruleHash: the loop over the named outputs
		iset, inf := parseFile("src/build/incrementality.go")
		ishow := shower(iset)
		rh := findFunc(inf, "", "ruleHash")
		iter := ""
		var nwrites []string
		groupBody := func(body *ast.BlockStmt, nameVar, outsExpr string) {
			if len(body.List) != 2 || ishow(body.List[0]) != `h.Write([]byte(`+nameVar+`))` {
				failShape("ruleHash: unrecognised body of the named-outputs loop {%s}", ishow(body))
			}
			in, ok := body.List[1].(*ast.RangeStmt)
			if !ok || ishow(in.X) != outsExpr || ishow(in.Key) != "_" || in.Value == nil || ishow(in.Value) != "out" ||
				len(in.Body.List) != 1 || ishow(in.Body.List[0]) != `h.Write([]byte(out))` {
				failShape("ruleHash: unrecognised inner loop of the named-outputs loop {%s}", ishow(body.List[1]))
			}
			nwrites = []string{"NName", "NOuts"}
		}
		for i, st := range rh.Body.List {
			rs, ok := st.(*ast.RangeStmt)
			if !ok {
				continue
			}
			switch ishow(rs.X) {
			case `target.DeclaredOutputNames()`:
				if iter != "" {
					failShape("ruleHash: more than one loop over the named outputs")
				}
				if i == 0 || ishow(rh.Body.List[i-1]) != `outs := target.DeclaredNamedOutputs()` {
					failShape("ruleHash: the loop over DeclaredOutputNames() is not preceded by `outs := target.DeclaredNamedOutputs()`")
				}
				if ishow(rs.Key) != "_" || rs.Value == nil || ishow(rs.Value) != "name" {
					failShape("ruleHash: unrecognised loop variables {%s}", ishow(rs))
				}
				groupBody(rs.Body, "name", "outs[name]")
				iter = "ItSortedNames"
			case `target.DeclaredNamedOutputs()`:
				if iter != "" {
					failShape("ruleHash: more than one loop over the named outputs")
				}
				if rs.Key == nil || rs.Value == nil {
					failShape("ruleHash: unrecognised loop variables {%s}", ishow(rs))
				}
				groupBody(rs.Body, ishow(rs.Key), ishow(rs.Value))
				iter = "ItMapRange" // Go map iteration: an arbitrary order, different from process to process
			default:
				if strings.Contains(ishow(rs.X), "NamedOutputs") || strings.Contains(ishow(rs.X), "OutputNames") {
					failShape("ruleHash: unrecognised loop over the named outputs {%s}", ishow(rs.X))
				}
			}
		}
		if iter == "" {
			failShape("ruleHash: no loop over the named outputs")
		}
		// DeclaredOutputNames: the keys of the map, SORTED; DeclaredNamedOutputs: the map itself
		cset, cf := parseFile("src/core/build_target.go")
		cshow := shower(cset)
		don := findFunc(cf, "BuildTarget", "DeclaredOutputNames")
		var dtext []string
		for _, st := range don.Body.List {
			dtext = append(dtext, cshow(st))
		}
		if strings.Join(dtext, " ; ") != `ret := make([]string, 0, len(target.namedOutputs)) ; for name := range target.namedOutputs { ret = append(ret, name) } ; sort.Strings(ret) ; return ret` {
			failShape("DeclaredOutputNames: unrecognised body {%s}", strings.Join(dtext, " ; "))
		}
		dno := findFunc(cf, "BuildTarget", "DeclaredNamedOutputs")
		if len(dno.Body.List) != 1 || cshow(dno.Body.List[0]) != `return target.namedOutputs` {
			failShape("DeclaredNamedOutputs: unrecognised body")
		}
		b.WriteString("Inductive iteration := ItSortedNames | ItMapRange.\n")
		b.WriteString("Definition named_outs_iteration : iteration := " + iter + ".\n")
		b.WriteString("Inductive nwrite := NName | NOuts.\n")
		b.WriteString("Definition named_outs_writes : list nwrite := [" + strings.Join(nwrites, "; ") + "].\n")

		// ---------------------------------------------------------------- filegroupBuilder.Build: the two ways out
		fset, ff := parseFile("src/build/filegroup.go")
		fshow := shower(fset)
		fb := findFunc(ff, "filegroupBuilder", "Build")
		acts := func(stmts []ast.Stmt, builtValue, ret string) string {
			var out []string
			for _, st := range stmts {
				switch fshow(st) {
				case `builder.built[to] = ` + builtValue:
					out = append(out, "FgMarkBuilt")
				case `state.PathHasher.CopyHash(from, to)`:
					out = append(out, "FgCopyHash")
				case ret:
					out = append(out, "FgReturn")
				default:
					failShape("filegroupBuilder.Build: unrecognised statement {%s}", fshow(st))
				}
			}
			return "[" + strings.Join(out, "; ") + "]"
		}
		sameBranch, linkedTail := "", ""
		for i, st := range fb.Body.List {
			ifs, ok := st.(*ast.IfStmt)
			if !ok || ifs.Init == nil || fshow(ifs.Init) != `same, err := isSameFileContent(state, target.HashLastModified(), from, to)` {
				continue
			}
			if fshow(ifs.Cond) != `err != nil` {
				failShape("filegroupBuilder.Build: unrecognised condition after isSameFileContent {%s}", fshow(ifs.Cond))
			}
			el, ok := ifs.Else.(*ast.IfStmt)
			if !ok || fshow(el.Cond) != "same" || el.Else != nil {
				failShape("filegroupBuilder.Build: no `else if same { ... }` after isSameFileContent")
			}
			sameBranch = acts(el.Body.List, "false", "return false, nil")
			// what follows: the comment, RemoveAll / EnsureDir / link (pinned by EngineRecord), then the tail
			rest := fb.Body.List[i+1:]
			if len(rest) < 2 {
				failShape("filegroupBuilder.Build: nothing after the same-file branch")
			}
			if _, ok := rest[0].(*ast.IfStmt); !ok || !strings.Contains(fshow(rest[0]), "fs.RemoveAll(to)") || !strings.Contains(fshow(rest[0]), "fs.RecursiveCopyOrLinkFile(from, to") {
				failShape("filegroupBuilder.Build: unrecognised build of the file {%s}", fshow(rest[0]))
			}
			linkedTail = acts(rest[1:], "true", "return true, nil")
		}
		if sameBranch == "" {
			failShape("filegroupBuilder.Build: isSameFileContent branch not found")
		}
		b.WriteString("Inductive fgact := FgMarkBuilt | FgCopyHash | FgReturn.\n")
		b.WriteString("Definition fg_same_branch : list fgact := " + sameBranch + ".\n")
		b.WriteString("Definition fg_linked_tail : list fgact := " + linkedTail + ".\n")

		// isSameFileContent: `to` missing -> false; same path / same inode -> true WITHOUT hashing; else both hashes
		// (recalc = false, store = true) compared
		sf := findFunc(ff, "", "isSameFileContent")
		var sfsteps []string
		for _, st := range sf.Body.List {
			switch fshow(st) {
			case `if !fs.PathExists(to) { return false, nil }`:
				sfsteps = append(sfsteps, "SfToMissing")
			case `if from == to || fs.IsSameFile(from, to) { return true, nil }`:
				sfsteps = append(sfsteps, "SfSameInode")
			case `h1, err := state.PathHasher.Hash(from, false, true, hashTimestamp)`:
				sfsteps = append(sfsteps, "SfHashFrom")
			case `if err != nil { return false, err }`:
			case `h2, err := state.PathHasher.Hash(to, false, true, hashTimestamp)`:
				sfsteps = append(sfsteps, "SfHashTo")
			case `return bytes.Equal(h1, h2), err`:
				sfsteps = append(sfsteps, "SfCompare")
			default:
				failShape("isSameFileContent: unrecognised statement {%s}", fshow(st))
			}
		}
		b.WriteString("Inductive sfstep := SfToMissing | SfSameInode | SfHashFrom | SfHashTo | SfCompare.\n")
		b.WriteString("Definition same_file_steps : list sfstep := [" + strings.Join(sfsteps, "; ") + "].\n")

		// buildTarget, filegroups: the outputs are re-hashed (recalc, never stored: outputHash passes store = !IsFilegroup)
		// only when buildFilegroup changed something
		var btbuf bytes.Buffer
		printer.Fprint(&btbuf, bset, bt.Body)
		body := strings.Join(strings.Fields(btbuf.String()), " ")
		if !strings.Contains(body, `changed, err := buildFilegroup(state, target) if err != nil { return err } if changed { if _, err := calculateAndCheckRuleHash(state, target); err != nil { return err }`) {
			failShape("buildTarget: filegroups are not re-hashed exactly when buildFilegroup reports a change")
		}
		b.WriteString("Definition fg_rehash_iff_changed : bool := true.\n")

		// fs.PathHasher: the memo / xattr rules
		hset, hf := parseFile("src/fs/hash.go")
		hshow := shower(hset)
		hh := findFunc(hf, "PathHasher", "Hash")
		pro := ""
		for _, st := range hh.Body.List {
			if ifs, ok := st.(*ast.IfStmt); ok && hshow(ifs.Cond) == "!recalc" {
				pro = hshow(ifs.Body)
			}
		}
		if pro != `{ hasher.mutex.RLock() cached, present := hasher.memo[path] hasher.mutex.RUnlock() if present && cached != nil { return cached, nil } else if present { store = false recalc = true } }` &&
			pro != `{ hasher.mutex.RLock() cached, present := hasher.memo[path] hasher.mutex.RUnlock() if present && cached != nil { return cached, nil } else if present { // We set this to nil in CopyHash() when it's a filegroup source in the source tree. // These files are hard links so can change under us. We shouldn't read or store xattrs. store = false recalc = true } }` {
			failShape("PathHasher.Hash: unrecognised memo prologue {%s}", pro)
		}
		if !strings.Contains(hshow(hh.Body), `result, err := hasher.hash(path, store, !recalc, timestamp)`) {
			failShape("PathHasher.Hash: hash is not called with (store, read = !recalc)")
		}
		mc := hshow(findFunc(hf, "PathHasher", "moveOrCopyHash").Body)
		if !strings.Contains(mc, `if oldHash, present := hasher.memo[oldPath]; present { hasher.memo[newPath] = oldHash`) || !strings.Contains(mc, `} else if copy {`) || !strings.Contains(mc, `hasher.memo[newPath] = nil }`) {
			failShape("PathHasher.moveOrCopyHash: unrecognised body {%s}", mc)
		}
		hb := hshow(findFunc(hf, "PathHasher", "hash").Body)
		if !strings.Contains(hb, `if read && strings.HasPrefix(path, "plz-out/") && hasher.useXattrs { if b, err := xattr.LGet(path, hasher.xattrName); err == nil { return b, nil } }`) ||
			!strings.Contains(hb, `} else if store && hasher.useXattrs { hasher.storeHash(path, hash) }`) {
			failShape("PathHasher.hash: unrecognised xattr read / store")
		}
		sb := hshow(findFunc(hf, "PathHasher", "storeHash").Body)
		if !strings.HasPrefix(sb, `{ // Only ever store hashes on output files. if !strings.HasPrefix(path, "plz-out/") { return }`) &&
			!strings.HasPrefix(sb, `{ if !strings.HasPrefix(path, "plz-out/") { return }`) {
			failShape("PathHasher.storeHash: unrecognised guard {%s}", sb[:min(len(sb), 160)])
		}
		b.WriteString("Definition hasher_nil_mark_rehashes : bool := true.\n")
		b.WriteString("Definition hasher_xattr_only_below_plz_out : bool := true.\n")
		return b.String()
	}
}
