package main

import (
	"bytes"
	"go/ast"
	"go/printer"
	"go/token"
	"regexp"
	"strings"
)

// LabelFilter (property C36): the functions that decide label include/exclude selection are small and
// regular.  Each one is pinned to the exact statement shape the Coq model (Model/C36.v) was written
// from, with the string literals left as holes; the literals are regenerated into Gen/LabelFilter.v
// and the model is written against them.  Any other shape fails closed.

var ws = regexp.MustCompile(`\s+`)

// bodyText renders a function body with go/printer and collapses white space.
func bodyText(fset *token.FileSet, fd *ast.FuncDecl) string {
	var b bytes.Buffer
	if err := (&printer.Config{Mode: printer.RawFormat}).Fprint(&b, fset, fd.Body); err != nil {
		failShape("cannot print %s: %v", fd.Name.Name, err)
	}
	// comments are not part of the printed body (no CommentedNode), only code
	return strings.TrimSpace(ws.ReplaceAllString(b.String(), " "))
}

// matchShape matches text against a template in which §S is a string-literal hole and §C a
// character-literal hole; it returns the unquoted literals in order.
func matchShape(what, text, template string) []string {
	tpl := strings.TrimSpace(ws.ReplaceAllString(template, " "))
	q := regexp.QuoteMeta(tpl)
	q = strings.ReplaceAll(q, "§S", "(\"(?:[^\"\\\\]|\\\\.)*\"|`[^`]*`)")
	q = strings.ReplaceAll(q, "§C", `('(?:[^'\\]|\\.)*')`)
	re := regexp.MustCompile("^" + q + "$")
	m := re.FindStringSubmatch(text)
	if m == nil {
		failShape("%s does not have the shape the C36 model was written from.\n  expected: %s\n  found:    %s", what, tpl, text)
	}
	out := []string{}
	for _, lit := range m[1:] {
		kind := token.STRING
		if strings.HasPrefix(lit, "'") {
			kind = token.CHAR
		}
		out = append(out, unquote(&ast.BasicLit{Kind: kind, Value: lit}))
	}
	return out
}

func oneByte(what, x string) string {
	if len(x) != 1 {
		failShape("%s is %q: the C36 model needs a single byte here", what, x)
	}
	return itoa(int(x[0]))
}

func itoa(n int) string {
	if n == 0 {
		return "0"
	}
	d := ""
	for n > 0 {
		d = string(rune('0'+n%10)) + d
		n /= 10
	}
	return d
}

func same(what string, xs ...string) string {
	for _, x := range xs[1:] {
		if x != xs[0] {
			failShape("%s: the literals %q are expected to be one and the same", what, xs)
		}
	}
	return xs[0]
}

func init() {
	targets["LabelFilter"] = func() string {
		fsT, ft := parseFile("src/core/build_target.go")
		fsS, fs := parseFile("src/core/state.go")
		fsL, fl := parseFile("src/core/build_label.go")

		// --- build_target.go -------------------------------------------------------------------
		m := matchShape("match", bodyText(fsT, findFunc(ft, "", "match")), `{
			if pattern == s { return true }
			if strings.HasSuffix(pattern, §S) && strings.HasPrefix(s, pattern[:len(pattern)-1]) { return true }
			return false }`)
		wildcard := oneByte("the wildcard suffix in match", m[0])

		m = matchShape("BuildTarget.HasLabel", bodyText(fsT, findFunc(ft, "BuildTarget", "HasLabel")), `{
			for _, l := range target.Labels { if match(label, l) { return true } }
			return target.IsTest() && match(label, §S) }`)
		implicit := m[0]

		matchShape("BuildTarget.IsTest", bodyText(fsT, findFunc(ft, "BuildTarget", "IsTest")), `{ return target.Test != nil }`)

		matchShape("BuildTarget.HasAllLabels", bodyText(fsT, findFunc(ft, "BuildTarget", "HasAllLabels")), `{
			for _, label := range labels { if !target.HasLabel(label) { return false } }
			return true }`)

		m = matchShape("BuildTarget.ShouldInclude", bodyText(fsT, findFunc(ft, "BuildTarget", "ShouldInclude")), `{
			if len(includes) == 0 && len(excludes) == 0 { return true }
			shouldInclude := len(includes) == 0
			for _, include := range includes {
				if target.HasAllLabels(strings.Split(include, §S)) { shouldInclude = true
				break } }
			for _, exclude := range excludes {
				if target.HasAllLabels(strings.Split(exclude, §S)) { shouldInclude = false
				break } }
			return shouldInclude }`)
		sep := oneByte("the group separator in ShouldInclude", same("ShouldInclude separators", m[0], m[1]))

		// --- state.go --------------------------------------------------------------------------
		matchShape("BuildState.ShouldInclude", bodyText(fsS, findFunc(fs, "BuildState", "ShouldInclude")), `{
			for _, e := range state.ExcludeTargets { if e.Includes(target.Label) { return false } }
			return target.ShouldInclude(state.Include, state.Exclude) }`)

		matchShape("BuildState.SetIncludeAndExclude", bodyText(fsS, findFunc(fs, "BuildState", "SetIncludeAndExclude")), `{
			state.Include = include
			state.Exclude = nil
			for _, e := range exclude {
				if LooksLikeABuildLabel(e) {
					if label, err := parseMaybeRelativeBuildLabel(e, §S); err != nil { log.Fatalf(§S, err) } else {
						state.ExcludeTargets = append(state.ExcludeTargets, label) }
				} else { state.Exclude = append(state.Exclude, e) } } }`)

		matchShape("BuildState.expandOriginalPseudoTarget", bodyText(fsS, findFunc(fs, "BuildState", "expandOriginalPseudoTarget")), `{
			ret := BuildLabels{}
			addPackage := func(pkg *Package) {
				for _, target := range pkg.AllTargets() {
					if state.ShouldInclude(target) && (!justTests || target.IsTest()) { ret = append(ret, target.Label) } } }
			if label.IsAllTargets() {
				if pkg := state.Graph.PackageByLabel(label); pkg != nil { addPackage(pkg) }
			} else {
				for name, pkg := range state.Graph.PackageMap() {
					if label.Includes(BuildLabel{PackageName: name}) { addPackage(pkg) } } }
			sort.Sort(ret)
			return ret }`)

		matchShape("BuildState.expandLabels", bodyText(fsS, findFunc(fs, "BuildState", "expandLabels")), `{
			ret := BuildLabels{}
			for _, label := range labels {
				if label.IsPseudoTarget() { ret = append(ret, state.expandOriginalPseudoTarget(label, justTests)...)
				} else { ret = append(ret, label) } }
			return ret }`)

		// --- build_label.go ----------------------------------------------------------------------
		m = matchShape("BuildLabel.IsAllSubpackages", bodyText(fsL, findFunc(fl, "BuildLabel", "IsAllSubpackages")), `{ return label.Name == §S }`)
		allSub := m[0]
		m = matchShape("BuildLabel.IsAllTargets", bodyText(fsL, findFunc(fl, "BuildLabel", "IsAllTargets")), `{ return label.Name == §S }`)
		allTargets := m[0]
		matchShape("BuildLabel.IsPseudoTarget", bodyText(fsL, findFunc(fl, "BuildLabel", "IsPseudoTarget")), `{ return label.IsAllSubpackages() || label.IsAllTargets() }`)

		m = matchShape("BuildLabel.Includes", bodyText(fsL, findFunc(fl, "BuildLabel", "Includes")), `{
			if (label.PackageName == §S && label.IsAllSubpackages()) || that.PackageName == label.PackageName || strings.HasPrefix(that.PackageName, label.PackageName+§S) {
				if label.IsAllSubpackages() { return true
				} else if label.PackageName == that.PackageName {
					if label.Name == that.Name || label.IsAllTargets() { return true } } }
			return false }`)
		if m[0] != "" {
			failShape("BuildLabel.Includes compares the package name with %q, expected the empty string", m[0])
		}
		pkgSep := oneByte("the package separator in Includes", m[1])

		m = matchShape("BuildLabel.Less", bodyText(fsL, findFunc(fl, "BuildLabel", "Less")), `{
			if label.Subrepo != other.Subrepo { return label.Subrepo < other.Subrepo
			} else if label.PackageName != other.PackageName { return label.PackageName < other.PackageName }
			return label.Name < other.Name }`)

		m = matchShape("LooksLikeABuildLabel", bodyText(fsL, findFunc(fl, "", "LooksLikeABuildLabel")), `{
			return strings.HasPrefix(str, §S) || strings.HasPrefix(str, §S) || (strings.HasPrefix(str, §S) && (strings.ContainsRune(str, §C) || strings.Contains(str, §S))) }`)
		looks := m

		m = matchShape("validatePackageName", bodyText(fsL, findFunc(fl, "", "validatePackageName")), `{
			return name == §S || (name[0] != §C && name[len(name)-1] != §C && !strings.ContainsAny(name, §S) && !strings.Contains(name, §S)) }`)
		if m[0] != "" {
			failShape("validatePackageName: first comparison is with %q, expected the empty string", m[0])
		}
		pkgEdge := oneByte("validatePackageName edge character", same("validatePackageName edge characters", m[1], m[2]))
		pkgBad, pkgBadSub := m[3], m[4]

		m = matchShape("validateTargetName", bodyText(fsL, findFunc(fl, "", "validateTargetName")), `{
			return name != §S && !strings.ContainsAny(name, §S) && (name[0] != §C || name == §S) && !strings.HasSuffix(name, buildDirSuffix) && !strings.HasSuffix(name, testDirSuffix) }`)
		if m[0] != "" {
			failShape("validateTargetName: first comparison is with %q, expected the empty string", m[0])
		}
		nameBad, nameDot, nameDots := m[1], oneByte("validateTargetName leading character", m[2]), m[3]

		// --- relative and subrepo exclude expressions, subrepo packages (follow-up) ---------------------
		// These are pinned with their literals: the model (parse_parts, parse_subrepo, parse_exclude) writes the
		// bytes ':' '@' '/' out, so any change of shape or literal here fails closed.
		matchShape("parseMaybeRelativeBuildLabel", bodyText(fsL, findFunc(fl, "", "parseMaybeRelativeBuildLabel")), `{
			startsWithColon := strings.HasPrefix(target, ":")
			if !startsWithColon {
				if !strings.HasPrefix(target, "//") && strings.HasPrefix(target, "/") { target = "/" + target }
				if label, err := TryParseBuildLabel(target, "", ""); err == nil || strings.HasPrefix(target, "//") { return label, err } }
			if subdir == "" { MustFindRepoRoot()
			subdir = InitialPackagePath }
			if startsWithColon { return TryParseBuildLabel(target, subdir, "") }
			return TryParseBuildLabel("//"+filepath.Join(subdir, target), "", "") }`)

		matchShape("TryParseBuildLabel", bodyText(fsL, findFunc(fl, "", "TryParseBuildLabel")), `{
			if pkg, name, subrepo := ParseBuildLabelParts(target, currentPath, subrepo); name != "" {
				return BuildLabel{PackageName: pkg, Name: name, Subrepo: subrepo}, nil }
			return BuildLabel{}, fmt.Errorf("Invalid build label: %s", target) }`)

		matchShape("ParseBuildLabelParts", bodyText(fsL, findFunc(fl, "", "ParseBuildLabelParts")), `{
			if len(target) < 2 { return "", "", ""
			} else if target[0] == ':' {
				if !validateTargetName(target[1:]) { return "", "", "" }
				return currentPath, target[1:], ""
			} else if target[0] == '@' { return parseBuildLabelSubrepo(target[1:], currentPath)
			} else if strings.HasPrefix(target, "///") { return parseBuildLabelSubrepo(target[3:], currentPath)
			} else if target[0] != '/' || target[1] != '/' { return "", "", ""
			} else if idx := strings.IndexRune(target, ':'); idx != -1 {
				pkg := target[2:idx]
				name := target[idx+1:]
				if !validatePackageName(pkg) || !validateTargetName(name) || name == "..." { return "", "", "" }
				return pkg, name, subrepo
			} else if !validatePackageName(target[2:]) { return "", "", "" }
			if strings.HasSuffix(target, "/...") { return strings.TrimRight(target[2:len(target)-3], "/"), "...", ""
			} else if idx := strings.LastIndexByte(target, '/'); idx != -1 { return target[2:], target[idx+1:], subrepo }
			return target[2:], target[2:], subrepo }`)

		matchShape("parseBuildLabelSubrepo", bodyText(fsL, findFunc(fl, "", "parseBuildLabelSubrepo")), `{
			idx := strings.Index(target, "//")
			if idx == -1 {
				if idx = strings.IndexByte(target, ':'); idx == -1 {
					if idx := strings.LastIndexByte(target, '/'); idx != -1 { return "", target[idx+1:], target }
					return "", target, target } }
			if strings.ContainsRune(target[:idx], ':') { return "", "", "" }
			pkg, name, _ := ParseBuildLabelParts(target[idx:], currentPath, "")
			return pkg, name, target[:idx] }`)

		m = matchShape("packageKey.String", bodyText(fsL, findFunc(fl, "packageKey", "String")), `{
			if key.Subrepo != §S { return §S + key.Subrepo + §S + key.Name }
			return key.Name }`)
		if m[0] != "" {
			failShape("packageKey.String compares the subrepo with %q, expected the empty string", m[0])
		}
		keyPrefix, keyInfix := m[1], m[2]

		fsG, fg := parseFile("src/core/graph.go")
		matchShape("BuildGraph.PackageMap", bodyText(fsG, findFunc(fg, "BuildGraph", "PackageMap")), `{
			packages := map[string]*Package{}
			for _, pkg := range graph.packages.Values() { packages[packageKey{Subrepo: pkg.SubrepoName, Name: pkg.Name}.String()] = pkg }
			return packages }`)
		matchShape("BuildGraph.PackageByLabel", bodyText(fsG, findFunc(fg, "BuildGraph", "PackageByLabel")), `{ return graph.Package(label.PackageName, label.Subrepo) }`)
		matchShape("BuildGraph.Package", bodyText(fsG, findFunc(fg, "BuildGraph", "Package")), `{ return graph.packages.Get(packageKey{Name: name, Subrepo: subrepo}) }`)
		matchShape("BuildGraph.AddPackage", bodyText(fsG, findFunc(fg, "BuildGraph", "AddPackage")), `{
			key := packageKey{Name: pkg.Name, Subrepo: pkg.SubrepoName}
			if !graph.packages.Add(key, pkg) { panic("Attempt to re-add existing package: " + key.String()) } }`)

		// --- original targets (round-2 follow-up) ---------------------------------------------------------
		// TargetSet (target_set.go), AddOriginalTarget, isOriginalTarget and the two sites that consume it are pinned;
		// the FINAL CONDITION of isOriginalTarget is translated into Gen.is_original_cond (the model's is_original is
		// written against it, Proof/C36_orig.v proves the original-target theorems about it).
		fsTS, fts := parseFile("src/core/target_set.go")
		matchShape("TargetSet.Add", bodyText(fsTS, findFunc(fts, "TargetSet", "Add")), `{
			ts.mutex.Lock()
			defer ts.mutex.Unlock()
			if label.IsAllSubpackages() { panic("TargetSet doesn't support ... labels")
			} else if label.IsAllTargets() { ts.packages[label.packageKey()] = struct{}{}
			} else { ts.targets[label] = struct{}{} }
			ts.everything = append(ts.everything, label) }`)
		matchShape("TargetSet.Match", bodyText(fsTS, findFunc(fts, "TargetSet", "Match")), `{
			ts.mutex.RLock()
			defer ts.mutex.RUnlock()
			if _, present := ts.targets[label]; present { return true, true }
			_, present := ts.packages[label.packageKey()]
			return present, false }`)
		matchShape("TargetSet.MatchExact", bodyText(fsTS, findFunc(fts, "TargetSet", "MatchExact")), `{
			ts.mutex.RLock()
			defer ts.mutex.RUnlock()
			_, present := ts.targets[label]
			return present }`)
		matchShape("TargetSet.AllTargets", bodyText(fsTS, findFunc(fts, "TargetSet", "AllTargets")), `{
			ts.mutex.RLock()
			defer ts.mutex.RUnlock()
			return ts.everything[:] }`)
		matchShape("BuildLabel.packageKey", bodyText(fsL, findFunc(fl, "BuildLabel", "packageKey")), `{ return packageKey{Name: label.PackageName, Subrepo: label.Subrepo} }`)
		matchShape("BuildState.AddOriginalTarget", bodyText(fsS, findFunc(fs, "BuildState", "AddOriginalTarget")), `{
			_, arch := SplitSubrepoArch(label.Subrepo)
			if arch != "" { state.Graph.AddSubrepo(SubrepoForArch(state, cli.NewArchFromString(arch))) }
			for _, e := range state.ExcludeTargets { if e.Includes(label) { return } }
			if addToList { state.progress.originalTargets.Add(label) }
			state.addPendingParse(label, OriginalTarget, ParseModeNormal) }`)
		matchShape("BuildState.IsOriginalTarget", bodyText(fsS, findFunc(fs, "BuildState", "IsOriginalTarget")), `{ return state.isOriginalTarget(target, false) }`)
		matchShape("BuildState.ExpandOriginalLabels", bodyText(fsS, findFunc(fs, "BuildState", "ExpandOriginalLabels")), `{ return state.ExpandLabels(state.progress.originalTargets.AllTargets()) }`)
		matchShape("BuildState.ExpandAllOriginalLabels", bodyText(fsS, findFunc(fs, "BuildState", "ExpandAllOriginalLabels")), `{ return state.expandLabels(state.progress.originalTargets.AllTargets(), false) }`)
		matchShape("BuildState.ExpandLabels", bodyText(fsS, findFunc(fs, "BuildState", "ExpandLabels")), `{ return state.expandLabels(labels, state.NeedTests) }`)
		matchShape("BuildState.QueueTestTarget", bodyText(fsS, findFunc(fs, "BuildState", "QueueTestTarget")), `{
			state.queueTargetData(target)
			state.AddPendingTest(target) }`)
		// the two consumers: which members of a requested :all are queued (ActivateTarget), which built tests are run (plz.Run)
		mustContain := func(what, text, stmt string) {
			if !strings.Contains(text, strings.TrimSpace(ws.ReplaceAllString(stmt, " "))) {
				failShape("%s no longer contains the statement the C36 model was written from: %s", what, strings.TrimSpace(ws.ReplaceAllString(stmt, " ")))
			}
		}
		mustContain("BuildState.ActivateTarget", bodyText(fsS, findFunc(fs, "BuildState", "ActivateTarget")), `if dependent == OriginalTarget {
			for _, target := range pkg.AllTargets() {
				if state.ShouldInclude(target) && !target.AddedPostBuild {
					if !state.NeedTests || target.IsTest() || state.NeedCoverage {
						if err := state.QueueTarget(target.Label, dependent, dependent.IsAllTargets(), mode); err != nil { return err } } } } }`)
		fsP, fp := parseFile("src/plz/plz.go")
		mustContain("plz.Run", bodyText(fsP, findFunc(fp, "", "Run")), `if state.NeedTests && task.Target.IsTest() && state.IsOriginalTarget(task.Target) { state.QueueTestTarget(task.Target) }`)

		// isOriginalTarget: the first two statements pinned, the returned condition translated
		iot := findFunc(fs, "BuildState", "isOriginalTarget")
		if len(iot.Body.List) != 3 {
			failShape("BuildState.isOriginalTarget has %d statements, the C36 model was written from 3", len(iot.Body.List))
		}
		stmtText := func(n ast.Node) string {
			var b bytes.Buffer
			if err := (&printer.Config{Mode: printer.RawFormat}).Fprint(&b, fsS, n); err != nil {
				failShape("cannot print a statement of isOriginalTarget: %v", err)
			}
			return strings.TrimSpace(ws.ReplaceAllString(b.String(), " "))
		}
		if got, want := stmtText(iot.Body.List[0]), `if exact { return state.progress.originalTargets.MatchExact(target.Label) }`; got != want {
			failShape("isOriginalTarget, statement 1: expected %s, found %s", want, got)
		}
		if got, want := stmtText(iot.Body.List[1]), `matched, wasExact := state.progress.originalTargets.Match(target.Label)`; got != want {
			failShape("isOriginalTarget, statement 2: expected %s, found %s", want, got)
		}
		ret, ok := iot.Body.List[2].(*ast.ReturnStmt)
		if !ok || len(ret.Results) != 1 {
			failShape("isOriginalTarget, statement 3: expected `return <condition>`, found %s", stmtText(iot.Body.List[2]))
		}
		var cond func(e ast.Expr) string
		cond = func(e ast.Expr) string {
			switch x := e.(type) {
			case *ast.ParenExpr:
				return cond(x.X)
			case *ast.BinaryExpr:
				switch x.Op {
				case token.LAND:
					return "(andb " + cond(x.X) + " " + cond(x.Y) + ")"
				case token.LOR:
					return "(orb " + cond(x.X) + " " + cond(x.Y) + ")"
				}
			case *ast.UnaryExpr:
				if x.Op == token.NOT {
					return "(negb " + cond(x.X) + ")"
				}
			case *ast.Ident:
				switch x.Name {
				case "matched":
					return "matched"
				case "wasExact":
					return "was_exact"
				case "true", "false":
					return x.Name
				}
			case *ast.CallExpr:
				switch stmtText(x) {
				case `state.ShouldInclude(target)`:
					return "state_si" // BuildState.ShouldInclude: exclude build patterns AND label filters
				case `target.ShouldInclude(state.Include, state.Exclude)`:
					return "target_si" // BuildTarget.ShouldInclude: the label filters only
				}
			}
			failShape("isOriginalTarget: the returned condition contains %s, which the C36 translator does not know", stmtText(e))
			return ""
		}
		isOriginalCond := cond(ret.Results[0])

		// the two reserved suffixes
		var buildSuf, testSuf string
		for _, file := range []string{"src/core/build_target.go", "src/core/build_label.go", "src/core/utils.go", "src/core/build_env.go"} {
			_, f := parseFile(file)
			for _, d := range f.Decls {
				gd, ok := d.(*ast.GenDecl)
				if !ok || gd.Tok != token.CONST {
					continue
				}
				for _, sp := range gd.Specs {
					vs := sp.(*ast.ValueSpec)
					for i, n := range vs.Names {
						if (n.Name == "buildDirSuffix" || n.Name == "testDirSuffix") && i < len(vs.Values) {
							bl, ok := vs.Values[i].(*ast.BasicLit)
							if !ok {
								failShape("%s is not a literal", n.Name)
							}
							if n.Name == "buildDirSuffix" {
								buildSuf = unquote(bl)
							} else {
								testSuf = unquote(bl)
							}
						}
					}
				}
			}
		}
		if buildSuf == "" || testSuf == "" {
			failShape("buildDirSuffix/testDirSuffix constants not found")
		}

		return genHeader +
			"(* property C36: literals of the label filter functions; the function bodies themselves were matched\n" +
			"   against the statement shapes the model follows (see harness/cmd/gotrans/labelfilter.go) *)\n" +
			"Definition wildcard_byte : N := " + wildcard + "%N.\n" +
			"Definition implicit_test_label : string := " + coqString(implicit) + ".\n" +
			"Definition group_separator_byte : N := " + sep + "%N.\n" +
			"Definition all_subpackages_name : string := " + coqString(allSub) + ".\n" +
			"Definition all_targets_name : string := " + coqString(allTargets) + ".\n" +
			"Definition package_separator_byte : N := " + pkgSep + "%N.\n" +
			"Definition looks_like_prefixes : list string := " + coqStringList([]string{looks[0], looks[1]}) + ".\n" +
			"Definition looks_like_subrepo_prefix : string := " + coqString(looks[2]) + ".\n" +
			"Definition looks_like_subrepo_rune : string := " + coqString(looks[3]) + ".\n" +
			"Definition looks_like_subrepo_infix : string := " + coqString(looks[4]) + ".\n" +
			"Definition package_edge_byte : N := " + pkgEdge + "%N.\n" +
			"Definition package_bad_chars : string := " + coqString(pkgBad) + ".\n" +
			"Definition package_bad_infix : string := " + coqString(pkgBadSub) + ".\n" +
			"Definition name_bad_chars : string := " + coqString(nameBad) + ".\n" +
			"Definition name_hidden_byte : N := " + nameDot + "%N.\n" +
			"Definition name_hidden_exception : string := " + coqString(nameDots) + ".\n" +
			"Definition reserved_suffixes : list string := " + coqStringList([]string{buildSuf, testSuf}) + ".\n" +
			"Definition package_key_prefix : string := " + coqString(keyPrefix) + ".\n" +
			"Definition package_key_infix : string := " + coqString(keyInfix) + ".\n" +
			"(* BuildState.isOriginalTarget(target, false): the returned condition, translated.  matched, was_exact = the results of\n" +
			"   originalTargets.Match(target.Label); state_si = state.ShouldInclude(target) (exclude build patterns and label filters);\n" +
			"   target_si = target.ShouldInclude(state.Include, state.Exclude) (the label filters only) *)\n" +
			"Definition is_original_cond (matched was_exact state_si target_si : bool) : bool := " + isOriginalCond + ".\n"
	}
}
