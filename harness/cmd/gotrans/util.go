package main

import (
	"go/ast"
	"go/parser"
	"go/token"
	"path/filepath"
	"strconv"
	"strings"
)

func parseFile(rel string) (*token.FileSet, *ast.File) {
	fset := token.NewFileSet()
	f, err := parser.ParseFile(fset, filepath.Join(repo, rel), nil, parser.ParseComments)
	if err != nil {
		failShape("cannot parse %s: %v", rel, err)
	}
	return fset, f
}

func findFunc(f *ast.File, recv, name string) *ast.FuncDecl {
	for _, d := range f.Decls {
		fd, ok := d.(*ast.FuncDecl)
		if !ok || fd.Name.Name != name {
			continue
		}
		if recv == "" && fd.Recv == nil {
			return fd
		}
		if recv != "" && fd.Recv != nil && len(fd.Recv.List) == 1 {
			t := fd.Recv.List[0].Type
			if st, ok := t.(*ast.StarExpr); ok {
				t = st.X
			}
			if id, ok := t.(*ast.Ident); ok && id.Name == recv {
				return fd
			}
			if ix, ok := t.(*ast.IndexExpr); ok {
				if id, ok := ix.X.(*ast.Ident); ok && id.Name == recv {
					return fd
				}
			}
		}
	}
	failShape("function %s.%s not found", recv, name)
	return nil
}

// iotaConsts returns the names of the constants of the iota block whose first entry has type typ.
func iotaConsts(f *ast.File, typ string) []string {
	for _, d := range f.Decls {
		gd, ok := d.(*ast.GenDecl)
		if !ok || gd.Tok != token.CONST || len(gd.Specs) == 0 {
			continue
		}
		first := gd.Specs[0].(*ast.ValueSpec)
		id, ok := first.Type.(*ast.Ident)
		if !ok || id.Name != typ {
			continue
		}
		if len(first.Values) != 1 {
			failShape("const block of %s: first value is not a single expression", typ)
		}
		if v, ok := first.Values[0].(*ast.Ident); !ok || v.Name != "iota" {
			failShape("const block of %s does not start at plain iota", typ)
		}
		names := []string{}
		for i, s := range gd.Specs {
			vs := s.(*ast.ValueSpec)
			if len(vs.Names) != 1 || (i > 0 && (len(vs.Values) != 0 || vs.Type != nil)) {
				failShape("const block of %s: entry %d is not a bare name", typ, i)
			}
			names = append(names, vs.Names[0].Name)
		}
		return names
	}
	failShape("const block of type %s not found", typ)
	return nil
}

func coqString(x string) string { return `"` + strings.ReplaceAll(x, `"`, `""`) + `"` }

func coqStringList(xs []string) string {
	out := make([]string, len(xs))
	for i, x := range xs {
		out[i] = coqString(x)
	}
	return "[" + strings.Join(out, "; ") + "]"
}

func unquote(l *ast.BasicLit) string {
	switch l.Kind {
	case token.STRING:
		x, err := strconv.Unquote(l.Value)
		if err != nil {
			failShape("bad string literal %s", l.Value)
		}
		return x
	case token.CHAR:
		x, _, _, err := strconv.UnquoteChar(l.Value[1:len(l.Value)-1], '\'')
		if err != nil {
			failShape("bad char literal %s", l.Value)
		}
		return string(x)
	}
	failShape("literal %s is not a string or char", l.Value)
	return ""
}

const genHeader = "From Coq Require Import List String NArith ZArith. Import ListNotations. Open Scope string_scope.\n"
