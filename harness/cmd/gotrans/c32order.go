package main

import (
	"go/ast"
	"go/token"
	"strings"
)

// C32Order (property C32): the ORDER in which the anchored functions issue their persistent effects.
// For each function the calls whose name is in a closed vocabulary are listed in source order
// (ast.Inspect visits in source order); everything else is ignored. The proofs compare each list with
// the order the model's step lists assume, so moving a call breaks the proof gate.
//
// Fails closed when a function is missing, when a vocabulary entry that the model needs does not occur
// at all, or when an effect call of the vocabulary sits inside a function literal / defer / go statement
// (then source order would no longer be execution order).
func init() {
	targets["C32Order"] = func() string {
		type spec struct {
			file, recv, fn, coq string
			vocab                []string
		}
		specs := []spec{
			{"src/build/build_step.go", "", "buildTarget", "build_target",
				[]string{"needsBuilding", "build", "StoreTargetMetadata", "moveOutputs", "calculateAndCheckRuleHash", "storeInCache"}},
			{"src/build/build_step.go", "", "moveOutputs", "move_outputs", []string{"moveOutput"}},
			{"src/build/build_step.go", "", "moveOutput", "move_output",
				[]string{"Hash", "fs.PathExists", "fs.RemoveAll", "MoveHash", "os.Rename", "fs.RecursiveCopy"}},
			{"src/build/build_step.go", "", "calculateAndCheckRuleHash", "calculate_and_check",
				[]string{"OutputHash", "checkRuleHashes", "writeRuleHash"}},
			{"src/build/incrementality.go", "", "StoreTargetMetadata", "store_metadata",
				[]string{"fs.RemoveAll", "os.MkdirAll", "os.Create", "os.OpenFile", "os.WriteFile", "Encode", "fs.WriteFile"}},
			{"src/build/incrementality.go", "", "writeRuleHash", "write_rule_hash",
				[]string{"fs.RecordAttrFile", "fs.RecordAttr", "fs.FileExists"}},
			{"src/build/incrementality.go", "", "needsBuilding", "needs_building",
				[]string{"fs.FileExists", "readRuleHashFromXattrs", "RuleHash", "sourceHash", "secretHash", "core.PathExists", "ShouldRebuild"}},
			{"src/build/incrementality.go", "", "readRuleHashFromXattrs", "read_rule_hash",
				[]string{"fs.ReadAttr", "fs.ReadAttrFile", "bytes.Equal", "BuildCouldModifyTarget"}},
			{"src/fs/fs.go", "", "WriteFile", "write_file",
				[]string{"os.MkdirAll", "os.CreateTemp", "os.Create", "io.Copy", "Close", "os.Chmod", "renameFile", "os.Rename"}},
			{"src/fs/attr.go", "", "RecordAttrFile", "record_attr_file", []string{"os.WriteFile", "WriteFile", "os.Create"}},
			// follow-up 2 (pinned hashes): Build's error path and RemoveOutputs
			{"src/build/build_step.go", "", "Build", "build_on_error", []string{"buildTarget", "RemoveOutputs", "StoreTargetMetadata", "writeRuleHash"}},
			{"src/build/build_step.go", "", "RemoveOutputs", "remove_outputs",
				[]string{"fs.RemoveAll", "os.RemoveAll", "os.Remove", "fs.EnsureDir", "os.MkdirAll", "os.Create", "os.WriteFile", "fs.WriteFile"}},
		}
		var b strings.Builder
		b.WriteString(genHeader)
		for _, sp := range specs {
			_, f := parseFile(sp.file)
			fd := findFunc(f, sp.recv, sp.fn)
			if fd.Body == nil {
				failShape("%s has no body", sp.fn)
			}
			in := func(name string) bool {
				for _, v := range sp.vocab {
					if v == name {
						return true
					}
				}
				return false
			}
			var calls []string
			depth := 0 // inside a func literal / defer / go
			var walk func(n ast.Node)
			walk = func(n ast.Node) {
				ast.Inspect(n, func(x ast.Node) bool {
					switch y := x.(type) {
					case *ast.FuncLit:
						if x != n {
							depth++
							walk(y.Body)
							depth--
							return false
						}
					case *ast.DeferStmt:
						depth++
						walk(y.Call)
						depth--
						return false
					case *ast.GoStmt:
						depth++
						walk(y.Call)
						depth--
						return false
					case *ast.CallExpr:
						name := c32CallName(y)
						if name != "" && in(name) {
							if depth > 0 && name != "Close" {
								failShape("%s: effect call %s inside a function literal, defer or go statement", sp.fn, name)
							}
							if depth == 0 {
								// arguments are evaluated before the call: list nested vocabulary calls first
								for _, a := range y.Args {
									walk(a)
								}
								if se, ok := y.Fun.(*ast.SelectorExpr); ok {
									walk(se.X)
								}
								calls = append(calls, name)
								return false
							}
						}
					}
					return true
				})
			}
			walk(fd.Body)
			if len(calls) == 0 {
				failShape("%s: none of the expected effect calls found", sp.fn)
			}
			b.WriteString("Definition " + sp.coq + " : list string := " + coqStringList(calls) + ".\n")
		}
		// the record's xattr name and length
		_, f := parseFile("src/build/incrementality.go")
		consts := map[string]string{}
		for _, d := range f.Decls {
			gd, ok := d.(*ast.GenDecl)
			if !ok || gd.Tok != token.CONST {
				continue
			}
			for _, s := range gd.Specs {
				vs := s.(*ast.ValueSpec)
				if len(vs.Names) == 1 && len(vs.Values) == 1 {
					consts[vs.Names[0].Name] = cnExpr(vs.Values[0])
				}
			}
		}
		for _, k := range []string{"xattrName", "hashLength", "fullHashLength"} {
			if consts[k] == "" {
				failShape("constant %s not found in incrementality.go", k)
			}
		}
		b.WriteString("Definition xattr_name : string := " + coqString(strings.Trim(consts["xattrName"], `"`)) + ".\n")
		b.WriteString("Definition hash_length : string := " + coqString(consts["hashLength"]) + ".\n")
		b.WriteString("Definition full_hash_length : string := " + coqString(consts["fullHashLength"]) + ".\n")
		c32Prepare(&b)
		c32Calc(&b)
		return b.String()
	}
}

// c32Prepare (follow-up: the work directory plz-out/tmp/<target>._build):
//   - prepare_directory: the effect calls of prepareDirectory in source order, each with the condition of the
//     if statements around it (source text; "" = unconditional);
//   - prepare_wipe_cond: the condition around its fs.RemoveAll(directory), translated into a Coq boolean function
//     of the `remove` argument and of fs.IsDirectory(directory) (closed expression language: the parameter,
//     fs.IsDirectory(directory), !, &&, ||, parentheses; anything else fails closed);
//   - prepare_directories: the calls of prepareDirectories with their argument texts;
//   - build_target_tmp: the calls of buildTarget that touch the work directory, in source order.
func c32Prepare(b *strings.Builder) {
	_, f := parseFile("src/build/build_step.go")
	pd := findFunc(f, "", "prepareDirectory")
	if pd.Body == nil || pd.Type.Params == nil || len(pd.Type.Params.List) != 2 {
		failShape("prepareDirectory: expected (directory string, remove bool)")
	}
	pname := func(i int) string {
		fl := pd.Type.Params.List[i]
		if len(fl.Names) != 1 {
			failShape("prepareDirectory: parameter list shape")
		}
		return fl.Names[0].Name
	}
	dirParam, removeParam := pname(0), pname(1)
	if cnExpr(pd.Type.Params.List[0].Type) != "string" || cnExpr(pd.Type.Params.List[1].Type) != "bool" {
		failShape("prepareDirectory: parameter types")
	}
	vocab := map[string]bool{"fs.RemoveAll": true, "os.RemoveAll": true, "os.Remove": true, "os.MkdirAll": true, "os.Mkdir": true, "fs.EnsureDir": true}
	type gc struct{ guard, call string }
	var calls []gc
	var wipeCond ast.Expr
	wipes := 0
	var walkStmts func(list []ast.Stmt, guards []ast.Expr)
	guardText := func(gs []ast.Expr) string {
		var parts []string
		for _, g := range gs {
			parts = append(parts, cnExpr(g))
		}
		return strings.Join(parts, " && ")
	}
	collect := func(n ast.Node, guards []ast.Expr) {
		ast.Inspect(n, func(x ast.Node) bool {
			switch y := x.(type) {
			case *ast.FuncLit, *ast.DeferStmt, *ast.GoStmt:
				failShape("prepareDirectory: function literal, defer or go statement")
			case *ast.CallExpr:
				name := c32CallName(y)
				if vocab[name] {
					if len(y.Args) < 1 || cnExpr(y.Args[0]) != dirParam {
						failShape("prepareDirectory: %s is not applied to %s", name, dirParam)
					}
					calls = append(calls, gc{guardText(guards), name})
					if name != "os.MkdirAll" {
						wipes++
						if name != "fs.RemoveAll" {
							failShape("prepareDirectory: removes with %s", name)
						}
						var c ast.Expr
						for _, g := range guards {
							if c == nil {
								c = g
							} else {
								c = &ast.BinaryExpr{X: c, Op: token.LAND, Y: g}
							}
						}
						wipeCond = c
					}
				}
			}
			return true
		})
	}
	walkStmts = func(list []ast.Stmt, guards []ast.Expr) {
		for _, st := range list {
			switch y := st.(type) {
			case *ast.IfStmt:
				if y.Else != nil {
					failShape("prepareDirectory: if with else")
				}
				if y.Init != nil {
					collect(y.Init, guards)
				}
				collect(y.Cond, guards)
				walkStmts(y.Body.List, append(append([]ast.Expr{}, guards...), y.Cond))
			case *ast.BlockStmt:
				walkStmts(y.List, guards)
			case *ast.ForStmt, *ast.RangeStmt, *ast.SwitchStmt, *ast.TypeSwitchStmt, *ast.SelectStmt, *ast.LabeledStmt, *ast.BranchStmt:
				failShape("prepareDirectory: control flow other than if")
			default:
				collect(st, guards)
			}
		}
	}
	walkStmts(pd.Body.List, nil)
	if wipes != 1 {
		failShape("prepareDirectory: expected exactly one fs.RemoveAll(%s), found %d removals", dirParam, wipes)
	}
	var pairs []string
	for _, c := range calls {
		pairs = append(pairs, "("+coqString(c.guard)+", "+coqString(c.call)+")")
	}
	b.WriteString("Definition prepare_directory : list (string * string) := [" + strings.Join(pairs, "; ") + "].\n")
	// the early `return err` inside the guarded block does not change which calls run before it; but an early
	// return BEFORE the removal would: only `if` statements whose body ends in `return err` after a vocabulary
	// call are present in the recognised shape, which the literal comparison of prepare_directory pins.
	var tr func(e ast.Expr) string
	tr = func(e ast.Expr) string {
		switch y := e.(type) {
		case nil:
			return "true"
		case *ast.ParenExpr:
			return "(" + tr(y.X) + ")"
		case *ast.Ident:
			if y.Name == removeParam {
				return "remove"
			}
			if y.Name == "true" || y.Name == "false" {
				return y.Name
			}
		case *ast.UnaryExpr:
			if y.Op == token.NOT {
				return "(negb " + tr(y.X) + ")"
			}
		case *ast.BinaryExpr:
			switch y.Op {
			case token.LAND:
				return "(" + tr(y.X) + " && " + tr(y.Y) + ")"
			case token.LOR:
				return "(" + tr(y.X) + " || " + tr(y.Y) + ")"
			}
		case *ast.CallExpr:
			if c32CallName(y) == "fs.IsDirectory" && len(y.Args) == 1 && cnExpr(y.Args[0]) == dirParam {
				return "is_directory"
			}
		}
		failShape("prepareDirectory: condition of the removal not in the closed expression language: %s", cnExpr(e))
		return ""
	}
	b.WriteString("Definition prepare_wipe_cond (remove is_directory : bool) : bool := (" + tr(wipeCond) + ")%bool.\n")

	// prepareDirectories: its calls with argument texts
	pds := findFunc(f, "", "prepareDirectories")
	if pds.Body == nil {
		failShape("prepareDirectories has no body")
	}
	pairs = nil
	ast.Inspect(pds.Body, func(x ast.Node) bool {
		switch y := x.(type) {
		case *ast.FuncLit, *ast.DeferStmt, *ast.GoStmt, *ast.ForStmt, *ast.RangeStmt:
			failShape("prepareDirectories: unexpected statement")
		case *ast.CallExpr:
			name := c32CallName(y)
			if strings.HasPrefix(name, "prepare") || strings.Contains(name, "Remove") || strings.Contains(name, "Mkdir") {
				var as []string
				for _, a := range y.Args {
					as = append(as, cnExpr(a))
				}
				pairs = append(pairs, "("+coqString(name)+", "+coqString(strings.Join(as, ", "))+")")
				return false
			}
		}
		return true
	})
	b.WriteString("Definition prepare_directories : list (string * string) := [" + strings.Join(pairs, "; ") + "].\n")

	// buildTarget: the calls that touch the work directory
	bt := findFunc(f, "", "buildTarget")
	tv := map[string]bool{"prepareDirectories": true, "prepareDirectory": true, "prepareSources": true, "build": true, "StoreTargetMetadata": true,
		"moveOutputs": true, "calculateAndCheckRuleHash": true, "fs.RemoveAll": true, "os.RemoveAll": true}
	var seq []string
	depth := 0
	var walk func(n ast.Node)
	walk = func(n ast.Node) {
		ast.Inspect(n, func(x ast.Node) bool {
			switch y := x.(type) {
			case *ast.FuncLit:
				if x != n {
					depth++
					walk(y.Body)
					depth--
					return false
				}
			case *ast.DeferStmt:
				depth++
				walk(y.Call)
				depth--
				return false
			case *ast.GoStmt:
				depth++
				walk(y.Call)
				depth--
				return false
			case *ast.IfStmt:
				// the filegroup branch returns before the work directory is touched
				if cnExpr(y.Cond) == "target.IsFilegroup" {
					return false
				}
			case *ast.CallExpr:
				name := c32CallName(y)
				if tv[name] {
					if depth > 0 {
						failShape("buildTarget: %s inside a function literal, defer or go statement", name)
					}
					if strings.HasSuffix(name, "RemoveAll") {
						var as []string
						for _, a := range y.Args {
							as = append(as, cnExpr(a))
						}
						name += "(" + strings.Join(as, ", ") + ")"
					}
					seq = append(seq, name)
				}
			}
			return true
		})
	}
	walk(bt.Body)
	b.WriteString("Definition build_target_tmp : list string := " + coqStringList(seq) + ".\n")
}

// c32Calc (follow-up 2: targets with pinned `hashes`): calculateAndCheckRuleHash as a straight-line program.
//   - calc_prog: the calls OutputHash / checkRuleHashes / writeRuleHash, one per TOP-LEVEL statement of the body, in
//     statement order (two of them in one statement, or one inside a loop / function literal / defer: fails closed);
//   - calc_check_returns: does an error of checkRuleHashes make the function return? The body of
//     `if err = checkRuleHashes(...); err != nil { ... }` translated into a Coq boolean function of
//     state.NeedHashesOnly, state.IsOriginalTargetOrParent(target), state.VerifyHashes (closed statement language:
//     return, if/else, log calls; closed condition language: those three, !, &&, ||, parentheses);
//   - calc_record_guard: the condition around the writeRuleHash statement (source text).
func c32Calc(b *strings.Builder) {
	_, f := parseFile("src/build/build_step.go")
	fd := findFunc(f, "", "calculateAndCheckRuleHash")
	if fd.Body == nil {
		failShape("calculateAndCheckRuleHash has no body")
	}
	vocab := map[string]bool{"OutputHash": true, "checkRuleHashes": true, "writeRuleHash": true}
	callsIn := func(n ast.Node) []string {
		var out []string
		ast.Inspect(n, func(x ast.Node) bool {
			switch y := x.(type) {
			case *ast.FuncLit, *ast.DeferStmt, *ast.GoStmt:
				bad := false
				ast.Inspect(y, func(z ast.Node) bool {
					if c, ok := z.(*ast.CallExpr); ok && vocab[c32CallName(c)] {
						bad = true
					}
					return true
				})
				if bad {
					failShape("calculateAndCheckRuleHash: effect call inside a function literal, defer or go statement")
				}
				return false
			case *ast.CallExpr:
				if name := c32CallName(y); vocab[name] {
					out = append(out, name)
				}
			}
			return true
		})
		return out
	}
	var cond func(e ast.Expr) string
	cond = func(e ast.Expr) string {
		switch y := e.(type) {
		case *ast.ParenExpr:
			return "(" + cond(y.X) + ")"
		case *ast.UnaryExpr:
			if y.Op == token.NOT {
				return "(negb " + cond(y.X) + ")"
			}
		case *ast.BinaryExpr:
			switch y.Op {
			case token.LAND:
				return "(" + cond(y.X) + " && " + cond(y.Y) + ")"
			case token.LOR:
				return "(" + cond(y.X) + " || " + cond(y.Y) + ")"
			}
		case *ast.SelectorExpr:
			switch cnExpr(y) {
			case "state.NeedHashesOnly":
				return "need_hashes_only"
			case "state.VerifyHashes":
				return "verify_hashes"
			}
		case *ast.CallExpr:
			if cnExpr(y) == "state.IsOriginalTargetOrParent(target)" {
				return "is_original"
			}
		}
		failShape("calculateAndCheckRuleHash: condition not in the closed language: %s", cnExpr(e))
		return ""
	}
	// returns(stmts): does running the statements end in a `return`?
	var returns func(list []ast.Stmt) string
	returns = func(list []ast.Stmt) string {
		if len(list) == 0 {
			return "false"
		}
		rest := returns(list[1:])
		switch y := list[0].(type) {
		case *ast.ReturnStmt:
			return "true"
		case *ast.BlockStmt:
			return "(" + returns(y.List) + " || " + rest + ")"
		case *ast.IfStmt:
			if y.Init != nil {
				failShape("calculateAndCheckRuleHash: if with init inside the error branch of checkRuleHashes")
			}
			els := "false"
			switch e := y.Else.(type) {
			case nil:
			case *ast.BlockStmt:
				els = returns(e.List)
			case *ast.IfStmt:
				els = returns([]ast.Stmt{e})
			default:
				failShape("calculateAndCheckRuleHash: else shape")
			}
			return "((if " + cond(y.Cond) + " then " + returns(y.Body.List) + " else " + els + ") || " + rest + ")"
		case *ast.ExprStmt:
			if c, ok := y.X.(*ast.CallExpr); ok && strings.HasPrefix(cnExpr(c.Fun), "log.") {
				return rest
			}
		}
		failShape("calculateAndCheckRuleHash: statement not in the closed language inside the error branch of checkRuleHashes: %s", cnStmtKind(list[0]))
		return ""
	}
	var prog []string
	checkReturns, recordGuard := "", ""
	for _, st := range fd.Body.List {
		switch st.(type) {
		case *ast.ForStmt, *ast.RangeStmt, *ast.SwitchStmt, *ast.TypeSwitchStmt, *ast.SelectStmt, *ast.LabeledStmt:
			if len(callsIn(st)) > 0 {
				failShape("calculateAndCheckRuleHash: effect call inside a loop or switch")
			}
			continue
		}
		cs := callsIn(st)
		if len(cs) == 0 {
			continue
		}
		if len(cs) > 1 {
			failShape("calculateAndCheckRuleHash: %v in one top-level statement", cs)
		}
		prog = append(prog, cs[0])
		switch cs[0] {
		case "checkRuleHashes":
			is, ok := st.(*ast.IfStmt)
			if !ok || is.Init == nil || is.Else != nil || cnExpr(is.Cond) != "err != nil" || len(callsIn(is.Init)) != 1 {
				failShape("calculateAndCheckRuleHash: expected `if err = checkRuleHashes(...); err != nil { ... }`")
			}
			checkReturns = returns(is.Body.List)
		case "writeRuleHash":
			is, ok := st.(*ast.IfStmt)
			if !ok {
				failShape("calculateAndCheckRuleHash: writeRuleHash statement shape")
			}
			if len(callsIn(is.Cond)) > 0 || (is.Init != nil && len(callsIn(is.Init)) > 0) {
				recordGuard = "" // `if err := writeRuleHash(...); err != nil`: unconditional
			} else {
				if is.Else != nil {
					failShape("calculateAndCheckRuleHash: else around writeRuleHash")
				}
				recordGuard = cnExpr(is.Cond)
			}
		}
	}
	if checkReturns == "" {
		failShape("calculateAndCheckRuleHash: no checkRuleHashes statement")
	}
	b.WriteString("Definition calc_prog : list string := " + coqStringList(prog) + ".\n")
	b.WriteString("Definition calc_check_returns (need_hashes_only is_original verify_hashes : bool) : bool := (" + checkReturns + ")%bool.\n")
	b.WriteString("Definition calc_record_guard : string := " + coqString(recordGuard) + ".\n")
}

func cnStmtKind(s ast.Stmt) string {
	switch s.(type) {
	case *ast.AssignStmt:
		return "assignment"
	case *ast.ExprStmt:
		return "expression statement"
	case *ast.ForStmt, *ast.RangeStmt:
		return "loop"
	}
	return "statement"
}

// c32CallName: "pkg.Fn" for a call through a package-like identifier the vocabulary may name, else the bare
// method / function name.
func c32CallName(c *ast.CallExpr) string {
	switch f := c.Fun.(type) {
	case *ast.Ident:
		return f.Name
	case *ast.SelectorExpr:
		if id, ok := f.X.(*ast.Ident); ok {
			switch id.Name {
			case "fs", "os", "io", "core", "bytes":
				return id.Name + "." + f.Sel.Name
			}
		}
		return f.Sel.Name
	}
	return ""
}
