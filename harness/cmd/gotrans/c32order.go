package main

import (
	"go/ast"
	"go/token"
	"strings"
)

// C32Order (property C32): the ORDER in which the anchored functions issue their persistent effects.
// For each function the calls whose name is in a closed vocabulary are listed in source order
// (ast.Inspect visits in source order); everything else is ignored. The proofs compare each list with
// the order the model's step lists assume, so moving a call breaks the proof gate.
//
// Fails closed when a function is missing, when a vocabulary entry that the model needs does not occur
// at all, or when an effect call of the vocabulary sits inside a function literal / defer / go statement
// (then source order would no longer be execution order).
func init() {
	targets["C32Order"] = func() string {
		type spec struct {
			file, recv, fn, coq string
			vocab                []string
		}
		specs := []spec{
			{"src/build/build_step.go", "", "buildTarget", "build_target",
				[]string{"needsBuilding", "build", "StoreTargetMetadata", "moveOutputs", "calculateAndCheckRuleHash", "storeInCache"}},
			{"src/build/build_step.go", "", "moveOutputs", "move_outputs", []string{"moveOutput"}},
			{"src/build/build_step.go", "", "moveOutput", "move_output",
				[]string{"Hash", "fs.PathExists", "fs.RemoveAll", "MoveHash", "os.Rename", "fs.RecursiveCopy"}},
			{"src/build/build_step.go", "", "calculateAndCheckRuleHash", "calculate_and_check",
				[]string{"OutputHash", "checkRuleHashes", "writeRuleHash"}},
			{"src/build/incrementality.go", "", "StoreTargetMetadata", "store_metadata",
				[]string{"fs.RemoveAll", "os.MkdirAll", "os.Create", "os.OpenFile", "os.WriteFile", "Encode", "fs.WriteFile"}},
			{"src/build/incrementality.go", "", "writeRuleHash", "write_rule_hash",
				[]string{"fs.RecordAttrFile", "fs.RecordAttr", "fs.FileExists"}},
			{"src/build/incrementality.go", "", "needsBuilding", "needs_building",
				[]string{"fs.FileExists", "readRuleHashFromXattrs", "RuleHash", "sourceHash", "secretHash", "core.PathExists", "ShouldRebuild"}},
			{"src/build/incrementality.go", "", "readRuleHashFromXattrs", "read_rule_hash",
				[]string{"fs.ReadAttr", "fs.ReadAttrFile", "bytes.Equal", "BuildCouldModifyTarget"}},
			{"src/fs/fs.go", "", "WriteFile", "write_file",
				[]string{"os.MkdirAll", "os.CreateTemp", "os.Create", "io.Copy", "Close", "os.Chmod", "renameFile", "os.Rename"}},
			{"src/fs/attr.go", "", "RecordAttrFile", "record_attr_file", []string{"os.WriteFile", "WriteFile", "os.Create"}},
		}
		var b strings.Builder
		b.WriteString(genHeader)
		for _, sp := range specs {
			_, f := parseFile(sp.file)
			fd := findFunc(f, sp.recv, sp.fn)
			if fd.Body == nil {
				failShape("%s has no body", sp.fn)
			}
			in := func(name string) bool {
				for _, v := range sp.vocab {
					if v == name {
						return true
					}
				}
				return false
			}
			var calls []string
			depth := 0 // inside a func literal / defer / go
			var walk func(n ast.Node)
			walk = func(n ast.Node) {
				ast.Inspect(n, func(x ast.Node) bool {
					switch y := x.(type) {
					case *ast.FuncLit:
						if x != n {
							depth++
							walk(y.Body)
							depth--
							return false
						}
					case *ast.DeferStmt:
						depth++
						walk(y.Call)
						depth--
						return false
					case *ast.GoStmt:
						depth++
						walk(y.Call)
						depth--
						return false
					case *ast.CallExpr:
						name := c32CallName(y)
						if name != "" && in(name) {
							if depth > 0 && name != "Close" {
								failShape("%s: effect call %s inside a function literal, defer or go statement", sp.fn, name)
							}
							if depth == 0 {
								// arguments are evaluated before the call: list nested vocabulary calls first
								for _, a := range y.Args {
									walk(a)
								}
								if se, ok := y.Fun.(*ast.SelectorExpr); ok {
									walk(se.X)
								}
								calls = append(calls, name)
								return false
							}
						}
					}
					return true
				})
			}
			walk(fd.Body)
			if len(calls) == 0 {
				failShape("%s: none of the expected effect calls found", sp.fn)
			}
			b.WriteString("Definition " + sp.coq + " : list string := " + coqStringList(calls) + ".\n")
		}
		// the record's xattr name and length
		_, f := parseFile("src/build/incrementality.go")
		consts := map[string]string{}
		for _, d := range f.Decls {
			gd, ok := d.(*ast.GenDecl)
			if !ok || gd.Tok != token.CONST {
				continue
			}
			for _, s := range gd.Specs {
				vs := s.(*ast.ValueSpec)
				if len(vs.Names) == 1 && len(vs.Values) == 1 {
					consts[vs.Names[0].Name] = cnExpr(vs.Values[0])
				}
			}
		}
		for _, k := range []string{"xattrName", "hashLength", "fullHashLength"} {
			if consts[k] == "" {
				failShape("constant %s not found in incrementality.go", k)
			}
		}
		b.WriteString("Definition xattr_name : string := " + coqString(strings.Trim(consts["xattrName"], `"`)) + ".\n")
		b.WriteString("Definition hash_length : string := " + coqString(consts["hashLength"]) + ".\n")
		b.WriteString("Definition full_hash_length : string := " + coqString(consts["fullHashLength"]) + ".\n")
		return b.String()
	}
}

// c32CallName: "pkg.Fn" for a call through a package-like identifier the vocabulary may name, else the bare
// method / function name.
func c32CallName(c *ast.CallExpr) string {
	switch f := c.Fun.(type) {
	case *ast.Ident:
		return f.Name
	case *ast.SelectorExpr:
		if id, ok := f.X.(*ast.Ident); ok {
			switch id.Name {
			case "fs", "os", "io", "core", "bytes":
				return id.Name + "." + f.Sel.Name
			}
		}
		return f.Sel.Name
	}
	return ""
}
