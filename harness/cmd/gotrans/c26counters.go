package main

import (
	"fmt"
	"go/ast"
	"go/printer"
	"go/token"
	"strconv"
	"strings"
)

// C26Counters: the selector predicates of core.TestCase (Success, Skip, Failures, Errors), the counter conditions
// of core.TestSuite (FlakyPasses, Passes, Errors, Failures, Skips), the condition of TestCases.AllSucceeded
// (src/core/test_results.go) and the prefixes of looksLikeJUnitXMLTestResults (src/test/xml_results.go).
// Every function must have exactly the loop shape the model gives it; the conditions are translated to Gallina
// boolean expressions.  Anything else fails closed.

type c26env struct {
	loopVar string
	mode    string // "exec": conditions over one TestExecution; "case": over one TestCase
}

func (e c26env) failf(format string, a ...any) { failShape("C26Counters: "+format, a...) }

func c26isNil(x ast.Expr) bool {
	id, ok := x.(*ast.Ident)
	return ok && id.Name == "nil"
}

func c26intLit(x ast.Expr) (int, bool) {
	bl, ok := x.(*ast.BasicLit)
	if !ok || bl.Kind != token.INT {
		return 0, false
	}
	n, err := strconv.Atoi(bl.Value)
	return n, err == nil
}

// pointer-valued atoms: execution.Failure / .Error / .Skip, or result.Success() / result.Skip()
func (e c26env) pointer(x ast.Expr) (string, bool) {
	if e.mode == "exec" {
		if sel, ok := x.(*ast.SelectorExpr); ok {
			if id, ok := sel.X.(*ast.Ident); ok && id.Name == e.loopVar {
				switch sel.Sel.Name {
				case "Failure":
					return "f", true
				case "Error":
					return "e", true
				case "Skip":
					return "k", true
				}
			}
		}
		return "", false
	}
	if call, ok := x.(*ast.CallExpr); ok && len(call.Args) == 0 {
		if sel, ok := call.Fun.(*ast.SelectorExpr); ok {
			if id, ok := sel.X.(*ast.Ident); ok && id.Name == e.loopVar {
				switch sel.Sel.Name {
				case "Success":
					return "ok", true
				case "Skip":
					return "sk", true
				}
			}
		}
	}
	return "", false
}

// length-valued atoms: len(result.Failures()), len(result.Errors()), len(result.Executions)
func (e c26env) length(x ast.Expr) (string, bool) {
	call, ok := x.(*ast.CallExpr)
	if !ok || len(call.Args) != 1 || e.mode != "case" {
		return "", false
	}
	if id, ok := call.Fun.(*ast.Ident); !ok || id.Name != "len" {
		return "", false
	}
	switch a := call.Args[0].(type) {
	case *ast.CallExpr:
		if sel, ok := a.Fun.(*ast.SelectorExpr); ok && len(a.Args) == 0 {
			if id, ok := sel.X.(*ast.Ident); ok && id.Name == e.loopVar {
				switch sel.Sel.Name {
				case "Failures":
					return "nf", true
				case "Errors":
					return "ne", true
				}
			}
		}
	case *ast.SelectorExpr:
		if id, ok := a.X.(*ast.Ident); ok && id.Name == e.loopVar && a.Sel.Name == "Executions" {
			return "nx", true
		}
	}
	return "", false
}

func (e c26env) expr(x ast.Expr) string {
	switch v := x.(type) {
	case *ast.ParenExpr:
		return e.expr(v.X)
	case *ast.UnaryExpr:
		if v.Op == token.NOT {
			return "(negb " + e.expr(v.X) + ")"
		}
	case *ast.BinaryExpr:
		switch v.Op {
		case token.LAND:
			return "(" + e.expr(v.X) + " && " + e.expr(v.Y) + ")"
		case token.LOR:
			return "(" + e.expr(v.X) + " || " + e.expr(v.Y) + ")"
		case token.EQL, token.NEQ:
			if p, ok := e.pointer(v.X); ok && c26isNil(v.Y) {
				if v.Op == token.EQL {
					return "(negb " + p + ")"
				}
				return p
			}
			if l, ok := e.length(v.X); ok {
				if n, ok := c26intLit(v.Y); ok {
					if v.Op == token.EQL {
						return fmt.Sprintf("(Nat.eqb %s %d)", l, n)
					}
					return fmt.Sprintf("(negb (Nat.eqb %s %d))", l, n)
				}
			}
		case token.GTR, token.GEQ, token.LSS, token.LEQ:
			if l, ok := e.length(v.X); ok {
				if n, ok := c26intLit(v.Y); ok {
					switch v.Op {
					case token.GTR:
						return fmt.Sprintf("(Nat.ltb %d %s)", n, l)
					case token.GEQ:
						return fmt.Sprintf("(Nat.leb %d %s)", n, l)
					case token.LSS:
						return fmt.Sprintf("(Nat.ltb %s %d)", l, n)
					default:
						return fmt.Sprintf("(Nat.leb %s %d)", l, n)
					}
				}
			}
		}
	}
	e.failf("condition not in the recognised fragment (mode %s, loop variable %s)", e.mode, e.loopVar)
	return ""
}

func c26def(name, params, body string) string {
	if strings.HasPrefix(body, "(") {
		body += "%bool"
	}
	return "Definition " + name + " " + params + " : bool := " + body + ".\n"
}

// `for _, <v> := range <recv>.<field> { if COND { <then> } }` -> (v, COND, then); field "" = range over the receiver itself
func c26loop(fd *ast.FuncDecl, st ast.Stmt, field string) (string, ast.Expr, ast.Stmt) {
	what := fd.Name.Name
	rs, ok := st.(*ast.RangeStmt)
	if !ok || rs.Tok != token.DEFINE || rs.Value == nil {
		failShape("C26Counters: %s: expected `for _, v := range ...`", what)
	}
	if k, ok := rs.Key.(*ast.Ident); !ok || k.Name != "_" {
		failShape("C26Counters: %s: loop uses the index", what)
	}
	recv := fd.Recv.List[0].Names[0].Name
	if field == "" {
		if id, ok := rs.X.(*ast.Ident); !ok || id.Name != recv {
			failShape("C26Counters: %s: loop does not range over the receiver", what)
		}
	} else {
		sel, ok := rs.X.(*ast.SelectorExpr)
		if !ok || sel.Sel.Name != field {
			failShape("C26Counters: %s: loop does not range over .%s", what, field)
		}
		if id, ok := sel.X.(*ast.Ident); !ok || id.Name != recv {
			failShape("C26Counters: %s: loop does not range over the receiver's .%s", what, field)
		}
	}
	if len(rs.Body.List) != 1 {
		failShape("C26Counters: %s: loop body is not a single if", what)
	}
	is, ok := rs.Body.List[0].(*ast.IfStmt)
	if !ok || is.Init != nil || is.Else != nil || len(is.Body.List) != 1 {
		failShape("C26Counters: %s: loop body is not `if cond { one statement }`", what)
	}
	return rs.Value.(*ast.Ident).Name, is.Cond, is.Body.List[0]
}

func c26returns(fd *ast.FuncDecl, st ast.Stmt, want func(ast.Expr) bool) {
	rs, ok := st.(*ast.ReturnStmt)
	if !ok || len(rs.Results) != 1 || !want(rs.Results[0]) {
		failShape("C26Counters: %s: unexpected return statement", fd.Name.Name)
	}
}

func c26isIdent(name string) func(ast.Expr) bool {
	return func(x ast.Expr) bool { id, ok := x.(*ast.Ident); return ok && id.Name == name }
}

func init() {
	targets["C26Counters"] = func() string {
		_, f := parseFile("src/core/test_results.go")
		var b strings.Builder
		b.WriteString(genHeader)
		b.WriteString("(* property C26: the selector predicates of core.TestCase, the counter conditions of core.TestSuite,\n" +
			"   AllSucceeded (src/core/test_results.go) and the format dispatch prefixes (src/test/xml_results.go).\n" +
			"   The loop shapes around these conditions were matched by harness/cmd/gotrans/c26counters.go. *)\n")

		// --- TestCase selectors
		b.WriteString("(* one TestExecution: f = (Failure != nil), e = (Error != nil), k = (Skip != nil) *)\n")
		for _, name := range []string{"Success", "Skip"} {
			// for _, execution := range testCase.Executions { if COND { return &execution } }; return nil
			fd := findFunc(f, "TestCase", name)
			if len(fd.Body.List) != 2 {
				failShape("C26Counters: TestCase.%s: body is not loop + return", name)
			}
			v, cond, then := c26loop(fd, fd.Body.List[0], "Executions")
			c26returns(fd, then, func(x ast.Expr) bool {
				u, ok := x.(*ast.UnaryExpr)
				return ok && u.Op == token.AND && c26isIdent(v)(u.X)
			})
			c26returns(fd, fd.Body.List[1], c26isNil)
			b.WriteString(c26def("exec_"+name, "(f e k : bool)", c26env{v, "exec"}.expr(cond)))
		}
		for _, name := range []string{"Failures", "Errors"} {
			// x := make([]TestExecution, 0); for ... { if COND { x = append(x, execution) } }; return x
			fd := findFunc(f, "TestCase", name)
			if len(fd.Body.List) != 3 {
				failShape("C26Counters: TestCase.%s: body is not make + loop + return", name)
			}
			as, ok := fd.Body.List[0].(*ast.AssignStmt)
			if !ok || as.Tok != token.DEFINE || len(as.Lhs) != 1 || len(as.Rhs) != 1 {
				failShape("C26Counters: TestCase.%s: first statement is not `x := make(...)`", name)
			}
			acc := as.Lhs[0].(*ast.Ident).Name
			if mk, ok := as.Rhs[0].(*ast.CallExpr); !ok || !c26isIdent("make")(mk.Fun) || len(mk.Args) != 2 {
				failShape("C26Counters: TestCase.%s: accumulator is not make(slice, 0)", name)
			} else if n, ok := c26intLit(mk.Args[1]); !ok || n != 0 {
				failShape("C26Counters: TestCase.%s: accumulator does not start empty", name)
			}
			v, cond, then := c26loop(fd, fd.Body.List[1], "Executions")
			ap, ok := then.(*ast.AssignStmt)
			good := ok && ap.Tok == token.ASSIGN && len(ap.Lhs) == 1 && len(ap.Rhs) == 1 && c26isIdent(acc)(ap.Lhs[0])
			if good {
				call, ok := ap.Rhs[0].(*ast.CallExpr)
				good = ok && c26isIdent("append")(call.Fun) && len(call.Args) == 2 && c26isIdent(acc)(call.Args[0]) && c26isIdent(v)(call.Args[1])
			}
			if !good {
				failShape("C26Counters: TestCase.%s: loop does not append the execution", name)
			}
			c26returns(fd, fd.Body.List[2], c26isIdent(acc))
			b.WriteString(c26def("exec_"+name, "(f e k : bool)", c26env{v, "exec"}.expr(cond)))
		}

		// --- TestSuite counters
		b.WriteString("(* one TestCase: ok = (Success() != nil), sk = (Skip() != nil), nf = len(Failures()), ne = len(Errors()), nx = len(Executions) *)\n")
		params := "(ok sk : bool) (nf ne nx : nat)"
		for _, name := range []string{"FlakyPasses", "Passes", "Errors", "Failures", "Skips"} {
			// n := 0; for _, result := range testSuite.TestCases { if COND { n++ } }; return n
			fd := findFunc(f, "TestSuite", name)
			if len(fd.Body.List) != 3 {
				failShape("C26Counters: TestSuite.%s: body is not init + loop + return", name)
			}
			as, ok := fd.Body.List[0].(*ast.AssignStmt)
			if !ok || as.Tok != token.DEFINE || len(as.Lhs) != 1 || len(as.Rhs) != 1 {
				failShape("C26Counters: TestSuite.%s: first statement is not `n := 0`", name)
			}
			if n, ok := c26intLit(as.Rhs[0]); !ok || n != 0 {
				failShape("C26Counters: TestSuite.%s: counter does not start at 0", name)
			}
			acc := as.Lhs[0].(*ast.Ident).Name
			v, cond, then := c26loop(fd, fd.Body.List[1], "TestCases")
			if inc, ok := then.(*ast.IncDecStmt); !ok || inc.Tok != token.INC || !c26isIdent(acc)(inc.X) {
				failShape("C26Counters: TestSuite.%s: loop does not increment the counter", name)
			}
			c26returns(fd, fd.Body.List[2], c26isIdent(acc))
			b.WriteString(c26def("cond_"+name, params, c26env{v, "case"}.expr(cond)))
		}
		// Tests() is len(TestCases)
		{
			fd := findFunc(f, "TestSuite", "Tests")
			if len(fd.Body.List) != 1 {
				failShape("C26Counters: TestSuite.Tests: body is not a single return")
			}
			recv := fd.Recv.List[0].Names[0].Name
			c26returns(fd, fd.Body.List[0], func(x ast.Expr) bool {
				call, ok := x.(*ast.CallExpr)
				if !ok || !c26isIdent("len")(call.Fun) || len(call.Args) != 1 {
					return false
				}
				sel, ok := call.Args[0].(*ast.SelectorExpr)
				return ok && c26isIdent(recv)(sel.X) && sel.Sel.Name == "TestCases"
			})
		}

		// --- AllSucceeded: for _, testCase := range testCases { if COND { return false } }; return true
		{
			fd := findFunc(f, "TestCases", "AllSucceeded")
			if len(fd.Body.List) != 2 {
				failShape("C26Counters: AllSucceeded: body is not loop + return")
			}
			v, cond, then := c26loop(fd, fd.Body.List[0], "")
			c26returns(fd, then, c26isIdent("false"))
			c26returns(fd, fd.Body.List[1], c26isIdent("true"))
			b.WriteString("(* AllSucceeded returns false as soon as a case satisfies this *)\n")
			b.WriteString(c26def("cond_NotSucceeded", params, c26env{v, "case"}.expr(cond)))
		}

		// --- findMatchingTestCase / Add
		b.WriteString(c26match(f))

		// --- looksLikeJUnitXMLTestResults: return bytes.HasPrefix(b, []byte{...}) || ...
		{
			_, fx := parseFile("src/test/xml_results.go")
			fd := findFunc(fx, "", "looksLikeJUnitXMLTestResults")
			if len(fd.Body.List) != 1 || len(fd.Type.Params.List) != 1 || len(fd.Type.Params.List[0].Names) != 1 {
				failShape("C26Counters: looksLikeJUnitXMLTestResults: unexpected signature or body")
			}
			arg := fd.Type.Params.List[0].Names[0].Name
			rs, ok := fd.Body.List[0].(*ast.ReturnStmt)
			if !ok || len(rs.Results) != 1 {
				failShape("C26Counters: looksLikeJUnitXMLTestResults: body is not a single return")
			}
			var alts []string
			var walk func(x ast.Expr)
			walk = func(x ast.Expr) {
				if be, ok := x.(*ast.BinaryExpr); ok && be.Op == token.LOR {
					walk(be.X)
					walk(be.Y)
					return
				}
				call, ok := x.(*ast.CallExpr)
				if !ok || len(call.Args) != 2 || !c26isIdent(arg)(call.Args[0]) {
					failShape("C26Counters: looksLikeJUnitXMLTestResults: alternative is not bytes.HasPrefix(b, ...)")
				}
				sel, ok := call.Fun.(*ast.SelectorExpr)
				if !ok || !c26isIdent("bytes")(sel.X) || sel.Sel.Name != "HasPrefix" {
					failShape("C26Counters: looksLikeJUnitXMLTestResults: alternative is not bytes.HasPrefix")
				}
				var bs []string
				switch lit := call.Args[1].(type) {
				case *ast.CompositeLit:
					for _, el := range lit.Elts {
						bl, ok := el.(*ast.BasicLit)
						if !ok {
							failShape("C26Counters: prefix element is not a literal")
						}
						if bl.Kind == token.CHAR {
							c := unquote(bl)
							if len(c) != 1 {
								failShape("C26Counters: prefix element %s is not one byte", bl.Value)
							}
							bs = append(bs, strconv.Itoa(int(c[0])))
						} else if n, ok := c26intLit(bl); ok && n >= 0 && n < 256 {
							bs = append(bs, strconv.Itoa(n))
						} else {
							failShape("C26Counters: prefix element %s not recognised", bl.Value)
						}
					}
				case *ast.CallExpr: // []byte("...")
					if len(lit.Args) != 1 {
						failShape("C26Counters: prefix conversion not recognised")
					}
					bl, ok := lit.Args[0].(*ast.BasicLit)
					if _, isArr := lit.Fun.(*ast.ArrayType); !ok || !isArr || bl.Kind != token.STRING {
						failShape("C26Counters: prefix conversion not recognised")
					}
					for _, c := range []byte(unquote(bl)) {
						bs = append(bs, strconv.Itoa(int(c)))
					}
				default:
					failShape("C26Counters: prefix is not a byte slice literal")
				}
				alts = append(alts, "["+strings.Join(bs, "; ")+"]")
			}
			walk(rs.Results[0])
			b.WriteString("(* looksLikeJUnitXMLTestResults: bytes.HasPrefix alternatives *)\n")
			b.WriteString("Definition junit_prefixes : list (list N) := [" + strings.Join(alts, "; ") + "]%N.\n")
		}
		// --- follow-up 2: the statements of parseTestResults / parseTestResultDatum (src/test/results.go) and the
		// guards of cacheOutputFiles / needToRun (src/test/test_step.go), translated statement by statement
		b.WriteString(c26flow())
		return b.String()
	}
}

// c26src renders a node back to source with all white space removed (a fail-closed fingerprint of a shape)
func c26src(n ast.Node) string {
	var b strings.Builder
	if err := printer.Fprint(&b, token.NewFileSet(), n); err != nil {
		failShape("C26Counters: cannot print a node: %v", err)
	}
	return strings.Join(strings.Fields(b.String()), "")
}

// c26match: TestSuite.Add must be exactly the loop the model's add_one/add_all transcribe, and
// findMatchingTestCase must be `for idx := range *cases { o := (*cases)[idx]; if COND { return idx } }; return -1`
// where COND is a boolean combination of the comparisons of the two Names and of the two ClassNames.
// COND becomes Gen.match_case (nm cl : bool).
func c26match(f *ast.File) string {
	add := findFunc(f, "TestSuite", "Add")
	recv := add.Recv.List[0].Names[0].Name
	if len(add.Type.Params.List) != 1 || len(add.Type.Params.List[0].Names) != 1 {
		failShape("C26Counters: TestSuite.Add: unexpected parameters")
	}
	if _, ok := add.Type.Params.List[0].Type.(*ast.Ellipsis); !ok {
		failShape("C26Counters: TestSuite.Add: parameter is not variadic")
	}
	cases := add.Type.Params.List[0].Names[0].Name
	if len(add.Body.List) != 1 {
		failShape("C26Counters: TestSuite.Add: body is not a single loop")
	}
	rs, ok := add.Body.List[0].(*ast.RangeStmt)
	if !ok || rs.Value == nil || !c26isIdent("_")(rs.Key) || !c26isIdent(cases)(rs.X) {
		failShape("C26Counters: TestSuite.Add: not `for _, c := range cases`")
	}
	v := rs.Value.(*ast.Ident).Name
	tc := recv + ".TestCases"
	want := "{idx:=findMatchingTestCase(&" + v + ",&" + tc + ")" +
		"ifidx>=0{" + tc + "[idx].Executions=append(" + tc + "[idx].Executions," + v + ".Executions...)}" +
		"else{" + tc + "=append(" + tc + "," + v + ")}}"
	if got := c26src(rs.Body); got != want {
		failShape("C26Counters: TestSuite.Add: loop body is %s, expected %s", got, want)
	}

	fd := findFunc(f, "", "findMatchingTestCase")
	ps := fd.Type.Params.List
	if len(ps) != 2 || len(ps[0].Names) != 1 || len(ps[1].Names) != 1 || len(fd.Body.List) != 2 {
		failShape("C26Counters: findMatchingTestCase: unexpected signature or body")
	}
	probe, list := ps[0].Names[0].Name, ps[1].Names[0].Name
	if c26src(ps[0].Type) != "*TestCase" || c26src(ps[1].Type) != "*TestCases" {
		failShape("C26Counters: findMatchingTestCase: unexpected parameter types")
	}
	loop, ok := fd.Body.List[0].(*ast.RangeStmt)
	if !ok || loop.Value != nil || loop.Key == nil || loop.Tok != token.DEFINE || c26src(loop.X) != "*"+list || len(loop.Body.List) != 2 {
		failShape("C26Counters: findMatchingTestCase: not `for idx := range *cases { two statements }`")
	}
	idx := loop.Key.(*ast.Ident).Name
	as, ok := loop.Body.List[0].(*ast.AssignStmt)
	if !ok || as.Tok != token.DEFINE || len(as.Lhs) != 1 || len(as.Rhs) != 1 || c26src(as.Rhs[0]) != "(*"+list+")["+idx+"]" {
		failShape("C26Counters: findMatchingTestCase: first statement is not `o := (*cases)[idx]`")
	}
	orig := as.Lhs[0].(*ast.Ident).Name
	is, ok := loop.Body.List[1].(*ast.IfStmt)
	if !ok || is.Init != nil || is.Else != nil || c26src(is.Body) != "{return"+idx+"}" {
		failShape("C26Counters: findMatchingTestCase: second statement is not `if cond { return idx }`")
	}
	if c26src(fd.Body.List[1]) != "return-1" {
		failShape("C26Counters: findMatchingTestCase: does not end in `return -1`")
	}
	field := func(x ast.Expr, who string) (string, bool) {
		sel, ok := x.(*ast.SelectorExpr)
		if !ok || !c26isIdent(who)(sel.X) {
			return "", false
		}
		return sel.Sel.Name, true
	}
	var cond func(x ast.Expr) string
	cond = func(x ast.Expr) string {
		switch e := x.(type) {
		case *ast.ParenExpr:
			return cond(e.X)
		case *ast.UnaryExpr:
			if e.Op == token.NOT {
				return "(negb " + cond(e.X) + ")"
			}
		case *ast.BinaryExpr:
			switch e.Op {
			case token.LAND:
				return "(" + cond(e.X) + " && " + cond(e.Y) + ")"
			case token.LOR:
				return "(" + cond(e.X) + " || " + cond(e.Y) + ")"
			case token.EQL, token.NEQ:
				a, okA := field(e.X, orig)
				bb, okB := field(e.Y, probe)
				if !okA || !okB {
					a, okA = field(e.X, probe)
					bb, okB = field(e.Y, orig)
				}
				if okA && okB && a == bb && (a == "Name" || a == "ClassName") {
					r := map[string]string{"Name": "nm", "ClassName": "cl"}[a]
					if e.Op == token.NEQ {
						r = "(negb " + r + ")"
					}
					return r
				}
			}
		}
		failShape("C26Counters: findMatchingTestCase: condition %s is not a boolean combination of `o.Name == c.Name` and `o.ClassName == c.ClassName`", c26src(x))
		return ""
	}
	return "(* findMatchingTestCase: nm = (o.Name == c.Name), cl = (o.ClassName == c.ClassName); TestSuite.Add and the search loop\n" +
		"   were matched literally *)\n" + c26def("match_case", "(nm cl : bool)", cond(is.Cond))
}

// ------------------------------------------------------------------------------------------------
// follow-up 2: statement-level translation of
//   parseTestResults      (the body of the loop over the result files)            -> Gen.results_step
//   parseTestResultDatum  (the if / else-if / else chain)                          -> Gen.datum_route
//   cacheOutputFiles      (the leading `if COND { log...; return false }` guards)  -> Gen.cache_refused
//   needToRun             (the leading `if COND { return true }` guards)           -> Gen.need_run_forced
// Each statement is translated, in source order, into one layer of the generated Gallina term; a statement outside
// the small grammar below fails closed.

func c26isLenZero(x ast.Expr, v string) bool { return c26src(x) == "len("+v+")==0" }

// the body of `for _, datum := range data` in parseTestResults, as a Gallina term over acc / d
func c26resultsStep(fd *ast.FuncDecl) string {
	if len(fd.Type.Params.List) != 1 || len(fd.Type.Params.List[0].Names) != 1 || len(fd.Body.List) != 3 {
		failShape("C26Counters: parseTestResults: unexpected signature or body (want init; loop; return)")
	}
	data := fd.Type.Params.List[0].Names[0].Name
	as, ok := fd.Body.List[0].(*ast.AssignStmt)
	if !ok || as.Tok != token.DEFINE || len(as.Lhs) != 1 || c26src(as.Rhs[0]) != "core.TestSuite{}" {
		failShape("C26Counters: parseTestResults: first statement is not `suite := core.TestSuite{}`")
	}
	acc := as.Lhs[0].(*ast.Ident).Name
	rs, ok := fd.Body.List[1].(*ast.RangeStmt)
	if !ok || rs.Value == nil || !c26isIdent("_")(rs.Key) || !c26isIdent(data)(rs.X) || rs.Tok != token.DEFINE {
		failShape("C26Counters: parseTestResults: not `for _, datum := range data`")
	}
	if c26src(fd.Body.List[2]) != "return"+acc+",nil" {
		failShape("C26Counters: parseTestResults: does not end in `return suite, nil`")
	}
	v := rs.Value.(*ast.Ident).Name
	var tr func(sts []ast.Stmt, parsed string) string
	tr = func(sts []ast.Stmt, parsed string) string {
		if len(sts) == 0 {
			failShape("C26Counters: parseTestResults: the loop body ends without collapsing the parsed suite")
		}
		switch st := sts[0].(type) {
		case *ast.IfStmt:
			// a guard on the raw bytes before / after the parse
			if st.Init == nil && st.Else == nil && c26isLenZero(st.Cond, v) && len(st.Body.List) == 1 {
				switch c26src(st.Body.List[0]) {
				case "continue":
					return "if empty d then Some acc else " + tr(sts[1:], parsed)
				case "break":
					failShape("C26Counters: parseTestResults: `break` on an empty file is not modelled")
				}
				if ret, ok := st.Body.List[0].(*ast.ReturnStmt); ok && len(ret.Results) == 2 && c26isIdent(acc)(ret.Results[0]) && !c26isNil(ret.Results[1]) {
					return "if empty d then None else " + tr(sts[1:], parsed)
				}
			}
		case *ast.AssignStmt:
			// newSuite, err := parseTestResultDatum(datum); if err != nil { return suite, err }
			if st.Tok == token.DEFINE && len(st.Lhs) == 2 && len(st.Rhs) == 1 && parsed == "" &&
				c26src(st.Rhs[0]) == "parseTestResultDatum("+v+")" && len(sts) >= 2 {
				ns, errv := st.Lhs[0].(*ast.Ident).Name, st.Lhs[1].(*ast.Ident).Name
				if c26src(sts[1]) == "if"+errv+"!=nil{return"+acc+","+errv+"}" {
					return "match parse d with None => None | Some x => " + tr(sts[2:], ns) + " end"
				}
			}
		case *ast.ExprStmt:
			if parsed != "" && c26src(st) == acc+".Collapse("+parsed+")" && len(sts) == 1 {
				return "Some (collapse acc x)"
			}
		}
		failShape("C26Counters: parseTestResults: statement `%s` of the loop body is not in the recognised fragment", c26src(sts[0]))
		return ""
	}
	return tr(rs.Body.List, "")
}

// parseTestResultDatum: if len(data) == 0 {error} else if looksLikeJUnitXMLTestResults(data) {xml} else {go}
func c26datumRoute(fd *ast.FuncDecl) string {
	if len(fd.Type.Params.List) != 1 || len(fd.Type.Params.List[0].Names) != 1 || len(fd.Body.List) != 1 {
		failShape("C26Counters: parseTestResultDatum: unexpected signature or body (want one if-chain)")
	}
	data := fd.Type.Params.List[0].Names[0].Name
	branch := func(b *ast.BlockStmt) string {
		src := c26src(b)
		switch {
		case strings.HasPrefix(src, "{returncore.TestSuite{},fmt.Errorf(") && len(b.List) == 1:
			return "no_results"
		case src == "{testSuites,err:=parseJUnitXMLTestResults("+data+")testSuite:=core.TestSuite{}for_,suite:=rangetestSuites.TestSuites{testSuite.Collapse(suite)}returntestSuite,err}":
			return "xml"
		case src == "{returnparseGoTestResults("+data+")}":
			return "gotest"
		}
		failShape("C26Counters: parseTestResultDatum: branch %s not recognised", src)
		return ""
	}
	var chain func(st ast.Stmt) string
	chain = func(st ast.Stmt) string {
		switch x := st.(type) {
		case *ast.IfStmt:
			if x.Init != nil || x.Else == nil {
				failShape("C26Counters: parseTestResultDatum: if without else in the chain")
			}
			cond := ""
			switch {
			case c26isLenZero(x.Cond, data):
				cond = "empty"
			case c26src(x.Cond) == "looksLikeJUnitXMLTestResults("+data+")":
				cond = "junit"
			default:
				failShape("C26Counters: parseTestResultDatum: condition %s not recognised", c26src(x.Cond))
			}
			return "if " + cond + " then " + branch(x.Body) + " else " + chain(x.Else)
		case *ast.BlockStmt:
			return branch(x)
		}
		failShape("C26Counters: parseTestResultDatum: not an if / else-if / else chain")
		return ""
	}
	return chain(fd.Body.List[0])
}

// the function literal bound by `name := func(...) ... { ... }` directly in the body of fd
func c26closure(fd *ast.FuncDecl, name string) *ast.FuncLit {
	for _, st := range fd.Body.List {
		as, ok := st.(*ast.AssignStmt)
		if !ok || as.Tok != token.DEFINE || len(as.Lhs) != 1 || len(as.Rhs) != 1 || !c26isIdent(name)(as.Lhs[0]) {
			continue
		}
		if fl, ok := as.Rhs[0].(*ast.FuncLit); ok {
			return fl
		}
	}
	failShape("C26Counters: test(): closure %s not found", name)
	return nil
}

// the leading guards `if COND { [log.X(...);] return <ret> }` of a closure, as a disjunction over the atoms
func c26guards(what string, fl *ast.FuncLit, ret string, atoms map[string]string, min int) string {
	conds := []string{}
	var expr func(x ast.Expr) string
	expr = func(x ast.Expr) string {
		switch e := x.(type) {
		case *ast.ParenExpr:
			return expr(e.X)
		case *ast.UnaryExpr:
			if e.Op == token.NOT {
				return "(negb " + expr(e.X) + ")"
			}
		case *ast.BinaryExpr:
			if e.Op == token.LAND {
				return "(" + expr(e.X) + " && " + expr(e.Y) + ")"
			}
			if e.Op == token.LOR {
				return "(" + expr(e.X) + " || " + expr(e.Y) + ")"
			}
		}
		if a, ok := atoms[c26src(x)]; ok {
			return a
		}
		failShape("C26Counters: %s: guard condition %s is not over the recognised atoms", what, c26src(x))
		return ""
	}
	for _, st := range fl.Body.List {
		is, ok := st.(*ast.IfStmt)
		if !ok || is.Init != nil || is.Else != nil || len(is.Body.List) == 0 {
			break
		}
		last := is.Body.List[len(is.Body.List)-1]
		if c26src(last) != "return"+ret {
			break
		}
		for _, pre := range is.Body.List[:len(is.Body.List)-1] {
			if !strings.HasPrefix(c26src(pre), "log.") {
				failShape("C26Counters: %s: guard body contains %s", what, c26src(pre))
			}
		}
		conds = append(conds, expr(is.Cond))
	}
	if len(conds) < min {
		failShape("C26Counters: %s: found %d leading guards returning %s, expected at least %d", what, len(conds), ret, min)
	}
	// every later `return <ret>` must be inside an error branch (cacheOutputFiles) or decided by hashes (needToRun):
	// those are not guards on the arguments; a later mention of TestArgs would be
	rest := fl.Body.List[len(conds):]
	for _, st := range rest {
		if strings.Contains(c26src(st), "TestArgs") {
			failShape("C26Counters: %s: state.TestArgs is consulted after the leading guards", what)
		}
	}
	return "(" + strings.Join(append(conds, "false"), " || ") + ")"
}

func c26flow() string {
	var b strings.Builder
	_, fr := parseFile("src/test/results.go")
	b.WriteString("(* parseTestResults: the body of `for _, datum := range data`, statement by statement; acc = suite so far,\n" +
		"   None = `return suite, err`, Some = the suite after this file; empty d = (len(datum) == 0) *)\n")
	b.WriteString("Definition results_step {S D : Type} (empty : D -> bool) (parse : D -> option S) (collapse : S -> S -> S) (acc : S) (d : D) : option S :=\n  " +
		c26resultsStep(findFunc(fr, "", "parseTestResults")) + ".\n")
	b.WriteString("(* parseTestResultDatum: the if-chain; empty = (len(data) == 0), junit = looksLikeJUnitXMLTestResults(data) *)\n")
	b.WriteString("Definition datum_route {A : Type} (empty junit : bool) (no_results xml gotest : A) : A :=\n  " +
		c26datumRoute(findFunc(fr, "", "parseTestResultDatum")) + ".\n")
	// parseTestResultsFile: data, err := readTestResultsDir(file); if err != nil {...}; return parseTestResults(data)
	if got := c26src(findFunc(fr, "", "parseTestResultsFile").Body); got != "{data,err:=readTestResultsDir(file)iferr!=nil{returncore.TestSuite{},err}returnparseTestResults(data)}" {
		failShape("C26Counters: parseTestResultsFile: body is %s", got)
	}

	_, ft := parseFile("src/test/test_step.go")
	fd := findFunc(ft, "", "test")
	b.WriteString("(* test(): cacheOutputFiles refuses to store the results when (leading `return false` guards);\n" +
		"   has_args = (len(state.TestArgs) > 0), nfail = results.Failures() *)\n")
	b.WriteString(c26def("cache_refused", "(has_args : bool) (nfail : nat)", c26guards("cacheOutputFiles", c26closure(fd, "cacheOutputFiles"), "false",
		map[string]string{"len(state.TestArgs)>0": "has_args", "results.Failures()>0": "(Nat.ltb 0 nfail)", "results.Failures()!=0": "(negb (Nat.eqb nfail 0))"}, 1)))
	b.WriteString("(* test(): needToRun runs the test without looking at stored results when (leading `return true` guards);\n" +
		"   force = state.ForceRerun *)\n")
	b.WriteString(c26def("need_run_forced", "(force has_args : bool)", c26guards("needToRun", c26closure(fd, "needToRun"), "true",
		map[string]string{"state.ForceRerun": "force", "len(state.TestArgs)>0": "has_args"}, 1)))
	// the two call sites: the stored results are consulted only when needToRun() is false, results are stored only
	// after a report in which every case succeeded
	src := c26src(fd.Body)
	for _, want := range []string{
		"ifstate.NumTestRuns==1&&!runRemotely&&!needToRun(){ifcachedResults:=cachedTestResults();cachedResults!=nil{target.Test.Results=cachedResultsreturn}}",
		"iftarget.Test.Results.TestCases.AllSucceeded(){cacheOutputFiles(target.Test.Results,coverage,outs)}",
		"iferr:=RemoveTestOutputs(target);err!=nil{",
	} {
		if strings.Count(src, want) != 1 {
			failShape("C26Counters: test(): expected exactly one occurrence of %s", want)
		}
	}
	if strings.Count(src, "cacheOutputFiles(") != 1 || strings.Count(src, "needToRun()") != 1 {
		failShape("C26Counters: test(): cacheOutputFiles / needToRun are called from more than one place")
	}
	return b.String()
}
