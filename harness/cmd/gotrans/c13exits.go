package main

import (
	"bytes"
	"go/ast"
	"go/printer"
	"go/token"
	"strings"
)

// C13Exits (property C13): how the write loops of the HTTP and the command cache leave on a
// read error, how readTar maps the ways a tar stream can end to its boolean result, and how
// cmdCache.Retrieve combines the tar result with the command's exit status.
//
// Every recognised statement sequence is compared literally (printed without comments); any
// other shape fails closed.
func init() {
	targets["C13Exits"] = func() string {
		var b strings.Builder
		b.WriteString("Inductive fault_exit := FCloseWithError | FContinue.\n")

		// ---------------------------------------------------------------- httpCache.write
		fset, hf := parseFile("src/cache/http_cache.go")
		hw := findFunc(hf, "httpCache", "write")
		stmts := c13Stmts(fset, hw.Body.List)
		loopAt := -1
		for i, s := range hw.Body.List {
			if _, ok := s.(*ast.RangeStmt); ok {
				if loopAt >= 0 {
					failShape("httpCache.write: more than one range loop")
				}
				loopAt = i
			}
		}
		if loopAt < 0 {
			failShape("httpCache.write: no range loop over the files")
		}
		errBody := c13LoopErrorBranch(fset, "httpCache.write", hw.Body.List[loopAt].(*ast.RangeStmt))
		before, after := strings.Join(stmts[:loopAt], " ; "), strings.Join(stmts[loopAt+1:], " ; ")
		const closeChain = `if err := tw.Close(); err != nil { w.CloseWithError(err) return } ; ` +
			`if err := gzw.Close(); err != nil { w.CloseWithError(err) return } ; w.Close()`
		switch {
		case before == `gzw := gzip.NewWriter(w) ; tw := tar.NewWriter(gzw) ; outDir := target.OutDir()` &&
			errBody == `log.Warning("Error uploading artifacts to HTTP cache: %s", err) ; w.CloseWithError(err) ; return` &&
			after == closeChain:
			b.WriteString("Definition http_write_fault_exit : fault_exit := FCloseWithError.\n")
			b.WriteString("Definition http_write_close_errors_abort : bool := true.\n")
		case before == `defer w.Close() ; gzw := gzip.NewWriter(w) ; defer gzw.Close() ; tw := tar.NewWriter(gzw) ; defer tw.Close() ; outDir := target.OutDir()` &&
			errBody == `log.Warning("Error uploading artifacts to HTTP cache: %s", err)` && after == "":
			// the loop goes on with the next output and the archive is closed normally
			b.WriteString("Definition http_write_fault_exit : fault_exit := FContinue.\n")
			b.WriteString("Definition http_write_close_errors_abort : bool := false.\n")
		default:
			failShape("httpCache.write: unrecognised shape: before loop {%s}, error branch {%s}, after loop {%s}", before, errBody, after)
		}

		// ---------------------------------------------------------------- cmd_cache.go write
		cset, cf := parseFile("src/cache/cmd_cache.go")
		cw := findFunc(cf, "", "write")
		cst := c13Stmts(cset, cw.Body.List)
		if len(cw.Body.List) == 0 {
			failShape("cmd write: empty body")
		}
		last, ok := cw.Body.List[len(cw.Body.List)-1].(*ast.RangeStmt)
		if !ok {
			failShape("cmd write: the last statement is not the range loop over the files")
		}
		cerr := c13LoopErrorBranch(cset, "cmd write", last)
		cbefore := strings.Join(cst[:len(cst)-1], " ; ")
		if cerr != `log.Warning("Error sending artifacts to command-driven cache: %s", err) ; cancel() ; return` {
			failShape("cmd write: unrecognised error branch {%s}", cerr)
		}
		b.WriteString("Definition cmd_write_fault_cancels : bool := true.\n")
		switch cbefore {
		case `defer w.Close() ; tw := tar.NewWriter(w) ; defer tw.Close() ; outDir := target.OutDir()`:
			// the deferred tw.Close() also runs on the error path
			b.WriteString("Definition cmd_write_deferred_tar_close : bool := true.\n")
		default:
			failShape("cmd write: unrecognised statements before the loop {%s}", cbefore)
		}

		// ---------------------------------------------------------------- readTar
		rt := findFunc(hf, "", "readTar")
		eofResult, errResult := "", ""
		var visit func(n ast.Node, underEOF bool)
		visit = func(n ast.Node, underEOF bool) {
			ast.Inspect(n, func(m ast.Node) bool {
				switch x := m.(type) {
				case *ast.FuncLit:
					failShape("readTar: function literal")
				case *ast.IfStmt:
					if x.Init != nil {
						visit(x.Init, underEOF)
					}
					isEOF := c13Node(fset, x.Cond) == "err == io.EOF"
					visit(x.Body, isEOF)
					if x.Else != nil {
						visit(x.Else, false)
					}
					return false
				case *ast.ReturnStmt:
					if len(x.Results) != 2 {
						failShape("readTar: return with %d results", len(x.Results))
					}
					v, e := c13Node(fset, x.Results[0]), c13Node(fset, x.Results[1])
					if v != "true" && v != "false" {
						failShape("readTar: first result %s is not a boolean literal", v)
					}
					if underEOF {
						if e != "nil" || (eofResult != "" && eofResult != v) {
							failShape("readTar: unexpected return %s, %s under err == io.EOF", v, e)
						}
						eofResult = v
					} else {
						if e != "err" || (errResult != "" && errResult != v) {
							failShape("readTar: return %s, %s outside the io.EOF branch (other error returns give %s)", v, e, errResult)
						}
						errResult = v
					}
				}
				return true
			})
		}
		visit(rt.Body, false)
		if eofResult == "" || errResult == "" {
			failShape("readTar: no io.EOF return or no error return found")
		}
		b.WriteString("Definition readtar_eof_result : bool := " + eofResult + ".\n")
		b.WriteString("Definition readtar_error_result : bool := " + errResult + ".\n")

		// ---------------------------------------------------------------- cmdCache.Retrieve
		cr := findFunc(cf, "cmdCache", "Retrieve")
		lastStmt := c13Node(cset, cr.Body.List[len(cr.Body.List)-1])
		switch lastStmt {
		case "return tarOk && <-cmdResult":
			b.WriteString("Definition cmd_retrieve_needs_exit_ok : bool := true.\n")
		case "return tarOk":
			b.WriteString("Definition cmd_retrieve_needs_exit_ok : bool := false.\n")
		default:
			failShape("cmdCache.Retrieve: unrecognised final statement {%s}", lastStmt)
		}
		// the goroutine: ok is false iff cmd.Wait fails; the read end is closed after Wait
		var lit *ast.FuncLit
		for _, s := range cr.Body.List {
			if g, ok := s.(*ast.GoStmt); ok {
				if fl, ok := g.Call.Fun.(*ast.FuncLit); ok {
					if lit != nil {
						failShape("cmdCache.Retrieve: more than one goroutine")
					}
					lit = fl
				}
			}
		}
		if lit == nil {
			failShape("cmdCache.Retrieve: goroutine waiting for the command not found")
		}
		gs := c13Stmts(cset, lit.Body.List)
		if len(gs) < 3 || gs[0] != "var ok bool" || gs[len(gs)-1] != "cmdResult <- ok" {
			failShape("cmdCache.Retrieve: goroutine is not `var ok bool; ...; cmdResult <- ok`")
		}
		ifw, isIf := lit.Body.List[1].(*ast.IfStmt)
		if !isIf || ifw.Init == nil || c13Node(cset, ifw.Init) != "err := cmd.Wait()" || c13Node(cset, ifw.Cond) != "err != nil" || ifw.Else == nil {
			failShape("cmdCache.Retrieve: goroutine does not start with `if err := cmd.Wait(); err != nil {..} else {..}`")
		}
		if c13AssignsOk(cset, ifw.Body) != "false" {
			failShape("cmdCache.Retrieve: the cmd.Wait error branch does not end with ok = false")
		}
		eb, isBlock := ifw.Else.(*ast.BlockStmt)
		if !isBlock || c13AssignsOk(cset, eb) != "true" {
			failShape("cmdCache.Retrieve: the cmd.Wait success branch does not end with ok = true")
		}
		closes := false
		for _, s := range gs[2 : len(gs)-1] {
			if s == "r.Close()" {
				closes = true
			} else {
				failShape("cmdCache.Retrieve: unrecognised goroutine statement {%s}", s)
			}
		}
		b.WriteString("Definition cmd_retrieve_closes_reader : bool := " + map[bool]string{true: "true", false: "false"}[closes] + ".\n")
		if c13Count(cset, cr.Body, "w.Close()")+c13Count(cset, cr.Body, "defer w.Close()") > 0 {
			failShape("cmdCache.Retrieve: the write end of the pipe is closed somewhere; the model assumes it never is")
		}
		c13WalkAction(&b)
		c13Round2(&b, fset, hf, cset, cf)
		return b.String()
	}
}

// c13WalkAction (follow-up: entries that vanish during a store): what fs.Walk / fs.WalkMode do
// with an error returned by the callback (storeFile) for an entry INSIDE a directory output.
// godirwalk routes callback errors through Options.ErrorCallback; without one every error halts
// the walk. The root path is Lstat'ed by WalkMode itself and its error returned directly.
func c13WalkAction(b *strings.Builder) {
	b.WriteString("Inductive walk_error_action := WHalt | WSkipEnoent.\n")
	wset, wf := parseFile("src/fs/walk.go")
	wk := findFunc(wf, "", "Walk")
	if wk == nil || wk.Body == nil {
		failShape("fs.Walk not found")
	}
	if got := strings.Join(c13Stmts(wset, wk.Body.List), " ; "); got !=
		`return WalkMode(rootPath, func(name string, mode Mode) error { return callback(name, mode.IsDir()) })` {
		failShape("fs.Walk: unrecognised body {%s}", got)
	}
	wm := findFunc(wf, "", "WalkMode")
	if wm == nil || wm.Body == nil {
		failShape("fs.WalkMode not found")
	}
	st := c13Stmts(wset, wm.Body.List)
	if len(st) != 2 {
		failShape("fs.WalkMode: %d statements, expected the root Lstat and the godirwalk call", len(st))
	}
	if st[0] != `if info, err := os.Lstat(rootPath); err != nil { return err } else if !info.IsDir() { return callback(rootPath, mode(info.Mode())) }` {
		failShape("fs.WalkMode: unrecognised handling of the root path {%s}", st[0])
	}
	ret, ok := wm.Body.List[1].(*ast.ReturnStmt)
	if !ok || len(ret.Results) != 1 {
		failShape("fs.WalkMode: the last statement is not `return godirwalk.Walk(...)`")
	}
	call, ok := ret.Results[0].(*ast.CallExpr)
	if !ok || c13Node(wset, call.Fun) != "godirwalk.Walk" || len(call.Args) != 2 || c13Node(wset, call.Args[0]) != "rootPath" {
		failShape("fs.WalkMode: the last statement is not `return godirwalk.Walk(rootPath, &godirwalk.Options{...})`")
	}
	un, ok := call.Args[1].(*ast.UnaryExpr)
	if !ok || un.Op != token.AND {
		failShape("fs.WalkMode: options are not a &godirwalk.Options literal")
	}
	lit, ok := un.X.(*ast.CompositeLit)
	if !ok || c13Node(wset, lit.Type) != "godirwalk.Options" {
		failShape("fs.WalkMode: options are not a &godirwalk.Options literal")
	}
	opts := map[string]string{}
	for _, e := range lit.Elts {
		kv, ok := e.(*ast.KeyValueExpr)
		if !ok {
			failShape("fs.WalkMode: godirwalk.Options element without a key")
		}
		opts[c13Node(wset, kv.Key)] = c13Node(wset, kv.Value)
	}
	if opts["Callback"] != `func(name string, info *godirwalk.Dirent) error { return callback(name, info) }` {
		failShape("fs.WalkMode: unrecognised godirwalk Callback {%s}", opts["Callback"])
	}
	delete(opts, "Callback")
	action := "WHalt" // godirwalk's default ErrorCallback halts on every error
	if ec, has := opts["ErrorCallback"]; has {
		switch ec {
		case `func(name string, err error) godirwalk.ErrorAction { return godirwalk.Halt }`,
			`func(_ string, _ error) godirwalk.ErrorAction { return godirwalk.Halt }`:
		case `func(name string, err error) godirwalk.ErrorAction { if os.IsNotExist(err) { return godirwalk.SkipNode } return godirwalk.Halt }`,
			`func(_ string, err error) godirwalk.ErrorAction { if os.IsNotExist(err) { return godirwalk.SkipNode } return godirwalk.Halt }`:
			// an entry that no longer exists when it is visited is left out and the walk goes on
			action = "WSkipEnoent"
		default:
			failShape("fs.WalkMode: unrecognised godirwalk ErrorCallback {%s}", ec)
		}
		delete(opts, "ErrorCallback")
	}
	for k := range opts {
		// Unsorted changes the member order, FollowSymbolicLinks what is archived, ...
		failShape("fs.WalkMode: godirwalk option %s is not modelled", k)
	}
	b.WriteString("Definition walk_callback_error_action : walk_error_action := " + action + ".\n")
	b.WriteString("Definition walk_root_lstat_error_returned : bool := true.\n")
}

func c13Node(fset *token.FileSet, n ast.Node) string {
	var buf bytes.Buffer
	cfg := printer.Config{Mode: printer.RawFormat}
	if err := cfg.Fprint(&buf, fset, c13StripComments(n)); err != nil {
		failShape("cannot print node: %v", err)
	}
	return strings.Join(strings.Fields(buf.String()), " ")
}

// printing a node on its own (not the *ast.File) does not emit free-standing comments
func c13StripComments(n ast.Node) ast.Node {
	// ... except the Doc/Comment groups that hang off declarations inside statements (`var x T`)
	ast.Inspect(n, func(m ast.Node) bool {
		switch x := m.(type) {
		case *ast.GenDecl:
			x.Doc = nil
		case *ast.ValueSpec:
			x.Doc, x.Comment = nil, nil
		case *ast.TypeSpec:
			x.Doc, x.Comment = nil, nil
		case *ast.Field:
			x.Doc, x.Comment = nil, nil
		}
		return true
	})
	return n
}

func c13Stmts(fset *token.FileSet, l []ast.Stmt) []string {
	out := make([]string, len(l))
	for i, s := range l {
		out[i] = c13Node(fset, s)
	}
	return out
}

// c13LoopErrorBranch checks `for _, out := range files { if err := fs.Walk(...); err != nil { BODY } }`
// and returns BODY.
func c13LoopErrorBranch(fset *token.FileSet, where string, rs *ast.RangeStmt) string {
	if c13Node(fset, rs.X) != "files" || len(rs.Body.List) != 1 {
		failShape("%s: the loop is not a single statement over `files`", where)
	}
	is, ok := rs.Body.List[0].(*ast.IfStmt)
	if !ok || is.Init == nil || is.Else != nil || c13Node(fset, is.Cond) != "err != nil" {
		failShape("%s: loop body is not `if err := ...; err != nil { ... }`", where)
	}
	init := c13Node(fset, is.Init)
	const want = `err := fs.Walk(filepath.Join(outDir, out), func(name string, isDir bool) error { return storeFile(tw, name) })`
	if init != want {
		failShape("%s: the walk is {%s}, expected {%s}", where, init, want)
	}
	return strings.Join(c13Stmts(fset, is.Body.List), " ; ")
}

// c13AssignsOk returns the literal assigned by the last statement `ok = <lit>` of the block.
func c13AssignsOk(fset *token.FileSet, b *ast.BlockStmt) string {
	if len(b.List) == 0 {
		return ""
	}
	s := c13Node(fset, b.List[len(b.List)-1])
	if rest, found := strings.CutPrefix(s, "ok = "); found {
		return rest
	}
	return ""
}

func c13Count(fset *token.FileSet, n ast.Node, stmt string) int {
	c := 0
	ast.Inspect(n, func(m ast.Node) bool {
		if s, ok := m.(ast.Stmt); ok {
			if _, isBlock := s.(*ast.BlockStmt); !isBlock && c13Node(fset, s) == stmt {
				c++
			}
		}
		return true
	})
	return c
}

// c13Round2 (follow-up 2): three statements the all-or-nothing argument rests on and that the
// first translation only passed by.
//
//  1. readTar's tar.TypeSymlink case: an os.Symlink error (in particular EEXIST: the path is
//     occupied by whatever is there) must end the retrieve with an error -> a miss.
//  2. cmdCache.Store: the kill switch handed to the archive writer, which is started BEFORE the
//     store process exists. A context refuses to start a command once cancelled; a guarded
//     cmd.Process.Kill() drops a cancel that arrives before the process exists.
//  3. cacheMultiplexer.Retrieve / storeUntil / Store: which caches are stored into after a
//     retrieve, and that nothing is stored when every cache missed.
func c13Round2(b *strings.Builder, hset *token.FileSet, hf *ast.File, cset *token.FileSet, cf *ast.File) {
	// ---------------------------------------------------------------- readTar: the member cases
	rt := findFunc(hf, "", "readTar")
	var sw *ast.SwitchStmt
	ast.Inspect(rt.Body, func(n ast.Node) bool {
		if s, ok := n.(*ast.SwitchStmt); ok {
			if sw != nil {
				failShape("readTar: more than one switch")
			}
			sw = s
		}
		return true
	})
	if sw == nil || c13Node(hset, sw.Tag) != "hdr.Typeflag" || sw.Init != nil {
		failShape("readTar: no `switch hdr.Typeflag`")
	}
	cases := map[string]string{}
	for _, c := range sw.Body.List {
		cc := c.(*ast.CaseClause)
		key := "default"
		if cc.List != nil {
			if len(cc.List) != 1 {
				failShape("readTar: case with %d expressions", len(cc.List))
			}
			key = c13Node(hset, cc.List[0])
		}
		if _, dup := cases[key]; dup {
			failShape("readTar: duplicate case %s", key)
		}
		cases[key] = strings.Join(c13Stmts(hset, cc.Body), " ; ")
	}
	if len(cases) != 4 {
		failShape("readTar: %d cases, expected tar.TypeDir, tar.TypeReg, tar.TypeSymlink, default", len(cases))
	}
	if cases["tar.TypeDir"] != `if err := os.MkdirAll(hdr.Name, core.DirPermissions); err != nil { return false, err }` {
		failShape("readTar: unrecognised tar.TypeDir case {%s}", cases["tar.TypeDir"])
	}
	if cases["tar.TypeReg"] != `if dir := filepath.Dir(hdr.Name); dir != "." { if err := os.MkdirAll(dir, core.DirPermissions); err != nil { return false, err } } ; `+
		`if f, err := openFile(hdr); err != nil { return false, err } else if _, err := io.Copy(f, tr); err != nil { return false, err } else if err := f.Close(); err != nil { return false, err }` {
		failShape("readTar: unrecognised tar.TypeReg case {%s}", cases["tar.TypeReg"])
	}
	if cases["default"] != `log.Warning("Unhandled file type %d for %s", hdr.Typeflag, hdr.Name)` {
		failShape("readTar: unrecognised default case {%s}", cases["default"])
	}
	switch cases["tar.TypeSymlink"] {
	case `if err := os.Symlink(hdr.Linkname, hdr.Name); err != nil { return false, err }`:
		b.WriteString("Definition readtar_symlink_exists_is_error : bool := true.\n")
	case `if err := os.Symlink(hdr.Linkname, hdr.Name); err != nil && !os.IsExist(err) { return false, err }`,
		`if err := os.Symlink(hdr.Linkname, hdr.Name); err != nil && !errors.Is(err, os.ErrExist) { return false, err }`:
		// whatever occupies the path stays there, the member is skipped and the retrieve goes on
		b.WriteString("Definition readtar_symlink_exists_is_error : bool := false.\n")
	default:
		failShape("readTar: unrecognised tar.TypeSymlink case {%s}", cases["tar.TypeSymlink"])
	}
	// openFile creates or truncates the file in place before any content arrives
	of := findFunc(hf, "", "openFile")
	ofs := c13Stmts(hset, of.Body.List)
	if len(ofs) != 3 || ofs[0] != `f, err := os.OpenFile(header.Name, os.O_WRONLY|os.O_TRUNC|os.O_CREATE, os.FileMode(header.Mode))` || ofs[2] != `return f, nil` ||
		!strings.HasPrefix(ofs[1], `if err != nil { if os.IsPermission(err) {`) {
		failShape("openFile: unrecognised body {%s}", strings.Join(ofs, " ; "))
	}
	b.WriteString("Definition readtar_file_created_before_content : bool := true.\n")

	// ---------------------------------------------------------------- cmdCache.Store
	b.WriteString("Inductive kill_switch := KContext | KProcessIfStarted.\n")
	cs := findFunc(cf, "cmdCache", "Store")
	if len(cs.Body.List) != 1 {
		failShape("cmdCache.Store: body is not a single if")
	}
	cif, ok := cs.Body.List[0].(*ast.IfStmt)
	if !ok || cif.Init != nil || cif.Else != nil || c13Node(cset, cif.Cond) != `cache.storeCommand != ""` {
		failShape("cmdCache.Store: body is not `if cache.storeCommand != \"\" {...}`")
	}
	st := c13Stmts(cset, cif.Body.List)
	if len(st) < 4 || st[0] != `strKey := keyToString(key)` || !strings.HasPrefix(st[1], "log.Debug(") {
		failShape("cmdCache.Store: unrecognised start {%s}", strings.Join(st, " ; "))
	}
	errTail := `if err != nil { log.Warning("Failed to store files via custom command: %s", err) if len(output) > 0 { log.Warning("Custom command output:%s", string(output)) } }`
	mid := strings.Join(st[2:], " ; ")
	common := `cmd.Env = append(cmd.Env, "CACHE_KEY="+strKey) ; r, w := io.Pipe() ; cmd.Stdin = r ; `
	switch mid {
	case `ctx, cancel := context.WithCancel(context.Background()) ; defer cancel() ; cmd := exec.CommandContext(ctx, "sh", "-c", cache.storeCommand) ; ` +
		common + `go write(w, target, files, cancel) ; output, err := cmd.CombinedOutput() ; ` + errTail:
		// a context cancelled before cmd.Start makes Start fail without running anything; one
		// cancelled later kills the process
		b.WriteString("Definition cmd_store_kill_switch : kill_switch := KContext.\n")
	case `cmd := exec.Command("sh", "-c", cache.storeCommand) ; ` +
		common + `go write(w, target, files, func() { if cmd.Process != nil { cmd.Process.Kill() } }) ; output, err := cmd.CombinedOutput() ; ` + errTail:
		// a cancel that arrives before the process exists is dropped: the command then runs to its end
		b.WriteString("Definition cmd_store_kill_switch : kill_switch := KProcessIfStarted.\n")
	default:
		failShape("cmdCache.Store: unrecognised statements {%s}", mid)
	}
	// in both shapes the writer goroutine is started before the process is
	b.WriteString("Definition cmd_store_writer_precedes_start : bool := true.\n")

	// ---------------------------------------------------------------- cacheMultiplexer
	mset, mf := parseFile("src/cache/cache.go")
	ms := findFunc(mf, "cacheMultiplexer", "Store")
	if got := strings.Join(c13Stmts(mset, ms.Body.List), " ; "); got != `mplex.storeUntil(target, key, files, len(mplex.caches))` {
		failShape("cacheMultiplexer.Store: unrecognised body {%s}", got)
	}
	su := findFunc(mf, "cacheMultiplexer", "storeUntil")
	if got := strings.Join(c13Stmts(mset, su.Body.List), " ; "); got !=
		`var wg sync.WaitGroup ; for i, cache := range mplex.caches { if i == stopAt { break } wg.Add(1) go func(cache core.Cache) { cache.Store(target, key, files) wg.Done() }(cache) } ; wg.Wait()` {
		failShape("cacheMultiplexer.storeUntil: unrecognised body {%s}", got)
	}
	b.WriteString("Definition mplex_store_until_exclusive : bool := true.\n")
	mr := findFunc(mf, "cacheMultiplexer", "Retrieve")
	switch got := strings.Join(c13Stmts(mset, mr.Body.List), " ; "); got {
	case `for i, cache := range mplex.caches { if ok := cache.Retrieve(target, key, files); ok { mplex.storeUntil(target, key, files, i) return ok } } ; return false`:
		b.WriteString("Definition mplex_backfill_on_total_miss : bool := false.\n")
	case `i := 0 ; for ; i < len(mplex.caches); i++ { if mplex.caches[i].Retrieve(target, key, files) { break } } ; mplex.storeUntil(target, key, files, i) ; return i < len(mplex.caches)`:
		// i == len(caches) when nobody hit: every cache is stored into from the output directory as it is
		b.WriteString("Definition mplex_backfill_on_total_miss : bool := true.\n")
	default:
		failShape("cacheMultiplexer.Retrieve: unrecognised body {%s}", got)
	}
	// newSyncCache: the order of the caches (dir, http, command)
	ns := findFunc(mf, "", "newSyncCache")
	order := []string{}
	ast.Inspect(ns.Body, func(n ast.Node) bool {
		if c, ok := n.(*ast.CallExpr); ok {
			if id, ok := c.Fun.(*ast.Ident); ok && (id.Name == "newDirCache" || id.Name == "newHTTPCache" || id.Name == "newCmdCache") {
				order = append(order, id.Name)
			}
		}
		return true
	})
	if strings.Join(order, ",") != "newDirCache,newHTTPCache,newCmdCache" {
		failShape("newSyncCache: cache order is %v", order)
	}
	b.WriteString("Definition mplex_http_before_cmd : bool := true.\n")
}
