package main

import (
	"bytes"
	"go/ast"
	"go/printer"
	"go/token"
	"strings"
)

// C13Exits (property C13): how the write loops of the HTTP and the command cache leave on a
// read error, how readTar maps the ways a tar stream can end to its boolean result, and how
// cmdCache.Retrieve combines the tar result with the command's exit status.
//
// Every recognised statement sequence is compared literally (printed without comments); any
// other shape fails closed.
func init() {
	targets["C13Exits"] = func() string {
		var b strings.Builder
		b.WriteString("Inductive fault_exit := FCloseWithError | FContinue.\n")

		// ---------------------------------------------------------------- httpCache.write
		fset, hf := parseFile("src/cache/http_cache.go")
		hw := findFunc(hf, "httpCache", "write")
		stmts := c13Stmts(fset, hw.Body.List)
		loopAt := -1
		for i, s := range hw.Body.List {
			if _, ok := s.(*ast.RangeStmt); ok {
				if loopAt >= 0 {
					failShape("httpCache.write: more than one range loop")
				}
				loopAt = i
			}
		}
		if loopAt < 0 {
			failShape("httpCache.write: no range loop over the files")
		}
		errBody := c13LoopErrorBranch(fset, "httpCache.write", hw.Body.List[loopAt].(*ast.RangeStmt))
		before, after := strings.Join(stmts[:loopAt], " ; "), strings.Join(stmts[loopAt+1:], " ; ")
		const closeChain = `if err := tw.Close(); err != nil { w.CloseWithError(err) return } ; ` +
			`if err := gzw.Close(); err != nil { w.CloseWithError(err) return } ; w.Close()`
		switch {
		case before == `gzw := gzip.NewWriter(w) ; tw := tar.NewWriter(gzw) ; outDir := target.OutDir()` &&
			errBody == `log.Warning("Error uploading artifacts to HTTP cache: %s", err) ; w.CloseWithError(err) ; return` &&
			after == closeChain:
			b.WriteString("Definition http_write_fault_exit : fault_exit := FCloseWithError.\n")
			b.WriteString("Definition http_write_close_errors_abort : bool := true.\n")
		case before == `defer w.Close() ; gzw := gzip.NewWriter(w) ; defer gzw.Close() ; tw := tar.NewWriter(gzw) ; defer tw.Close() ; outDir := target.OutDir()` &&
			errBody == `log.Warning("Error uploading artifacts to HTTP cache: %s", err)` && after == "":
			// the loop goes on with the next output and the archive is closed normally
			b.WriteString("Definition http_write_fault_exit : fault_exit := FContinue.\n")
			b.WriteString("Definition http_write_close_errors_abort : bool := false.\n")
		default:
			failShape("httpCache.write: unrecognised shape: before loop {%s}, error branch {%s}, after loop {%s}", before, errBody, after)
		}

		// ---------------------------------------------------------------- cmd_cache.go write
		cset, cf := parseFile("src/cache/cmd_cache.go")
		cw := findFunc(cf, "", "write")
		cst := c13Stmts(cset, cw.Body.List)
		if len(cw.Body.List) == 0 {
			failShape("cmd write: empty body")
		}
		last, ok := cw.Body.List[len(cw.Body.List)-1].(*ast.RangeStmt)
		if !ok {
			failShape("cmd write: the last statement is not the range loop over the files")
		}
		cerr := c13LoopErrorBranch(cset, "cmd write", last)
		cbefore := strings.Join(cst[:len(cst)-1], " ; ")
		if cerr != `log.Warning("Error sending artifacts to command-driven cache: %s", err) ; cancel() ; return` {
			failShape("cmd write: unrecognised error branch {%s}", cerr)
		}
		b.WriteString("Definition cmd_write_fault_cancels : bool := true.\n")
		switch cbefore {
		case `defer w.Close() ; tw := tar.NewWriter(w) ; defer tw.Close() ; outDir := target.OutDir()`:
			// the deferred tw.Close() also runs on the error path
			b.WriteString("Definition cmd_write_deferred_tar_close : bool := true.\n")
		default:
			failShape("cmd write: unrecognised statements before the loop {%s}", cbefore)
		}

		// ---------------------------------------------------------------- readTar
		rt := findFunc(hf, "", "readTar")
		eofResult, errResult := "", ""
		var visit func(n ast.Node, underEOF bool)
		visit = func(n ast.Node, underEOF bool) {
			ast.Inspect(n, func(m ast.Node) bool {
				switch x := m.(type) {
				case *ast.FuncLit:
					failShape("readTar: function literal")
				case *ast.IfStmt:
					if x.Init != nil {
						visit(x.Init, underEOF)
					}
					isEOF := c13Node(fset, x.Cond) == "err == io.EOF"
					visit(x.Body, isEOF)
					if x.Else != nil {
						visit(x.Else, false)
					}
					return false
				case *ast.ReturnStmt:
					if len(x.Results) != 2 {
						failShape("readTar: return with %d results", len(x.Results))
					}
					v, e := c13Node(fset, x.Results[0]), c13Node(fset, x.Results[1])
					if v != "true" && v != "false" {
						failShape("readTar: first result %s is not a boolean literal", v)
					}
					if underEOF {
						if e != "nil" || (eofResult != "" && eofResult != v) {
							failShape("readTar: unexpected return %s, %s under err == io.EOF", v, e)
						}
						eofResult = v
					} else {
						if e != "err" || (errResult != "" && errResult != v) {
							failShape("readTar: return %s, %s outside the io.EOF branch (other error returns give %s)", v, e, errResult)
						}
						errResult = v
					}
				}
				return true
			})
		}
		visit(rt.Body, false)
		if eofResult == "" || errResult == "" {
			failShape("readTar: no io.EOF return or no error return found")
		}
		b.WriteString("Definition readtar_eof_result : bool := " + eofResult + ".\n")
		b.WriteString("Definition readtar_error_result : bool := " + errResult + ".\n")

		// ---------------------------------------------------------------- cmdCache.Retrieve
		cr := findFunc(cf, "cmdCache", "Retrieve")
		lastStmt := c13Node(cset, cr.Body.List[len(cr.Body.List)-1])
		switch lastStmt {
		case "return tarOk && <-cmdResult":
			b.WriteString("Definition cmd_retrieve_needs_exit_ok : bool := true.\n")
		case "return tarOk":
			b.WriteString("Definition cmd_retrieve_needs_exit_ok : bool := false.\n")
		default:
			failShape("cmdCache.Retrieve: unrecognised final statement {%s}", lastStmt)
		}
		// the goroutine: ok is false iff cmd.Wait fails; the read end is closed after Wait
		var lit *ast.FuncLit
		for _, s := range cr.Body.List {
			if g, ok := s.(*ast.GoStmt); ok {
				if fl, ok := g.Call.Fun.(*ast.FuncLit); ok {
					if lit != nil {
						failShape("cmdCache.Retrieve: more than one goroutine")
					}
					lit = fl
				}
			}
		}
		if lit == nil {
			failShape("cmdCache.Retrieve: goroutine waiting for the command not found")
		}
		gs := c13Stmts(cset, lit.Body.List)
		if len(gs) < 3 || gs[0] != "var ok bool" || gs[len(gs)-1] != "cmdResult <- ok" {
			failShape("cmdCache.Retrieve: goroutine is not `var ok bool; ...; cmdResult <- ok`")
		}
		ifw, isIf := lit.Body.List[1].(*ast.IfStmt)
		if !isIf || ifw.Init == nil || c13Node(cset, ifw.Init) != "err := cmd.Wait()" || c13Node(cset, ifw.Cond) != "err != nil" || ifw.Else == nil {
			failShape("cmdCache.Retrieve: goroutine does not start with `if err := cmd.Wait(); err != nil {..} else {..}`")
		}
		if c13AssignsOk(cset, ifw.Body) != "false" {
			failShape("cmdCache.Retrieve: the cmd.Wait error branch does not end with ok = false")
		}
		eb, isBlock := ifw.Else.(*ast.BlockStmt)
		if !isBlock || c13AssignsOk(cset, eb) != "true" {
			failShape("cmdCache.Retrieve: the cmd.Wait success branch does not end with ok = true")
		}
		closes := false
		for _, s := range gs[2 : len(gs)-1] {
			if s == "r.Close()" {
				closes = true
			} else {
				failShape("cmdCache.Retrieve: unrecognised goroutine statement {%s}", s)
			}
		}
		b.WriteString("Definition cmd_retrieve_closes_reader : bool := " + map[bool]string{true: "true", false: "false"}[closes] + ".\n")
		if c13Count(cset, cr.Body, "w.Close()")+c13Count(cset, cr.Body, "defer w.Close()") > 0 {
			failShape("cmdCache.Retrieve: the write end of the pipe is closed somewhere; the model assumes it never is")
		}
		c13WalkAction(&b)
		return b.String()
	}
}

// c13WalkAction (follow-up: entries that vanish during a store): what fs.Walk / fs.WalkMode do
// with an error returned by the callback (storeFile) for an entry INSIDE a directory output.
// godirwalk routes callback errors through Options.ErrorCallback; without one every error halts
// the walk. The root path is Lstat'ed by WalkMode itself and its error returned directly.
func c13WalkAction(b *strings.Builder) {
	b.WriteString("Inductive walk_error_action := WHalt | WSkipEnoent.\n")
	wset, wf := parseFile("src/fs/walk.go")
	wk := findFunc(wf, "", "Walk")
	if wk == nil || wk.Body == nil {
		failShape("fs.Walk not found")
	}
	if got := strings.Join(c13Stmts(wset, wk.Body.List), " ; "); got !=
		`return WalkMode(rootPath, func(name string, mode Mode) error { return callback(name, mode.IsDir()) })` {
		failShape("fs.Walk: unrecognised body {%s}", got)
	}
	wm := findFunc(wf, "", "WalkMode")
	if wm == nil || wm.Body == nil {
		failShape("fs.WalkMode not found")
	}
	st := c13Stmts(wset, wm.Body.List)
	if len(st) != 2 {
		failShape("fs.WalkMode: %d statements, expected the root Lstat and the godirwalk call", len(st))
	}
	if st[0] != `if info, err := os.Lstat(rootPath); err != nil { return err } else if !info.IsDir() { return callback(rootPath, mode(info.Mode())) }` {
		failShape("fs.WalkMode: unrecognised handling of the root path {%s}", st[0])
	}
	ret, ok := wm.Body.List[1].(*ast.ReturnStmt)
	if !ok || len(ret.Results) != 1 {
		failShape("fs.WalkMode: the last statement is not `return godirwalk.Walk(...)`")
	}
	call, ok := ret.Results[0].(*ast.CallExpr)
	if !ok || c13Node(wset, call.Fun) != "godirwalk.Walk" || len(call.Args) != 2 || c13Node(wset, call.Args[0]) != "rootPath" {
		failShape("fs.WalkMode: the last statement is not `return godirwalk.Walk(rootPath, &godirwalk.Options{...})`")
	}
	un, ok := call.Args[1].(*ast.UnaryExpr)
	if !ok || un.Op != token.AND {
		failShape("fs.WalkMode: options are not a &godirwalk.Options literal")
	}
	lit, ok := un.X.(*ast.CompositeLit)
	if !ok || c13Node(wset, lit.Type) != "godirwalk.Options" {
		failShape("fs.WalkMode: options are not a &godirwalk.Options literal")
	}
	opts := map[string]string{}
	for _, e := range lit.Elts {
		kv, ok := e.(*ast.KeyValueExpr)
		if !ok {
			failShape("fs.WalkMode: godirwalk.Options element without a key")
		}
		opts[c13Node(wset, kv.Key)] = c13Node(wset, kv.Value)
	}
	if opts["Callback"] != `func(name string, info *godirwalk.Dirent) error { return callback(name, info) }` {
		failShape("fs.WalkMode: unrecognised godirwalk Callback {%s}", opts["Callback"])
	}
	delete(opts, "Callback")
	action := "WHalt" // godirwalk's default ErrorCallback halts on every error
	if ec, has := opts["ErrorCallback"]; has {
		switch ec {
		case `func(name string, err error) godirwalk.ErrorAction { return godirwalk.Halt }`,
			`func(_ string, _ error) godirwalk.ErrorAction { return godirwalk.Halt }`:
		case `func(name string, err error) godirwalk.ErrorAction { if os.IsNotExist(err) { return godirwalk.SkipNode } return godirwalk.Halt }`,
			`func(_ string, err error) godirwalk.ErrorAction { if os.IsNotExist(err) { return godirwalk.SkipNode } return godirwalk.Halt }`:
			// an entry that no longer exists when it is visited is left out and the walk goes on
			action = "WSkipEnoent"
		default:
			failShape("fs.WalkMode: unrecognised godirwalk ErrorCallback {%s}", ec)
		}
		delete(opts, "ErrorCallback")
	}
	for k := range opts {
		// Unsorted changes the member order, FollowSymbolicLinks what is archived, ...
		failShape("fs.WalkMode: godirwalk option %s is not modelled", k)
	}
	b.WriteString("Definition walk_callback_error_action : walk_error_action := " + action + ".\n")
	b.WriteString("Definition walk_root_lstat_error_returned : bool := true.\n")
}

func c13Node(fset *token.FileSet, n ast.Node) string {
	var buf bytes.Buffer
	cfg := printer.Config{Mode: printer.RawFormat}
	if err := cfg.Fprint(&buf, fset, c13StripComments(n)); err != nil {
		failShape("cannot print node: %v", err)
	}
	return strings.Join(strings.Fields(buf.String()), " ")
}

// printing a node on its own (not the *ast.File) never emits comments; this is the identity, kept
// as the one place to change if that stops being true
func c13StripComments(n ast.Node) ast.Node { return n }

func c13Stmts(fset *token.FileSet, l []ast.Stmt) []string {
	out := make([]string, len(l))
	for i, s := range l {
		out[i] = c13Node(fset, s)
	}
	return out
}

// c13LoopErrorBranch checks `for _, out := range files { if err := fs.Walk(...); err != nil { BODY } }`
// and returns BODY.
func c13LoopErrorBranch(fset *token.FileSet, where string, rs *ast.RangeStmt) string {
	if c13Node(fset, rs.X) != "files" || len(rs.Body.List) != 1 {
		failShape("%s: the loop is not a single statement over `files`", where)
	}
	is, ok := rs.Body.List[0].(*ast.IfStmt)
	if !ok || is.Init == nil || is.Else != nil || c13Node(fset, is.Cond) != "err != nil" {
		failShape("%s: loop body is not `if err := ...; err != nil { ... }`", where)
	}
	init := c13Node(fset, is.Init)
	const want = `err := fs.Walk(filepath.Join(outDir, out), func(name string, isDir bool) error { return storeFile(tw, name) })`
	if init != want {
		failShape("%s: the walk is {%s}, expected {%s}", where, init, want)
	}
	return strings.Join(c13Stmts(fset, is.Body.List), " ; ")
}

// c13AssignsOk returns the literal assigned by the last statement `ok = <lit>` of the block.
func c13AssignsOk(fset *token.FileSet, b *ast.BlockStmt) string {
	if len(b.List) == 0 {
		return ""
	}
	s := c13Node(fset, b.List[len(b.List)-1])
	if rest, found := strings.CutPrefix(s, "ok = "); found {
		return rest
	}
	return ""
}

func c13Count(fset *token.FileSet, n ast.Node, stmt string) int {
	c := 0
	ast.Inspect(n, func(m ast.Node) bool {
		if s, ok := m.(ast.Stmt); ok {
			if _, isBlock := s.(*ast.BlockStmt); !isBlock && c13Node(fset, s) == stmt {
				c++
			}
		}
		return true
	})
	return c
}
