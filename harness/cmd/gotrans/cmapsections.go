package main

import (
	"bytes"
	"go/ast"
	"go/printer"
	"go/token"
	"strings"
)

// cmapMethod finds a method of the generic type shard[K, V].
func cmapMethod(f *ast.File, recv, name string) *ast.FuncDecl {
	for _, d := range f.Decls {
		fd, ok := d.(*ast.FuncDecl)
		if !ok || fd.Name.Name != name || fd.Recv == nil || len(fd.Recv.List) != 1 {
			continue
		}
		t := fd.Recv.List[0].Type
		if st, ok := t.(*ast.StarExpr); ok {
			t = st.X
		}
		switch x := t.(type) {
		case *ast.IndexListExpr:
			t = x.X
		case *ast.IndexExpr:
			t = x.X
		}
		if id, ok := t.(*ast.Ident); ok && id.Name == recv {
			return fd
		}
	}
	failShape("method %s.%s not found", recv, name)
	return nil
}

// CmapSections (property C15): the bodies of shard.Set, shard.LazySet, shard.Get and shard.Contains
// in src/cmap/cmap.go as nested lists of source statements (if-without-else and simple statements
// only; anything else fails closed).  shard.Get is cut at its lock hand-over (RUnlock; Lock) into its
// two critical sections.  Proof/C15_Gen.v interprets the statement texts (a closed vocabulary: an
// unknown text has no meaning there) and proves the hand model's sections equal to the
// interpretation, so any edit of these functions breaks the proof until model and proof follow.
func init() {
	targets["CmapSections"] = func() string {
		fset, f := parseFile("src/cmap/cmap.go")
		text := func(n ast.Node) string {
			var b bytes.Buffer
			if err := (&printer.Config{Mode: printer.RawFormat}).Fprint(&b, fset, n); err != nil {
				failShape("cannot print node: %v", err)
			}
			return strings.Join(strings.Fields(b.String()), " ")
		}
		var stmts func(l []ast.Stmt, indent string) string
		stmts = func(l []ast.Stmt, indent string) string {
			items := []string{}
			for _, s := range l {
				switch x := s.(type) {
				case *ast.IfStmt:
					if x.Else != nil {
						failShape("if statement with else at %s", fset.Position(x.Pos()))
					}
					cond := text(x.Cond)
					if x.Init != nil {
						cond = text(x.Init) + "; " + cond
					}
					items = append(items, indent+"GIf "+coqString(cond)+" "+stmts(x.Body.List, indent+"  "))
				case *ast.AssignStmt, *ast.ExprStmt, *ast.ReturnStmt, *ast.DeferStmt:
					items = append(items, indent+"GStmt "+coqString(text(x)))
				default:
					failShape("statement %q at %s is not an if, assignment, call, defer or return", text(s), fset.Position(s.Pos()))
				}
			}
			if len(items) == 0 {
				return "[]"
			}
			return "[\n" + strings.Join(items, ";\n") + "]"
		}
		body := func(name string) []ast.Stmt {
			fd := cmapMethod(f, "shard", name)
			if fd.Body == nil {
				failShape("shard.%s has no body", name)
			}
			return fd.Body.List
		}
		sig := func(name string) string {
			fd := cmapMethod(f, "shard", name)
			return text(fd.Type)
		}
		get := body("Get")
		cut := -1
		for i := 0; i+1 < len(get); i++ {
			if text(get[i]) == "s.l.RUnlock()" && text(get[i+1]) == "s.l.Lock()" {
				if cut >= 0 {
					failShape("shard.Get hands the lock over more than once")
				}
				cut = i + 1
			}
		}
		if cut < 0 {
			failShape("shard.Get: lock hand-over `s.l.RUnlock(); s.l.Lock()` not found at top level")
		}
		// the awaitableValue struct: exactly the fields Val and Wait
		fields := []string{}
		for _, d := range f.Decls {
			gd, ok := d.(*ast.GenDecl)
			if !ok || gd.Tok != token.TYPE {
				continue
			}
			for _, s := range gd.Specs {
				ts := s.(*ast.TypeSpec)
				if ts.Name.Name != "awaitableValue" {
					continue
				}
				st, ok := ts.Type.(*ast.StructType)
				if !ok {
					failShape("awaitableValue is not a struct")
				}
				for _, fl := range st.Fields.List {
					for _, n := range fl.Names {
						fields = append(fields, n.Name+" "+text(fl.Type))
					}
				}
			}
		}
		out := "From Coq Require Import List String. Import ListNotations. Open Scope string_scope.\n" +
			"(* a function body: if-without-else (condition text, with its init statement) and simple statements (source text) *)\n" +
			"Inductive gstmt := GIf (cond : string) (body : list gstmt) | GStmt (text : string).\n" +
			"Definition awaitableValue_fields : list string := " + coqStringList(fields) + ".\n" +
			"Definition shard_signatures : list string := " + coqStringList([]string{sig("Set"), sig("LazySet"), sig("Get"), sig("Contains")}) + ".\n" +
			"Definition shard_Set : list gstmt := " + stmts(body("Set"), "  ") + ".\n" +
			"Definition shard_LazySet : list gstmt := " + stmts(body("LazySet"), "  ") + ".\n" +
			"(* shard.Get up to and including s.l.RUnlock() / from s.l.Lock() on *)\n" +
			"Definition shard_Get_fast : list gstmt := " + stmts(get[:cut], "  ") + ".\n" +
			"Definition shard_Get_slow : list gstmt := " + stmts(get[cut:], "  ") + ".\n" +
			"Definition shard_Contains : list gstmt := " + stmts(body("Contains"), "  ") + ".\n"
		return out
	}
}
