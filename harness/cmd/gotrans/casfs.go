package main

import (
	"fmt"
	"go/ast"
	"go/token"
	"strconv"
)

// CasFs (property C29): the regular parts of src/remote/fs/fs.go -
//   - the value of the constant maxSymlinks, and the shape of its use in open():
//     `if followed >= maxSymlinks { return ... }` followed by a recursive call with `followed+1`,
//     and Open() starting the count at 0;
//   - the order in which findNode searches the three entry lists of a directory
//     (`for _, x := range wd.<Field>`), and the order in which dir.ReadDir lists them
//     (`for _, x := range p.pb.<Field>`).
//
// Anything else fails closed.
func init() {
	targets["CasFs"] = func() string {
		_, f := parseFile("src/remote/fs/fs.go")

		// const maxSymlinks = <int>
		limit := -1
		for _, d := range f.Decls {
			gd, ok := d.(*ast.GenDecl)
			if !ok || gd.Tok != token.CONST {
				continue
			}
			for _, s := range gd.Specs {
				vs := s.(*ast.ValueSpec)
				for i, n := range vs.Names {
					if n.Name != "maxSymlinks" {
						continue
					}
					if i >= len(vs.Values) {
						failShape("maxSymlinks has no value")
					}
					bl, ok := vs.Values[i].(*ast.BasicLit)
					if !ok || bl.Kind != token.INT {
						failShape("maxSymlinks is not an integer literal")
					}
					v, err := strconv.Atoi(bl.Value)
					if err != nil || v < 0 || v > 100000 {
						failShape("maxSymlinks = %s out of range", bl.Value)
					}
					limit = v
				}
			}
		}
		if limit < 0 {
			failShape("const maxSymlinks not found")
		}

		// open(name string, followed int): the guard and the recursive call
		open := findFunc(f, "CASFileSystem", "open")
		if open.Type.Params == nil || len(open.Type.Params.List) != 2 || len(open.Type.Params.List[1].Names) != 1 {
			failShape("open: unexpected parameter list")
		}
		counter := open.Type.Params.List[1].Names[0].Name
		guards, recs := 0, 0
		ast.Inspect(open.Body, func(n ast.Node) bool {
			switch x := n.(type) {
			case *ast.BinaryExpr:
				if id, ok := x.Y.(*ast.Ident); ok && id.Name == "maxSymlinks" {
					l, ok := x.X.(*ast.Ident)
					if !ok || l.Name != counter || x.Op != token.GEQ {
						failShape("open: the limit test is not `%s >= maxSymlinks`", counter)
					}
					guards++
				}
				if id, ok := x.X.(*ast.Ident); ok && id.Name == "maxSymlinks" {
					failShape("open: maxSymlinks on the left of a comparison")
				}
			case *ast.CallExpr:
				sel, ok := x.Fun.(*ast.SelectorExpr)
				if !ok || sel.Sel.Name != "open" {
					return true
				}
				if len(x.Args) != 2 {
					failShape("open: recursive call without two arguments")
				}
				be, ok := x.Args[1].(*ast.BinaryExpr)
				if !ok || be.Op != token.ADD {
					failShape("open: recursive call does not pass %s+1", counter)
				}
				l, lok := be.X.(*ast.Ident)
				r, rok := be.Y.(*ast.BasicLit)
				if !lok || !rok || l.Name != counter || r.Value != "1" {
					failShape("open: recursive call does not pass %s+1", counter)
				}
				recs++
			}
			return true
		})
		if guards != 1 || recs != 1 {
			failShape("open: expected exactly one limit test and one recursive call, found %d and %d", guards, recs)
		}
		// Open starts at 0
		starts := 0
		ast.Inspect(findFunc(f, "CASFileSystem", "Open").Body, func(n ast.Node) bool {
			if call, ok := n.(*ast.CallExpr); ok {
				if sel, ok := call.Fun.(*ast.SelectorExpr); ok && sel.Sel.Name == "open" {
					if len(call.Args) != 2 {
						failShape("Open: call of open without two arguments")
					}
					if bl, ok := call.Args[1].(*ast.BasicLit); !ok || bl.Value != "0" {
						failShape("Open: the follow counter does not start at 0")
					}
					starts++
				}
			}
			return true
		})
		if starts != 1 {
			failShape("Open: expected exactly one call of open")
		}

		return genHeader +
			fmt.Sprintf("Definition max_symlinks : nat := %d.\n", limit) +
			"Definition find_order : list string := " + coqStringList(rangeFields(findFunc(f, "CASFileSystem", "findNode"), []string{"wd"})) + ".\n" +
			"Definition readdir_order : list string := " + coqStringList(rangeFields(findFunc(f, "dir", "ReadDir"), []string{"p", "pb"})) + ".\n"
	}
}

// rangeFields returns, in source order, the field F of every top-level `for ... := range <base>.F` of fn.
func rangeFields(fn *ast.FuncDecl, base []string) []string {
	out := []string{}
	for _, st := range fn.Body.List {
		rs, ok := st.(*ast.RangeStmt)
		if !ok {
			continue
		}
		sel, ok := rs.X.(*ast.SelectorExpr)
		if !ok {
			failShape("%s: range over something that is not a field selection", fn.Name.Name)
		}
		// the selector chain below the field must be exactly base
		var chain []string
		e := sel.X
		for {
			if id, ok := e.(*ast.Ident); ok {
				chain = append([]string{id.Name}, chain...)
				break
			}
			s2, ok := e.(*ast.SelectorExpr)
			if !ok {
				failShape("%s: unexpected range expression", fn.Name.Name)
			}
			chain = append([]string{s2.Sel.Name}, chain...)
			e = s2.X
		}
		if len(chain) != len(base) {
			failShape("%s: range over %v.%s, expected a field of %v", fn.Name.Name, chain, sel.Sel.Name, base)
		}
		for i := range chain {
			if chain[i] != base[i] {
				failShape("%s: range over %v.%s, expected a field of %v", fn.Name.Name, chain, sel.Sel.Name, base)
			}
		}
		out = append(out, sel.Sel.Name)
	}
	if len(out) == 0 {
		failShape("%s: no range loops found", fn.Name.Name)
	}
	return out
}
