package main

import (
	"fmt"
	"go/ast"
	"go/token"
	"strconv"
)

// CasFs (property C29): the regular parts of src/remote/fs/fs.go -
//   - the value of the constant maxSymlinks, and the shape of its use in open():
//     `if followed >= maxSymlinks { return ... }` followed by a recursive call with `followed+1`,
//     and Open() starting the count at 0;
//   - the order in which findNode searches the three entry lists of a directory
//     (`for _, x := range wd.<Field>`), and the order in which dir.ReadDir lists them
//     (`for _, x := range p.pb.<Field>`);
//   - the body of ChangeDir, translated (translateChangeDir): whether it returns a new object or the receiver
//     itself, where the new working directory comes from, and that every other field of the struct is the
//     receiver's. The model's ChangeDir step (Model/C29.v step/chdir_wd) is defined from these.
//
// Anything else fails closed.
func init() {
	targets["CasFs"] = func() string {
		_, f := parseFile("src/remote/fs/fs.go")

		// const maxSymlinks = <int>
		limit := -1
		for _, d := range f.Decls {
			gd, ok := d.(*ast.GenDecl)
			if !ok || gd.Tok != token.CONST {
				continue
			}
			for _, s := range gd.Specs {
				vs := s.(*ast.ValueSpec)
				for i, n := range vs.Names {
					if n.Name != "maxSymlinks" {
						continue
					}
					if i >= len(vs.Values) {
						failShape("maxSymlinks has no value")
					}
					bl, ok := vs.Values[i].(*ast.BasicLit)
					if !ok || bl.Kind != token.INT {
						failShape("maxSymlinks is not an integer literal")
					}
					v, err := strconv.Atoi(bl.Value)
					if err != nil || v < 0 || v > 100000 {
						failShape("maxSymlinks = %s out of range", bl.Value)
					}
					limit = v
				}
			}
		}
		if limit < 0 {
			failShape("const maxSymlinks not found")
		}

		// open(name string, followed int): the guard and the recursive call
		open := findFunc(f, "CASFileSystem", "open")
		if open.Type.Params == nil || len(open.Type.Params.List) != 2 || len(open.Type.Params.List[1].Names) != 1 {
			failShape("open: unexpected parameter list")
		}
		counter := open.Type.Params.List[1].Names[0].Name
		guards, recs := 0, 0
		ast.Inspect(open.Body, func(n ast.Node) bool {
			switch x := n.(type) {
			case *ast.BinaryExpr:
				if id, ok := x.Y.(*ast.Ident); ok && id.Name == "maxSymlinks" {
					l, ok := x.X.(*ast.Ident)
					if !ok || l.Name != counter || x.Op != token.GEQ {
						failShape("open: the limit test is not `%s >= maxSymlinks`", counter)
					}
					guards++
				}
				if id, ok := x.X.(*ast.Ident); ok && id.Name == "maxSymlinks" {
					failShape("open: maxSymlinks on the left of a comparison")
				}
			case *ast.CallExpr:
				sel, ok := x.Fun.(*ast.SelectorExpr)
				if !ok || sel.Sel.Name != "open" {
					return true
				}
				if len(x.Args) != 2 {
					failShape("open: recursive call without two arguments")
				}
				be, ok := x.Args[1].(*ast.BinaryExpr)
				if !ok || be.Op != token.ADD {
					failShape("open: recursive call does not pass %s+1", counter)
				}
				l, lok := be.X.(*ast.Ident)
				r, rok := be.Y.(*ast.BasicLit)
				if !lok || !rok || l.Name != counter || r.Value != "1" {
					failShape("open: recursive call does not pass %s+1", counter)
				}
				recs++
			}
			return true
		})
		if guards != 1 || recs != 1 {
			failShape("open: expected exactly one limit test and one recursive call, found %d and %d", guards, recs)
		}
		// Open starts at 0
		starts := 0
		ast.Inspect(findFunc(f, "CASFileSystem", "Open").Body, func(n ast.Node) bool {
			if call, ok := n.(*ast.CallExpr); ok {
				if sel, ok := call.Fun.(*ast.SelectorExpr); ok && sel.Sel.Name == "open" {
					if len(call.Args) != 2 {
						failShape("Open: call of open without two arguments")
					}
					if bl, ok := call.Args[1].(*ast.BasicLit); !ok || bl.Value != "0" {
						failShape("Open: the follow counter does not start at 0")
					}
					starts++
				}
			}
			return true
		})
		if starts != 1 {
			failShape("Open: expected exactly one call of open")
		}

		fresh, wdMode, wdExpr, fields := translateChangeDir(f)

		return genHeader +
			fmt.Sprintf("Definition max_symlinks : nat := %d.\n", limit) +
			"(* ChangeDir, translated statement by statement: does it return a NEW object (true) or the receiver itself (false);\n" +
			"   where the new working directory comes from (0 = the parameter as given, 1 = filepath.Clean(parameter),\n" +
			"   2 = filepath.Join(receiver.workingDir, parameter)); every other field is the receiver's. *)\n" +
			"Definition view_fields : list string := " + coqStringList(fields) + ".\n" +
			fmt.Sprintf("Definition chdir_fresh : bool := %v.\n", fresh) +
			fmt.Sprintf("Definition chdir_wd : nat := %d.\n", wdMode) +
			"Definition chdir_wd_expr : string := " + coqString(wdExpr) + ".\n" +
			"Definition find_order : list string := " + coqStringList(rangeFields(findFunc(f, "CASFileSystem", "findNode"), []string{"wd"})) + ".\n" +
			"Definition readdir_order : list string := " + coqStringList(rangeFields(findFunc(f, "dir", "ReadDir"), []string{"p", "pb"})) + ".\n"
	}
}

// rangeFields returns, in source order, the field F of every top-level `for ... := range <base>.F` of fn.
func rangeFields(fn *ast.FuncDecl, base []string) []string {
	out := []string{}
	for _, st := range fn.Body.List {
		rs, ok := st.(*ast.RangeStmt)
		if !ok {
			continue
		}
		sel, ok := rs.X.(*ast.SelectorExpr)
		if !ok {
			failShape("%s: range over something that is not a field selection", fn.Name.Name)
		}
		// the selector chain below the field must be exactly base
		var chain []string
		e := sel.X
		for {
			if id, ok := e.(*ast.Ident); ok {
				chain = append([]string{id.Name}, chain...)
				break
			}
			s2, ok := e.(*ast.SelectorExpr)
			if !ok {
				failShape("%s: unexpected range expression", fn.Name.Name)
			}
			chain = append([]string{s2.Sel.Name}, chain...)
			e = s2.X
		}
		if len(chain) != len(base) {
			failShape("%s: range over %v.%s, expected a field of %v", fn.Name.Name, chain, sel.Sel.Name, base)
		}
		for i := range chain {
			if chain[i] != base[i] {
				failShape("%s: range over %v.%s, expected a field of %v", fn.Name.Name, chain, sel.Sel.Name, base)
			}
		}
		out = append(out, sel.Sel.Name)
	}
	if len(out) == 0 {
		failShape("%s: no range loops found", fn.Name.Name)
	}
	return out
}

// translateChangeDir translates the body of (*CASFileSystem).ChangeDir. Two statement shapes are understood:
//
//	return &CASFileSystem{f1: fs.f1, ..., workingDir: <wd>}          a new object; every field of the struct must be
//	                                                                 listed and every field but workingDir must be the
//	                                                                 receiver's field of the same name
//	x := fs | x := *fs ; x.workingDir = <wd> ; return x | return &x  `x := fs` copies the POINTER (receiver is *T): x is the
//	                                                                 receiver, the assignment re-roots it, fresh = false;
//	                                                                 `x := *fs ... return &x` copies the struct, fresh = true
//
// <wd> is the parameter, filepath.Clean(parameter) or filepath.Join(fs.workingDir, parameter). Anything else fails closed.
func translateChangeDir(f *ast.File) (fresh bool, wdMode int, wdExpr string, fields []string) {
	// the struct's fields
	for _, d := range f.Decls {
		gd, ok := d.(*ast.GenDecl)
		if !ok || gd.Tok != token.TYPE {
			continue
		}
		for _, s := range gd.Specs {
			ts := s.(*ast.TypeSpec)
			if ts.Name.Name != "CASFileSystem" {
				continue
			}
			st, ok := ts.Type.(*ast.StructType)
			if !ok {
				failShape("CASFileSystem is not a struct")
			}
			for _, fl := range st.Fields.List {
				if len(fl.Names) == 0 {
					failShape("CASFileSystem has an embedded field")
				}
				for _, n := range fl.Names {
					fields = append(fields, n.Name)
				}
			}
		}
	}
	hasWD := false
	for _, n := range fields {
		hasWD = hasWD || n == "workingDir"
	}
	if !hasWD {
		failShape("CASFileSystem has no field workingDir")
	}

	fn := findFunc(f, "CASFileSystem", "ChangeDir")
	if len(fn.Recv.List[0].Names) != 1 {
		failShape("ChangeDir: unnamed receiver")
	}
	if _, ok := fn.Recv.List[0].Type.(*ast.StarExpr); !ok {
		failShape("ChangeDir: the receiver is not a pointer")
	}
	recv := fn.Recv.List[0].Names[0].Name
	if fn.Type.Params == nil || len(fn.Type.Params.List) != 1 || len(fn.Type.Params.List[0].Names) != 1 {
		failShape("ChangeDir: expected exactly one parameter")
	}
	if id, ok := fn.Type.Params.List[0].Type.(*ast.Ident); !ok || id.Name != "string" {
		failShape("ChangeDir: the parameter is not a string")
	}
	param := fn.Type.Params.List[0].Names[0].Name
	if fn.Type.Results == nil || len(fn.Type.Results.List) != 1 {
		failShape("ChangeDir: expected exactly one result")
	}
	if st, ok := fn.Type.Results.List[0].Type.(*ast.StarExpr); !ok {
		failShape("ChangeDir: the result is not a pointer")
	} else if id, ok := st.X.(*ast.Ident); !ok || id.Name != "CASFileSystem" {
		failShape("ChangeDir: the result is not *CASFileSystem")
	}

	isIdent := func(e ast.Expr, name string) bool {
		id, ok := e.(*ast.Ident)
		return ok && id.Name == name
	}
	isRecvField := func(e ast.Expr, field string) bool {
		sel, ok := e.(*ast.SelectorExpr)
		return ok && isIdent(sel.X, recv) && sel.Sel.Name == field
	}
	wdOf := func(e ast.Expr) (int, string) {
		if isIdent(e, param) {
			return 0, param
		}
		if call, ok := e.(*ast.CallExpr); ok {
			if sel, ok := call.Fun.(*ast.SelectorExpr); ok && isIdent(sel.X, "filepath") {
				switch {
				case sel.Sel.Name == "Clean" && len(call.Args) == 1 && isIdent(call.Args[0], param):
					return 1, "filepath.Clean(" + param + ")"
				case sel.Sel.Name == "Join" && len(call.Args) == 2 && isRecvField(call.Args[0], "workingDir") && isIdent(call.Args[1], param):
					return 2, "filepath.Join(" + recv + ".workingDir, " + param + ")"
				}
			}
		}
		failShape("ChangeDir: the new working directory is not the parameter, filepath.Clean of it or filepath.Join(%s.workingDir, it)", recv)
		return 0, ""
	}

	body := fn.Body.List
	if len(body) == 0 {
		failShape("ChangeDir: empty body")
	}
	ret, ok := body[len(body)-1].(*ast.ReturnStmt)
	if !ok || len(ret.Results) != 1 {
		failShape("ChangeDir: the last statement is not a return of one value")
	}

	// shape 1: return &CASFileSystem{...}
	if len(body) == 1 {
		un, ok := ret.Results[0].(*ast.UnaryExpr)
		if !ok || un.Op != token.AND {
			failShape("ChangeDir: a single return that is not &CASFileSystem{...}")
		}
		lit, ok := un.X.(*ast.CompositeLit)
		if !ok || !isIdent(lit.Type, "CASFileSystem") {
			failShape("ChangeDir: a single return that is not &CASFileSystem{...}")
		}
		seen := map[string]bool{}
		for _, el := range lit.Elts {
			kv, ok := el.(*ast.KeyValueExpr)
			if !ok {
				failShape("ChangeDir: positional composite literal")
			}
			k, ok := kv.Key.(*ast.Ident)
			if !ok || seen[k.Name] {
				failShape("ChangeDir: unexpected key in the composite literal")
			}
			seen[k.Name] = true
			if k.Name == "workingDir" {
				wdMode, wdExpr = wdOf(kv.Value)
			} else if !isRecvField(kv.Value, k.Name) {
				failShape("ChangeDir: field %s of the new filesystem is not %s.%s", k.Name, recv, k.Name)
			}
		}
		for _, n := range fields {
			if !seen[n] {
				failShape("ChangeDir: field %s of CASFileSystem is not carried over to the new filesystem", n)
			}
		}
		if len(seen) != len(fields) {
			failShape("ChangeDir: the composite literal names a field the struct does not have")
		}
		return true, wdMode, wdExpr, fields
	}

	// shape 2: x := fs | *fs ; x.workingDir = <wd> ; return x | &x
	def, ok := body[0].(*ast.AssignStmt)
	if !ok || def.Tok != token.DEFINE || len(def.Lhs) != 1 || len(def.Rhs) != 1 {
		failShape("ChangeDir: the first statement is not `x := ...`")
	}
	lhs, ok := def.Lhs[0].(*ast.Ident)
	if !ok || lhs.Name == recv || lhs.Name == param || lhs.Name == "_" {
		failShape("ChangeDir: the first statement is not `x := ...`")
	}
	x := lhs.Name
	var structCopy bool
	switch r := def.Rhs[0].(type) {
	case *ast.Ident:
		if r.Name != recv {
			failShape("ChangeDir: `%s := %s` is not a copy of the receiver", x, r.Name)
		}
		structCopy = false // the pointer is copied, not the filesystem
	case *ast.StarExpr:
		if !isIdent(r.X, recv) {
			failShape("ChangeDir: `%s := *...` does not dereference the receiver", x)
		}
		structCopy = true
	default:
		failShape("ChangeDir: `%s := ...` is neither the receiver nor *receiver", x)
	}
	assigned := 0
	for _, st := range body[1 : len(body)-1] {
		as, ok := st.(*ast.AssignStmt)
		if !ok || as.Tok != token.ASSIGN || len(as.Lhs) != 1 || len(as.Rhs) != 1 {
			failShape("ChangeDir: unexpected statement between `%s := ...` and the return", x)
		}
		sel, ok := as.Lhs[0].(*ast.SelectorExpr)
		if !ok || !isIdent(sel.X, x) || sel.Sel.Name != "workingDir" {
			failShape("ChangeDir: an assignment to something other than %s.workingDir", x)
		}
		wdMode, wdExpr = wdOf(as.Rhs[0])
		assigned++
	}
	if assigned != 1 {
		failShape("ChangeDir: expected exactly one assignment to %s.workingDir, found %d", x, assigned)
	}
	if structCopy {
		un, ok := ret.Results[0].(*ast.UnaryExpr)
		if !ok || un.Op != token.AND || !isIdent(un.X, x) {
			failShape("ChangeDir: after `%s := *%s` the function does not return &%s", x, recv, x)
		}
		return true, wdMode, wdExpr, fields
	}
	if !isIdent(ret.Results[0], x) {
		failShape("ChangeDir: after `%s := %s` the function does not return %s", x, recv, x)
	}
	return false, wdMode, wdExpr, fields
}
