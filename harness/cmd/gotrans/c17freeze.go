package main

import (
	"go/ast"
	"go/token"
	"strings"
)

// C17Freeze (property C17): the pieces of src/parse/asp/objects.go the frame theorem of Proof/C17_*.v rests on are
// pinned to the shape the model (Model/C16_Prim.v list_add, Model/C16_Eval.v freeze / vindex_assign) was written from:
//
//   - pyList.concat allocates the result (make with exact capacity, then append both operands) and
//     pyList.Operator(Add) returns l.concat(...) in both branches: `+` never writes an operand's array
//     and never returns an operand (C16_Prim.list_add = alloc_list);
//   - pyList.Freeze returns pyFrozenList{pyList: l}: the wrapper goes around the ORIGINAL slice (shallow);
//   - pyDict.Freeze returns pyFrozenDict{pyDict: frozen} around the COPY with frozen members;
//   - pyFrozenList.IndexAssign and pyFrozenDict.IndexAssign panic.
//
// Anything else fails closed.
func init() {
	targets["C17Freeze"] = func() string {
		fset, f := parseFile("src/parse/asp/objects.go")

		matchShape("pyList.concat", bodyText(fset, findFunc(f, "pyList", "concat")),
			`{ ret := make(pyList, 0, len(l)+len(l2)) return append(append(ret, l...), l2...) }`)

		// the Add case of pyList.Operator
		op := findFunc(f, "pyList", "Operator")
		var addCase *ast.CaseClause
		for _, st := range op.Body.List {
			sw, ok := st.(*ast.SwitchStmt)
			if !ok {
				continue
			}
			for _, c := range sw.Body.List {
				cc := c.(*ast.CaseClause)
				if len(cc.List) == 1 {
					if id, ok := cc.List[0].(*ast.Ident); ok && id.Name == "Add" {
						addCase = cc
					}
				}
			}
		}
		if addCase == nil {
			failShape("pyList.Operator has no `case Add:`")
		}
		addText := bodyText(fset, &ast.FuncDecl{Name: ast.NewIdent("pyList.Operator/Add"), Body: &ast.BlockStmt{Lbrace: addCase.Colon, List: addCase.Body, Rbrace: token.NoPos}})
		addText = strings.TrimSpace(addText)
		matchShape("pyList.Operator case Add", addText,
			`{ l2, ok := operand.(pyList) if !ok { if l2, ok := operand.(pyFrozenList); ok { return l.concat(l2.pyList) } panic("Cannot add list and " + operand.Type()) } return l.concat(l2) }`)

		// Freeze: only the return statements are pinned (what the wrapper goes around)
		lastReturn := func(recv, name string) string {
			fd := findFunc(f, recv, name)
			if len(fd.Body.List) == 0 {
				failShape("%s.%s has an empty body", recv, name)
			}
			rs, ok := fd.Body.List[len(fd.Body.List)-1].(*ast.ReturnStmt)
			if !ok {
				failShape("%s.%s does not end in a return statement", recv, name)
			}
			for _, st := range fd.Body.List[:len(fd.Body.List)-1] {
				ast.Inspect(st, func(n ast.Node) bool {
					if _, ok := n.(*ast.ReturnStmt); ok {
						failShape("%s.%s has more than one return statement", recv, name)
					}
					return true
				})
			}
			return bodyText(fset, &ast.FuncDecl{Name: ast.NewIdent(name), Body: &ast.BlockStmt{List: []ast.Stmt{rs}}})
		}
		matchShape("pyList.Freeze (return)", lastReturn("pyList", "Freeze"), `{ return pyFrozenList{pyList: l} }`)
		matchShape("pyDict.Freeze (return)", lastReturn("pyDict", "Freeze"), `{ return pyFrozenDict{pyDict: frozen} }`)

		matchShape("pyFrozenList.IndexAssign", bodyText(fset, findFunc(f, "pyFrozenList", "IndexAssign")), `{ panic("list is immutable") }`)
		matchShape("pyFrozenDict.IndexAssign", bodyText(fset, findFunc(f, "pyFrozenDict", "IndexAssign")), `{ panic("dict is immutable") }`)

		return "(* src/parse/asp/objects.go, pinned shapes (see harness/cmd/gotrans/c17freeze.go) *)\n" +
			"(* pyList.Operator(Add) = l.concat(l2); concat = make(pyList, 0, len(l)+len(l2)) then append both *)\n" +
			"Definition list_add_allocates : bool := true.\n" +
			"(* pyList.Freeze returns the wrapper around the original slice *)\n" +
			"Definition freeze_list_is_shallow : bool := true.\n" +
			"(* pyDict.Freeze returns the wrapper around the copy with frozen members *)\n" +
			"Definition freeze_dict_copies : bool := true.\n" +
			"(* IndexAssign on the frozen wrappers panics *)\n" +
			"Definition frozen_index_assign_panics : bool := true.\n"
	}
}
