package main

import (
	"go/ast"
	"go/token"
	"go/types"
	"strconv"
	"strings"
)

// C17Freeze (property C17): the pieces of src/parse/asp/objects.go the frame theorem of Proof/C17_*.v rests on are
// pinned to the shape the model (Model/C16_Prim.v list_add, Model/C16_Eval.v freeze / vindex_assign) was written from:
//
//   - pyList.concat allocates the result (make with exact capacity, then append both operands) and
//     pyList.Operator(Add) returns l.concat(...) in both branches: `+` never writes an operand's array
//     and never returns an operand (C16_Prim.list_add = alloc_list);
//   - pyList.Freeze returns pyFrozenList{pyList: l}: the wrapper goes around the ORIGINAL slice (shallow);
//   - pyDict.Freeze returns pyFrozenDict{pyDict: frozen} around the COPY with frozen members;
//   - pyFrozenList.IndexAssign and pyFrozenDict.IndexAssign panic.
//
// Two more pieces are TRANSLATED (follow-up round; Proof/C17_Followup.v proves the two facts the frame theorem uses
// about them, so a change of either changes the generated definitions and breaks those proofs):
//
//   - the `case Union:` clause of pyDict.Operator, statement by statement, into c17_dict_union_steps (check the
//     operand, make the result, copy one side, return the result; an early `if len(x) == 0 { return y }` is
//     translated too - the result is then an operand, for a frozen receiver the inner unfrozen map every package
//     shares, and c17_union_steps_fresh no longer computes to true);
//   - the loop of scope.Freeze (src/parse/asp/interpreter.go) into c17_scope_freeze_skips, the list of name prefixes
//     the loop skips before it freezes a value (`if k[0] == '_' { continue }`, `if strings.HasPrefix(k, "_") { continue }`);
//     the unchanged loop skips nothing: subinclude() imports private names too (SetAll with publicOnly = false), so a
//     skipped name reaches every package unfrozen.
//
// Anything else fails closed.
func init() {
	targets["C17Freeze"] = func() string {
		fset, f := parseFile("src/parse/asp/objects.go")

		matchShape("pyList.concat", bodyText(fset, findFunc(f, "pyList", "concat")),
			`{ ret := make(pyList, 0, len(l)+len(l2)) return append(append(ret, l...), l2...) }`)

		// the Add case of pyList.Operator
		op := findFunc(f, "pyList", "Operator")
		var addCase *ast.CaseClause
		for _, st := range op.Body.List {
			sw, ok := st.(*ast.SwitchStmt)
			if !ok {
				continue
			}
			for _, c := range sw.Body.List {
				cc := c.(*ast.CaseClause)
				if len(cc.List) == 1 {
					if id, ok := cc.List[0].(*ast.Ident); ok && id.Name == "Add" {
						addCase = cc
					}
				}
			}
		}
		if addCase == nil {
			failShape("pyList.Operator has no `case Add:`")
		}
		addText := bodyText(fset, &ast.FuncDecl{Name: ast.NewIdent("pyList.Operator/Add"), Body: &ast.BlockStmt{Lbrace: addCase.Colon, List: addCase.Body, Rbrace: token.NoPos}})
		addText = strings.TrimSpace(addText)
		matchShape("pyList.Operator case Add", addText,
			`{ l2, ok := operand.(pyList) if !ok { if l2, ok := operand.(pyFrozenList); ok { return l.concat(l2.pyList) } panic("Cannot add list and " + operand.Type()) } return l.concat(l2) }`)

		// Freeze: only the return statements are pinned (what the wrapper goes around)
		lastReturn := func(recv, name string) string {
			fd := findFunc(f, recv, name)
			if len(fd.Body.List) == 0 {
				failShape("%s.%s has an empty body", recv, name)
			}
			rs, ok := fd.Body.List[len(fd.Body.List)-1].(*ast.ReturnStmt)
			if !ok {
				failShape("%s.%s does not end in a return statement", recv, name)
			}
			for _, st := range fd.Body.List[:len(fd.Body.List)-1] {
				ast.Inspect(st, func(n ast.Node) bool {
					if _, ok := n.(*ast.ReturnStmt); ok {
						failShape("%s.%s has more than one return statement", recv, name)
					}
					return true
				})
			}
			return bodyText(fset, &ast.FuncDecl{Name: ast.NewIdent(name), Body: &ast.BlockStmt{List: []ast.Stmt{rs}}})
		}
		matchShape("pyList.Freeze (return)", lastReturn("pyList", "Freeze"), `{ return pyFrozenList{pyList: l} }`)
		matchShape("pyDict.Freeze (return)", lastReturn("pyDict", "Freeze"), `{ return pyFrozenDict{pyDict: frozen} }`)

		matchShape("pyFrozenList.IndexAssign", bodyText(fset, findFunc(f, "pyFrozenList", "IndexAssign")), `{ panic("list is immutable") }`)
		matchShape("pyFrozenDict.IndexAssign", bodyText(fset, findFunc(f, "pyFrozenDict", "IndexAssign")), `{ panic("dict is immutable") }`)

		unionSteps := c17UnionSteps(fset, f)
		skips := c17ScopeFreezeSkips()

		return "From Coq Require Import List NArith. Import ListNotations.\n" +
			"(* src/parse/asp/objects.go, pinned shapes (see harness/cmd/gotrans/c17freeze.go) *)\n" +
			"(* pyList.Operator(Add) = l.concat(l2); concat = make(pyList, 0, len(l)+len(l2)) then append both *)\n" +
			"Definition list_add_allocates : bool := true.\n" +
			"(* pyList.Freeze returns the wrapper around the original slice *)\n" +
			"Definition freeze_list_is_shallow : bool := true.\n" +
			"(* pyDict.Freeze returns the wrapper around the copy with frozen members *)\n" +
			"Definition freeze_dict_copies : bool := true.\n" +
			"(* IndexAssign on the frozen wrappers panics *)\n" +
			"Definition frozen_index_assign_panics : bool := true.\n" +
			"(* pyDict.Operator, case Union, statement by statement (d = the receiver, d2 = the operand) *)\n" +
			"Inductive c17_side := C17Left | C17Right.\n" +
			"Inductive c17_ustep :=\n" +
			"| C17Check                                  (* d2, ok := operand.(pyDict); if !ok { panic } *)\n" +
			"| C17ReturnIfEmpty (test ret : c17_side)    (* if len(test) == 0 { return ret } *)\n" +
			"| C17Make                                   (* ret := make(pyDict, len(d)+len(d2)) *)\n" +
			"| C17Copy (src : c17_side)                  (* for k, v := range src { ret[k] = v } *)\n" +
			"| C17ReturnRet.                             (* return ret *)\n" +
			"Definition c17_dict_union_steps : list c17_ustep := [" + strings.Join(unionSteps, "; ") + "].\n" +
			"(* scope.Freeze (interpreter.go): the name prefixes (as bytes) the loop skips before freezing a value *)\n" +
			"Definition c17_scope_freeze_skips : list (list N) := [" + strings.Join(skips, "; ") + "].\n"
	}
}

func c17StmtText(fs *token.FileSet, st ...ast.Stmt) string {
	return bodyText(fs, &ast.FuncDecl{Name: ast.NewIdent("stmt"), Body: &ast.BlockStmt{List: st}})
}

// c17UnionSteps translates the `case Union:` clause of pyDict.Operator.
func c17UnionSteps(fs *token.FileSet, f *ast.File) []string {
	op := findFunc(f, "pyDict", "Operator")
	var union *ast.CaseClause
	for _, st := range op.Body.List {
		sw, ok := st.(*ast.SwitchStmt)
		if !ok {
			continue
		}
		for _, c := range sw.Body.List {
			cc := c.(*ast.CaseClause)
			for _, e := range cc.List {
				if id, ok := e.(*ast.Ident); ok && id.Name == "Union" {
					if len(cc.List) != 1 || union != nil {
						failShape("pyDict.Operator: Union shares its case clause or is listed twice")
					}
					union = cc
				}
			}
		}
	}
	if union == nil {
		failShape("pyDict.Operator has no `case Union:`")
	}
	if len(union.Body) < 2 {
		failShape("pyDict.Operator case Union is too short")
	}
	matchShape("pyDict.Operator case Union (operand check)", c17StmtText(fs, union.Body[0], union.Body[1]),
		`{ d2, ok := operand.(pyDict) if !ok { panic("Operator to | must be another dict, not " + operand.Type()) } }`)
	steps := []string{"C17Check"}
	side := func(e ast.Expr) string {
		switch types.ExprString(e) {
		case "d":
			return "C17Left"
		case "d2":
			return "C17Right"
		}
		failShape("pyDict.Operator case Union: %s is neither operand", types.ExprString(e))
		return ""
	}
	var early func(is *ast.IfStmt)
	early = func(is *ast.IfStmt) {
		// if len(x) == 0 { return y } [else if ...]
		be, ok := is.Cond.(*ast.BinaryExpr)
		if is.Init != nil || !ok || be.Op != token.EQL || types.ExprString(be.Y) != "0" {
			failShape("pyDict.Operator case Union: unrecognised condition %s", types.ExprString(is.Cond))
		}
		call, ok := be.X.(*ast.CallExpr)
		if !ok || types.ExprString(call.Fun) != "len" || len(call.Args) != 1 {
			failShape("pyDict.Operator case Union: unrecognised condition %s", types.ExprString(is.Cond))
		}
		if len(is.Body.List) != 1 {
			failShape("pyDict.Operator case Union: early-return body is not a single return")
		}
		ret, ok := is.Body.List[0].(*ast.ReturnStmt)
		if !ok || len(ret.Results) != 1 {
			failShape("pyDict.Operator case Union: early-return body is not a single return")
		}
		steps = append(steps, "C17ReturnIfEmpty "+side(call.Args[0])+" "+side(ret.Results[0]))
		switch e := is.Else.(type) {
		case nil:
		case *ast.IfStmt:
			early(e)
		default:
			failShape("pyDict.Operator case Union: unrecognised else branch")
		}
	}
	made, returned := false, false
	for _, st := range union.Body[2:] {
		if returned {
			failShape("pyDict.Operator case Union: statements after the final return")
		}
		switch t := st.(type) {
		case *ast.AssignStmt:
			matchShape("pyDict.Operator case Union (make)", c17StmtText(fs, t), `{ ret := make(pyDict, len(d)+len(d2)) }`)
			if made {
				failShape("pyDict.Operator case Union: the result is made twice")
			}
			made = true
			steps = append(steps, "C17Make")
		case *ast.RangeStmt:
			if !made {
				failShape("pyDict.Operator case Union: copy before make")
			}
			src := side(t.X)
			t2 := *t
			t2.X = ast.NewIdent("SRC")
			matchShape("pyDict.Operator case Union (copy loop)", c17StmtText(fs, &t2), `{ for k, v := range SRC { ret[k] = v } }`)
			steps = append(steps, "C17Copy "+src)
		case *ast.IfStmt:
			early(t)
		case *ast.ReturnStmt:
			matchShape("pyDict.Operator case Union (return)", c17StmtText(fs, t), `{ return ret }`)
			if !made {
				failShape("pyDict.Operator case Union: return before make")
			}
			returned = true
			steps = append(steps, "C17ReturnRet")
		default:
			failShape("pyDict.Operator case Union: unrecognised statement %s", c17StmtText(fs, st))
		}
	}
	if !returned {
		failShape("pyDict.Operator case Union does not end in `return ret`")
	}
	return steps
}

// c17ScopeFreezeSkips translates the loop of scope.Freeze: the result is the list of name prefixes (Coq byte lists)
// for which the loop `continue`s before the value is frozen.
func c17ScopeFreezeSkips() []string {
	fs, f := parseFile("src/parse/asp/interpreter.go")
	fd := findFunc(f, "scope", "Freeze")
	if len(fd.Body.List) != 2 {
		failShape("scope.Freeze is not `for ... range s.locals { ... }; return s.locals`")
	}
	matchShape("scope.Freeze (return)", c17StmtText(fs, fd.Body.List[1]), `{ return s.locals }`)
	loop, ok := fd.Body.List[0].(*ast.RangeStmt)
	if !ok || loop.Tok != token.DEFINE || types.ExprString(loop.X) != "s.locals" || loop.Key == nil || loop.Value == nil ||
		types.ExprString(loop.Key) != "k" || types.ExprString(loop.Value) != "v" {
		failShape("scope.Freeze does not start with `for k, v := range s.locals`")
	}
	body := loop.Body.List
	if len(body) == 0 {
		failShape("scope.Freeze: empty loop body")
	}
	matchShape("scope.Freeze (freeze step)", c17StmtText(fs, body[len(body)-1]), `{ if f, ok := v.(freezable); ok { s.locals[k] = f.Freeze() } }`)
	bytesOf := func(p string) string {
		if p == "" {
			failShape("scope.Freeze: a filter on the empty prefix skips every name")
		}
		out := []string{}
		for i := 0; i < len(p); i++ {
			out = append(out, strconv.Itoa(int(p[i]))+"%N")
		}
		return "[" + strings.Join(out, "; ") + "]"
	}
	skips := []string{}
	for _, st := range body[:len(body)-1] {
		// if <k starts with a literal> { continue }
		is, ok := st.(*ast.IfStmt)
		if !ok || is.Init != nil || is.Else != nil || len(is.Body.List) != 1 {
			failShape("scope.Freeze: unrecognised statement in the loop: %s", c17StmtText(fs, st))
		}
		if br, ok := is.Body.List[0].(*ast.BranchStmt); !ok || br.Tok != token.CONTINUE || br.Label != nil {
			failShape("scope.Freeze: unrecognised statement in the loop: %s", c17StmtText(fs, st))
		}
		switch c := is.Cond.(type) {
		case *ast.BinaryExpr:
			lit, ok := c.Y.(*ast.BasicLit)
			if c.Op != token.EQL || types.ExprString(c.X) != "k[0]" || !ok || lit.Kind != token.CHAR {
				failShape("scope.Freeze: unrecognised filter %s", types.ExprString(is.Cond))
			}
			skips = append(skips, bytesOf(unquote(lit)))
		case *ast.CallExpr:
			if types.ExprString(c.Fun) != "strings.HasPrefix" || len(c.Args) != 2 || types.ExprString(c.Args[0]) != "k" {
				failShape("scope.Freeze: unrecognised filter %s", types.ExprString(is.Cond))
			}
			lit, ok := c.Args[1].(*ast.BasicLit)
			if !ok || lit.Kind != token.STRING {
				failShape("scope.Freeze: unrecognised filter %s", types.ExprString(is.Cond))
			}
			skips = append(skips, bytesOf(unquote(lit)))
		default:
			failShape("scope.Freeze: unrecognised filter %s", types.ExprString(is.Cond))
		}
	}
	return skips
}
