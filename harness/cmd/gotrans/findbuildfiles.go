package main

import (
	"bytes"
	"go/ast"
	"go/printer"
	"go/token"
	"regexp"
	"strings"
)

// FindBuildFiles (property C22): the walk callback of plz.FindAllBuildFiles, the `...` expansion loop of
// findOriginalTask, fs.Walk/WalkMode, Configuration.IsABuildFile and query.isExcluded are pinned to the exact
// statement shapes Model/C22.v was written from.  String literals are holes; they and core.OutDir are
// regenerated into Gen/FindBuildFiles.v, and the model is written against those definitions.  Any other
// shape (a reordered rule, a changed comparison, an added or removed branch) fails closed.
// Two places are translated rather than pinned: the loop of findOriginalTaskSet (prelude / range expression /
// body statements, as text, interpreted by Model/C22.v task_set_ok) and the statement containsPackage executes
// when an excluded directory comes off its queue (continue / return false / return true, Model/C22.v on_excluded).

var c22ws = regexp.MustCompile(`\s+`)

func c22Body(fset *token.FileSet, fd *ast.FuncDecl) string {
	var b bytes.Buffer
	if err := (&printer.Config{Mode: printer.RawFormat}).Fprint(&b, fset, fd.Body); err != nil {
		failShape("cannot print %s: %v", fd.Name.Name, err)
	}
	return strings.TrimSpace(c22ws.ReplaceAllString(b.String(), " "))
}

// c22Match matches text against a template in which §S is a string-literal hole; it returns the
// unquoted literals in order.
func c22Match(what, text, template string) []string {
	tpl := strings.TrimSpace(c22ws.ReplaceAllString(template, " "))
	q := regexp.QuoteMeta(tpl)
	q = strings.ReplaceAll(q, "§S", "(\"(?:[^\"\\\\]|\\\\.)*\"|`[^`]*`)")
	m := regexp.MustCompile("^" + q + "$").FindStringSubmatch(text)
	if m == nil {
		failShape("%s does not have the shape the C22 model was written from.\n  expected: %s\n  found:    %s", what, tpl, text)
	}
	out := []string{}
	for _, lit := range m[1:] {
		out = append(out, unquote(&ast.BasicLit{Kind: token.STRING, Value: lit}))
	}
	return out
}

// c22MatchStmt is c22Match with a second kind of hole: §T is one simple statement without braces (continue,
// break, return <expr>); holes are returned in order of appearance, string literals unquoted.
func c22MatchStmt(what, text, template string) []string {
	tpl := strings.TrimSpace(c22ws.ReplaceAllString(template, " "))
	q := regexp.QuoteMeta(tpl)
	q = strings.ReplaceAll(q, "§S", "(\"(?:[^\"\\\\]|\\\\.)*\"|`[^`]*`)")
	q = strings.ReplaceAll(q, "§T", "([^{};]*?)")
	m := regexp.MustCompile("^" + q + "$").FindStringSubmatch(text)
	if m == nil {
		failShape("%s does not have the shape the C22 model was written from.\n  expected: %s\n  found:    %s", what, tpl, text)
	}
	out := []string{}
	for _, h := range m[1:] {
		h = strings.TrimSpace(h)
		if strings.HasPrefix(h, "\"") || strings.HasPrefix(h, "`") {
			h = unquote(&ast.BasicLit{Kind: token.STRING, Value: h})
		}
		out = append(out, h)
	}
	return out
}

func c22Stmt(fset *token.FileSet, n ast.Node) string {
	var b bytes.Buffer
	if err := (&printer.Config{Mode: printer.RawFormat}).Fprint(&b, fset, n); err != nil {
		failShape("cannot print statement: %v", err)
	}
	return strings.TrimSpace(c22ws.ReplaceAllString(b.String(), " "))
}

// c22RangeLoop translates a function whose body ends in one `for _, x := range E { ... }` loop (possibly
// labelled): the statements before the loop, E, and the statements of the loop body, each printed on one line.
func c22RangeLoop(fset *token.FileSet, fd *ast.FuncDecl) (prelude []string, rangeExpr string, body []string) {
	list := fd.Body.List
	if len(list) == 0 {
		failShape("%s has an empty body", fd.Name.Name)
	}
	prelude, body = []string{}, []string{}
	for _, st := range list[:len(list)-1] {
		prelude = append(prelude, c22Stmt(fset, st))
	}
	last := list[len(list)-1]
	if ls, ok := last.(*ast.LabeledStmt); ok {
		prelude = append(prelude, "label "+ls.Label.Name)
		last = ls.Stmt
	}
	rs, ok := last.(*ast.RangeStmt)
	if !ok {
		failShape("%s does not end in a range loop", fd.Name.Name)
	}
	if k, ok := rs.Key.(*ast.Ident); !ok || k.Name != "_" || rs.Tok != token.DEFINE {
		failShape("%s: the loop is not `for _, x := range ...`", fd.Name.Name)
	}
	if v, ok := rs.Value.(*ast.Ident); !ok || v.Name != "target" {
		failShape("%s: the loop variable is not `target`", fd.Name.Name)
	}
	rangeExpr = c22Stmt(fset, rs.X)
	for _, st := range rs.Body.List {
		body = append(body, c22Stmt(fset, st))
	}
	return
}

func c22StringConst(rel, name string) string {
	_, f := parseFile(rel)
	for _, d := range f.Decls {
		gd, ok := d.(*ast.GenDecl)
		if !ok || gd.Tok != token.CONST {
			continue
		}
		for _, sp := range gd.Specs {
			vs := sp.(*ast.ValueSpec)
			for i, n := range vs.Names {
				if n.Name == name && i < len(vs.Values) {
					bl, ok := vs.Values[i].(*ast.BasicLit)
					if !ok || bl.Kind != token.STRING {
						failShape("%s in %s is not a string literal", name, rel)
					}
					return unquote(bl)
				}
			}
		}
	}
	failShape("constant %s not found in %s", name, rel)
	return ""
}

func init() {
	targets["FindBuildFiles"] = func() string {
		fsP, fp := parseFile("src/plz/plz.go")
		fsW, fw := parseFile("src/fs/walk.go")
		fsC, fc := parseFile("src/core/config.go")
		fsQ, fq := parseFile("src/query/completions.go")

		m := c22Match("plz.FindAllBuildFiles", c22Body(fsP, findFunc(fp, "", "FindAllBuildFiles")), `{
			ch := make(chan string)
			go func() {
				if rootPath == §S { rootPath = §S }
				if err := fs.Walk(rootPath, func(name string, isDir bool) error {
					basename := filepath.Base(name)
					if !isDir {
						if config.IsABuildFile(basename) { ch <- name }
						return nil }
					if basename == core.OutDir || (isDir && strings.HasPrefix(basename, §S) && name != §S) { return filepath.SkipDir
					} else if isDir && !strings.HasPrefix(name, prefix) && !strings.HasPrefix(prefix, name) { return filepath.SkipDir
					} else if config.IsABuildFile(basename) && !isDir { ch <- name
					} else if cli.ContainsString(name, config.Parse.ExperimentalDir) { return filepath.SkipDir }
					for _, dir := range config.Parse.BlacklistDirs {
						if dir == basename || name == dir || strings.HasPrefix(name, dir+§S) { return filepath.SkipDir } }
					return nil
				}); err != nil { log.Fatalf(§S, rootPath, err) }
				close(ch)
			}()
			return ch }`)
		if m[0] != "" {
			failShape("FindAllBuildFiles compares rootPath with %q, expected the empty string", m[0])
		}
		rootDefault, hiddenPrefix, rootException, blacklistSep := m[1], m[2], m[3], m[4]

		m = c22Match("plz.findOriginalTask", c22Body(fsP, findFunc(fp, "", "findOriginalTask")), `{
			if arch != cli.HostArch() { target = core.LabelToArch(target, arch) }
			target = stripHostRepoName(state.Config, target)
			if target.IsAllSubpackages() {
				dir := target.PackageName
				prefix := §S
				if target.Subrepo != §S {
					subrepoLabel := target.SubrepoLabel(state)
					if state.WaitForInitialTargetAndEnsureDownload(subrepoLabel, target) != nil {
						state.WaitForPackage(subrepoLabel, target, core.ParseModeNormal)
						subrepo := state.Graph.SubrepoOrDie(target.Subrepo)
						dir = subrepo.Dir(dir)
						prefix = subrepo.Dir(prefix) } }
				for filename := range FindAllBuildFiles(state.Config, dir, §S) {
					dirname, _ := filepath.Split(filename)
					l := core.NewBuildLabel(strings.TrimLeft(strings.TrimPrefix(strings.TrimRight(dirname, §S), prefix), §S), §S)
					l.Subrepo = target.Subrepo
					state.AddOriginalTarget(l, addToList) }
			} else { state.AddOriginalTarget(target, addToList) } }`)
		if m[0] != "" || m[1] != "" || m[2] != "" {
			failShape("findOriginalTask: the host-repository prefix / subrepo test / walk prefix are %q, expected empty strings", m[:3])
		}
		trimRight, trimLeft, allName := m[3], m[4], m[5]

		c22Match("fs.Walk", c22Body(fsW, findFunc(fw, "", "Walk")), `{
			return WalkMode(rootPath, func(name string, mode Mode) error { return callback(name, mode.IsDir()) }) }`)
		c22Match("fs.WalkMode", c22Body(fsW, findFunc(fw, "", "WalkMode")), `{
			if info, err := os.Lstat(rootPath); err != nil { return err
			} else if !info.IsDir() { return callback(rootPath, mode(info.Mode())) }
			return godirwalk.Walk(rootPath, &godirwalk.Options{Callback: func(name string, info *godirwalk.Dirent) error { return callback(name, info) }}) }`)

		c22Match("Configuration.IsABuildFile", c22Body(fsC, findFunc(fc, "Configuration", "IsABuildFile")), `{
			for _, buildFileName := range config.Parse.BuildFileName { if name == buildFileName { return true } }
			return false }`)

		m = c22Match("query.isExcluded", c22Body(fsQ, findFunc(fq, "", "isExcluded")), `{
			if dir == §S { return true }
			for _, blacklisted := range config.Parse.BlacklistDirs { if filepath.Base(dir) == blacklisted { return true } }
			return false }`)
		completionsOut := m[0]

		// findOriginalTaskSet (the loop that feeds every command-line label to findOriginalTask) is TRANSLATED: the
		// statements before the loop, the range expression and the statements of the loop body are regenerated as
		// text; Model/C22.v runs the loop only when they are the ones it interprets (task_set_ok) and the proof of
		// task_set_exact depends on that (lemma task_set_shape).
		prelude, rangeExpr, loopBody := c22RangeLoop(fsP, findFunc(fp, "", "findOriginalTaskSet"))

		// query.containsPackage (completion of `//dir/`): the breadth-first search is pinned, except for the reaction to
		// an excluded directory taken off the queue, which is TRANSLATED (continue / return false / return true) and
		// interpreted by the model (Model/C22.v on_excluded; the theorem contains_package_exact needs `continue`).
		m2 := c22MatchStmt("query.containsPackage", c22Body(fsQ, findFunc(fq, "", "containsPackage")), `{
			dirQueue := []string{dir}
			for len(dirQueue) > 0 {
				dir, dirQueue = dirQueue[0], dirQueue[1:]
				if isExcluded(config, dir) { §T }
				infos, err := os.ReadDir(dir)
				if err != nil { log.Fatalf(§S, err) }
				for _, info := range infos {
					if info.IsDir() { dirQueue = append(dirQueue, filepath.Join(dir, info.Name())) }
					if config.IsABuildFile(info.Name()) { return true } } }
			return false }`)
		onExcluded := m2[0]
		if onExcluded != "continue" && onExcluded != "return false" && onExcluded != "return true" {
			failShape("containsPackage: the reaction to an excluded directory is %q; the translator knows continue / return false / return true", onExcluded)
		}

		// the default BUILD file names (non-Bazel workspace): setDefault(&config.Parse.BuildFileName, ...) in the else branch
		var defaults []string
		ast.Inspect(fc, func(n ast.Node) bool {
			ifs, ok := n.(*ast.IfStmt)
			if !ok {
				return true
			}
			if id, ok := ifs.Cond.(*ast.Ident); !ok || id.Name != "usingBazelWorkspace" {
				return true
			}
			blk, ok := ifs.Else.(*ast.BlockStmt)
			if !ok || len(blk.List) != 1 {
				failShape("config.go: the usingBazelWorkspace else-branch is not a single statement")
			}
			es, ok := blk.List[0].(*ast.ExprStmt)
			if !ok {
				failShape("config.go: the usingBazelWorkspace else-branch is not a call")
			}
			call, ok := es.X.(*ast.CallExpr)
			if !ok || len(call.Args) < 2 {
				failShape("config.go: the usingBazelWorkspace else-branch is not setDefault(...)")
			}
			var b bytes.Buffer
			printer.Fprint(&b, fsC, call.Args[0])
			if fn, ok := call.Fun.(*ast.Ident); !ok || fn.Name != "setDefault" || b.String() != "&config.Parse.BuildFileName" {
				failShape("config.go: the usingBazelWorkspace else-branch does not set the default of Parse.BuildFileName")
			}
			for _, a := range call.Args[1:] {
				bl, ok := a.(*ast.BasicLit)
				if !ok {
					failShape("config.go: default BUILD file name is not a literal")
				}
				defaults = append(defaults, unquote(bl))
			}
			return false
		})
		if defaults == nil {
			failShape("config.go: default of Parse.BuildFileName not found")
		}

		outDir := c22StringConst("src/core/build_target.go", "OutDir")

		return genHeader +
			"(* property C22: literals of plz.FindAllBuildFiles / findOriginalTask / query.isExcluded; the function bodies\n" +
			"   (and fs.Walk, fs.WalkMode, Configuration.IsABuildFile) were matched against the statement shapes the model\n" +
			"   follows (see harness/cmd/gotrans/findbuildfiles.go) *)\n" +
			"Definition out_dir : string := " + coqString(outDir) + ".\n" +
			"Definition root_default : string := " + coqString(rootDefault) + ".\n" +
			"Definition hidden_prefix : string := " + coqString(hiddenPrefix) + ".\n" +
			"Definition root_exception : string := " + coqString(rootException) + ".\n" +
			"Definition blacklist_separator : string := " + coqString(blacklistSep) + ".\n" +
			"Definition trim_right_cutset : string := " + coqString(trimRight) + ".\n" +
			"Definition trim_left_cutset : string := " + coqString(trimLeft) + ".\n" +
			"Definition all_targets_name : string := " + coqString(allName) + ".\n" +
			"Definition completions_out_dir : string := " + coqString(completionsOut) + ".\n" +
			"Definition default_build_file_names : list string := " + coqStringList(defaults) + ".\n" +
			"(* findOriginalTaskSet, translated: statements before the loop / range expression / loop body *)\n" +
			"Definition task_set_prelude : list string := " + coqStringList(prelude) + ".\n" +
			"Definition task_set_range : string := " + coqString(rangeExpr) + ".\n" +
			"Definition task_set_body : list string := " + coqStringList(loopBody) + ".\n" +
			"(* containsPackage, translated: what happens when an excluded directory is taken off the queue *)\n" +
			"Definition contains_on_excluded : string := " + coqString(onExcluded) + ".\n"
	}
}
