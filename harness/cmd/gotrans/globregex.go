package main

import (
	"go/ast"
	"go/token"
	"sort"
	"strings"
)

// GlobRegex (C21): the rewriting table of toRegexString (src/fs/glob.go) - the "^"/"$" wrapping and the ordered
// strings.ReplaceAll passes - plus the string literals of patternToMatcher, isHidden and walkDir in source order.
// Recognised shape of toRegexString:
//     pattern = "<pre>" + pattern + "<suf>"
//     pattern = strings.ReplaceAll(pattern, "<old>", "<new>")   (any number)
//     return pattern
// Cache protocol of Globber.walkDir (the walkedDirs memo; Proof/C21_cache.v cache_protocol_regenerated):
//     func (g *Globber) walkDir(<params>) (walkedDir, error) {
//         if v, ok := g.walkedDirs[<lookup key>]; ok { return v, nil }
//         ...                                               (no other access to g.walkedDirs)
//         g.walkedDirs[<store key>] = v'
//         return v', nil
//     }
// emitted: the parameter names, the identifiers of both key expressions, the Globber fields walkDir touches, and
// every (field, function) pair of the file in which a field of a Globber is assigned.
func init() {
	targets["GlobRegex"] = func() string {
		_, f := parseFile("src/fs/glob.go")
		fd := findFunc(f, "", "toRegexString")
		if fd.Type.Params == nil || len(fd.Type.Params.List) != 1 || len(fd.Type.Params.List[0].Names) != 1 {
			failShape("toRegexString: expected one parameter")
		}
		param := fd.Type.Params.List[0].Names[0].Name
		isParam := func(e ast.Expr) bool { id, ok := e.(*ast.Ident); return ok && id.Name == param }
		strLit := func(e ast.Expr) string {
			bl, ok := e.(*ast.BasicLit)
			if !ok || bl.Kind != token.STRING {
				failShape("toRegexString: expected a string literal")
			}
			return unquote(bl)
		}
		stmts := fd.Body.List
		if len(stmts) < 2 {
			failShape("toRegexString: body too short")
		}
		assign := func(st ast.Stmt) ast.Expr {
			as, ok := st.(*ast.AssignStmt)
			if !ok || as.Tok != token.ASSIGN || len(as.Lhs) != 1 || len(as.Rhs) != 1 || !isParam(as.Lhs[0]) {
				failShape("toRegexString: statement is not `%s = ...`", param)
			}
			return as.Rhs[0]
		}
		// "^" + pattern + "$"   parses as ("^" + pattern) + "$"
		outer, ok := assign(stmts[0]).(*ast.BinaryExpr)
		if !ok || outer.Op != token.ADD {
			failShape("toRegexString: first statement is not a concatenation")
		}
		inner, ok := outer.X.(*ast.BinaryExpr)
		if !ok || inner.Op != token.ADD || !isParam(inner.Y) {
			failShape("toRegexString: first statement is not lit + %s + lit", param)
		}
		pre, suf := strLit(inner.X), strLit(outer.Y)
		var pairs []string
		for _, st := range stmts[1 : len(stmts)-1] {
			call, ok := assign(st).(*ast.CallExpr)
			if !ok || len(call.Args) != 3 || !isParam(call.Args[0]) {
				failShape("toRegexString: expected strings.ReplaceAll(%s, old, new)", param)
			}
			sel, ok := call.Fun.(*ast.SelectorExpr)
			if !ok || sel.Sel.Name != "ReplaceAll" {
				failShape("toRegexString: expected strings.ReplaceAll")
			}
			if x, ok := sel.X.(*ast.Ident); !ok || x.Name != "strings" {
				failShape("toRegexString: expected strings.ReplaceAll")
			}
			old := strLit(call.Args[1])
			if old == "" {
				failShape("toRegexString: empty needle")
			}
			pairs = append(pairs, "("+coqString(old)+", "+coqString(strLit(call.Args[2]))+")")
		}
		ret, ok := stmts[len(stmts)-1].(*ast.ReturnStmt)
		if !ok || len(ret.Results) != 1 || !isParam(ret.Results[0]) {
			failShape("toRegexString: last statement is not `return %s`", param)
		}
		lits := func(name string) []string {
			var out []string
			ast.Inspect(findFunc(f, "", name).Body, func(n ast.Node) bool {
				if bl, ok := n.(*ast.BasicLit); ok && bl.Kind == token.STRING {
					out = append(out, unquote(bl))
				}
				return true
			})
			return out
		}
		walkLits := func() []string {
			var out []string
			ast.Inspect(findFunc(f, "Globber", "walkDir").Body, func(n ast.Node) bool {
				if bl, ok := n.(*ast.BasicLit); ok && bl.Kind == token.STRING {
					out = append(out, unquote(bl))
				}
				return true
			})
			return out
		}
		wp, wl, ws, wf, gw := globberCacheProtocol(f)
		var matcherLits []string
		for _, l := range lits("patternToMatcher") {
			if !strings.Contains(l, "%") { // error message formats are not part of the behaviour
				matcherLits = append(matcherLits, l)
			}
		}
		return genHeader +
			"Definition regex_prefix : string := " + coqString(pre) + ".\n" +
			"Definition regex_suffix : string := " + coqString(suf) + ".\n" +
			"Definition regex_rewrites : list (string * string) := [" + strings.Join(pairs, "; ") + "].\n" +
			"Definition matcher_literals : list string := " + coqStringList(matcherLits) + ".\n" +
			"Definition hidden_literals : list string := " + coqStringList(lits("isHidden")) + ".\n" +
			"Definition walk_literals : list string := " + coqStringList(walkLits()) + ".\n" +
			"Definition walkdir_params : list string := " + coqStringList(wp) + ".\n" +
			"Definition walkdir_lookup_key : list string := " + coqStringList(wl) + ".\n" +
			"Definition walkdir_store_key : list string := " + coqStringList(ws) + ".\n" +
			"Definition walkdir_fields : list string := " + coqStringList(wf) + ".\n" +
			"Definition globber_field_writers : list string := " + coqStringList(gw) + ".\n" +
			"(* the condition under which the WalkDirFunc of walkDir declares the directory of `path` a sub-package *)\n" +
			"Inductive wcond := WIsBuildFile | WIsRegular | WIsSymlink | WIsDir | WAnd (a b : wcond) | WOr (a b : wcond) | WNot (a : wcond).\n" +
			"Definition walk_subpkg_cond : wcond := " + walkSubpkgCond(f) + ".\n" +
			globBuiltin()
	}
}

// walkSubpkgCond translates the guard of the sub-package detection in the WalkDirFunc of Globber.walkDir.  Recognised:
//     iofs.WalkDir(g.fs, rootPath, func(path string, d iofs.DirEntry, err error) error {
//         typeMode := mode(d.Type())
//         if <cond> {
//             packageName := filepath.Dir(path)
//             if packageName != rootPath { dir.subPackages = append(dir.subPackages, packageName); return filepath.SkipDir }
//         }
//         ...
// <cond> over: isBuildFile(g.buildFileNames, path), typeMode.IsRegular()/IsSymlink()/IsDir(), d.IsDir(), &&, ||, !, ().
func walkSubpkgCond(f *ast.File) string {
	fd := findFunc(f, "Globber", "walkDir")
	recv := fd.Recv.List[0].Names[0].Name
	if fd.Type.Params == nil || len(fd.Type.Params.List) != 1 || len(fd.Type.Params.List[0].Names) != 1 {
		failShape("walkDir: expected one parameter")
	}
	rootParam := fd.Type.Params.List[0].Names[0].Name
	var lit *ast.FuncLit
	ast.Inspect(fd.Body, func(n ast.Node) bool {
		if call, ok := n.(*ast.CallExpr); ok {
			if sel, ok := call.Fun.(*ast.SelectorExpr); ok && sel.Sel.Name == "WalkDir" && len(call.Args) == 3 {
				if fl, ok := call.Args[2].(*ast.FuncLit); ok {
					if lit != nil {
						failShape("walkDir: more than one WalkDir call")
					}
					lit = fl
				}
			}
		}
		return true
	})
	if lit == nil || len(lit.Type.Params.List) != 3 || len(lit.Body.List) < 2 {
		failShape("walkDir: WalkDir callback not found / unexpected signature")
	}
	pname := func(i int) string {
		if len(lit.Type.Params.List[i].Names) != 1 {
			failShape("walkDir: callback parameter list shape")
		}
		return lit.Type.Params.List[i].Names[0].Name
	}
	pathP, entP := pname(0), pname(1)
	isIdent := func(e ast.Expr, name string) bool { id, ok := e.(*ast.Ident); return ok && id.Name == name }
	// typeMode := mode(d.Type())
	tm := ""
	if as, ok := lit.Body.List[0].(*ast.AssignStmt); ok && as.Tok == token.DEFINE && len(as.Lhs) == 1 && len(as.Rhs) == 1 {
		if call, ok := as.Rhs[0].(*ast.CallExpr); ok && isIdent(call.Fun, "mode") && len(call.Args) == 1 {
			if c2, ok := call.Args[0].(*ast.CallExpr); ok && len(c2.Args) == 0 {
				if sel, ok := c2.Fun.(*ast.SelectorExpr); ok && sel.Sel.Name == "Type" && isIdent(sel.X, entP) {
					tm = as.Lhs[0].(*ast.Ident).Name
				}
			}
		}
	}
	if tm == "" {
		failShape("walkDir: callback does not start with `typeMode := mode(d.Type())`")
	}
	ifs, ok := lit.Body.List[1].(*ast.IfStmt)
	if !ok || ifs.Init != nil || ifs.Else != nil {
		failShape("walkDir: second callback statement is not the sub-package `if`")
	}
	var tr func(e ast.Expr) string
	tr = func(e ast.Expr) string {
		switch x := e.(type) {
		case *ast.ParenExpr:
			return tr(x.X)
		case *ast.UnaryExpr:
			if x.Op == token.NOT {
				return "(WNot " + tr(x.X) + ")"
			}
		case *ast.BinaryExpr:
			if x.Op == token.LAND {
				return "(WAnd " + tr(x.X) + " " + tr(x.Y) + ")"
			}
			if x.Op == token.LOR {
				return "(WOr " + tr(x.X) + " " + tr(x.Y) + ")"
			}
		case *ast.CallExpr:
			if isIdent(x.Fun, "isBuildFile") && len(x.Args) == 2 && isIdent(x.Args[1], pathP) {
				if sel, ok := x.Args[0].(*ast.SelectorExpr); ok && sel.Sel.Name == "buildFileNames" && isIdent(sel.X, recv) {
					return "WIsBuildFile"
				}
			}
			if sel, ok := x.Fun.(*ast.SelectorExpr); ok && len(x.Args) == 0 {
				onMode := isIdent(sel.X, tm)
				if c2, ok := sel.X.(*ast.CallExpr); ok && len(c2.Args) == 0 { // d.Type().IsRegular()
					if s2, ok := c2.Fun.(*ast.SelectorExpr); ok && s2.Sel.Name == "Type" && isIdent(s2.X, entP) {
						onMode = true
					}
				}
				switch {
				case onMode && sel.Sel.Name == "IsRegular":
					return "WIsRegular"
				case onMode && sel.Sel.Name == "IsSymlink":
					return "WIsSymlink"
				case (onMode || isIdent(sel.X, entP)) && sel.Sel.Name == "IsDir":
					return "WIsDir"
				}
			}
		}
		failShape("walkDir: sub-package condition has a part that is not recognised")
		return ""
	}
	cond := tr(ifs.Cond)
	// the body
	if len(ifs.Body.List) != 2 {
		failShape("walkDir: sub-package block is not `packageName := filepath.Dir(path); if packageName != rootPath {...}`")
	}
	as, ok := ifs.Body.List[0].(*ast.AssignStmt)
	if !ok || as.Tok != token.DEFINE || len(as.Lhs) != 1 || len(as.Rhs) != 1 {
		failShape("walkDir: sub-package block does not start with `packageName := filepath.Dir(path)`")
	}
	pkgVar := as.Lhs[0].(*ast.Ident).Name
	if call, ok := as.Rhs[0].(*ast.CallExpr); !ok || len(call.Args) != 1 || !isIdent(call.Args[0], pathP) {
		failShape("walkDir: packageName is not filepath.Dir(path)")
	} else if sel, ok := call.Fun.(*ast.SelectorExpr); !ok || sel.Sel.Name != "Dir" || !isIdent(sel.X, "filepath") {
		failShape("walkDir: packageName is not filepath.Dir(path)")
	}
	in, ok := ifs.Body.List[1].(*ast.IfStmt)
	if !ok || in.Init != nil || in.Else != nil || len(in.Body.List) != 2 {
		failShape("walkDir: inner sub-package `if` shape")
	}
	if be, ok := in.Cond.(*ast.BinaryExpr); !ok || be.Op != token.NEQ || !isIdent(be.X, pkgVar) || !isIdent(be.Y, rootParam) {
		failShape("walkDir: inner sub-package condition is not `packageName != rootPath`")
	}
	if ap, ok := in.Body.List[0].(*ast.AssignStmt); !ok || len(ap.Lhs) != 1 || len(ap.Rhs) != 1 {
		failShape("walkDir: sub-package is not recorded by an append")
	} else {
		l, okl := ap.Lhs[0].(*ast.SelectorExpr)
		call, okc := ap.Rhs[0].(*ast.CallExpr)
		if !okl || !okc || l.Sel.Name != "subPackages" || !isIdent(call.Fun, "append") || len(call.Args) != 2 || !isIdent(call.Args[1], pkgVar) {
			failShape("walkDir: sub-package is not recorded by `dir.subPackages = append(dir.subPackages, packageName)`")
		}
	}
	if ret, ok := in.Body.List[1].(*ast.ReturnStmt); !ok || len(ret.Results) != 1 {
		failShape("walkDir: sub-package block does not return")
	} else if sel, ok := ret.Results[0].(*ast.SelectorExpr); !ok || sel.Sel.Name != "SkipDir" {
		failShape("walkDir: sub-package block does not return filepath.SkipDir")
	}
	return cond
}

// globBuiltin translates, from func glob of src/parse/asp/builtins.go (the glob() builtin of the BUILD language): what
// is appended to the exclude list before the Globber is called, the build-file-names argument of every fs.NewGlobber
// call, the arguments of the Globber.Glob call, and every top-level write of `exclude` before that call.
func globBuiltin() string {
	_, f := parseFile("src/parse/asp/builtins.go")
	fd := findFunc(f, "", "glob")
	var tr func(e ast.Expr) string
	dotted := func(e ast.Expr) (string, bool) {
		parts := []string{}
		for {
			switch x := e.(type) {
			case *ast.Ident:
				parts = append([]string{x.Name}, parts...)
				return strings.Join(parts, "."), true
			case *ast.SelectorExpr:
				parts = append([]string{x.Sel.Name}, parts...)
				e = x.X
				continue
			}
			return "", false
		}
	}
	tr = func(e ast.Expr) string {
		if d, ok := dotted(e); ok {
			return "(BSel " + coqString(d) + ")"
		}
		if call, ok := e.(*ast.CallExpr); ok && len(call.Args) == 1 && !call.Ellipsis.IsValid() {
			if d, ok := dotted(call.Fun); ok {
				return "(BCall1 " + coqString(d) + " " + tr(call.Args[0]) + ")"
			}
		}
		return "BOther"
	}
	isIdent := func(e ast.Expr, name string) bool { id, ok := e.(*ast.Ident); return ok && id.Name == name }
	var appended, globberBfn, globArgs, writes []string
	spread := "false"
	nAppend, nGlob := 0, 0
	globSeen := false
	for _, st := range fd.Body.List {
		// the Globber.Glob call
		ast.Inspect(st, func(n ast.Node) bool {
			call, ok := n.(*ast.CallExpr)
			if !ok {
				return true
			}
			if sel, ok := call.Fun.(*ast.SelectorExpr); ok {
				if d, _ := dotted(sel.X); sel.Sel.Name == "Glob" && d == "s.globber" {
					nGlob++
					globSeen = true
					for _, a := range call.Args {
						globArgs = append(globArgs, tr(a))
					}
				}
				if sel.Sel.Name == "NewGlobber" && len(call.Args) == 2 {
					globberBfn = append(globberBfn, tr(call.Args[1]))
				}
			}
			return true
		})
		if globSeen {
			break
		}
		as, top := st.(*ast.AssignStmt)
		nested := 0
		ast.Inspect(st, func(n ast.Node) bool {
			if a, ok := n.(*ast.AssignStmt); ok {
				for _, l := range a.Lhs {
					if isIdent(l, "exclude") {
						nested++
					}
				}
			}
			return true
		})
		if nested == 0 {
			continue
		}
		if !top || nested != 1 || len(as.Lhs) != 1 || len(as.Rhs) != 1 {
			failShape("glob builtin: `exclude` is written inside a nested statement before the Glob call")
		}
		call, ok := as.Rhs[0].(*ast.CallExpr)
		if !ok {
			failShape("glob builtin: `exclude` is assigned something that is not a call")
		}
		if as.Tok == token.DEFINE {
			d, _ := dotted(call.Fun)
			writes = append(writes, "define:"+d)
			continue
		}
		if !isIdent(call.Fun, "append") || len(call.Args) < 2 || !isIdent(call.Args[0], "exclude") {
			failShape("glob builtin: `exclude` is re-assigned by something other than append(exclude, ...)")
		}
		nAppend++
		writes = append(writes, "append")
		if call.Ellipsis.IsValid() {
			spread = "true"
		}
		for _, a := range call.Args[1:] {
			appended = append(appended, tr(a))
		}
	}
	if nAppend != 1 || nGlob != 1 || len(globberBfn) == 0 {
		failShape("glob builtin: expected one append to `exclude`, one s.globber.Glob call and fs.NewGlobber calls (found %d, %d, %d)", nAppend, nGlob, len(globberBfn))
	}
	return "(* the glob() builtin of the BUILD language, src/parse/asp/builtins.go *)\n" +
		"Inductive bexpr := BSel (path : string) | BCall1 (f : string) (arg : bexpr) | BOther.\n" +
		"Definition builtin_exclude_appended : list bexpr := [" + strings.Join(appended, "; ") + "].\n" +
		"Definition builtin_exclude_spread : bool := " + spread + ".\n" +
		"Definition builtin_exclude_writes : list string := " + coqStringList(writes) + ".\n" +
		"Definition builtin_globber_bfn : list bexpr := [" + strings.Join(globberBfn, "; ") + "].\n" +
		"Definition builtin_glob_args : list bexpr := [" + strings.Join(globArgs, "; ") + "].\n"
}

func globberCacheProtocol(f *ast.File) (params, lookupKey, storeKey, fields, writers []string) {
	fd := findFunc(f, "Globber", "walkDir")
	if fd.Recv == nil || len(fd.Recv.List) != 1 || len(fd.Recv.List[0].Names) != 1 {
		failShape("walkDir: expected a named receiver")
	}
	recv := fd.Recv.List[0].Names[0].Name
	if fd.Type.Params != nil {
		for _, fl := range fd.Type.Params.List {
			if len(fl.Names) == 0 {
				failShape("walkDir: unnamed parameter")
			}
			for _, n := range fl.Names {
				params = append(params, n.Name)
			}
		}
	}
	isCache := func(e ast.Expr) (ast.Expr, bool) { // recv.walkedDirs[key] -> key
		ix, ok := e.(*ast.IndexExpr)
		if !ok {
			return nil, false
		}
		sel, ok := ix.X.(*ast.SelectorExpr)
		if !ok || sel.Sel.Name != "walkedDirs" {
			return nil, false
		}
		if x, ok := sel.X.(*ast.Ident); !ok || x.Name != recv {
			return nil, false
		}
		return ix.Index, true
	}
	idents := func(e ast.Expr) []string {
		out := []string{}
		ast.Inspect(e, func(n ast.Node) bool {
			switch x := n.(type) {
			case *ast.Ident:
				out = append(out, x.Name)
			case *ast.BasicLit:
				out = append(out, x.Value)
			case *ast.CallExpr, *ast.BinaryExpr, *ast.CompositeLit:
				out = append(out, "<expr>") // a computed key is not the shape the model was written from
			}
			return true
		})
		return out
	}
	isNil := func(e ast.Expr) bool { id, ok := e.(*ast.Ident); return ok && id.Name == "nil" }
	isIdent := func(e ast.Expr, name string) bool { id, ok := e.(*ast.Ident); return ok && id.Name == name }
	stmts := fd.Body.List
	if len(stmts) < 4 {
		failShape("walkDir: body too short")
	}
	// the lookup
	ifs, ok := stmts[0].(*ast.IfStmt)
	if !ok || ifs.Else != nil || ifs.Init == nil {
		failShape("walkDir: first statement is not `if v, ok := cache[key]; ok {...}`")
	}
	as, ok := ifs.Init.(*ast.AssignStmt)
	if !ok || as.Tok != token.DEFINE || len(as.Lhs) != 2 || len(as.Rhs) != 1 {
		failShape("walkDir: lookup is not `v, ok := cache[key]`")
	}
	key, ok := isCache(as.Rhs[0])
	if !ok {
		failShape("walkDir: lookup does not read %s.walkedDirs[...]", recv)
	}
	lookupKey = idents(key)
	v, okv := as.Lhs[0].(*ast.Ident)
	present, okp := as.Lhs[1].(*ast.Ident)
	if !okv || !okp || !isIdent(ifs.Cond, present.Name) || len(ifs.Body.List) != 1 {
		failShape("walkDir: lookup condition / body shape")
	}
	ret, ok := ifs.Body.List[0].(*ast.ReturnStmt)
	if !ok || len(ret.Results) != 2 || !isIdent(ret.Results[0], v.Name) || !isNil(ret.Results[1]) {
		failShape("walkDir: a cache hit does not `return v, nil`")
	}
	// the store: second-last statement, then `return v', nil`
	st, ok := stmts[len(stmts)-2].(*ast.AssignStmt)
	if !ok || st.Tok != token.ASSIGN || len(st.Lhs) != 1 || len(st.Rhs) != 1 {
		failShape("walkDir: second-last statement is not the cache store")
	}
	skey, ok := isCache(st.Lhs[0])
	stored, oks := st.Rhs[0].(*ast.Ident)
	if !ok || !oks {
		failShape("walkDir: second-last statement is not `%s.walkedDirs[key] = v`", recv)
	}
	storeKey = idents(skey)
	last, ok := stmts[len(stmts)-1].(*ast.ReturnStmt)
	if !ok || len(last.Results) != 2 || !isIdent(last.Results[0], stored.Name) || !isNil(last.Results[1]) {
		failShape("walkDir: does not end with `return <stored value>, nil`")
	}
	// the stored value is declared empty right after the lookup, and an error returns before the store
	if ds, ok := stmts[1].(*ast.AssignStmt); !ok || ds.Tok != token.DEFINE || len(ds.Lhs) != 1 || !isIdent(ds.Lhs[0], stored.Name) {
		failShape("walkDir: second statement does not declare the walked value")
	} else if cl, ok := ds.Rhs[0].(*ast.CompositeLit); !ok || len(cl.Elts) != 0 {
		failShape("walkDir: the walked value does not start empty")
	}
	if es, ok := stmts[len(stmts)-3].(*ast.IfStmt); !ok || len(es.Body.List) != 1 {
		failShape("walkDir: no error check before the cache store")
	} else if _, ok := es.Body.List[0].(*ast.ReturnStmt); !ok {
		failShape("walkDir: the error check before the cache store does not return")
	}
	// no other access to the cache inside walkDir
	n := 0
	seen := map[string]bool{}
	ast.Inspect(fd.Body, func(nd ast.Node) bool {
		if sel, ok := nd.(*ast.SelectorExpr); ok {
			if x, ok := sel.X.(*ast.Ident); ok && x.Name == recv {
				seen[sel.Sel.Name] = true
				if sel.Sel.Name == "walkedDirs" {
					n++
				}
			}
		}
		return true
	})
	if n != 2 {
		failShape("walkDir: %d accesses to walkedDirs, expected the lookup and the store", n)
	}
	for k := range seen {
		fields = append(fields, k)
	}
	sort.Strings(fields)
	// who assigns to a field of a Globber, anywhere in the file
	gf := map[string]bool{}
	for _, d := range f.Decls {
		gd, ok := d.(*ast.GenDecl)
		if !ok {
			continue
		}
		for _, sp := range gd.Specs {
			ts, ok := sp.(*ast.TypeSpec)
			if !ok || ts.Name.Name != "Globber" {
				continue
			}
			stt, ok := ts.Type.(*ast.StructType)
			if !ok {
				failShape("Globber is not a struct")
			}
			for _, fl := range stt.Fields.List {
				for _, nm := range fl.Names {
					gf[nm.Name] = true
				}
			}
		}
	}
	if len(gf) == 0 {
		failShape("type Globber not found")
	}
	ws := map[string]bool{}
	for _, d := range f.Decls {
		fn, ok := d.(*ast.FuncDecl)
		if !ok || fn.Body == nil {
			continue
		}
		target := func(e ast.Expr) {
			for {
				switch x := e.(type) {
				case *ast.IndexExpr:
					e = x.X
					continue
				case *ast.ParenExpr:
					e = x.X
					continue
				case *ast.StarExpr:
					e = x.X
					continue
				case *ast.SelectorExpr:
					if gf[x.Sel.Name] {
						ws[x.Sel.Name+":"+fn.Name.Name] = true
					}
				}
				return
			}
		}
		ast.Inspect(fn.Body, func(nd ast.Node) bool {
			switch x := nd.(type) {
			case *ast.AssignStmt:
				if x.Tok != token.DEFINE {
					for _, l := range x.Lhs {
						target(l)
					}
				}
			case *ast.IncDecStmt:
				target(x.X)
			case *ast.CallExpr:
				if id, ok := x.Fun.(*ast.Ident); ok && (id.Name == "delete" || id.Name == "clear") && len(x.Args) > 0 {
					target(x.Args[0])
				}
			}
			return true
		})
	}
	for k := range ws {
		writers = append(writers, k)
	}
	sort.Strings(writers)
	return
}
