package main

import (
	"go/ast"
	"go/token"
	"strings"
)

// GlobRegex (C21): the rewriting table of toRegexString (src/fs/glob.go) - the "^"/"$" wrapping and the ordered
// strings.ReplaceAll passes - plus the string literals of patternToMatcher, isHidden and walkDir in source order.
// Recognised shape of toRegexString:
//     pattern = "<pre>" + pattern + "<suf>"
//     pattern = strings.ReplaceAll(pattern, "<old>", "<new>")   (any number)
//     return pattern
func init() {
	targets["GlobRegex"] = func() string {
		_, f := parseFile("src/fs/glob.go")
		fd := findFunc(f, "", "toRegexString")
		if fd.Type.Params == nil || len(fd.Type.Params.List) != 1 || len(fd.Type.Params.List[0].Names) != 1 {
			failShape("toRegexString: expected one parameter")
		}
		param := fd.Type.Params.List[0].Names[0].Name
		isParam := func(e ast.Expr) bool { id, ok := e.(*ast.Ident); return ok && id.Name == param }
		strLit := func(e ast.Expr) string {
			bl, ok := e.(*ast.BasicLit)
			if !ok || bl.Kind != token.STRING {
				failShape("toRegexString: expected a string literal")
			}
			return unquote(bl)
		}
		stmts := fd.Body.List
		if len(stmts) < 2 {
			failShape("toRegexString: body too short")
		}
		assign := func(st ast.Stmt) ast.Expr {
			as, ok := st.(*ast.AssignStmt)
			if !ok || as.Tok != token.ASSIGN || len(as.Lhs) != 1 || len(as.Rhs) != 1 || !isParam(as.Lhs[0]) {
				failShape("toRegexString: statement is not `%s = ...`", param)
			}
			return as.Rhs[0]
		}
		// "^" + pattern + "$"   parses as ("^" + pattern) + "$"
		outer, ok := assign(stmts[0]).(*ast.BinaryExpr)
		if !ok || outer.Op != token.ADD {
			failShape("toRegexString: first statement is not a concatenation")
		}
		inner, ok := outer.X.(*ast.BinaryExpr)
		if !ok || inner.Op != token.ADD || !isParam(inner.Y) {
			failShape("toRegexString: first statement is not lit + %s + lit", param)
		}
		pre, suf := strLit(inner.X), strLit(outer.Y)
		var pairs []string
		for _, st := range stmts[1 : len(stmts)-1] {
			call, ok := assign(st).(*ast.CallExpr)
			if !ok || len(call.Args) != 3 || !isParam(call.Args[0]) {
				failShape("toRegexString: expected strings.ReplaceAll(%s, old, new)", param)
			}
			sel, ok := call.Fun.(*ast.SelectorExpr)
			if !ok || sel.Sel.Name != "ReplaceAll" {
				failShape("toRegexString: expected strings.ReplaceAll")
			}
			if x, ok := sel.X.(*ast.Ident); !ok || x.Name != "strings" {
				failShape("toRegexString: expected strings.ReplaceAll")
			}
			old := strLit(call.Args[1])
			if old == "" {
				failShape("toRegexString: empty needle")
			}
			pairs = append(pairs, "("+coqString(old)+", "+coqString(strLit(call.Args[2]))+")")
		}
		ret, ok := stmts[len(stmts)-1].(*ast.ReturnStmt)
		if !ok || len(ret.Results) != 1 || !isParam(ret.Results[0]) {
			failShape("toRegexString: last statement is not `return %s`", param)
		}
		lits := func(name string) []string {
			var out []string
			ast.Inspect(findFunc(f, "", name).Body, func(n ast.Node) bool {
				if bl, ok := n.(*ast.BasicLit); ok && bl.Kind == token.STRING {
					out = append(out, unquote(bl))
				}
				return true
			})
			return out
		}
		walkLits := func() []string {
			var out []string
			ast.Inspect(findFunc(f, "Globber", "walkDir").Body, func(n ast.Node) bool {
				if bl, ok := n.(*ast.BasicLit); ok && bl.Kind == token.STRING {
					out = append(out, unquote(bl))
				}
				return true
			})
			return out
		}
		var matcherLits []string
		for _, l := range lits("patternToMatcher") {
			if !strings.Contains(l, "%") { // error message formats are not part of the behaviour
				matcherLits = append(matcherLits, l)
			}
		}
		return genHeader +
			"Definition regex_prefix : string := " + coqString(pre) + ".\n" +
			"Definition regex_suffix : string := " + coqString(suf) + ".\n" +
			"Definition regex_rewrites : list (string * string) := [" + strings.Join(pairs, "; ") + "].\n" +
			"Definition matcher_literals : list string := " + coqStringList(matcherLits) + ".\n" +
			"Definition hidden_literals : list string := " + coqStringList(lits("isHidden")) + ".\n" +
			"Definition walk_literals : list string := " + coqStringList(walkLits()) + ".\n"
	}
}
