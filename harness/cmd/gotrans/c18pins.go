package main

import (
	"go/ast"
	"go/token"
	"strings"
)

// C18Pins (property C18): the two places of src/parse/asp/objects.go where a frozen wrapper could leak into
// (or be put around) a value a BUILD file then uses as an ordinary list / dict are TRANSLATED, not only matched:
//
//   - the `case Add:` clause of pyList.Operator becomes a decision tree (list_add_tree) over the dynamic type of
//     the operand and the emptiness of either side, whose leaves say what is returned: a fresh concatenation, an
//     operand, or a panic.  Proof/C18_Sum.v proves the model's `+` equal to the evaluation of this tree on every
//     heap, so a shortcut such as `if len(l) == 0 { return l2 }` is still translated but breaks that proof;
//   - (*pyConfig).Freeze becomes the list of steps it performs (config_freeze_steps): wrapping a copy of the struct,
//     and - if the source ever does it - freezing the overlay.  Model/C18_Config.v interprets the steps;
//     Proof/C18_Config.v proves the CONFIG round trip transparent for the steps generated here.
//
// pyList.concat, pyConfig.Get / IndexAssign / Copy / Merge, scope.SetAll and the CONFIG handling at the end of
// interpreter.Subinclude are pinned to the text the model was written from.  Anything else fails closed.
func init() {
	targets["C18Pins"] = func() string {
		fset, f := parseFile("src/parse/asp/objects.go")

		matchShape("pyList.concat", bodyText(fset, findFunc(f, "pyList", "concat")),
			`{ ret := make(pyList, 0, len(l)+len(l2)) return append(append(ret, l...), l2...) }`)

		// ---- pyList.Operator, case Add
		op := findFunc(f, "pyList", "Operator")
		if len(op.Type.Params.List) != 2 || len(op.Type.Params.List[1].Names) != 1 || op.Type.Params.List[1].Names[0].Name != "operand" ||
			len(op.Recv.List[0].Names) != 1 || op.Recv.List[0].Names[0].Name != "l" {
			failShape("pyList.Operator: receiver / parameters are not (l pyList) (operator Operator, operand pyObject)")
		}
		var addCase *ast.CaseClause
		for _, st := range op.Body.List {
			sw, ok := st.(*ast.SwitchStmt)
			if !ok {
				continue
			}
			for _, c := range sw.Body.List {
				cc := c.(*ast.CaseClause)
				for _, e := range cc.List {
					if id, ok := e.(*ast.Ident); ok && id.Name == "Add" {
						if len(cc.List) != 1 || addCase != nil {
							failShape("pyList.Operator: `Add` shares its case clause or occurs twice")
						}
						addCase = cc
					}
				}
			}
		}
		if addCase == nil {
			failShape("pyList.Operator has no `case Add:`")
		}
		text := func(n ast.Node) string {
			return bodyText(fset, &ast.FuncDecl{Name: ast.NewIdent("x"), Body: &ast.BlockStmt{List: []ast.Stmt{&ast.ExprStmt{X: n.(ast.Expr)}}}})
		}
		exprText := func(e ast.Expr) string {
			t := text(e)
			return strings.TrimSpace(strings.TrimSuffix(strings.TrimPrefix(t, "{"), "}"))
		}
		// names bound by a type assertion of `operand`: name -> asserted type
		asserted := map[string]string{}
		typeCond := func(lhs []ast.Expr, rhs []ast.Expr) (string, string) {
			if len(lhs) != 2 || len(rhs) != 1 {
				failShape("pyList.Operator/Add: unrecognised assignment")
			}
			ta, ok := rhs[0].(*ast.TypeAssertExpr)
			if !ok || exprText(ta.X) != "operand" {
				failShape("pyList.Operator/Add: assignment is not a type assertion of operand: %s", exprText(rhs[0]))
			}
			name, okName := lhs[0].(*ast.Ident)
			okv, okOk := lhs[1].(*ast.Ident)
			if !okName || !okOk || okv.Name != "ok" {
				failShape("pyList.Operator/Add: type assertion does not bind `<name>, ok`")
			}
			typ := exprText(ta.Type)
			switch typ {
			case "pyList":
				asserted[name.Name] = typ
				return name.Name, "AIsList"
			case "pyFrozenList":
				asserted[name.Name] = typ
				return name.Name, "AIsFrozen"
			}
			failShape("pyList.Operator/Add: type assertion to %s", typ)
			return "", ""
		}
		terminates := func(ss []ast.Stmt) bool {
			if len(ss) == 0 {
				return false
			}
			switch t := ss[len(ss)-1].(type) {
			case *ast.ReturnStmt:
				return true
			case *ast.ExprStmt:
				if c, ok := t.X.(*ast.CallExpr); ok {
					if id, ok := c.Fun.(*ast.Ident); ok && id.Name == "panic" {
						return true
					}
				}
			}
			return false
		}
		var trans func(ss []ast.Stmt) string
		trans = func(ss []ast.Stmt) string {
			if len(ss) == 0 {
				failShape("pyList.Operator/Add: a path falls out of the case clause")
			}
			switch st := ss[0].(type) {
			case *ast.AssignStmt:
				// x, ok := operand.(T); if !ok { A }; B
				if st.Tok != token.DEFINE || len(ss) < 2 {
					failShape("pyList.Operator/Add: unrecognised statement %T", st)
				}
				_, cond := typeCond(st.Lhs, st.Rhs)
				ifs, ok := ss[1].(*ast.IfStmt)
				if !ok || ifs.Init != nil || ifs.Else != nil || exprText(ifs.Cond) != "!ok" || !terminates(ifs.Body.List) {
					failShape("pyList.Operator/Add: a type assertion is not followed by `if !ok { ... return/panic }`")
				}
				return "(AIf " + cond + " " + trans(ss[2:]) + " " + trans(ifs.Body.List) + ")"
			case *ast.IfStmt:
				if st.Else != nil || !terminates(st.Body.List) {
					failShape("pyList.Operator/Add: if statement with else, or whose body can fall through")
				}
				if st.Init != nil {
					as, ok := st.Init.(*ast.AssignStmt)
					if !ok || as.Tok != token.DEFINE || exprText(st.Cond) != "ok" {
						failShape("pyList.Operator/Add: unrecognised if-with-init")
					}
					_, cond := typeCond(as.Lhs, as.Rhs)
					return "(AIf " + cond + " " + trans(st.Body.List) + " " + trans(ss[1:]) + ")"
				}
				cond := ""
				switch c := exprText(st.Cond); c {
				case "len(l) == 0":
					cond = "ALeftEmpty"
				case "len(l2) == 0", "len(l2.pyList) == 0", "l2.Len() == 0", "len(operand) == 0":
					cond = "ARightEmpty"
				default:
					failShape("pyList.Operator/Add: unrecognised condition %s", c)
				}
				return "(AIf " + cond + " " + trans(st.Body.List) + " " + trans(ss[1:]) + ")"
			case *ast.ReturnStmt:
				if len(st.Results) != 1 {
					failShape("pyList.Operator/Add: return without a single value")
				}
				r := exprText(st.Results[0])
				switch {
				case r == "l":
					return "AReturnSelf"
				case r == "operand":
					return "AReturnOperand"
				case asserted[r] != "":
					return "AReturnOperand"
				case strings.HasPrefix(r, "l.concat(") && strings.HasSuffix(r, ")"):
					arg := r[len("l.concat(") : len(r)-1]
					if asserted[arg] == "pyList" {
						return "AConcat"
					}
					if strings.HasSuffix(arg, ".pyList") && asserted[strings.TrimSuffix(arg, ".pyList")] == "pyFrozenList" {
						return "AConcatUnwrapped"
					}
				}
				failShape("pyList.Operator/Add: unrecognised return value %s", r)
			case *ast.ExprStmt:
				if c, ok := st.X.(*ast.CallExpr); ok {
					if id, ok := c.Fun.(*ast.Ident); ok && id.Name == "panic" {
						return "APanic"
					}
				}
				failShape("pyList.Operator/Add: unrecognised expression statement %s", exprText(st.X))
			}
			failShape("pyList.Operator/Add: unrecognised statement %T", ss[0])
			return ""
		}
		addTree := trans(addCase.Body)

		// ---- (*pyConfig).Freeze
		fz := findFunc(f, "pyConfig", "Freeze")
		if len(fz.Recv.List[0].Names) != 1 || fz.Recv.List[0].Names[0].Name != "c" {
			failShape("pyConfig.Freeze: receiver is not named c")
		}
		const wrap = "&pyFrozenConfig{pyConfig: *c}"
		steps := []string{}
		body := fz.Body.List
		if len(body) == 0 {
			failShape("pyConfig.Freeze has an empty body")
		}
		last, ok := body[len(body)-1].(*ast.ReturnStmt)
		if !ok || len(last.Results) != 1 {
			failShape("pyConfig.Freeze does not end in `return <value>`")
		}
		if len(body) == 1 {
			if exprText(last.Results[0]) != wrap {
				failShape("pyConfig.Freeze returns %s", exprText(last.Results[0]))
			}
			steps = append(steps, "FWrapCopy")
		} else {
			as, ok := body[0].(*ast.AssignStmt)
			if !ok || as.Tok != token.DEFINE || len(as.Lhs) != 1 || len(as.Rhs) != 1 || exprText(as.Rhs[0]) != wrap {
				failShape("pyConfig.Freeze: first statement is not `<name> := %s`", wrap)
			}
			name := exprText(as.Lhs[0])
			if exprText(last.Results[0]) != name {
				failShape("pyConfig.Freeze: returns %s, not %s", exprText(last.Results[0]), name)
			}
			steps = append(steps, "FWrapCopy")
			for _, st := range body[1 : len(body)-1] {
				ifs, ok := st.(*ast.IfStmt)
				if !ok || ifs.Init != nil || ifs.Else != nil || exprText(ifs.Cond) != "c.overlay != nil" || len(ifs.Body.List) != 1 {
					failShape("pyConfig.Freeze: unrecognised statement between the wrap and the return")
				}
				set, ok := ifs.Body.List[0].(*ast.AssignStmt)
				if !ok || set.Tok != token.ASSIGN || len(set.Lhs) != 1 || len(set.Rhs) != 1 || exprText(set.Lhs[0]) != name+".overlay" {
					failShape("pyConfig.Freeze: unrecognised statement under `if c.overlay != nil`")
				}
				switch r := exprText(set.Rhs[0]); r {
				case "c.overlay.Freeze().(pyFrozenDict).pyDict":
					steps = append(steps, "FFreezeOverlay")
				case "c.overlay.Copy()":
					steps = append(steps, "FCopyOverlay")
				default:
					failShape("pyConfig.Freeze: overlay set to %s", r)
				}
			}
		}

		// ---- the rest of the CONFIG plumbing the model was written from
		matchShape("pyConfig.Get", bodyText(fset, findFunc(f, "pyConfig", "Get")),
			`{ if c.overlay != nil { if obj, present := c.overlay[key]; present { return obj } } if obj, present := c.base.dict[key]; present { return obj } return fallback }`)
		matchShape("pyConfig.IndexAssign", bodyText(fset, findFunc(f, "pyConfig", "IndexAssign")),
			`{ key := string(index.(pyString)) if c.overlay == nil { c.overlay = pyDict{key: value} } else { c.overlay[key] = value } }`)
		matchShape("pyConfig.Copy", bodyText(fset, findFunc(f, "pyConfig", "Copy")), `{ return &pyConfig{base: c.base} }`)
		matchShape("pyConfig.Merge", bodyText(fset, findFunc(f, "pyConfig", "Merge")),
			`{ if c.overlay == nil { c.overlay = make(pyDict, len(other.overlay)) } for k, v := range other.overlay { c.overlay[k] = v } }`)
		matchShape("pyConfig.Property", bodyText(fset, findFunc(f, "pyConfig", "Property")),
			`{ if obj := c.Get(name, nil); obj != nil { return obj } else if f, present := scope.interpreter.configMethods[name]; present { return f.Member(c) } panic(§S + name) }`)
		matchShape("pyConfig.MustGet", bodyText(fset, findFunc(f, "pyConfig", "MustGet")),
			`{ v := c.Get(key, nil) if v == nil { panic(§S + key) } return v }`)

		fsetI, fi := parseFile("src/parse/asp/interpreter.go")
		matchShape("scope.SetAll", bodyText(fsetI, findFunc(fi, "scope", "SetAll")),
			`{ for k, v := range d { if k == "CONFIG" { c, ok := v.(*pyFrozenConfig) s.Assert(ok, §S) s.config.Merge(c) } else if !publicOnly || k[0] != '_' { s.locals[k] = v } } }`)
		sub := bodyText(fsetI, findFunc(fi, "interpreter", "Subinclude"))
		for _, piece := range []string{
			`s.config = i.scope.config.Copy() s.Set("CONFIG", s.config)`,
			`s.interpretStatements(stmts) locals := s.Freeze() if s.config.overlay == nil { delete(locals, "CONFIG") } return locals, nil`,
		} {
			if !strings.Contains(sub, piece) {
				failShape("interpreter.Subinclude no longer contains `%s`", piece)
			}
		}
		all := bodyText(fsetI, findFunc(fi, "interpreter", "interpretAll"))
		if !strings.Contains(all, `s.config = i.getConfig(s.state).Copy()`) || !strings.Contains(all, `s.Set("CONFIG", s.config)`) {
			failShape("interpreter.interpretAll no longer gives the package scope a Copy() of the config")
		}

		// ---- isinstance (builtins.go): does it look through the frozen wrappers before the type tests?
		fsetB, fb := parseFile("src/parse/asp/builtins.go")
		const isinstRest = `var types pyList if l, ok := typesArg.(pyList); ok { types = l } else { types = pyList{typesArg} } ` +
			`for _, li := range types { if lif, ok := li.(*pyFunc); ok && isType(obj, lif.name) { return True } else if _, ok := obj.(*pyFunc); ok { continue } ` +
			`else if reflect.TypeOf(obj) == reflect.TypeOf(li) { return True } } if _, ok := obj.(*pyFunc); ok { return False } ` +
			`return newPyBool(reflect.TypeOf(obj) == reflect.TypeOf(typesArg)) }`
		isinst := bodyText(fsetB, findFunc(fb, "", "isinstance"))
		unwraps := ""
		switch {
		case isinst == `{ obj := args[0] typesArg := args[1] switch o := obj.(type) { case pyFrozenList: obj = o.pyList case pyFrozenDict: obj = o.pyDict } `+isinstRest:
			unwraps = "true"
		case isinst == `{ obj := args[0] typesArg := args[1] `+isinstRest:
			unwraps = "false"
		default:
			failShape("isinstance does not have the shape the C18 model (Model/C18.v isinstance_model) was written from.\n  found: %s", isinst)
		}
		matchShape("isType", bodyText(fsetB, findFunc(fb, "", "isType")),
			`{ switch obj.(type) { case pyBool: return name == "bool" || name == "int" case pyInt: return name == "int" case pyString: return name == "str" `+
				`case *pyRange: return name == "range" case pyList: return name == "list" case pyDict: return name == "dict" case *pyConfig: return name == "config" `+
				`case *pyFunc: return name == "callable" } return false }`)

		// ---- pyDict.Property / pyFrozenDict.Property: TRANSLATED into decision programs over
		//      (is `name` a key? is it in dictMethods? is it a given literal?)
		stmtText := func(st ast.Stmt) string {
			return bodyText(fset, &ast.FuncDecl{Name: ast.NewIdent("x"), Body: &ast.BlockStmt{List: []ast.Stmt{st}}})
		}
		propRecv := func(fn *ast.FuncDecl, what string) {
			if len(fn.Recv.List[0].Names) != 1 || fn.Recv.List[0].Names[0].Name != "d" || len(fn.Type.Params.List) != 2 ||
				len(fn.Type.Params.List[0].Names) != 1 || fn.Type.Params.List[0].Names[0].Name != "scope" ||
				len(fn.Type.Params.List[1].Names) != 1 || fn.Type.Params.List[1].Names[0].Name != "name" {
				failShape("%s: receiver / parameters are not (d) (scope *scope, name string)", what)
			}
		}
		isPanic := func(st ast.Stmt) bool {
			if es, ok := st.(*ast.ExprStmt); ok {
				if c, ok := es.X.(*ast.CallExpr); ok {
					if id, ok := c.Fun.(*ast.Ident); ok && id.Name == "panic" {
						return true
					}
				}
			}
			return false
		}
		// `name == "lit"` -> lit
		nameIs := func(e ast.Expr) (string, bool) {
			be, ok := e.(*ast.BinaryExpr)
			if !ok || be.Op != token.EQL || exprText(be.X) != "name" {
				return "", false
			}
			bl, ok := be.Y.(*ast.BasicLit)
			if !ok || bl.Kind != token.STRING {
				return "", false
			}
			return unquote(bl), true
		}
		var transProp func(what string, ss []ast.Stmt) string
		transProp = func(what string, ss []ast.Stmt) string {
			if len(ss) == 0 {
				failShape("%s: a path falls out of the function", what)
			}
			switch st := ss[0].(type) {
			case *ast.ReturnStmt:
				if len(st.Results) == 1 && exprText(st.Results[0]) == "d.pyDict.Property(scope, name)" {
					return "PDelegate"
				}
				failShape("%s: unrecognised return %s", what, stmtText(st))
			case *ast.ExprStmt:
				if isPanic(st) {
					return "PPanic"
				}
				failShape("%s: unrecognised statement %s", what, stmtText(st))
			case *ast.IfStmt:
				// what follows when the condition does not hold
				rest := func() string {
					switch e := st.Else.(type) {
					case nil:
						return transProp(what, ss[1:])
					case *ast.IfStmt:
						return transProp(what, append([]ast.Stmt{e}, ss[1:]...))
					case *ast.BlockStmt:
						return transProp(what, append(append([]ast.Stmt{}, e.List...), ss[1:]...))
					}
					failShape("%s: unrecognised else", what)
					return ""
				}
				if st.Init != nil {
					as, ok := st.Init.(*ast.AssignStmt)
					if !ok || as.Tok != token.DEFINE || len(as.Lhs) != 2 || len(as.Rhs) != 1 || exprText(st.Cond) != exprText(as.Lhs[1]) {
						failShape("%s: unrecognised if-with-init %s", what, stmtText(st))
					}
					bound := exprText(as.Lhs[0])
					switch exprText(as.Rhs[0]) {
					case "d[name]", "d.pyDict[name]":
						if len(st.Body.List) != 1 || stmtText(st.Body.List[0]) != "{ return "+bound+" }" {
							failShape("%s: the key branch does not return the member: %s", what, stmtText(st))
						}
						return "(PIfKey " + rest() + ")"
					case "scope.interpreter.dictMethods[name]":
						// [if name == "x" { panic(...) }]* return <bound>.Member(d | d.pyDict)
						rejected := []string{}
						body := st.Body.List
						for len(body) > 1 {
							ifs, ok := body[0].(*ast.IfStmt)
							if !ok || ifs.Init != nil || ifs.Else != nil || len(ifs.Body.List) != 1 || !isPanic(ifs.Body.List[0]) {
								failShape("%s: unrecognised statement in the method branch: %s", what, stmtText(body[0]))
							}
							lit, ok := nameIs(ifs.Cond)
							if !ok {
								failShape("%s: unrecognised condition in the method branch: %s", what, exprText(ifs.Cond))
							}
							rejected = append(rejected, lit)
							body = body[1:]
						}
						if len(body) != 1 || (stmtText(body[0]) != "{ return "+bound+".Member(d) }" && stmtText(body[0]) != "{ return "+bound+".Member(d.pyDict) }") {
							failShape("%s: the method branch does not return the bound method: %s", what, stmtText(st))
						}
						return "(PIfMethod " + coqStringList(rejected) + " " + rest() + ")"
					}
					failShape("%s: unrecognised lookup %s", what, exprText(as.Rhs[0]))
				}
				lit, ok := nameIs(st.Cond)
				if !ok || !terminates(st.Body.List) {
					failShape("%s: unrecognised if %s", what, stmtText(st))
				}
				return "(PIfName " + coqString(lit) + " " + transProp(what, st.Body.List) + " " + rest() + ")"
			}
			failShape("%s: unrecognised statement %T", what, ss[0])
			return ""
		}
		dp := findFunc(f, "pyDict", "Property")
		propRecv(dp, "pyDict.Property")
		dictProp := transProp("pyDict.Property", dp.Body.List)
		if strings.Contains(dictProp, "PDelegate") {
			failShape("pyDict.Property delegates to an embedded dict it does not have")
		}
		fdp := findFunc(f, "pyFrozenDict", "Property")
		propRecv(fdp, "pyFrozenDict.Property")
		frozenProp := transProp("pyFrozenDict.Property", fdp.Body.List)

		// the keys of interpreter.dictMethods (builtins.go)
		methodNames := []string{}
		ast.Inspect(fb, func(n ast.Node) bool {
			as, ok := n.(*ast.AssignStmt)
			if !ok || len(as.Lhs) != 1 || len(as.Rhs) != 1 {
				return true
			}
			if lhs := bodyText(fsetB, &ast.FuncDecl{Name: ast.NewIdent("x"), Body: &ast.BlockStmt{List: []ast.Stmt{&ast.ExprStmt{X: as.Lhs[0]}}}}); lhs != "{ s.interpreter.dictMethods }" {
				return true
			}
			cl, ok := as.Rhs[0].(*ast.CompositeLit)
			if !ok || len(methodNames) > 0 {
				failShape("interpreter.dictMethods is assigned twice, or not a map literal")
			}
			for _, el := range cl.Elts {
				kv, ok := el.(*ast.KeyValueExpr)
				if !ok {
					failShape("interpreter.dictMethods: element without key")
				}
				bl, ok := kv.Key.(*ast.BasicLit)
				if !ok || bl.Kind != token.STRING {
					failShape("interpreter.dictMethods: key is not a string literal")
				}
				methodNames = append(methodNames, unquote(bl))
			}
			return true
		})
		if len(methodNames) == 0 {
			failShape("no assignment `s.interpreter.dictMethods = map[string]*pyFunc{...}` in builtins.go")
		}

		// ---- plugin configuration (config.go): how loadPluginConfig stores the dict is TRANSLATED; what pluginConfig
		//      puts into it for a repeatable / plain field is pinned
		fsetC, fc := parseFile("src/parse/asp/config.go")
		lp := findFunc(fc, "interpreter", "loadPluginConfig")
		lpText := bodyText(fsetC, lp)
		const lpHead = `{ if pluginState.RepoConfig == nil { return } pluginName := pluginState.RepoConfig.PluginDefinition.Name if pluginName == "" { return } ` +
			`log.Debugf("Loading configuration for plugin %s", pluginName) if s.config.overlay == nil { s.config.overlay = pyDict{} } key := strings.ToUpper(pluginName) ` +
			`if _, ok := s.config.overlay[key]; ok { return } `
		if !strings.HasPrefix(lpText, lpHead) {
			failShape("interpreter.loadPluginConfig no longer starts the way Model/C18_Attr.v load_plugin_config was written from.\n  found: %s", lpText)
		}
		pluginStore := ""
		switch strings.TrimSpace(strings.TrimSuffix(strings.TrimPrefix(lpText, lpHead), "}")) {
		case "cfg := pluginConfig(pluginState, s.state) s.config.overlay[key] = cfg", "s.config.overlay[key] = pluginConfig(pluginState, s.state)":
			pluginStore = "PStorePlain"
		case "cfg := pluginConfig(pluginState, s.state) s.config.overlay[key] = cfg.Freeze()", "s.config.overlay[key] = pluginConfig(pluginState, s.state).Freeze()",
			"cfg := pluginConfig(pluginState, s.state).Freeze() s.config.overlay[key] = cfg":
			pluginStore = "PStoreFrozen"
		default:
			failShape("interpreter.loadPluginConfig: unrecognised way of storing the plugin's config: %s", strings.TrimPrefix(lpText, lpHead))
		}
		pc := bodyText(fsetC, findFunc(fc, "", "pluginConfig"))
		for _, piece := range []string{
			`if pkgState.ParentState == nil { extraVals = getExtraVals(pkgState.RepoConfig, pluginName) ret = pyDict{} }`,
			`value, ok := extraVals[strings.ToLower(configKey)] if !ok { value = resolvePluginValue(definition.DefaultValue, pluginState.CurrentSubrepo) } else { value = resolvePluginValue(value, pkgState.CurrentSubrepo) }`,
			`if definition.Repeatable { l := make(pyList, 0, len(value)) for _, v := range value { l = append(l, toPyObject(fullConfigKey, v, definition.Type, definition.Optional)) } ret[key] = l } ` +
				`else { val := "" if len(value) == 1 { val = value[0] } ret[key] = toPyObject(fullConfigKey, val, definition.Type, definition.Optional) } } return ret }`,
		} {
			if !strings.Contains(pc, piece) {
				failShape("pluginConfig no longer contains `%s`", piece)
			}
		}
		tp := bodyText(fsetC, findFunc(fc, "", "toPyObject"))
		if !strings.HasPrefix(tp, `{ if optional && val == "" { return pyNone{} } switch toType { case "", "str": return pyString(val) `) {
			failShape("toPyObject no longer starts with the None / str cases the model (to_py) was written from")
		}

		return "(* src/parse/asp/objects.go (see harness/cmd/gotrans/c18pins.go) *)\n" +
			"From Coq Require Import List String. Import ListNotations. Open Scope string_scope.\n" +
			"(* pyDict.Property and pyFrozenDict.Property as decision programs; the keys of interpreter.dictMethods *)\n" +
			"Inductive prop_prog := PIfKey (els : prop_prog) | PIfMethod (rejected : list string) (els : prop_prog)\n" +
			"  | PIfName (n : string) (thn els : prop_prog) | PDelegate | PPanic.\n" +
			"Definition dict_property_prog : prop_prog := " + dictProp + ".\n" +
			"Definition frozen_dict_property_prog : prop_prog := " + frozenProp + ".\n" +
			"Definition dict_method_names : list string := " + coqStringList(methodNames) + ".\n" +
			"(* loadPluginConfig: the plugin's config dict is stored in the overlay as it is / frozen *)\n" +
			"Inductive plugin_store_mode := PStorePlain | PStoreFrozen.\n" +
			"Definition plugin_store : plugin_store_mode := " + pluginStore + ".\n" +
			"(* the `case Add:` clause of pyList.Operator as a decision tree *)\n" +
			"Inductive add_cond := AIsList | AIsFrozen | ALeftEmpty | ARightEmpty.\n" +
			"Inductive add_tree := AIf (c : add_cond) (thn els : add_tree) | AConcat | AConcatUnwrapped | AReturnOperand | AReturnSelf | APanic.\n" +
			"Definition list_add_tree : add_tree :=\n  " + addTree + ".\n" +
			"(* what pyConfig.Freeze does, in order *)\n" +
			"Inductive cfg_freeze_step := FWrapCopy | FFreezeOverlay | FCopyOverlay.\n" +
			"Definition config_freeze_steps : list cfg_freeze_step := [" + strings.Join(steps, "; ") + "].\n" +
			"(* builtins.go isinstance: the frozen wrappers are removed before the type tests *)\n" +
			"Definition isinstance_unwraps : bool := " + unwraps + ".\n"
	}
}
