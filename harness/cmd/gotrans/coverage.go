package main

import (
	"go/ast"
	"go/token"
)

// CoverageOrder: the declaration order of the LineCoverage enum (its numeric order is what
// MergeCoverageLines compares) and the output letters.
func init() {
	targets["CoverageOrder"] = func() string {
		_, f := parseFile("src/core/test_results.go")
		names := iotaConsts(f, "LineCoverage")
		var letters []string
		for _, d := range f.Decls {
			gd, ok := d.(*ast.GenDecl)
			if !ok || gd.Tok != token.VAR {
				continue
			}
			for _, s := range gd.Specs {
				vs := s.(*ast.ValueSpec)
				if len(vs.Names) == 1 && vs.Names[0].Name == "lineCoverageOutput" && len(vs.Values) == 1 {
					cl, ok := vs.Values[0].(*ast.CompositeLit)
					if !ok {
						failShape("lineCoverageOutput is not a composite literal")
					}
					for _, e := range cl.Elts {
						bl, ok := e.(*ast.BasicLit)
						if !ok {
							failShape("lineCoverageOutput element is not a literal")
						}
						letters = append(letters, unquote(bl))
					}
				}
			}
		}
		if letters == nil {
			failShape("lineCoverageOutput not found")
		}
		return genHeader +
			"Definition cov_order : list string := " + coqStringList(names) + ".\n" +
			"Definition cov_output : list string := " + coqStringList(letters) + ".\n"
	}
}
