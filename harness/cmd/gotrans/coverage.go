package main

import (
	"go/ast"
	"go/printer"
	"go/token"
	"strings"
)

// CoverageOrder: the declaration order of the LineCoverage enum (its numeric order is what
// MergeCoverageLines compares) and the output letters.
func init() {
	targets["CoverageOrder"] = func() string {
		_, f := parseFile("src/core/test_results.go")
		names := iotaConsts(f, "LineCoverage")
		var letters []string
		for _, d := range f.Decls {
			gd, ok := d.(*ast.GenDecl)
			if !ok || gd.Tok != token.VAR {
				continue
			}
			for _, s := range gd.Specs {
				vs := s.(*ast.ValueSpec)
				if len(vs.Names) == 1 && vs.Names[0].Name == "lineCoverageOutput" && len(vs.Values) == 1 {
					cl, ok := vs.Values[0].(*ast.CompositeLit)
					if !ok {
						failShape("lineCoverageOutput is not a composite literal")
					}
					for _, e := range cl.Elts {
						bl, ok := e.(*ast.BasicLit)
						if !ok {
							failShape("lineCoverageOutput element is not a literal")
						}
						letters = append(letters, unquote(bl))
					}
				}
			}
		}
		if letters == nil {
			failShape("lineCoverageOutput not found")
		}
		return genHeader +
			"Definition cov_order : list string := " + coqStringList(names) + ".\n" +
			"Definition cov_output : list string := " + coqStringList(letters) + ".\n"
	}
}

// CoverageStates: what C27's model of BuildState copies, of the lock around the aggregation and of the flaky-retry
// loop is regenerated from (Model/C27_states.v interprets these definitions; nothing here is only compared).
//
//	src/core/state.go         NewBuildState (which Coverage maps exist up front), Copy (a struct copy), the
//	                          Coverage / progress fields, LogTestResult (the lock held around Aggregate)
//	src/core/test_results.go  the TestCoverage struct and Aggregate, statement by statement
//	src/test/test_step.go     doFlakeRun (how an attempt's coverage is combined with the earlier ones)
func init() {
	targets["CoverageStates"] = func() string {
		fsetS, state := parseFile("src/core/state.go")
		fsetR, results := parseFile("src/core/test_results.go")
		fsetT, step := parseFile("src/test/test_step.go")

		// --- struct TestCoverage: every field must be a map (a reference that struct copies share)
		var fields []string
		for _, fld := range covStruct(results, "TestCoverage").Fields.List {
			kind := covSrc(fsetR, fld.Type)
			if _, ok := fld.Type.(*ast.MapType); ok {
				kind = "map"
			}
			for _, n := range fld.Names {
				fields = append(fields, "("+coqString(n.Name)+", "+coqString(kind)+")")
			}
		}

		// --- struct BuildState: Coverage by value, progress behind a pointer
		byValue, pointerFields := false, []string{}
		for _, fld := range covStruct(state, "BuildState").Fields.List {
			_, star := fld.Type.(*ast.StarExpr)
			for _, n := range fld.Names {
				if n.Name == "Coverage" {
					id, ok := fld.Type.(*ast.Ident)
					if !star && !(ok && id.Name == "TestCoverage") {
						failShape("BuildState.Coverage has type %s", covSrc(fsetS, fld.Type))
					}
					byValue = !star
				}
				if star {
					pointerFields = append(pointerFields, n.Name)
				}
			}
		}

		// --- NewBuildState: `Coverage: *NewTestCoverage()` or `Coverage: TestCoverage{Files: map[..]..{}}` inside the
		//     state literal: which of the maps exist before the state can be copied
		initOf := map[string]bool{}
		emptyMaps := func(fset *token.FileSet, where string, e ast.Expr) {
			cl, ok := e.(*ast.CompositeLit)
			if !ok || covSrc(fset, cl.Type) != "TestCoverage" {
				failShape("%s: not a TestCoverage literal: %s", where, covSrc(fset, e))
			}
			for _, e := range cl.Elts {
				ekv, ok := e.(*ast.KeyValueExpr)
				if !ok {
					failShape("%s: positional TestCoverage literal", where)
				}
				m, ok := ekv.Value.(*ast.CompositeLit)
				if !ok {
					failShape("%s: %s is not a map literal", where, covSrc(fset, ekv.Key))
				}
				if _, isMap := m.Type.(*ast.MapType); !isMap || len(m.Elts) != 0 {
					failShape("%s: %s is not an empty map literal", where, covSrc(fset, ekv.Key))
				}
				initOf[covSrc(fset, ekv.Key)] = true
			}
		}
		ast.Inspect(findFunc(state, "", "NewBuildState").Body, func(n ast.Node) bool {
			kv, ok := n.(*ast.KeyValueExpr)
			if !ok {
				return true
			}
			if k, ok := kv.Key.(*ast.Ident); !ok || k.Name != "Coverage" {
				return true
			}
			if covSrc(fsetS, kv.Value) == "*NewTestCoverage()" {
				// the constructor: `return &TestCoverage{Tests: map..{}, Files: map..{}}` and nothing else
				ctor := findFunc(results, "", "NewTestCoverage").Body.List
				ret, ok := ctor[0].(*ast.ReturnStmt)
				if len(ctor) != 1 || !ok || len(ret.Results) != 1 {
					failShape("NewTestCoverage is not a single return")
				}
				addr, ok := ret.Results[0].(*ast.UnaryExpr)
				if !ok || addr.Op != token.AND {
					failShape("NewTestCoverage does not return &TestCoverage{..}")
				}
				emptyMaps(fsetR, "NewTestCoverage", addr.X)
			} else {
				emptyMaps(fsetS, "NewBuildState", kv.Value)
			}
			return false
		})

		// --- Copy: `ret := &BuildState{}; *ret = *state; ret.x = ...; return ret`
		var resets []string
		body := findFunc(state, "BuildState", "Copy").Body.List
		if len(body) < 3 || covSrc(fsetS, body[0]) != "ret := &BuildState{}" || covSrc(fsetS, body[1]) != "*ret = *state" ||
			covSrc(fsetS, body[len(body)-1]) != "return ret" {
			failShape("BuildState.Copy is not a struct copy")
		}
		for _, s := range body[2 : len(body)-1] {
			as, ok := s.(*ast.AssignStmt)
			if !ok || len(as.Lhs) != 1 || !strings.HasPrefix(covSrc(fsetS, as.Lhs[0]), "ret.") {
				failShape("BuildState.Copy: unexpected statement %s", covSrc(fsetS, s))
			}
			resets = append(resets, strings.TrimPrefix(covSrc(fsetS, as.Lhs[0]), "ret."))
		}

		// --- LogTestResult: [X.Lock(); defer X.Unlock();] state.Coverage.Aggregate(coverage) as the last statements
		var lockPath []string
		body = findFunc(state, "BuildState", "LogTestResult").Body.List
		if n := len(body); n < 2 || covSrc(fsetS, body[n-1]) != "state.Coverage.Aggregate(coverage)" {
			failShape("LogTestResult does not end with state.Coverage.Aggregate(coverage)")
		}
		for i, s := range body[:len(body)-1] {
			src := covSrc(fsetS, s)
			switch {
			case strings.HasPrefix(src, "state.logResult("):
			case strings.HasSuffix(src, ".Lock()") && i+2 == len(body)-1 &&
				covSrc(fsetS, body[i+1]) == "defer "+strings.TrimSuffix(src, ".Lock()")+".Unlock()":
				lockPath = strings.Split(strings.TrimSuffix(src, ".Lock()"), ".")
			case strings.HasPrefix(src, "defer ") && lockPath != nil && i+1 == len(body)-1:
			default:
				failShape("LogTestResult: unexpected statement %s", src)
			}
		}
		lockShared := false
		if len(lockPath) >= 3 && lockPath[0] == "state" {
			for _, p := range pointerFields {
				lockShared = lockShared || p == lockPath[1]
			}
		}

		// --- Aggregate, statement by statement
		var prog []string
		for _, s := range findFunc(results, "TestCoverage", "Aggregate").Body.List {
			src := strings.Join(strings.Fields(covSrc(fsetR, s)), " ")
			switch {
			case src == "if coverage.Tests == nil { coverage.Tests = map[BuildLabel]map[string][]LineCoverage{} }":
				prog = append(prog, `LazyMake "Tests"`)
			case src == "if coverage.Files == nil { coverage.Files = map[string][]LineCoverage{} }":
				prog = append(prog, `LazyMake "Files"`)
			case src == "for label, c := range cov.Tests { coverage.Tests[label] = c }":
				prog = append(prog, "AssignTests")
			case src == "for filename, c := range cov.Files { coverage.Files[filename] = MergeCoverageLines(coverage.Files[filename], c) }":
				prog = append(prog, "MergeFiles")
			case strings.HasPrefix(src, "coverage.") && strings.HasSuffix(src, ".Lock()"):
				prog = append(prog, "LockSelf "+coqString(strings.TrimSuffix(strings.TrimPrefix(src, "coverage."), ".Lock()")))
			case strings.HasPrefix(src, "defer coverage.") && strings.HasSuffix(src, ".Unlock()"):
				prog = append(prog, "UnlockSelfDeferred "+coqString(strings.TrimSuffix(strings.TrimPrefix(src, "defer coverage."), ".Unlock()")))
			default:
				failShape("TestCoverage.Aggregate: unexpected statement %s", src)
			}
		}

		// --- doFlakeRun: coverage := &core.TestCoverage{}; for flakes := 1; flakes <= Flakiness; flakes++ {
		//       testSuite, cov := doTest(..); ...; coverage.Aggregate(cov); if testSuite.TestCases.AllSucceeded() {..; break} }
		combine, breaks, loops, fresh := "", false, false, false
		flake := findFunc(step, "", "doFlakeRun").Body.List
		if covSrc(fsetT, flake[len(flake)-1]) != "return results, coverage" {
			failShape("doFlakeRun does not return results, coverage")
		}
		for _, s := range flake {
			if covSrc(fsetT, s) == "coverage := &core.TestCoverage{}" {
				fresh = true
			}
			loop, ok := s.(*ast.ForStmt)
			if !ok {
				continue
			}
			if loops {
				failShape("doFlakeRun has more than one loop")
			}
			loops = covSrc(fsetT, loop.Init) == "flakes := 1" && covSrc(fsetT, loop.Cond) == "flakes <= int(target.Test.Flakiness)" &&
				covSrc(fsetT, loop.Post) == "flakes++"
			if !loops {
				failShape("doFlakeRun: unexpected loop header")
			}
			ran := false
			for _, ls := range loop.Body.List {
				src := strings.Join(strings.Fields(covSrc(fsetT, ls)), " ")
				switch {
				case strings.HasPrefix(src, "testSuite, cov := doTest(state, target, runRemotely, 1)"):
					ran = true
				case src == "coverage.Aggregate(cov)" && ran && combine == "":
					combine = "CombAggregate"
				case src == "coverage = cov" && ran && combine == "":
					combine = "CombAssign"
				case strings.Contains(src, "cov)") || strings.Contains(src, "cov.") || strings.Contains(src, "= cov") || strings.Contains(src, "coverage"):
					failShape("doFlakeRun: unexpected use of the attempt's coverage: %s", src)
				case strings.HasPrefix(src, "if testSuite.TestCases.AllSucceeded() {") && strings.HasSuffix(src, "break }") && combine != "":
					breaks = true
				}
			}
		}
		if !fresh || !loops || combine == "" {
			failShape("doFlakeRun: loop / accumulator / combination not recognised")
		}

		b := func(x bool) string {
			if x {
				return "true"
			}
			return "false"
		}
		return genHeader +
			"(* struct TestCoverage: field name, kind (map = a reference that struct copies share) *)\n" +
			"Definition coverage_fields : list (string * string) := [" + strings.Join(fields, "; ") + "].\n" +
			"(* BuildState.Coverage is held by value; BuildState.Copy is `*ret = *state` followed by resets of these fields *)\n" +
			"Definition coverage_by_value : bool := " + b(byValue) + ".\n" +
			"Definition copy_resets : list string := " + coqStringList(resets) + ".\n" +
			"(* NewBuildState: the maps of Coverage that exist before the first Aggregate *)\n" +
			"Definition newstate_init_tests : bool := " + b(initOf["Tests"]) + ".\n" +
			"Definition newstate_init_files : bool := " + b(initOf["Files"]) + ".\n" +
			"(* TestCoverage.Aggregate, statement by statement *)\n" +
			"Inductive agg_stmt := LazyMake (field : string) | AssignTests | MergeFiles | LockSelf (field : string) | UnlockSelfDeferred (field : string).\n" +
			"Definition aggregate_prog : list agg_stmt := [" + strings.Join(prog, "; ") + "].\n" +
			"(* LogTestResult: the mutex held around state.Coverage.Aggregate ([] = none), and whether the path to it\n" +
			"   leaves the BuildState through a pointer field (then all copies of the state lock the same mutex) *)\n" +
			"Definition log_lock : list string := " + coqStringList(lockPath) + ".\n" +
			"Definition log_lock_behind_pointer : bool := " + b(lockShared) + ".\n" +
			"(* doFlakeRun: how the coverage of one attempt is combined with that of the earlier attempts *)\n" +
			"Inductive flake_comb := CombAggregate | CombAssign.\n" +
			"Definition flake_combine : flake_comb := " + combine + ".\n" +
			"Definition flake_break_on_success : bool := " + b(breaks) + ".\n"
	}
}

func covStruct(f *ast.File, name string) *ast.StructType {
	for _, d := range f.Decls {
		gd, ok := d.(*ast.GenDecl)
		if !ok || gd.Tok != token.TYPE {
			continue
		}
		for _, s := range gd.Specs {
			ts := s.(*ast.TypeSpec)
			if st, ok := ts.Type.(*ast.StructType); ok && ts.Name.Name == name {
				return st
			}
		}
	}
	failShape("struct %s not found", name)
	return nil
}

func covSrc(fset *token.FileSet, n ast.Node) string {
	var b strings.Builder
	if err := printer.Fprint(&b, fset, n); err != nil {
		failShape("cannot print node: %v", err)
	}
	return b.String()
}
